#!/usr/bin/env python3
"""Generate /verif/MANIFEST.json from the per-property table below and validate it."""
import json, os, sys
HERE = os.path.dirname(os.path.dirname(os.path.abspath(__file__)))

# property id -> (design section, claim text, level note, technique)
CLAIMS = json.load(open(os.path.join(HERE, "tools", "claims.json")))
NOT_APPLICABLE = json.load(open(os.path.join(HERE, "tools", "not_applicable.json")))

checks = []
for pid in sorted(CLAIMS):
    c = CLAIMS[pid]
    checks.append({
        "property_id": pid,
        "quick_cmd": f"./run.sh check {pid} quick",
        "thorough_cmd": f"./run.sh check {pid} thorough",
        "evidence_file": f"/verif/evidence/{pid}.json",
        "replay_cmd_template": "./run.sh replay {path}",
        "engine": "elpscheck",
        "level_claimed": {"category": "other", "text": c["text"], "design_ref": c["design_ref"]},
        "level_note": c["note"],
        "technique": c["technique"],
    })
manifest = {
    "version": 1,
    "setup_cmd": "./run.sh setup",
    "hooks": {
        "guard": "verif",
        "enable": "none needed: the checks read /repo's source through go/packages; no instrumentation is compiled into elps",
        "baseline_off_cmd": "cd /repo && go build ./... && go test -vet=off -count=1 ./...",
        "source_commits": [],
        "add_only": True,
    },
    "engines": [{
        "name": "elpscheck",
        "path": "checker/",
        "serves_properties": sorted(CLAIMS),
        "kind_free_text": "repository-specific static analysis (go/packages type-checked AST, go/cfg dominance and path rules, go/ssa dataflow, VTA call graph); never executes elps code",
    }],
    "checks": checks,
    "not_applicable": [{"property_id": k, "reason": v} for k, v in sorted(NOT_APPLICABLE.items()) if k not in CLAIMS],
    "notes": "All claims are level 'other': each check decides named structural clauses (necessary conditions) of its property on every site of the current tree; the behavioural law itself is not decided. See DESIGN.md section 4 per property. Genuine defects found are in known_findings.json (fixed: entries point at fix: commits in /repo).",
}
out = os.path.join(HERE, "MANIFEST.json")
json.dump(manifest, open(out, "w"), indent=1)
try:
    import jsonschema
    jsonschema.validate(manifest, json.load(open("/root/.vp/MANIFEST.schema.json")))
    print("MANIFEST.json valid;", len(checks), "checks,", len(manifest["not_applicable"]), "not_applicable")
except ImportError:
    print("jsonschema not available; wrote", out)
