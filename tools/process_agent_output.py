#!/usr/bin/env python3
"""Take one sub-agent's output directory (OUT/<m1|m2|..|p1>/{patch.diff,demo_test.go|keep_test.go,README.md}),
verify every claim in a fresh scratch worktree and import what holds up.

usage: process_agent_output.py <round-tag> <prop> <out-dir> <name>=<pkgdir> ...
   e.g. process_agent_output.py r7 C14 /tmp/r7/out/C14 m1=lisp/lisplib/libschema m2=lisp/lisplib/libschema p1=lisp/lisplib/libschema

m*: tools/verify_mutant.sh (demo passes clean / fails patched, build, whole suite passes) then tools/import_seeded.py
    with the first-run status derived from what the checks report NOW (caught / missed).
p*: tools/verify_negative.sh then stored under seeded-negative/ and run through tools/check_negative.py.
Nothing is imported unless the verification line says what it must."""
import json, os, re, shutil, subprocess, sys
tag, prop, out = sys.argv[1:4]
items = dict(a.split("=", 1) for a in sys.argv[4:])
head = subprocess.run(["git", "-C", "/repo", "log", "--format=%h", "-1"], capture_output=True, text=True).stdout.strip()
stage = f"/tmp/{tag}-stage/{prop}"
for name, pkgdir in sorted(items.items()):
    src = os.path.join(out, name)
    if not os.path.exists(os.path.join(src, "patch.diff")):
        print(f"{prop}-{tag}{name}: no patch.diff"); continue
    dst = os.path.join(stage, f"{tag}{name}")
    shutil.rmtree(dst, ignore_errors=True); os.makedirs(dst)
    for f in os.listdir(src):
        if f in ("patch.diff", "README.md") or f.endswith("_test.go"):
            shutil.copy(os.path.join(src, f), dst)
    if name.startswith("m"):
        r = subprocess.run(["/verif/tools/verify_mutant.sh", prop, dst, pkgdir], capture_output=True, text=True)
        line = (r.stdout.strip().splitlines() or ["?"])[-1]
        ok = all(s in line for s in ("demo_clean=PASS", "apply=ok", "build=ok", "demo_mutant=FAIL(good)", "suite=PASS"))
        print(line)
        if not ok:
            print(f"  -> {prop}-{tag}{name} NOT kept"); continue
        r = subprocess.run(["/verif/tools/import_seeded.py", prop, dst, pkgdir, "pending", f"round {tag[1:]}"], capture_output=True, text=True)
        print("  " + (r.stdout.strip().splitlines() or [r.stderr[-300:]])[-1])
        mp = f"/verif/seeded/{prop}-{tag}{name}/meta.json"
        if os.path.exists(mp):
            m = json.load(open(mp))
            m["detection"]["status_when_first_run"] = "caught" if [x for x in m["detection"]["detected_now_by_rules"] if x != "FRAMEWORK"] else "missed"
            json.dump(m, open(mp, "w"), indent=1)
    else:
        r = subprocess.run(["/verif/tools/verify_negative.sh", prop, dst, pkgdir], capture_output=True, text=True)
        line = (r.stdout.strip().splitlines() or ["?"])[-1]
        has_keep = any(f.endswith("_test.go") for f in os.listdir(dst))
        need = ("keep_clean=PASS", "apply=ok", "build=ok", "keep_patched=PASS", "suite=PASS") if has_keep else ("apply=ok", "build=ok", "suite=PASS")
        ok = all(s in line for s in need)
        print(line)
        if not ok:
            print(f"  -> {prop}-{tag}{name} NOT kept"); continue
        nid = f"{prop}-{tag}{name}"
        nd = f"/verif/seeded-negative/{nid}"
        shutil.rmtree(nd, ignore_errors=True); os.makedirs(nd)
        shutil.copy(os.path.join(dst, "patch.diff"), nd)
        for f in os.listdir(dst):
            if f.endswith("_test.go"):
                shutil.copy(os.path.join(dst, f), os.path.join(nd, f + ".txt"))
            elif f == "README.md":
                shutil.copy(os.path.join(dst, f), nd)
        json.dump({"id": nid, "property": prop, "kind": "behaviour-preserving",
                   "origin": "written by an independent sub-agent given only the property text and a scratch worktree (nothing from /verif); the agent's TestKeep* tests pass with and without the patch and the full suite passes with it",
                   "applies_to": head, "verified": line,
                   "expect": "no rule of any property reports a violation that the unpatched base tree does not also report"},
                  open(os.path.join(nd, "meta.json"), "w"), indent=1)
        env = dict(os.environ, NEG_WT_SUFFIX="-" + nid)
        r = subprocess.run(["python3", "/verif/tools/check_negative.py", nid], capture_output=True, text=True, env=env)
        print("  " + r.stdout.strip().replace("\n", "\n  "))
