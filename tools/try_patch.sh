#!/bin/bash
# usage: try_patch.sh <patch.diff> <prop> [prop...]   -- applies to /repo, runs checks, reverts
set -u
patch="$1"; shift
cd /repo || exit 2
if [ -n "$(git status --porcelain)" ]; then echo "/repo not clean"; exit 2; fi
git apply "$patch" || { echo "patch does not apply"; exit 2; }
for p in "$@"; do
  /verif/run.sh check "$p" quick 2>&1 | grep -E "^property=|VIOLATION|violation:|KNOWN|CHECK-FAILED" | cut -c1-400
done
git checkout -- . && git clean -fdq
