#!/usr/bin/env python3
"""usage: add_fixed.py <prop> <rule> <func> <construct> <commit> <what>  — appends a `fixed` entry to known_findings.json"""
import json, sys
prop, rule, func, construct, commit, what = sys.argv[1:7]
p = "/verif/known_findings.json"
d = json.load(open(p))
d["fixed"].append({"property": prop, "rule": rule, "func": func, "construct": construct, "commit": commit,
                   "what": f"fixed: property={prop} {commit} {what}"})
json.dump(d, open(p, "w"), indent=1, ensure_ascii=False)
print(len(d["fixed"]), "fixed entries")
