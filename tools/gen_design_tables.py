#!/usr/bin/env python3
"""Regenerate the machine-derived tables of DESIGN.md (between the AUTOGEN markers)."""
import json, glob, os, re
HERE = os.path.dirname(os.path.dirname(os.path.abspath(__file__)))
rows = []
for m in sorted(glob.glob(os.path.join(HERE, "seeded", "*", "meta.json"))):
    d = json.load(open(m))
    det = d["detection"]
    rules = ", ".join(r for r in det["detected_now_by_rules"] if r != "FRAMEWORK") or "— (not detected)"
    rows.append(f"| {d['id']} | {d['property']} | {det['status_when_first_run']} | {rules} | {det.get('note','')} |")
seed = "| mutant | property | when first run | detected now by | note |\n|---|---|---|---|---|\n" + "\n".join(rows)
kf = json.load(open(os.path.join(HERE, "known_findings.json")))
frows = []
for f in kf["fixed"]:
    frows.append(f"| fixed `{f.get('commit','')}` | {f['property']} | {f['rule']} @ {f['func']} | {f['what'].split(' ',3)[-1] if f['what'].startswith('fixed:') else f['what']} |")
for f in kf["findings"]:
    frows.append(f"| **known finding** | {f['property']} | {f['rule']} @ {f['func']} / {f['construct']} | {f['what']} |")
find = "| status | property | rule @ site | what failed |\n|---|---|---|---|\n" + "\n".join(frows)
p = os.path.join(HERE, "DESIGN.md")
s = open(p).read()
def sub(tag, body):
    global s
    a, b = f"<!-- AUTOGEN:{tag} -->", f"<!-- /AUTOGEN:{tag} -->"
    i, j = s.index(a), s.index(b)
    s = s[:i + len(a)] + "\n" + body + "\n" + s[j:]
sub("seeded", seed)
sub("findings", find)
# per-property rule catalogue: every rule attached to a property, with the rule's own statement
import subprocess
docs = {}
out = subprocess.run([os.path.join(HERE, "bin", "elpscheck"), "-list"], capture_output=True, text=True).stdout
for line in out.splitlines():
    m = re.match(r"^(\S+)\s+floor=(\d+)\s+(.*)$", line)
    if m:
        docs[m.group(1)] = (m.group(2), m.group(3))
props = {}
src = open(os.path.join(HERE, "checker", "props.go")).read()
for m in re.finditer(r'registerProp\(PropSpec\{ID: "(C\d+)",\s*Rules: \[\]string\{(.*?)\},\s*Explanation', src, re.S):
    props[m.group(1)] = re.findall(r'"([^"]+)"', m.group(2))
cat = []
for pid in sorted(props):
    cat.append(f"#### {pid}\n")
    cat.append("| rule | floor | what it decides (the rule's own statement) |\n|---|---|---|")
    for r in props[pid]:
        fl, doc = docs.get(r, ("?", "(census / generated rule — see rules_census.go)"))
        cat.append(f"| `{r}` | {fl} | {doc} |")
    cat.append("")
if "<!-- AUTOGEN:rules -->" in s:
    sub("rules", "\n".join(cat))
open(p, "w").write(s)
print("tables regenerated:", len(rows), "mutants,", len(frows), "findings")
