#!/usr/bin/env python3
"""Pin every seeded mutant to the newest /repo commit its patch applies to (meta.applies_to),
so that selftest.sh keeps working after later fix: commits touch the same lines."""
import json, os, subprocess, glob
commits = subprocess.run(["git", "-C", "/repo", "log", "--format=%h", "-40"], capture_output=True, text=True).stdout.split()
for m in sorted(glob.glob("/verif/seeded/*/meta.json")):
    d = json.load(open(m))
    patch = os.path.join(os.path.dirname(m), "patch.diff")
    found = None
    for c in commits:
        wt = "/tmp/applies-wt"
        subprocess.run(["git", "-C", "/repo", "worktree", "remove", "--force", wt], capture_output=True)
        subprocess.run(["git", "-C", "/repo", "worktree", "add", "--detach", wt, c], capture_output=True, check=True)
        ok = subprocess.run(["git", "-C", wt, "apply", "--check", patch], capture_output=True).returncode == 0
        subprocess.run(["git", "-C", "/repo", "worktree", "remove", "--force", wt], capture_output=True)
        if ok:
            found = c
            break
    if found is None:
        print("NO BASE FOUND", m)
        continue
    if d.get("applies_to") != found:
        print(os.path.basename(os.path.dirname(m)), d.get("applies_to"), "->", found)
        d["applies_to"] = found
        json.dump(d, open(m, "w"), indent=1)
