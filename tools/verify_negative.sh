#!/bin/bash
# usage: verify_negative.sh <prop> <patch-dir> <pkg-dir>
# Confirms in a fresh scratch worktree: keep test passes on the clean tree, patch applies, builds,
# keep test passes with the patch, full suite passes with the patch.
set -u
export GOFLAGS=-mod=mod GOPROXY=off GOSUMDB=off GOTOOLCHAIN=local PATH=/opt/veriftools/go1.26.8/bin:$PATH
prop="$1"; pdir="$2"; pkgdir="${3:-lisp}"
name="$(basename "$pdir")"
wt="/tmp/nwt-$prop-$name"
log="$pdir/verify.log"
: > "$log"
git -C /repo worktree remove --force "$wt" >/dev/null 2>&1
git -C /repo worktree add --detach "$wt" "${SEED_BASE:-HEAD}" >/dev/null 2>&1 || { echo "worktree failed" | tee -a "$log"; exit 2; }
cleanup() { git -C /repo worktree remove --force "$wt" >/dev/null 2>&1; rm -rf "$wt"; }
trap cleanup EXIT
cd "$wt"
keep=$(ls "$pdir"/*_test.go 2>/dev/null | head -1)
res="prop=$prop patch=$name"
if [ -n "$keep" ]; then
  cp "$keep" "$wt/$pkgdir/zz_keep_test.go"
  if go test -vet=off -count=1 -run 'TestKeep' ./$pkgdir/ >>"$log" 2>&1; then res="$res keep_clean=PASS"; else res="$res keep_clean=FAIL"; fi
fi
git apply "$pdir/patch.diff" >>"$log" 2>&1 || { echo "$res apply=FAIL" | tee -a "$log"; exit 1; }
res="$res apply=ok"
if go build ./... >>"$log" 2>&1; then res="$res build=ok"; else res="$res build=FAIL"; fi
if [ -n "$keep" ]; then
  if go test -vet=off -count=1 -run 'TestKeep' ./$pkgdir/ >>"$log" 2>&1; then res="$res keep_patched=PASS"; else res="$res keep_patched=FAIL"; fi
  rm -f "$wt/$pkgdir/zz_keep_test.go"
fi
if go test -vet=off -count=1 ./... >"$pdir/suite.log" 2>&1; then res="$res suite=PASS"; else
  # wall-clock assertions (TestDoTimesHonoursStepBudget, fuzzwatch, sleep tests) fail on a loaded machine:
  # re-run only the failing packages, up to three times, before believing the failure
  pk=$(grep -E "^FAIL[[:space:]]+github.com" "$pdir/suite.log" | awk '{print $2}' | sed 's#github.com/luthersystems/elps#.#' | sort -u | tr '\n' ' ')
  okretry=no
  if [ -n "$pk" ]; then
    for try in 1 2 3; do
      if go test -vet=off -count=1 $pk >>"$pdir/suite.log".retry 2>&1; then okretry=yes; break; fi
    done
  fi
  if [ "$okretry" = yes ]; then res="$res suite=PASS(after-retry-of:$(echo $pk | tr ' ' ','))"; else res="$res suite=FAIL"; fi
fi
echo "$res" | tee -a "$log"
