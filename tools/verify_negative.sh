#!/bin/bash
# usage: verify_negative.sh <prop> <patch-dir> <pkg-dir>
# Confirms in a fresh scratch worktree: keep test passes on the clean tree, patch applies, builds,
# keep test passes with the patch, full suite passes with the patch.
set -u
export GOFLAGS=-mod=mod GOPROXY=off GOSUMDB=off GOTOOLCHAIN=local PATH=/opt/veriftools/go1.26.8/bin:$PATH
prop="$1"; pdir="$2"; pkgdir="${3:-lisp}"
name="$(basename "$pdir")"
wt="/tmp/nwt-$prop-$name"
log="$pdir/verify.log"
: > "$log"
git -C /repo worktree remove --force "$wt" >/dev/null 2>&1
git -C /repo worktree add --detach "$wt" "${SEED_BASE:-HEAD}" >/dev/null 2>&1 || { echo "worktree failed" | tee -a "$log"; exit 2; }
cleanup() { git -C /repo worktree remove --force "$wt" >/dev/null 2>&1; rm -rf "$wt"; }
trap cleanup EXIT
cd "$wt"
keep=$(ls "$pdir"/*_test.go 2>/dev/null | head -1)
res="prop=$prop patch=$name"
if [ -n "$keep" ]; then
  cp "$keep" "$wt/$pkgdir/zz_keep_test.go"
  if go test -vet=off -count=1 -run 'TestKeep' ./$pkgdir/ >>"$log" 2>&1; then res="$res keep_clean=PASS"; else res="$res keep_clean=FAIL"; fi
fi
git apply "$pdir/patch.diff" >>"$log" 2>&1 || { echo "$res apply=FAIL" | tee -a "$log"; exit 1; }
res="$res apply=ok"
if go build ./... >>"$log" 2>&1; then res="$res build=ok"; else res="$res build=FAIL"; fi
if [ -n "$keep" ]; then
  if go test -vet=off -count=1 -run 'TestKeep' ./$pkgdir/ >>"$log" 2>&1; then res="$res keep_patched=PASS"; else res="$res keep_patched=FAIL"; fi
  rm -f "$wt/$pkgdir/zz_keep_test.go"
fi
if go test -vet=off -count=1 ./... >"$pdir/suite.log" 2>&1; then res="$res suite=PASS"; else res="$res suite=FAIL"; fi
echo "$res" | tee -a "$log"
