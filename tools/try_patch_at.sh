#!/bin/bash
# usage: try_patch_at.sh <base-commit> <patch.diff> <prop> [prop...] — like try_patch.sh but in a scratch worktree at <base>
set -u
base="$1"; patch="$2"; shift 2
wt=$(mktemp -d /tmp/tpa-XXXXXX); rmdir "$wt"
git -C /repo worktree add -q --detach "$wt" "$base" || exit 2
if git -C "$wt" apply "$patch"; then
  for p in "$@"; do
    VERIF_REPO="$wt" VERIF_EVIDENCE_DIR="$wt/.evidence" /verif/run.sh check "$p" quick 2>&1 | grep -E "^property=|VIOLATION|violation:|CHECK-FAILED" | cut -c1-400
  done
else
  echo "patch does not apply at $base"
fi
git -C /repo worktree remove --force "$wt"
