#!/usr/bin/env python3
"""Import a verified mutant into /verif/seeded/<prop>-<m>/ and record which rules detect it.
usage: import_seeded.py <prop> <mutant-dir> <demo-dir> <initially: caught|missed|not-built> [note]"""
import json, os, re, shutil, subprocess, sys
prop, mdir, demodir, initially = sys.argv[1:5]
note = sys.argv[5] if len(sys.argv) > 5 else ""
name = f"{prop}-{os.path.basename(mdir.rstrip('/'))}"
dst = f"/verif/seeded/{name}"
os.makedirs(dst, exist_ok=True)
shutil.copy(os.path.join(mdir, "patch.diff"), dst)
demos = [f for f in os.listdir(mdir) if f.endswith("_test.go")]
for d in demos:
    shutil.copy(os.path.join(mdir, d), os.path.join(dst, d.replace("_test.go", "_test.go.txt")))
if os.path.exists(os.path.join(mdir, "README.md")):
    shutil.copy(os.path.join(mdir, "README.md"), os.path.join(dst, "README.md"))
ver = ""
vl = os.path.join(mdir, "verify.log")
if os.path.exists(vl):
    ver = open(vl).read().strip().splitlines()[-1]
# run the check (against /repo's tree, or against a scratch worktree at the patch's base commit when
# a later fix: commit touched the same lines)
base = os.environ.get("SEED_BASE", "")
applies = subprocess.run(["git", "-C", "/repo", "apply", "--check", os.path.join(dst, "patch.diff")]).returncode == 0
if applies:
    base = subprocess.run(["git", "-C", "/repo", "log", "--format=%h", "-1"], capture_output=True, text=True).stdout.strip()
else:
    assert base, "patch does not apply to HEAD; set SEED_BASE=<commit>"
wt = "/tmp/seedwt-" + name
subprocess.run(["git", "-C", "/repo", "worktree", "add", "--detach", wt, base], check=True, capture_output=True)
try:
    env = dict(os.environ, VERIF_REPO=wt, VERIF_EVIDENCE_DIR="/tmp/seedev-" + name)
    base_out = subprocess.run(["/verif/run.sh", "check", prop, "quick"], capture_output=True, text=True, env=env).stdout
    subprocess.run(["git", "-C", wt, "apply", os.path.join(dst, "patch.diff")], check=True)
    out = subprocess.run(["/verif/run.sh", "check", prop, "quick"], capture_output=True, text=True, env=env).stdout
finally:
    subprocess.run(["git", "-C", "/repo", "worktree", "remove", "--force", wt])
    shutil.rmtree("/tmp/seedev-" + name, ignore_errors=True)
base_used = base
base_viol = set(re.findall(r"violation: rule=(\S+ func=\S+ construct=\"[^\"]*\")", base_out))
out = "\n".join(l for l in out.splitlines() if not any(v in l for v in base_viol))
rules = sorted(set(re.findall(r"violation: rule=(\S+)", out)))
summ = [l for l in out.splitlines() if l.startswith("property=")]
meta = {
    "id": name,
    "property": prop,
    "origin": "written by an independent sub-agent that was given only the property text and a scratch worktree (nothing from /verif)",
    "needs_to_manifest": "see README.md (the sub-agent's own description of the trigger)",
    "demo": {"files": [d.replace("_test.go", "_test.go.txt") for d in demos], "copy_into": demodir,
             "how": "copy the demo file (renamed back to *_test.go) into that package directory of a scratch worktree and run `go test -run <its tests> ./" + demodir + "/` with and without patch.diff"},
    "confirmed": {"what_i_ran": "tools/verify_mutant.sh in a fresh scratch worktree: demo on clean tree, git apply, go build ./..., demo on mutant, full `go test -vet=off -count=1 ./...`", "result": ver},
    "applies_to": base_used,
    "detection": {"status_when_first_run": initially, "detected_now_by_rules": rules, "check_summary": summ[0] if summ else "", "note": note},
}
json.dump(meta, open(os.path.join(dst, "meta.json"), "w"), indent=1)
print(name, "->", rules if rules else "NOT DETECTED")
