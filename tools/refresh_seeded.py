#!/usr/bin/env python3
"""Re-run the quick check of every seeded mutant's property on a scratch worktree at the mutant's
base commit (meta.applies_to) with the patch applied, and refresh detection.detected_now_by_rules.
Rules that fire on the unpatched base tree as well (the base tree's own, later fixed, defects) are
not attributed to the mutant."""
import json, os, re, subprocess, glob, sys
only = set(sys.argv[1:])
def run_check(prop, wt):
    env = dict(os.environ, VERIF_REPO=wt, VERIF_EVIDENCE_DIR=os.path.join(wt, ".evidence"))
    out = subprocess.run(["/verif/run.sh", "check", prop, "quick"], capture_output=True, text=True, env=env).stdout
    return set(re.findall(r"violation: rule=(\S+) func=(\S+) construct=\"([^\"]*)\"", out)), out
for m in sorted(glob.glob("/verif/seeded/*/meta.json")):
    d = json.load(open(m))
    name = d["id"]
    if only and name not in only:
        continue
    base = d.get("applies_to") or "HEAD"
    wt = "/tmp/refresh-wt" + os.environ.get("REFRESH_WT_SUFFIX", "-%d" % os.getpid())
    subprocess.run(["git", "-C", "/repo", "worktree", "remove", "--force", wt], capture_output=True)
    subprocess.run(["git", "-C", "/repo", "worktree", "add", "--detach", wt, base], capture_output=True, check=True)
    try:
        base_v, _ = run_check(d["property"], wt)
        subprocess.run(["git", "-C", wt, "apply", os.path.join(os.path.dirname(m), "patch.diff")], check=True)
        mut_v, out = run_check(d["property"], wt)
    finally:
        subprocess.run(["git", "-C", "/repo", "worktree", "remove", "--force", wt], capture_output=True)
    rules = sorted({r for (r, f, c) in (mut_v - base_v) if r != "FRAMEWORK"})
    old = d["detection"].get("detected_now_by_rules", [])
    summ = [l for l in out.splitlines() if l.startswith("property=")]
    d["detection"]["detected_now_by_rules"] = rules
    if summ:
        d["detection"]["check_summary"] = summ[0]
    json.dump(d, open(m, "w"), indent=1)
    flag = "" if rules == old else f"   (was {old})"
    print(name, "->", rules if rules else "NOT DETECTED", flag)
