#!/bin/bash
# usage: verify_mutant.sh <prop> <mutant-dir> <demo-pkg-dir (relative to repo, e.g. lisp)>
# Confirms in a fresh scratch worktree: patch applies, builds, full suite passes, demo fails with / passes without.
set -u
export GOFLAGS=-mod=mod GOPROXY=off GOSUMDB=off GOTOOLCHAIN=local PATH=/opt/veriftools/go1.26.8/bin:$PATH
prop="$1"; mdir="$2"; pkgdir="${3:-lisp}"
name="$(basename "$mdir")"
wt="/tmp/vwt-$prop-$name"
log="$mdir/verify.log"
: > "$log"
git -C /repo worktree remove --force "$wt" >/dev/null 2>&1
git -C /repo worktree add --detach "$wt" "${SEED_BASE:-HEAD}" >/dev/null 2>&1 || { echo "worktree failed" | tee -a "$log"; exit 2; }
cleanup() { git -C /repo worktree remove --force "$wt" >/dev/null 2>&1; rm -rf "$wt"; }
trap cleanup EXIT
cd "$wt"
demo=$(ls "$mdir"/*_test.go 2>/dev/null | head -1)
res="prop=$prop mutant=$name"
# demo on clean tree
if [ -n "$demo" ]; then
  cp "$demo" "$wt/$pkgdir/zz_seeded_demo_test.go"
  if go test -vet=off -count=1 -run 'TestC|TestSeed|TestDemo|TestMut|Test.*[Mm]utant|Test.*Demo' ./$pkgdir/ >>"$log" 2>&1; then res="$res demo_clean=PASS"; else res="$res demo_clean=FAIL"; fi
fi
git apply "$mdir/patch.diff" >>"$log" 2>&1 || { echo "$res apply=FAIL" | tee -a "$log"; exit 1; }
res="$res apply=ok"
if go build ./... >>"$log" 2>&1; then res="$res build=ok"; else res="$res build=FAIL"; fi
if [ -n "$demo" ]; then
  if go test -vet=off -count=1 -run 'TestC|TestSeed|TestDemo|TestMut|Test.*[Mm]utant|Test.*Demo' ./$pkgdir/ >>"$log" 2>&1; then res="$res demo_mutant=PASS(bad)"; else res="$res demo_mutant=FAIL(good)"; fi
  rm -f "$wt/$pkgdir/zz_seeded_demo_test.go"
fi
if go test -vet=off -count=1 ./... >"$mdir/suite.log" 2>&1; then res="$res suite=PASS"; else
  # wall-clock assertions (TestDoTimesHonoursStepBudget, fuzzwatch, sleep tests) fail on a loaded machine:
  # re-run only the failing packages, up to three times, before believing the failure
  pk=$(grep -E "^FAIL[[:space:]]+github.com" "$mdir/suite.log" | awk '{print $2}' | sed 's#github.com/luthersystems/elps#.#' | sort -u | tr '\n' ' ')
  okretry=no
  if [ -n "$pk" ]; then
    for try in 1 2 3; do
      if go test -vet=off -count=1 $pk >>"$mdir/suite.log".retry 2>&1; then okretry=yes; break; fi
    done
  fi
  if [ "$okretry" = yes ]; then res="$res suite=PASS(after-retry-of:$(echo $pk | tr ' ' ','))"; else res="$res suite=FAIL"; fi
fi
echo "$res" | tee -a "$log"
