#!/bin/bash
# sweep.sh — full regression of the checker itself, sharded: every seeded/<id> through selftest.sh
# (10 shards) and every seeded-negative/<id> through tools/check_negative.py (5 shards), all with ONE
# snapshot of the checker binary.  Meant for `vp run --mem 48g -- tools/sweep.sh`; the summary lines
# ("NOT DETECTED", "FALSE ALARM", "worktree failed", "does not apply") are what to look for in the log.
set -u
cd "$(dirname "$0")/.."
./run.sh setup || exit 2
snap=$(mktemp /tmp/elpscheck-sweep-XXXXXX); cp bin/elpscheck "$snap"; chmod +x "$snap"; export VERIF_BIN="$snap"
ids=($(ls seeded)); negs=($(ls seeded-negative))
for s in $(seq 0 9); do
  ( shard=(); for i in "${!ids[@]}"; do [ $((i % 10)) -eq $s ] && shard+=("${ids[$i]}"); done
    SELFTEST_NEGATIVES=0 ./selftest.sh "${shard[@]}" 2>&1 | grep "selftest:" | grep -v " detected$\|undetected (as recorded)" ; echo "selftest shard $s done (${#shard[@]} ids)" ) &
done
for s in $(seq 0 4); do
  ( shard=(); for i in "${!negs[@]}"; do [ $((i % 5)) -eq $s ] && shard+=("${negs[$i]}"); done
    NEG_WT_SUFFIX=-sweep$s python3 tools/check_negative.py "${shard[@]}" 2>&1 | grep -v " silent$\|known false alarm (documented" ; echo "negative shard $s done (${#shard[@]} ids)" ) &
done
wait
rm -f "$snap"; git -C /repo worktree prune
echo "sweep finished"
