#!/usr/bin/env python3
"""For every seeded-negative/<id>: scratch worktree at meta.applies_to, run ALL properties (quick)
on the base tree and on the patched tree; any violation the patch adds is a false alarm.
usage: check_negative.py [id...]   exit 1 if any false alarm."""
import json, os, re, subprocess, glob, sys
only = set(sys.argv[1:])
base_cache = {}
def run_all(wt):
    env = dict(os.environ, VERIF_REPO=wt, VERIF_EVIDENCE_DIR=os.path.join(wt, ".evidence"))
    out = subprocess.run(["/verif/run.sh", "check", "all", "quick"], capture_output=True, text=True, env=env).stdout
    v = set(re.findall(r"violation: rule=(\S+) func=(\S+) construct=\"([^\"]*)\"", out))
    failed = "CHECK-FAILED" in out
    return v, failed, out
bad = 0
for m in sorted(glob.glob("/verif/seeded-negative/*/meta.json")):
    d = json.load(open(m)); name = d["id"]
    if only and name not in only:
        continue
    base = d["applies_to"]
    wt = "/tmp/neg-wt" + os.environ.get("NEG_WT_SUFFIX", "-%d" % os.getpid())
    subprocess.run(["git", "-C", "/repo", "worktree", "remove", "--force", wt], capture_output=True)
    subprocess.run(["git", "-C", "/repo", "worktree", "add", "--detach", wt, base], capture_output=True, check=True)
    try:
        if base not in base_cache:
            base_cache[base] = run_all(wt)[0]
        r = subprocess.run(["git", "-C", wt, "apply", os.path.join(os.path.dirname(m), "patch.diff")], capture_output=True, text=True)
        if r.returncode != 0:
            print(name, "PATCH DOES NOT APPLY"); bad += 1; continue
        v, failed, out = run_all(wt)
    finally:
        subprocess.run(["git", "-C", "/repo", "worktree", "remove", "--force", wt], capture_output=True)
    # line numbers are not part of the key; ordinal suffixes (#n) may shift with a refactoring, compare without them too
    strip = lambda s: {(r, f, re.sub(r"#\d+$", "", c)) for (r, f, c) in s}
    extra = {x for x in v if x not in base_cache[base] and (x[0], x[1], re.sub(r"#\d+$", "", x[2])) not in strip(base_cache[base])}
    # a report of the BASE tree's own (since repaired) defect that the patch merely renames — the construct
    # names the callee, and the refactoring moved the call into a helper — is not the patch's: per
    # (rule, function) only reports in excess of the base tree's count are new
    from collections import Counter
    cb, cp = Counter((r, f) for (r, f, c) in base_cache[base]), Counter((r, f) for (r, f, c) in v)
    extra = {x for x in extra if cp[(x[0], x[1])] > cb[(x[0], x[1])]}
    # ... and when the patch moved the reported construct into another function (C02-r5p2 on its old base: the
    # TerminalFID call of the base's unrepaired funCall moved into a helper), per rule
    rb, rp = Counter(r for (r, f, c) in base_cache[base]), Counter(r for (r, f, c) in v)
    extra = {x for x in extra if not (rb[x[0]] > 0 and rp[x[0]] <= rb[x[0]])}
    kfa = d.get("known_false_alarm")
    if failed:
        print(name, "CHECK-FAILED"); bad += 1
    elif extra and kfa and {x[0] for x in extra} <= set(kfa["rules"]):
        print(name, "known false alarm (documented limitation):", ", ".join(sorted({x[0] for x in extra})))
    elif extra:
        bad += 1
        print(name, "FALSE ALARM:")
        for x in sorted(extra):
            print("    ", x)
    else:
        print(name, "silent")
sys.exit(1 if bad else 0)
