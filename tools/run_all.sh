#!/bin/bash
# run_all.sh [quick|thorough|both] — every property; prints one line per property and any violation
tier="${1:-both}"
cd "$(dirname "$0")/.."
rc=0
for t in quick thorough; do
  [ "$tier" = both ] || [ "$tier" = "$t" ] || continue
  for p in C01 C02 C03 C04 C05 C06 C07 C08 C09 C10 C11 C12 C13 C14 C15 C16 C17 C18 C19 C20; do
    out=$(./run.sh check $p $t); st=$?
    echo "$out" | grep "^property\|^VIOLATION\|CHECK-FAILED\|violation:" | cut -c1-260
    [ $st -eq 0 ] || rc=1
  done
done
exit $rc
