#!/usr/bin/env python3
"""Store behaviour-preserving patches (written by independent sub-agents: refactorings that keep
every documented behaviour, with a keep_test.go that passes before and after) as NEGATIVE
examples under /verif/seeded-negative/<id>-pK/.  usage: import_negative.py <round-dir> <base-for-C01..C10> <base-for-C11..C20> [round-tag, default r4]"""
import json, os, shutil, sys, glob
rd, base_lo, base_hi = sys.argv[1], sys.argv[2], sys.argv[3]
tag = sys.argv[4] if len(sys.argv) > 4 else "r4"
for d in sorted(glob.glob(os.path.join(rd, "C*", "p*"))):
    prop = os.path.basename(os.path.dirname(d)); k = os.path.basename(d)
    if not os.path.exists(os.path.join(d, "patch.diff")):
        continue
    n = int(prop[1:])
    out = f"/verif/seeded-negative/{prop}-{tag}{k}"
    os.makedirs(out, exist_ok=True)
    shutil.copy(os.path.join(d, "patch.diff"), out)
    for f in glob.glob(os.path.join(d, "*")):
        b = os.path.basename(f)
        if b.endswith("_test.go"):
            shutil.copy(f, os.path.join(out, b + ".txt"))
        elif b.lower().startswith("readme"):
            shutil.copy(f, os.path.join(out, "README.md"))
    meta = {"id": f"{prop}-{tag}{k}", "property": prop, "kind": "behaviour-preserving",
            "origin": "written by an independent sub-agent given only the property text and a scratch worktree (nothing from /verif); the agent's TestKeep* tests pass with and without the patch and the full suite passes with it",
            "applies_to": base_lo if n <= 10 else base_hi,
            "expect": "no rule of any property reports a violation that the unpatched base tree does not also report"}
    json.dump(meta, open(os.path.join(out, "meta.json"), "w"), indent=1)
    print("stored", out)
