#!/bin/bash
# selftest.sh [id...] — regression test of the checker itself (not a property check):
# for every seeded/<id> whose meta.json lists detecting rules, make a scratch
# worktree of /repo (at the mutant's base commit), apply patch.diff, run the quick
# check with VERIF_REPO pointing at the worktree and require a VIOLATION line; then
# require silence (exit 0) on the unpatched worktree.  Worktrees live under /tmp and
# are removed as soon as each mutant is done.
set -u
HERE="$(cd "$(dirname "$0")" && pwd)"
REPO="${VERIF_REPO:-/repo}"
ids=("$@")
if [ ${#ids[@]} -eq 0 ]; then ids=($(ls "$HERE/seeded")); fi
fail=0
for id in "${ids[@]}"; do
  meta="$HERE/seeded/$id/meta.json"
  [ -f "$meta" ] || { echo "selftest: no such mutant $id"; fail=1; continue; }
  prop=$(python3 -c "import json;print(json.load(open('$meta'))['property'])")
  nrules=$(python3 -c "import json;print(len(json.load(open('$meta'))['detection']['detected_now_by_rules']))")
  base=$(python3 -c "import json;b=json.load(open('$meta')).get('applies_to','');print(b if b and len(b)<=12 and ' ' not in b else 'HEAD')")
  wt=$(mktemp -d /tmp/selftest-XXXXXX); rmdir "$wt"
  git -C "$REPO" worktree add -q --detach "$wt" "$base" || { echo "selftest: $id worktree failed"; fail=1; continue; }
  if ! git -C "$wt" apply "$HERE/seeded/$id/patch.diff"; then
    echo "selftest: $id patch does not apply at $base"; fail=1
  else
    out=$(VERIF_REPO="$wt" VERIF_EVIDENCE_DIR="$wt/.evidence" "$HERE/run.sh" check "$prop" quick 2>&1)
    if [ "$nrules" -gt 0 ]; then
      if echo "$out" | grep -q "^VIOLATION property=$prop"; then echo "selftest: $id detected"; else echo "selftest: $id NOT DETECTED (expected)"; fail=1; fi
    else
      if echo "$out" | grep -q "^VIOLATION"; then echo "selftest: $id now detected (meta says undetected)"; else echo "selftest: $id undetected (as recorded)"; fi
    fi
  fi
  git -C "$REPO" worktree remove --force "$wt"
done
# negative examples: behaviour-preserving patches must not add a report to ANY property
if [ "${SELFTEST_NEGATIVES:-1}" = "1" ] && [ $# -eq 0 ]; then
  if python3 "$HERE/tools/check_negative.py" > /tmp/selftest-neg.out 2>&1; then
    echo "selftest: $(grep -c silent /tmp/selftest-neg.out) behaviour-preserving patches silent"
  else
    grep -v silent /tmp/selftest-neg.out; echo "selftest: FALSE ALARM on a behaviour-preserving patch"; fail=1
  fi
  rm -f /tmp/selftest-neg.out
fi
exit $fail
