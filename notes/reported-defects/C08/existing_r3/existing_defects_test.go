package lisp_test

// Reproducers for violations of property C08 that are present in the
// UNMODIFIED tree.  Copy into lisp/ and run:
//
//	go test -vet=off -count=1 -v -run 'TestExistingC08' ./lisp
//
// Every test in this file FAILS on the clean tree.

import (
	"reflect"
	"strings"
	"testing"

	"github.com/luthersystems/elps/lisp"
	"github.com/luthersystems/elps/parser"
)

func existingC08Env(t *testing.T) *lisp.LEnv {
	t.Helper()
	env := lisp.NewEnv(nil)
	if err := lisp.GoError(lisp.InitializeUserEnv(env, lisp.WithReader(parser.NewReader()))); err != nil {
		t.Fatal(err)
	}
	return env
}

func existingC08Eval(t *testing.T, env *lisp.LEnv, src string) string {
	t.Helper()
	exprs, err := env.Runtime.Reader.Read("test", strings.NewReader(src))
	if err != nil {
		t.Fatalf("parse %q: %v", src, err)
	}
	var r *lisp.LVal
	for _, e := range exprs {
		r = env.Eval(e)
	}
	return r.String()
}

// D1: call() only swaps/restores the package when the callee's defining
// package differs (by name) from the package current at call time.  A callee
// defined in the SAME package that executes in-package therefore leaks the
// switch into its caller: the rest of the caller's body runs with a package
// other than its defining package current, and its definitions land there.
func TestExistingC08D1SamePackageCalleeLeaksInPackage(t *testing.T) {
	env := existingC08Env(t)
	existingC08Eval(t, env, "(in-package 'b)")
	existingC08Eval(t, env, "(defun switch-away () (in-package 'c) 'switched)")
	existingC08Eval(t, env, "(defun caller () (switch-away) (set 'q 1) 'done)")
	existingC08Eval(t, env, "(caller)")
	if got := env.Runtime.Package.Name; got != "b" {
		t.Errorf("current package after (caller) returned to top level: %s, want b", got)
	}
	existingC08Eval(t, env, "(in-package 'user)")
	if got := existingC08Eval(t, env, "b:q"); got != "1" {
		t.Errorf("b:q => %s, want 1 (caller is defined in b, so its (set 'q 1) must bind b:q)", got)
	}
	if got := existingC08Eval(t, env, "c:q"); got == "1" {
		t.Errorf("c:q => 1: the body of b:caller ran with package c current")
	}
	// Contrast: the same callee reached from ANOTHER package does not leak.
	existingC08Eval(t, env, "(in-package 'd)")
	existingC08Eval(t, env, "(b:switch-away)")
	if got := env.Runtime.Package.Name; got != "d" {
		t.Errorf("control: current package after (b:switch-away) from d: %s, want d", got)
	}
}

// D2: use-package stops at the first exported name that has no binding and
// reports an error, but it has already copied every exported name that sorts
// before it.  The using package ends up with a proper, non-empty SUBSET of
// the exported bindings -- neither "exactly the exported bindings" nor
// nothing.  Any (export 'never-defined) or (export 'other:name) in a package
// therefore makes that package unusable, and half-imports it.
func TestExistingC08D2UsePackagePartialCopy(t *testing.T) {
	env := existingC08Env(t)
	existingC08Eval(t, env, "(in-package 'a)")
	existingC08Eval(t, env, "(set 'aa 1) (set 'zz 3)")
	existingC08Eval(t, env, "(export 'aa 'mm 'zz)") // mm is exported before it is defined (allowed) and never defined
	existingC08Eval(t, env, "(in-package 'b)")
	res := existingC08Eval(t, env, "(use-package 'a)")
	_, aaBound := env.Runtime.Package.Symbol("aa")
	_, zzBound := env.Runtime.Package.Symbol("zz")
	if aaBound != zzBound {
		t.Errorf("(use-package 'a) => %s; afterwards aa bound=%v zz bound=%v: partial copy of a's exported bindings", res, aaBound, zzBound)
	}
}

// D3: a function named by a symbol (funcall 'f, apply 'f, map 'list 'f ...) is
// looked up with GetFunGlobal, which goes straight to the current package and
// never consults the lexical environment, so an unqualified name that IS
// lexically bound resolves to the package binding (or to nothing).
func TestExistingC08D3SymbolDesignatorSkipsLexicalScope(t *testing.T) {
	env := existingC08Env(t)
	existingC08Eval(t, env, "(defun f () 'global-f)")
	if got := existingC08Eval(t, env, "(flet ((f () 'local-f)) (list (f) (funcall 'f)))"); got != "'('local-f 'local-f)" {
		t.Errorf("(flet ((f () 'local-f)) (list (f) (funcall 'f))) => %s, want '('local-f 'local-f)", got)
	}
	if got := existingC08Eval(t, env, "(labels ((h () 'local-h)) (funcall 'h))"); got != "'local-h" {
		t.Errorf("(labels ((h () 'local-h)) (funcall 'h)) => %s, want 'local-h", got)
	}
}

// D4: lisp.TextLoader is the documented way to build a re-usable Loader from
// lisp source, but unlike every Load* entry point the Loader it returns does
// not restore the current package, so an in-package in the loaded source
// leaks to the code that ran the loader.
func TestExistingC08D4TextLoaderLeaksInPackage(t *testing.T) {
	env := existingC08Env(t)
	ld, err := lisp.TextLoader(env.Runtime.Reader, "lib.lisp", strings.NewReader("(in-package 'lib) (set 'v 1)"))
	if err != nil {
		t.Fatal(err)
	}
	if r := ld(env); r.Type == lisp.LError {
		t.Fatal(r)
	}
	if got := env.Runtime.Package.Name; got != "user" {
		t.Errorf("current package after running a TextLoader: %s, want user", got)
	}
	// control: the same source through LoadString
	env = existingC08Env(t)
	env.LoadString("lib.lisp", "(in-package 'lib) (set 'v 1)")
	if got := env.Runtime.Package.Name; got != "user" {
		t.Errorf("control: current package after LoadString: %s, want user", got)
	}
}

// D5: (*Package).Exports is documented as "the deduplicating, sorting
// variant" of Export, but it only de-duplicates against names exported by
// EARLIER calls; a name repeated within one call is recorded twice.
func TestExistingC08D5ExportsDuplicatesWithinOneCall(t *testing.T) {
	p := lisp.NewPackage("p")
	p.Exports("x", "x")
	if got, want := p.Externals(), []string{"x"}; !reflect.DeepEqual(got, want) {
		t.Errorf("Exports(\"x\", \"x\") => %v, want %v", got, want)
	}
}

// D6: a failing in-package still switches (and, for a new name, creates) the
// package: the error is reported but subsequent definitions land in the
// package the failed form named.
func TestExistingC08D6FailedInPackageStillSwitches(t *testing.T) {
	env := existingC08Env(t)
	res := existingC08Eval(t, env, "(in-package 'oops 42)")
	if !strings.Contains(res, "docstring argument is not a string") {
		t.Fatalf("unexpected result %s", res)
	}
	if got := env.Runtime.Package.Name; got != "user" {
		t.Errorf("(in-package 'oops 42) => error %q, yet the current package is now %s", res, got)
	}
}
