package lisp_test

// Reproducers for violations of property C01 that the UNMODIFIED tree already
// exhibits.  Copy into lisp/ and run
//
//	go test -vet=off -count=1 -run TestExisting ./lisp/
//
// Every sub-test states the value the language reference prescribes; each one
// FAILS on the clean tree.

import (
	"fmt"
	"testing"

	"github.com/luthersystems/elps/lisp"
	"github.com/luthersystems/elps/parser"
)

func existingEnv(t *testing.T) *lisp.LEnv {
	t.Helper()
	env := lisp.NewEnv(nil)
	env.Runtime.Reader = parser.NewReader()
	if rc := lisp.InitializeUserEnv(env); rc.Type == lisp.LError {
		t.Fatalf("init: %v", rc)
	}
	if rc := env.InPackage(lisp.String(lisp.DefaultUserPackage)); rc.Type == lisp.LError {
		t.Fatalf("in-package: %v", rc)
	}
	return env
}

type existingCase struct{ name, src, want string }

func runExisting(t *testing.T, cases []existingCase) {
	for _, tc := range cases {
		t.Run(tc.name, func(t *testing.T) {
			got := existingEnv(t).LoadString("t.lisp", tc.src).String()
			if got != tc.want {
				t.Errorf("\n  src:  %s\n  got:  %s\n  want: %s", tc.src, got, tc.want)
			}
		})
	}
}

// D1: stable-sort, insert-sorted, all? and any? call their function by
// EVALUATING a call form built from the elements, so every element is
// evaluated a second time.  Elements that are not self-evaluating (a symbol or
// a list that came out of quoted data) blow up or are replaced by a binding.
func TestExistingD1ElementsEvaluatedTwice(t *testing.T) {
	runExisting(t, []existingCase{
		{"all? symbols", `(all? symbol? '(a b))`, `true`},
		{"any? symbols", `(any? symbol? '(a b))`, `true`},
		{"all? nested lists", `(all? list? '((1 2) (3)))`, `true`},
		{"stable-sort symbols", `(stable-sort (lambda (x y) (string< (to-string x) (to-string y))) '(b a))`, `'(a b)`},
		{"stable-sort nested lists by key", `(stable-sort < '((2 x) (1 y)) first)`, `'((1 y) (2 x))`},
		{"insert-sorted symbols", `(insert-sorted 'list '(a c) (lambda (x y) (string< (to-string x) (to-string y))) 'b)`, `'(a 'b c)`},
		// the element is silently REPLACED by the value of a global of that name
		{"any? sees a binding instead of the element", `(set 'a 42) (any? (lambda (x) (if (symbol? x) 'sym 'not-a-symbol)) '(a))`, `'sym`},
	})
}

// D2: compose builds a positional call of g from g's formals and skips the
// &key marker, so a g with keyword parameters cannot be called through the
// composition.
func TestExistingD2ComposeKeywordParameters(t *testing.T) {
	runExisting(t, []existingCase{
		{"compose with &key", `((compose identity (lambda (&key a) a)) :a 1)`, `1`},
		{"compose with &key not supplied", `((compose list (lambda (x &key a) (list x a))) 7)`, `'('(7 ()))`},
	})
}

// D3: docs/lang.md ("Packages / Basics") documents scheme-style `define`:
//
//	(define counter 0)
//	(define (count) (define old counter) (set! counter (+ counter 1)) old)
//	(count)  ; evaluates to 0
//	(count)  ; evaluates to 1
func TestExistingD3DefineIsDocumentedButUnbound(t *testing.T) {
	runExisting(t, []existingCase{
		{"define variable", `(define counter 0) counter`, `0`},
		{"define function", `(define counter 0) (define (count) (define old counter) (set! counter (+ counter 1)) old) (count) (count)`, `1`},
	})
}

// D4: docs/lang.md ("Sharing, copying and mutation") and docs/func.md
// (stable-sort) prescribe that stable-sort sorts IN PLACE, including a quoted
// literal: (probe) ; '(1 2 3).  The implementation copies a literal instead,
// so the binding still holds the unsorted list.
func TestExistingD4StableSortLiteralNotInPlace(t *testing.T) {
	runExisting(t, []existingCase{
		{"probe from lang.md", `(defun probe () (let ([lit '(3 1 2)]) (stable-sort < lit) lit)) (probe)`, `'(1 2 3)`},
		{"global bound to a literal", `(set 'q '(5 4 3 2 1)) (stable-sort < q) q`, `'(1 2 3 4 5)`},
	})
}

// D5: get-default binds its operands to gensym names, and a gensym name is an
// ordinary symbol a program can write.  A user variable that happens to be
// spelled like the generated name is captured by the expansion, so the symbol
// no longer resolves to the user's (innermost lexical) binding.
func TestExistingD5GetDefaultCapturesUserVariable(t *testing.T) {
	env := existingEnv(t)
	g := env.LoadString("t.lisp", `(gensym)`)
	var n int
	if _, err := fmt.Sscanf(g.Str, "gen%d", &n); err != nil {
		t.Fatalf("unexpected gensym %q", g.Str)
	}
	// the next expansion of get-default uses gen<n+1> for the map and gen<n+2> for the key
	name := fmt.Sprintf("gen%08d", n+2)
	src := fmt.Sprintf(`(let ((%s 'mine)) (get-default (sorted-map) 'k %s))`, name, name)
	got := env.LoadString("t.lisp", src).String()
	if want := `'mine`; got != want {
		t.Errorf("\n  src:  %s\n  got:  %s\n  want: %s", src, got, want)
	}
}

// D6: curry-function expands to a form headed by the UNQUALIFIED symbol
// lambda (every other builtin macro qualifies what it emits with lisp:), so a
// lexical binding named lambda at the call site captures it.
func TestExistingD6CurryFunctionUnhygienicLambda(t *testing.T) {
	runExisting(t, []existingCase{
		{"shadowed lambda", `(let ((lambda 5)) ((curry-function + 1) 2))`, `3`},
	})
}

// D7: lambda rejects a formals list that contains a non-symbol, defun and
// defmacro accept it and silently drop the binding.
func TestExistingD7DefunDoesNotValidateFormals(t *testing.T) {
	runExisting(t, []existingCase{
		{"lambda rejects", `(lambda (1) 1)`, `t.lisp:1:1: lisp:lambda: first argument contains a non-symbol: int`},
		{"defun must reject too", `(defun g2 (1 2) 3) (g2 7 8)`, `t.lisp:1:1: lisp:defun: first argument contains a non-symbol: int`},
	})
}

// D8: a formal parameter named true, false or :keyword is accepted; the
// binding is silently dropped (LEnv.Put refuses it, bind ignores the refusal)
// and the argument is discarded.  let, labels, flet and dotimes all raise
// "cannot rebind constant" / "cannot bind keyword" for the same names, and the
// comment on LEnv.Put says lambda formals are meant to agree with them.
func TestExistingD8ConstantNamedFormalSilentlyDropped(t *testing.T) {
	runExisting(t, []existingCase{
		{"let raises", `(let ((true 5)) true)`, `t.lisp:1:1: lisp:let: cannot rebind constant: true`},
		{"lambda must raise too", `((lambda (x &optional true) (list x true)) 1 2)`, `t.lisp:1:1: cannot rebind constant: true`},
		{"keyword formal", `((lambda (:k) :k) 5)`, `t.lisp:1:1: cannot bind keyword: :k`},
	})
}

// D9: to-int of a float that does not fit an int (or of NaN / Inf) returns an
// implementation-dependent value (MinInt64 on amd64, saturates on arm64)
// instead of signalling an error.
func TestExistingD9ToIntOutOfRangeFloat(t *testing.T) {
	for _, src := range []string{`(to-int 1e30)`, `(to-int (/ 0 0))`, `(to-int (/ 1 0))`} {
		v := existingEnv(t).LoadString("t.lisp", src)
		if v.Type != lisp.LError {
			t.Errorf("%s: got %s, want an error condition", src, v)
		}
	}
}

// D10: set! cannot assign through a package-qualified symbol although the
// same spelling evaluates and `set` accepts it.
func TestExistingD10SetBangQualifiedSymbol(t *testing.T) {
	runExisting(t, []existingCase{
		{"qualified set!", `(set 'gx 1) (set! user:gx 2) gx`, `2`},
	})
}

// D11 (arguable): let* uses ONE scope for all its bindings, so a closure
// created by an earlier binding observes a later rebinding of the same name.
// With sequential (nested) binding semantics f closes over x = 1.  The source
// carries a BUG comment to this effect in opLetSeq.
func TestExistingD11LetStarSingleScope(t *testing.T) {
	runExisting(t, []existingCase{
		{"closure sees later rebinding", `(let* ((x 1) (f (lambda () x)) (x 2)) (f))`, `1`},
	})
}
