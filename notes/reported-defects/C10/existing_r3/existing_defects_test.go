package lisplib_test

// Reproducers for violations of property C10 ("Evaluation is deterministic")
// that are present in the UNMODIFIED tree.  Copy this file into
// lisp/lisplib/ and run:
//
//	go test -vet=off -count=1 -run TestExistingC10 -v ./lisp/lisplib/
//
// Both tests FAIL on the clean tree.

import (
	"bytes"
	"testing"
	"time"

	"github.com/luthersystems/elps/lisp"
	"github.com/luthersystems/elps/lisp/lisplib"
	"github.com/luthersystems/elps/parser"
)

func existingC10Run(t *testing.T, src string) string {
	t.Helper()
	var stderr bytes.Buffer
	env := lisp.NewEnv(nil)
	rc := lisp.InitializeUserEnv(env,
		lisp.WithReader(parser.NewReader()),
		lisp.WithStderr(&stderr))
	if !rc.IsNil() {
		t.Fatalf("InitializeUserEnv: %v", rc)
	}
	if rc := lisplib.LoadLibrary(env); !rc.IsNil() {
		t.Fatalf("LoadLibrary: %v", rc)
	}
	v := env.LoadString("demo.lisp", src)
	return v.String() + "\n" + stderr.String()
}

// Defect 1: the name of an anonymous schema validator comes from a
// PROCESS-WIDE counter (libschema.symcounter), and that name is part of the
// error message / stack trace a program observes.  The same source therefore
// produces a different error message in every fresh runtime of one process,
// and its message depends on how much schema code unrelated runtimes ran
// before it.
func TestExistingC10SchemaValidatorNameDependsOnEarlierRuntimes(t *testing.T) {
	// Calling the constraint with the wrong number of arguments is the
	// shortest way to get its name into the error MESSAGE; with any other
	// failure the name still shows up in the stack trace and in the
	// diagnostic `elps run` prints.
	const src = `(funcall (s:gt 3) 1 2)`
	first := existingC10Run(t, src)
	second := existingC10Run(t, src)
	if first != second {
		t.Fatalf("same source, two fresh runtimes, different error message\n 1st: %s 2nd: %s", first, second)
	}
}

// Defect 2: time:parse-rfc3339 keeps Go's time.Parse behaviour of attaching
// the HOST's local zone when the parsed offset happens to equal the host
// zone's offset at that instant.  Arithmetic that crosses a DST change of the
// host zone and formatting then follow the host zone's rules, so the printed
// value depends on the TZ of the process -- none of the builtins involved is
// in the property's list of time/host dependent builtins.
func TestExistingC10TimeFormattingDependsOnHostZone(t *testing.T) {
	ny, err := time.LoadLocation("America/New_York")
	if err != nil {
		t.Skipf("no zoneinfo on this host: %v", err)
	}
	const src = `
(time:format-rfc3339
  (time:time-add (time:parse-rfc3339 "2020-03-08T01:30:00-05:00")
                 (time:parse-duration "24h")))`
	saved := time.Local
	defer func() { time.Local = saved }()

	time.Local = time.UTC // what TZ=UTC gives a process
	inUTC := existingC10Run(t, src)
	time.Local = ny // what TZ=America/New_York gives a process
	inNY := existingC10Run(t, src)
	if inUTC != inNY {
		t.Fatalf("same source, different value depending on the host time zone\n TZ=UTC:              %s TZ=America/New_York: %s", inUTC, inNY)
	}
}
