(defun f (a) a)
(debug-print (f 1))
(defun f (a b) (+ a b))
(debug-print (f 1 2))
