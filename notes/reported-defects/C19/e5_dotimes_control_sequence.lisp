(dotimes (nth 3) (debug-print nth))
(dotimes (i (length '(1 2))) (debug-print i))
