(debug-print (lisp:car))
