(debug-print (labels ((get (x) (if (nil? x) 0 (+ 1 (get (cdr x)))))) (get '(1 2 3))))
(debug-print (handler-bind ((condition (lambda (c &rest a) (list 'err a)))) (flet ((get (x) (if (nil? x) 0 (+ 1 (get (cdr x)))))) (get '(1 2 3)))))
(debug-print (let* ((get (lambda (x) x)) (y (get 5))) y))
(debug-print (handler-bind ((condition (lambda (c &rest a) (list 'err a)))) (let ((get (lambda (x) x)) (y (get 5))) y)))
