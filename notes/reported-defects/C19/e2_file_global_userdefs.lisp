(defun helper (cb) (cb 1))
(debug-print (helper (lambda (get) get)))
(debug-print (get (sorted-map)))
