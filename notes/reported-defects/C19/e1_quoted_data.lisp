(set 'x '((car) (cdr 1 2)))
(debug-print x)
(debug-print (quote (cons 1)))
