package main

import (
	"go/ast"
	"go/token"
	"go/types"
	"strings"

	"golang.org/x/tools/go/cfg"
)

// BOUNDS.string-index (C03) — `s[k]` with a constant k on a Go string panics for a shorter string, and the
// evaluator turns that panic into the internal-panic condition the property forbids.  Wherever the kernel
// indexes a string VARIABLE with a constant, a dominating edge (or the short-circuit context) establishes
// len(s) > k — `len(s) > k`, `s != ""` for k = 0, `strings.HasPrefix(s, "lit")` with a longer literal — and
// the variable is not assigned again between that test and the index: a test made before the string was
// trimmed or re-sliced says nothing about what is indexed.

func init() {
	register(&Rule{ID: "BOUNDS.string-index", Floor: 1,
		Doc: "every constant index into a string variable in the interpreter kernel (`s[0]`, `s[1]`) is dominated by a test establishing len(s) > k on the SAME variable — len(s) compared with a constant, s != \"\", strings.HasPrefix(s, literal) — with no assignment to the variable between the test and the index (a test made before the string was trimmed or re-sliced does not count): a program-supplied string that is shorter cannot raise a host index panic",
		Run: func(c *Ctx) []Obligation {
			const rid = "BOUNDS.string-index"
			var obs []Obligation
			for _, u := range c.Funcs(isKernel) {
				if u.Decl == nil || u.Decl.Body == nil {
					continue
				}
				info := u.Pkg.TypesInfo
				ord := &ordinal{}
				var stack []ast.Node
				ast.Inspect(u.Decl.Body, func(n ast.Node) bool {
					if n == nil {
						stack = stack[:len(stack)-1]
						return true
					}
					stack = append(stack, n)
					ix, ok := n.(*ast.IndexExpr)
					if !ok {
						return true
					}
					k, isK := intConst(info, ix.Index)
					if !isK || k < 0 {
						return true
					}
					tv, ok := info.Types[ix.X]
					if !ok || tv.Value != nil {
						return true
					}
					bt, ok := tv.Type.Underlying().(*types.Basic)
					if !ok || bt.Info()&types.IsString == 0 {
						return true
					}
					xo := identObj(info, ix.X)
					if xo == nil {
						return true // an expression, not a variable (a call result, a field): judged elsewhere
					}
					if _, isVar := xo.(*types.Var); !isVar {
						return true
					}
					construct := ord.next("index " + exprShape(info, ix))
					lit := innermostBody(u.Decl, ix)
					fc := c.cfgOf(u, lit.Lit)
					// position of the last assignment to the variable before the index (0: none but its definition)
					establishes := func(at LitAtom) bool {
						e := ast.Unparen(at.E)
						switch x := e.(type) {
						case *ast.BinaryExpr:
							isLenX := func(y ast.Expr) bool {
								ce, ok := ast.Unparen(y).(*ast.CallExpr)
								return ok && len(ce.Args) == 1 && types.ExprString(ce.Fun) == "len" && identObj(info, ce.Args[0]) == xo
							}
							isX := func(y ast.Expr) bool { return identObj(info, y) == xo }
							op := x.Op
							var other ast.Expr
							switch {
							case isLenX(x.X):
								other = x.Y
							case isLenX(x.Y):
								other = x.X
								op = map[token.Token]token.Token{token.LSS: token.GTR, token.GTR: token.LSS, token.LEQ: token.GEQ, token.GEQ: token.LEQ, token.EQL: token.EQL, token.NEQ: token.NEQ}[op]
							case isX(x.X) || isX(x.Y):
								o2 := x.Y
								if isX(x.Y) {
									o2 = x.X
								}
								if s, ok := constStringVal(info, o2); ok {
									if s == "" && k == 0 {
										return (x.Op == token.NEQ) == at.Positive
									}
									if x.Op == token.EQL && at.Positive && len(s) > k {
										return true
									}
								}
								return false
							default:
								return false
							}
							v, ok := intConst(info, other)
							if !ok {
								return false
							}
							if !at.Positive {
								op = map[token.Token]token.Token{token.LSS: token.GEQ, token.GTR: token.LEQ, token.LEQ: token.GTR, token.GEQ: token.LSS, token.EQL: token.NEQ, token.NEQ: token.EQL}[op]
							}
							switch op {
							case token.GTR:
								return v >= k
							case token.GEQ:
								return v > k
							case token.EQL:
								return v > k
							case token.NEQ:
								return v == 0 && k == 0
							}
						case *ast.CallExpr:
							if at.Positive && (stdFuncCalled(info, x, "strings", "HasPrefix") || stdFuncCalled(info, x, "strings", "HasSuffix")) && len(x.Args) == 2 && identObj(info, x.Args[0]) == xo {
								if s, ok := constStringVal(info, x.Args[1]); ok && len(s) > k {
									return true
								}
							}
						}
						return false
					}
					// killedAfter: on some path from block `from` to the index, the variable is assigned again
					reachFrom := func(start *cfg.Block) map[*cfg.Block]bool {
						seen := map[*cfg.Block]bool{}
						var dfs func(x *cfg.Block)
						dfs = func(x *cfg.Block) {
							if seen[x] {
								return
							}
							seen[x] = true
							for _, sc := range x.Succs {
								dfs(sc)
							}
						}
						dfs(start)
						return seen
					}
					assignsX := func(n ast.Node) bool {
						hit := false
						ast.Inspect(n, func(m ast.Node) bool {
							if _, isLit := m.(*ast.FuncLit); isLit {
								return false
							}
							if as, ok := m.(*ast.AssignStmt); ok {
								for _, l := range as.Lhs {
									if identObj(info, l) == xo {
										hit = true
									}
								}
							}
							return !hit
						})
						return hit
					}
					killedAfter := func(from *cfg.Block, loc Loc) bool {
						fromReach := reachFrom(from)
						for _, kb := range fc.G.Blocks {
							if !fromReach[kb] {
								continue
							}
							for ki, kn := range kb.Nodes {
								if !assignsX(kn) {
									continue
								}
								if kb == loc.B && ki < loc.I {
									return true
								}
								// the kill is followed, through the block's successors, by the index
								for _, sc := range kb.Succs {
									if reachFrom(sc)[loc.B] {
										return true
									}
								}
							}
						}
						return false
					}
					proved := false
					if loc, ok := fc.Locate(enclosingStmtNode(stack)); ok {
						for _, b := range fc.G.Blocks {
							if !fc.Live(b) || b == loc.B || fc.CondOf(b) == nil {
								continue
							}
							for edge := 0; edge < 2 && !proved; edge++ {
								if !fc.edgeDominates(b, edge, loc.B) {
									continue
								}
								cond := fc.CondOf(b)
								for _, at := range impliedAtoms(cond, edge == 0) {
									if establishes(at) && !killedAfter(b.Succs[edge], loc) {
										proved = true
									}
								}
							}
						}
					}
					// short-circuit context: `len(s) > 0 && s[0] == 'x'`
					for i := len(stack) - 1; i > 0 && !proved; i-- {
						be, ok := stack[i-1].(*ast.BinaryExpr)
						if !ok || (be.Op != token.LAND && be.Op != token.LOR) {
							continue
						}
						child, _ := stack[i].(ast.Expr)
						if child == nil || !(be.Y.Pos() <= child.Pos() && child.End() <= be.Y.End()) {
							continue
						}
						for _, at := range impliedAtoms(be.X, be.Op == token.LAND) {
							if establishes(at) {
								proved = true
							}
						}
					}
					// the variable is a window of known width: `zone := s[len(s)-6:]`, `w := s[2:5]`
					if !proved {
						if d := soleDef(info, lit.Body, ix.X); d != nil {
							if sl, ok := ast.Unparen(d).(*ast.SliceExpr); ok && sl.Low != nil {
								width := -1
								if sl.High == nil {
									if be, ok := ast.Unparen(sl.Low).(*ast.BinaryExpr); ok && be.Op == token.SUB {
										if ce, ok := ast.Unparen(be.X).(*ast.CallExpr); ok && len(ce.Args) == 1 && types.ExprString(ce.Fun) == "len" && types.ExprString(ce.Args[0]) == types.ExprString(sl.X) {
											if v, ok := intConst(info, be.Y); ok {
												width = v
											}
										}
									}
								} else if lo, ok := intConst(info, sl.Low); ok {
									if hi, ok := intConst(info, sl.High); ok {
										width = hi - lo
									}
								}
								if width > k {
									proved = true
								}
							}
						}
					}
					if proved {
						obs = append(obs, mkOb(c, rid, u, construct, ix, Proved, "a dominating test on the same variable establishes the length, and the variable is not assigned in between", true))
					} else {
						obs = append(obs, mkOb(c, rid, u, construct, ix, Undecided, "`"+types.ExprString(ix)+"` indexes a string with a constant, but no test of THIS variable's length dominates it after its last assignment: a shorter string panics in the Go runtime (an internal-panic condition reachable from lisp)", true))
					}
					return true
				})
			}
			return obs
		}})
}

// enclosingStmtNode: the innermost statement (or, failing that, node) of an ancestor stack that the CFG lists.
func enclosingStmtNode(stack []ast.Node) ast.Node {
	for i := len(stack) - 1; i >= 0; i-- {
		switch stack[i].(type) {
		case *ast.AssignStmt, *ast.ExprStmt, *ast.ReturnStmt, *ast.IncDecStmt, *ast.DeclStmt, *ast.GoStmt, *ast.DeferStmt, *ast.SendStmt:
			return stack[i]
		}
	}
	for i := len(stack) - 1; i >= 0; i-- {
		if e, ok := stack[i].(ast.Expr); ok {
			_ = e
			if _, isParen := stack[i].(*ast.ParenExpr); !isParen {
				// the outermost expression below a statement-like parent (an if / switch / for condition)
				if i == 0 {
					return stack[i]
				}
				if _, parentIsExpr := stack[i-1].(ast.Expr); !parentIsExpr {
					return stack[i]
				}
			}
		}
	}
	return stack[len(stack)-1]
}

var _ = strings.HasPrefix
