package main

import (
	"sort"
	"go/ast"
	"go/types"
	"strings"
)

// C16 — formatter structural clauses.

func init() {
	register(&Rule{ID: "FMT.reject", Floor: 2,
		Doc: "Format and FormatFile parse with the format-preserving parser and, when the parse reports an error, return (nil, err) before any printing",
		Run: func(c *Ctx) []Obligation {
			var obs []Obligation
			pprog := c.LookupMethod("parser/rdparser.Parser.ParseProgram")
			nf := c.LookupPkgFunc("parser/rdparser.NewFormatting")
			// the text entry points: exported functions of the formatter that take source bytes and
			// return (bytes, error).  Format and FormatFile must be among them.
			entries := map[string]bool{}
			var names []string
			for _, eu := range c.Funcs(func(p string) bool { return rel(p) == "formatter" }) {
				sig := eu.Obj.Type().(*types.Signature)
				if !eu.Obj.Exported() || sig.Recv() != nil || sig.Results().Len() != 2 || sig.Params().Len() == 0 {
					continue
				}
				if sig.Params().At(0).Type().String() != "[]byte" || sig.Results().At(0).Type().String() != "[]byte" || sig.Results().At(1).Type().String() != "error" {
					continue
				}
				entries[FuncName(eu.Obj)] = true
				names = append(names, FuncName(eu.Obj))
			}
			for _, must := range []string{"formatter.Format", "formatter.FormatFile"} {
				if !entries[must] {
					entries[must] = true
					names = append(names, must)
				}
			}
			sort.Strings(names)
			np := c.LookupPkgFunc("formatter.newPrinter")
			// parse wrappers: functions of the package that parse once with the format-preserving parser,
			// hand the parse error back as their last result on its non-nil edge, and never print
			parseWrapper := func(h *types.Func) bool {
				hd := c.declOf[h]
				if hd == nil || hd.Body == nil || pprog == nil || nf == nil || (np != nil && c.reaches(h, np)) {
					return false
				}
				hu := FuncUnit{h, hd, c.pkgOf[hd]}
				hinfo := hu.Pkg.TypesInfo
				hfc := c.cfgOf(hu, nil)
				calls := hfc.findCalls(pprog)
				sig := h.Type().(*types.Signature)
				if len(calls) != 1 || len(hfc.findCalls(nf)) == 0 || sig.Results().Len() < 2 || sig.Results().At(sig.Results().Len()-1).Type().String() != "error" {
					return false
				}
				as, _ := hfc.Node(calls[0].Loc).(*ast.AssignStmt)
				if as == nil || len(as.Lhs) != 2 {
					return false
				}
				errObj := identObj(hinfo, as.Lhs[1])
				if errObj == nil {
					return false
				}
				for _, e := range hfc.nilEdges(errObj, false) {
					succ := e.B.Succs[e.K]
					if len(succ.Nodes) > 0 {
						if rs, ok := succ.Nodes[0].(*ast.ReturnStmt); ok && len(rs.Results) == sig.Results().Len() && identObj(hinfo, rs.Results[len(rs.Results)-1]) == errObj {
							return true
						}
					}
				}
				return false
			}
			var rejects func(fn *types.Func, depth int) (string, string, ast.Node)
			rejects = func(fn *types.Func, depth int) (string, string, ast.Node) {
				fd := c.declOf[fn]
				if fd == nil || fd.Body == nil || depth > 3 {
					return Violated, "does not parse exactly once with rdparser.NewFormatting(...).ParseProgram()", nil
				}
				u := FuncUnit{fn, fd, c.pkgOf[fd]}
				info := u.Pkg.TypesInfo
				fc := c.cfgOf(u, nil)
				calls := fc.findCalls(pprog)
				usesNF := len(fc.findCalls(nf)) > 0
				// the parse may be made by a parse wrapper of the package
				viaWrapper := false
				if len(calls) == 0 {
					for _, b := range fc.G.Blocks {
						if !fc.Live(b) {
							continue
						}
						for i, n := range b.Nodes {
							for _, ce := range callsIn(n, false) {
								if h := originOf(Callee(info, ce)); h != nil && h.Pkg() == fn.Pkg() && parseWrapper(h) {
									calls = append(calls, locatedCall{ce, h, Loc{b, i}})
									viaWrapper, usesNF = true, true
								}
							}
						}
					}
				}
				if len(calls) == 0 {
					// hands the text to another function of the package that rejects, on every path
					deleg, nret := true, 0
					ast.Inspect(fd.Body, func(n ast.Node) bool {
						if _, ok := n.(*ast.FuncLit); ok {
							return false
						}
						if rs, ok := n.(*ast.ReturnStmt); ok {
							nret++
							ok2 := false
							if len(rs.Results) == 1 {
								if ce, ok := ast.Unparen(rs.Results[0]).(*ast.CallExpr); ok {
									if h := originOf(Callee(info, ce)); h != nil && h != fn && h.Pkg() == fn.Pkg() {
										if v, _, _ := rejects(h, depth+1); v == Proved {
											ok2 = true
										}
									}
								}
							}
							if !ok2 {
								deleg = false
							}
						}
						return true
					})
					if deleg && nret > 0 {
						return Proved, "every return delegates to a function of the formatter that returns (nil, err) for rejected text before any printing", fd
					}
				}
				if len(calls) != 1 || !usesNF {
					return Violated, "does not parse exactly once with rdparser.NewFormatting(...).ParseProgram()", fd
				}
				as, _ := fc.Node(calls[0].Loc).(*ast.AssignStmt)
				var errObj types.Object
				if as != nil && len(as.Lhs) >= 2 && (viaWrapper || len(as.Lhs) == 2) {
					errObj = identObj(info, as.Lhs[len(as.Lhs)-1])
				}
				okRet := false
				if errObj != nil {
					for _, e := range fc.nilEdges(errObj, false) {
						succ := e.B.Succs[e.K]
						if len(succ.Nodes) > 0 {
							if rs, ok := succ.Nodes[0].(*ast.ReturnStmt); ok && len(rs.Results) == 2 && isNilIdent(info, rs.Results[0]) && identObj(info, rs.Results[1]) == errObj {
								okRet = true
							}
						}
					}
				}
				// nothing is printed before the error test: newPrinter is reachable only via the err == nil edge
				guarded := true
				if np != nil && errObj != nil {
					nilEdges := fc.nilEdges(errObj, true)
					for _, b := range fc.G.Blocks {
						if !fc.Live(b) {
							continue
						}
						for _, nd := range b.Nodes {
							prints := c.nodeCallsVia(info, nd, np) != nil
							for _, ce := range callsIn(nd, false) {
								if h := originOf(Callee(info, ce)); h != nil && h.Pkg() == fn.Pkg() && c.reaches(h, np) {
									prints = true
								}
							}
							if prints && (len(nilEdges) == 0 || fc.reachableAvoiding(b, nilEdges)) {
								guarded = false
							}
						}
					}
				}
				if okRet && guarded {
					return Proved, "`return nil, err` on the error edge; the printer is created only on the err == nil edge", calls[0].Call
				}
				return Violated, "text the reader rejects can still produce formatter output", calls[0].Call
			}
			for _, fname := range names {
				fn, fd, pkg := c.LookupFunc(fname)
				if fn == nil || pprog == nil || nf == nil {
					obs = append(obs, anchorMissing("FMT.reject", fname))
					continue
				}
				u := FuncUnit{fn, fd, pkg}
				v, why, at := rejects(fn, 0)
				if at == nil {
					at = fd
				}
				construct := "rejected input produces no output"
				if v != Proved && strings.HasPrefix(why, "does not parse") {
					construct = "parse"
				}
				obs = append(obs, mkOb(c, "FMT.reject", u, construct, at, v, why, true))
			}
			return obs
		}})

	register(&Rule{ID: "FMT.meta-consumed", Floor: 8,
		Doc: "every field of the formatting metadata record that the format-preserving parser writes is read by the formatter's printer (a recorded comment, blank line, bracket kind or literal spelling cannot be silently dropped)",
		Run: func(c *Ctx) []Obligation {
			metaT := c.LookupType("internal/fmtmeta.Meta")
			if metaT == nil {
				return []Obligation{anchorMissing("FMT.meta-consumed", "fmtmeta.Meta")}
			}
			st := metaT.Underlying().(*types.Struct)
			written := map[*types.Var]bool{}
			for _, w := range c.censusFor(func(p string) bool { return rel(p) == "parser/rdparser" }).Writes {
				if w.Kind == "through" {
					continue
				}
				written[w.Field] = true
			}
			readIn := map[*types.Var]bool{}
			for _, u := range c.Funcs(func(p string) bool { return rel(p) == "formatter" }) {
				info := u.Pkg.TypesInfo
				ast.Inspect(u.Decl.Body, func(n ast.Node) bool {
					if se, ok := n.(*ast.SelectorExpr); ok {
						if f := FieldOfSelector(info, se); f != nil {
							readIn[f] = true
						}
					}
					return true
				})
			}
			var obs []Obligation
			for i := 0; i < st.NumFields(); i++ {
				f := st.Field(i)
				if !written[f] {
					continue
				}
				o := Obligation{Rule: "FMT.meta-consumed", Func: "internal/fmtmeta.Meta", Construct: "field " + f.Name(), Pos: c.Pos(f.Pos())}
				if readIn[f] {
					o.Verdict, o.Detail = Proved, "written by rdparser, read by formatter"
				} else {
					o.Verdict, o.Detail, o.Nontrivial = Violated, "the parser records "+f.Name()+" but the formatter never reads it: that piece of the source (comment, spacing, spelling) is dropped on formatting", true
				}
				obs = append(obs, o)
			}
			return obs
		}})

	register(&Rule{ID: "FMT.comment-writers", Floor: 3,
		Doc: "in the printer, every early return of a comment-writing function is taken only when there is nothing to write or comment stripping is configured (len(...) == 0, nil, StripComments): comments are never skipped for another reason",
		Run: func(c *Ctx) []Obligation {
			var obs []Obligation
			strip := c.LookupField("formatter.Config.StripComments")
			for _, u := range c.Funcs(func(p string) bool { return rel(p) == "formatter" }) {
				// a comment writer is a function that writes the text of a token: it hands
				// `<token>.Text` to a call (whatever the function is called)
				info := u.Pkg.TypesInfo
				textFld := c.LookupField("parser/token.Token.Text")
				writesText := false
				for _, ce := range callsIn(u.Decl.Body, false) {
					for _, a := range ce.Args {
						if textFld != nil && FieldOfSelector(info, a) == textFld {
							writesText = true
						}
					}
				}
				if !writesText {
					continue
				}
				ord := &ordinal{}
				// top-level `if cond { return }` statements
				for _, st := range u.Decl.Body.List {
					is, ok := st.(*ast.IfStmt)
					if !ok || len(is.Body.List) != 1 {
						continue
					}
					if _, isRet := is.Body.List[0].(*ast.ReturnStmt); !isRet {
						continue
					}
					okCond := true
					ast.Inspect(is.Cond, func(n ast.Node) bool {
						switch x := n.(type) {
						case *ast.BinaryExpr:
							if x.Op.String() == "||" || x.Op.String() == "&&" {
								return true
							}
							// len(x) == 0, x == nil, n == 0
							s := types.ExprString(x)
							if !(strings.Contains(s, "len(") || strings.Contains(s, "nil") || strings.HasSuffix(s, "== 0")) {
								okCond = false
							}
							return false
						case *ast.SelectorExpr:
							if FieldOfSelector(info, x) != strip && strip != nil {
								// a bare boolean field other than StripComments
								if tv, ok := info.Types[x]; ok && tv.Type.String() == "bool" {
									okCond = false
								}
							}
							return false
						case *ast.UnaryExpr, *ast.ParenExpr:
							return true
						case *ast.Ident:
							if tv, ok := info.Types[x]; ok && tv.Type.String() == "bool" && x.Name != "true" && x.Name != "false" {
								okCond = false
							}
						}
						return true
					})
					construct := ord.next("early return on " + types.ExprString(is.Cond))
					if okCond {
						obs = append(obs, mkOb(c, "FMT.comment-writers", u, construct, is, Proved, "returns early only on nothing-to-write / StripComments", false))
					} else {
						obs = append(obs, mkOb(c, "FMT.comment-writers", u, construct, is, Violated, "a comment writer returns early for a reason other than `nothing to write` or StripComments: comments can be dropped", true))
					}
				}
			}
			return obs
		}})
}
