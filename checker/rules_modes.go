package main

import (
	"fmt"
	"sort"
	"go/ast"
	"go/token"
	"go/types"
	"strings"
)

// C12 (mode agreement) and C16 (formatter) structural clauses.

func init() {
	register(&Rule{ID: "MODE.format-effects", Floor: 15,
		Doc: "in the parser every statement that runs only in format-preserving mode (inside `if p.preserveFormat`, or after a leading `if !p.preserveFormat { return }`) has confined effects: it may write formatting metadata, the pending-comment buffer and locals, and call fmtraw / ignoreComments / other format-only helpers — never consume a non-comment token, build a node, report an error or return a different result; the only strict-mode-only effect is sealing",
		Run: func(c *Ctx) []Obligation {
			pf := c.LookupField("parser/rdparser.Parser.preserveFormat")
			pend := c.LookupField("parser/rdparser.Parser.pendingComments")
			metaT := c.LookupType("internal/fmtmeta.Meta")
			if pf == nil || pend == nil {
				return []Obligation{anchorMissing("MODE.format-effects", "Parser.preserveFormat / pendingComments")}
			}
			units := c.Funcs(func(p string) bool { return rel(p) == "parser/rdparser" })
			mentionsPF := func(info *types.Info, e ast.Expr, wantPositive bool) bool {
				// does the condition's TRUE edge imply preserveFormat == wantPositive ?
				for _, a := range impliedAtoms(e, true) {
					if FieldOfSelector(info, a.E) == pf && a.Positive == wantPositive {
						return true
					}
				}
				return false
			}
			falseImplies := func(info *types.Info, e ast.Expr, wantPositive bool) bool {
				for _, a := range impliedAtoms(e, false) {
					if FieldOfSelector(info, a.E) == pf && a.Positive == wantPositive {
						return true
					}
				}
				return false
			}
			// format-only helper functions: first statement is `if !p.preserveFormat ... { return }`
			formatOnly := map[*types.Func]bool{}
			for _, u := range units {
				if len(u.Decl.Body.List) == 0 {
					continue
				}
				is, ok := u.Decl.Body.List[0].(*ast.IfStmt)
				if !ok || is.Else != nil || len(is.Body.List) != 1 {
					// allow a leading `m := fmtraw.Meta(v)` before the guard
					if len(u.Decl.Body.List) > 1 {
						if _, isAs := u.Decl.Body.List[0].(*ast.AssignStmt); isAs {
							is, ok = u.Decl.Body.List[1].(*ast.IfStmt)
						}
					}
				}
				if !ok || is == nil || is.Else != nil || len(is.Body.List) != 1 {
					continue
				}
				if _, isRet := is.Body.List[0].(*ast.ReturnStmt); !isRet {
					continue
				}
				if falseImplies(u.Pkg.TypesInfo, is.Cond, true) {
					formatOnly[u.Obj] = true
				}
			}
			ignoreComments := c.LookupMethod("parser/rdparser.Parser.ignoreComments")
			var obs []Obligation
			checkRegion := func(u FuncUnit, stmts []ast.Stmt, what string, ord *ordinal, voidFn bool) {
				info := u.Pkg.TypesInfo
				for _, st := range stmts {
					ast.Inspect(st, func(n ast.Node) bool {
						switch x := n.(type) {
						case *ast.FuncLit:
							return false
						case *ast.ReturnStmt:
							if !voidFn && len(x.Results) > 0 {
								obs = append(obs, mkOb(c, "MODE.format-effects", u, ord.next(what+": return"), x, Violated, "a format-only region returns a value: the parse result would depend on the reader mode", true))
							}
						case *ast.CallExpr:
							if tv, ok := info.Types[x.Fun]; ok && tv.IsType() {
								return true
							}
							if id, ok := ast.Unparen(x.Fun).(*ast.Ident); ok {
								if _, isB := info.Uses[id].(*types.Builtin); isB {
									return true
								}
							}
							fn := originOf(Callee(info, x))
							name := "dynamic call"
							okCall := false
							// hook variables of internal/fmtraw (fmtraw.Meta, fmtraw.SetMeta) are function-typed package vars
							if se, ok := ast.Unparen(x.Fun).(*ast.SelectorExpr); ok && fn == nil {
								if v, ok := info.Uses[se.Sel].(*types.Var); ok && v.Pkg() != nil && strings.HasPrefix(rel(v.Pkg().Path()), "internal/fmt") {
									okCall = true
									name = rel(v.Pkg().Path()) + "." + v.Name()
								}
							}
							if fn != nil {
								name = FuncName(fn)
								pp := ""
								if fn.Pkg() != nil {
									pp = rel(fn.Pkg().Path())
								}
								switch {
								case pp == "internal/fmtraw" || pp == "internal/fmtmeta":
									okCall = true
								case fn == ignoreComments:
									okCall = true
								case formatOnly[fn]:
									okCall = true
								case c.pureScalarFn(fn, 0):
									// arithmetic on its operands (`blankLinesIn(newlines)`): touches nothing
									okCall = true
								}
							}
							construct := ord.next(what + ": call " + name)
							if okCall {
								obs = append(obs, mkOb(c, "MODE.format-effects", u, construct, x, Proved, "metadata-only callee", false))
							} else {
								obs = append(obs, mkOb(c, "MODE.format-effects", u, construct, x, Violated, "a format-only region calls "+name+": tokens consumed, nodes built or errors raised only in format-preserving mode make the readers disagree", true))
							}
						case *ast.AssignStmt:
							for _, l := range x.Lhs {
								l = ast.Unparen(l)
								if id, ok := l.(*ast.Ident); ok {
									_ = id
									continue // local
								}
								// p.pendingComments (and its elements)
								root := l
								for {
									switch r := root.(type) {
									case *ast.IndexExpr:
										root = ast.Unparen(r.X)
										continue
									case *ast.StarExpr:
										root = ast.Unparen(r.X)
										continue
									}
									break
								}
								okStore := false
								if se, ok := root.(*ast.SelectorExpr); ok {
									if FieldOfSelector(info, se) == pend {
										okStore = true
									}
									// field of a Meta value, or of a pending comment token reached through pendingComments
									if tv, ok := info.Types[se.X]; ok {
										t := tv.Type
										if p, isP := t.(*types.Pointer); isP {
											t = p.Elem()
										}
										if nt, isN := types.Unalias(t).(*types.Named); isN && metaT != nil && nt.Obj() == metaT.Obj() {
											okStore = true
										}
										if strings.HasSuffix(t.String(), "token.Token") {
											// only tokens held in the pending buffer
											found := false
											ast.Inspect(se.X, func(m ast.Node) bool {
												if s2, ok := m.(*ast.SelectorExpr); ok && FieldOfSelector(info, s2) == pend {
													found = true
												}
												return true
											})
											okStore = found
										}
									}
								}
								construct := ord.next(what + ": store " + types.ExprString(l))
								if okStore {
									obs = append(obs, mkOb(c, "MODE.format-effects", u, construct, x, Proved, "metadata / pending-comment store", false))
								} else {
									obs = append(obs, mkOb(c, "MODE.format-effects", u, construct, x, Violated, "a format-only region writes parser or node state other than formatting metadata", true))
								}
							}
						}
						return true
					})
				}
			}
			// helpers that exist only for format-preserving mode without testing the flag themselves:
			// unexported, never used as a value, and every call site lies in a format-only region
			// (an `if p.preserveFormat` body, or the body of a format-only helper).  Their whole
			// body is a format-only region; the value they return stays inside one.
			inferred := map[*types.Func]bool{}
			type span struct{ lo, hi token.Pos }
			regionSpans := func() []span {
				var out []span
				for _, u := range units {
					if formatOnly[u.Obj] || inferred[u.Obj] {
						out = append(out, span{u.Decl.Body.Pos(), u.Decl.Body.End()})
						continue
					}
					info := u.Pkg.TypesInfo
					ast.Inspect(u.Decl.Body, func(n ast.Node) bool {
						if is, ok := n.(*ast.IfStmt); ok && mentionsPF(info, is.Cond, true) {
							out = append(out, span{is.Body.Pos(), is.Body.End()})
						}
						return true
					})
				}
				return out
			}
			for changed := true; changed; {
				changed = false
				spans := regionSpans()
				for _, u := range units {
					if formatOnly[u.Obj] || inferred[u.Obj] || u.Obj.Exported() {
						continue
					}
					sites, refs := c.CallsTo(func(p string) bool { return true }, u.Obj)
					if len(sites) == 0 || len(refs) != 0 {
						continue
					}
					all := true
					for _, st := range sites {
						in := false
						for _, sp := range spans {
							if st.Call.Pos() >= sp.lo && st.Call.End() <= sp.hi {
								in = true
							}
						}
						if !in {
							all = false
						}
					}
					if all {
						inferred[u.Obj] = true
						formatOnly[u.Obj] = true
						changed = true
					}
				}
			}
			for _, u := range units {
				info := u.Pkg.TypesInfo
				ord := &ordinal{}
				voidFn := u.Obj.Type().(*types.Signature).Results().Len() == 0
				if inferred[u.Obj] {
					checkRegion(u, u.Decl.Body.List, "format-only helper", ord, true)
					continue
				}
				if formatOnly[u.Obj] {
					// whole body after the guard
					start := 1
					if _, isAs := u.Decl.Body.List[0].(*ast.AssignStmt); isAs {
						start = 2
					}
					checkRegion(u, u.Decl.Body.List[start:], "format-only helper", ord, voidFn)
					continue
				}
				ast.Inspect(u.Decl.Body, func(n ast.Node) bool {
					is, ok := n.(*ast.IfStmt)
					if !ok {
						return true
					}
					if mentionsPF(info, is.Cond, true) {
						checkRegion(u, is.Body.List, "if preserveFormat", ord, voidFn)
						return true
					}
					if mentionsPF(info, is.Cond, false) {
						// strict-mode-only region: only sealing is allowed
						for _, st := range is.Body.List {
							ast.Inspect(st, func(m ast.Node) bool {
								if ce, ok := m.(*ast.CallExpr); ok {
									fn := originOf(Callee(info, ce))
									construct := ord.next("if !preserveFormat: call")
									if fn != nil && FuncName(fn) == "lisp.(*LVal).SealAST" {
										obs = append(obs, mkOb(c, "MODE.format-effects", u, construct, ce, Proved, "strict-mode-only effect is sealing (does not change the tree's structure)", false))
									} else {
										obs = append(obs, mkOb(c, "MODE.format-effects", u, construct, ce, Violated, "a strict-mode-only region does something other than sealing", true))
									}
								}
								return true
							})
						}
					}
					return true
				})
			}
			// A second way to decide a function the region reading refuses: project it onto each mode
			// (prune every branch the flag decides) and compare what the two projections DO besides
			// formatting work — the calls that are not metadata-only, the stores to parser or node state,
			// the values returned — in source order.  `if !pf { AcceptType(COMMENT); return }` followed by
			// the format-mode twin that also calls AcceptType(COMMENT) is the same reader in both modes.
			neutralCall := func(info *types.Info, x *ast.CallExpr) bool {
				if tv, ok := info.Types[x.Fun]; ok && tv.IsType() {
					return true
				}
				if id, ok := ast.Unparen(x.Fun).(*ast.Ident); ok {
					if _, isB := info.Uses[id].(*types.Builtin); isB {
						return true
					}
				}
				fn := originOf(Callee(info, x))
				if fn == nil {
					if se, ok := ast.Unparen(x.Fun).(*ast.SelectorExpr); ok {
						if v, ok := info.Uses[se.Sel].(*types.Var); ok && v.Pkg() != nil && strings.HasPrefix(rel(v.Pkg().Path()), "internal/fmt") {
							return true
						}
					}
					return false
				}
				pp := ""
				if fn.Pkg() != nil {
					pp = rel(fn.Pkg().Path())
				}
				return pp == "internal/fmtraw" || pp == "internal/fmtmeta" || fn == ignoreComments || formatOnly[fn]
			}
			projection := func(u FuncUnit, mode bool) []string {
				info := u.Pkg.TypesInfo
				fc := c.cfgOf(u, nil)
				reach := fc.reachableUnder(func(e ast.Expr) int {
					if FieldOfSelector(info, e) == pf {
						if mode {
							return 1
						}
						return 0
					}
					return -1
				})
				type ent struct {
					pos token.Pos
					s   string
				}
				var ents []ent
				for b := range reach {
					for _, n := range b.Nodes {
						ast.Inspect(n, func(m ast.Node) bool {
							switch x := m.(type) {
							case *ast.FuncLit:
								return false
							case *ast.CallExpr:
								if !neutralCall(info, x) {
									ents = append(ents, ent{x.Pos(), "call " + exprShape(info, x)})
								}
							case *ast.ReturnStmt:
								for _, r := range x.Results {
									ents = append(ents, ent{x.Pos(), "return " + exprShape(info, r)})
								}
							case *ast.AssignStmt:
								for _, l := range x.Lhs {
									l = ast.Unparen(l)
									if _, isLocal := l.(*ast.Ident); isLocal {
										continue
									}
									sh := exprShape(info, l)
									if strings.Contains(sh, canonFieldName(pend)) || strings.Contains(sh, "Meta(") {
										continue
									}
									// a field of a local struct VALUE (`bang := *tok; bang.Text += …`): the
									// store changes the local copy only
									root := l
									direct := true
									for {
										if se, ok := ast.Unparen(root).(*ast.SelectorExpr); ok {
											if tv, ok := info.Types[se.X]; ok {
												if _, isP := tv.Type.Underlying().(*types.Pointer); isP {
													direct = false
												}
											}
											root = se.X
											continue
										}
										break
									}
									if id, ok := ast.Unparen(root).(*ast.Ident); ok && direct {
										if v, ok := info.Uses[id].(*types.Var); ok && !v.IsField() && v.Pkg() != nil && v.Parent() != v.Pkg().Scope() {
											if _, isStruct := v.Type().Underlying().(*types.Struct); isStruct {
												continue
											}
										}
									}
									// fields of a Meta value
									if se, ok := l.(*ast.SelectorExpr); ok {
										if tv, ok := info.Types[se.X]; ok {
											t := tv.Type
											if pt, isP := t.(*types.Pointer); isP {
												t = pt.Elem()
											}
											if nt, isN := types.Unalias(t).(*types.Named); isN && metaT != nil && nt.Obj() == metaT.Obj() {
												continue
											}
										}
									}
									ents = append(ents, ent{x.Pos(), "store " + sh})
								}
							}
							return true
						})
					}
				}
				sort.Slice(ents, func(i, j int) bool { return ents[i].pos < ents[j].pos })
				var out []string
				for _, e := range ents {
					out = append(out, e.s)
				}
				return out
			}
			badFns := map[string]FuncUnit{}
			for _, o := range obs {
				if o.Verdict != Proved {
					for _, u := range units {
						if u.Name() == o.Func {
							badFns[o.Func] = u
						}
					}
				}
			}
			for name, u := range badFns {
				a, b := projection(u, true), projection(u, false)
				if len(a) == 0 || strings.Join(a, "\n") != strings.Join(b, "\n") {
					continue
				}
				var kept []Obligation
				for _, o := range obs {
					if o.Func == name && o.Verdict != Proved {
						continue
					}
					kept = append(kept, o)
				}
				obs = append(kept, mkOb(c, "MODE.format-effects", u, "mode projections agree", u.Decl, Proved,
					fmt.Sprintf("pruned for each value of preserveFormat, the function makes the same %d non-formatting calls, stores and value returns in the same order", len(a)), true))
			}
			return obs
		}})

	register(&Rule{ID: "MODE.single-funnel", Floor: 4,
		Doc: "the strict, fault-tolerant and format-preserving drivers all read expressions through (*Parser).Parse -> ParseExpression; the format-preserving reader differs from the strict one only by constructing the parser with NewFormatting",
		Run: func(c *Ctx) []Obligation {
			parse := c.LookupMethod("parser/rdparser.Parser.Parse")
			pexpr := c.LookupMethod("parser/rdparser.Parser.ParseExpression")
			pprog := c.LookupMethod("parser/rdparser.Parser.ParseProgram")
			if parse == nil || pexpr == nil || pprog == nil {
				return []Obligation{anchorMissing("MODE.single-funnel", "Parser.Parse / ParseExpression / ParseProgram")}
			}
			var obs []Obligation
			must := func(fname string, callee *types.Func) {
				fn, fd, pkg := c.LookupFunc(fname)
				if fn == nil {
					obs = append(obs, anchorMissing("MODE.single-funnel", fname))
					return
				}
				u := FuncUnit{fn, fd, pkg}
				found := false
				for _, ce := range callsIn(fd.Body, false) {
					if originOf(Callee(pkg.TypesInfo, ce)) == callee {
						found = true
					}
				}
				if found {
					obs = append(obs, mkOb(c, "MODE.single-funnel", u, "reads through "+callee.Name(), fd, Proved, "calls "+FuncName(callee), false))
				} else {
					obs = append(obs, mkOb(c, "MODE.single-funnel", u, "reads through "+callee.Name(), fd, Violated, "this driver no longer reads expressions through "+FuncName(callee)+": the reader modes can accept different texts", true))
				}
			}
			must("parser/rdparser.(*Parser).ParseProgram", parse)
			must("parser/rdparser.(*Parser).ParseProgramFaultTolerant", parse)
			must("parser/rdparser.(*Parser).Parse", pexpr)
			must("parser.(*formattingReader).Read", pprog)
			must("parser.(*formattingReader).ReadLocation", pprog)
			return obs
		}})
}

var _ = token.NoPos
