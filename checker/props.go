package main

func init() {
	registerProp(PropSpec{ID: "C05",
		Rules: []string{"PAIR.frame", "PAIR.condition", "PAIR.nesting", "PAIR.package", "PAIR.load-package", "PAIR.evalctx", "PAIR.terminal-reset", "PAIR.loc"},
		Explanation: "per-evaluation runtime state (frames, condition stack, eval nesting, current package, evaluation context, terminal flag, location) is released/restored by a defer on every exit, including recovered panics",
		Assumptions: []string{"Go defers run on panic unwinding", "go/types + go/cfg model of the working tree"},
		ThoroughConfigs: []string{"elpscheck", "386"},
	})
}
