package main

func init() {
	registerProp(PropSpec{ID: "C05",
		Rules: []string{"PAIR.frame", "PAIR.condition", "COND.stack-shape", "CENSUS.Runtime.conditionStack", "CENSUS.CallStack.Frames", "CENSUS.Runtime.evalNesting", "CENSUS.Runtime.evalDepth", "PAIR.nesting", "PAIR.package", "PAIR.load-package", "PAIR.evalctx", "PAIR.terminal-reset", "PAIR.loc"},
		Explanation: "per-evaluation runtime state (frames, condition stack, eval nesting, current package, evaluation context, terminal flag, location) is released/restored by a defer on every exit, including recovered panics",
		Assumptions: []string{"Go defers run on panic unwinding", "go/types + go/cfg model of the working tree"},
		ThoroughConfigs: []string{"elpscheck"},
	})
	registerProp(PropSpec{ID: "C02",
		Rules: []string{"CENSUS.CallFrame.Terminal", "CENSUS.CallFrame.TROBlock", "CENSUS.CallStack.Frames", "CENSUS.CallFrame.HeightLogical", "CENSUS.CallFrame.TailIterations",
			"CALLERS.TerminalFID", "CALLERS.markTailRec", "CALLERS.decrementMarkTailRec", "CALLERS.extractMarkTailRec",
			"TRO.block-first", "TRO.blocked-never-terminal", "TRO.terminal-then-tail", "TRO.debugger-gate", "TRO.mark-consumed", "TRO.tail-forwarders", "TRO.scan-complete",
			"PAIR.terminal-reset", "PAIR.frame"},
		Explanation: "frame-accounting protocol of tail-call elimination: who may mark a frame terminal or blocked, that a terminal frame returns its evaluator call verbatim, that blocked frames are blocked before anything is evaluated and never return terminal expressions, that recognition is gated on Debugger==nil, and that the two call loops consume marks only after the limit checks",
		Assumptions: []string{"go/types + go/cfg model of the working tree", "static call resolution (dynamic calls through LBuiltin values are the registry, handled by the census of writers)"},
		ThoroughConfigs: []string{"elpscheck"},
	})
	registerProp(PropSpec{ID: "C03",
		Rules: []string{"REG.resolved", "REG.formals", "REG.arity", "REC.guarded", "GUARD.abandoned", "OVERFLOW.guard-arith", "ACC.domain"},
		Explanation: "panic classes of the interpreter decided per site",
		Assumptions: []string{"go/types + go/cfg model of the working tree"},
		ThoroughConfigs: []string{"elpscheck"},
	})
	registerProp(PropSpec{ID: "C04",
		Rules: []string{"ENTRY.begin-eval", "LIMIT.result-returned", "HEIGHT.push-check", "HEIGHT.check-chain", "HEIGHT.nesting-check", "LIMIT.poll-shape", "MACROEXP.bound", "READERS.Runtime.MaxMacroExpansionDepth", "READERS.Runtime.MaxAlloc", "READERS.Runtime.MaxEvalNesting", "READERS.Runtime.MaxSleep", "READERS.Runtime.maxSteps", "READERS.CallStack.MaxHeightPhysical", "READERS.CallStack.MaxHeightLogical", "READERS.CallStack.MaxTailIterations", "POLL.eval-cycles", "POLL.int-loops", "TRO.mark-consumed", "SLEEP.cap", "SLEEP.context", "SLEEP.only-here",
			"CENSUS.Runtime.steps", "CENSUS.Runtime.maxSteps", "CENSUS.Runtime.totalSteps", "CENSUS.Runtime.evalDepth", "CENSUS.Runtime.evalNesting", "CENSUS.CallStack.Frames",
			"PAIR.nesting", "PAIR.frame"},
		Explanation: "limit discipline as control-flow facts",
		Assumptions: []string{"go/types + go/cfg model of the working tree"},
		ThoroughConfigs: []string{"elpscheck"},
	})
	registerProp(PropSpec{ID: "C20",
		Rules: []string{"CONFINE.relative", "CONFINE.fs", "CONFINE.readers", "CONFINE.load-funnel"},
		Explanation: "value-flow recipe of root confinement",
		Assumptions: []string{"filepath.EvalSymlinks / os.ReadFile / io/fs semantics are trusted", "SSA model of the working tree"},
		ThoroughConfigs: []string{"windows", "elpscheck"},
	})
	registerProp(PropSpec{ID: "C06",
		Rules: []string{"CARVE.ignore-errors", "CARVE.handler-bind", "RETHROW.identity", "PANICMARK.shape", "PANICMARK.recover-wraps", "COND.stack-shape", "PAIR.condition",
			"CENSUS.CallStack.GoStack", "CENSUS.Runtime.conditionStack", "CALLERS.PushCondition", "CALLERS.PopCondition"},
		Explanation: "handler selection and the host-panic carve-out as control-flow facts",
		Assumptions: []string{"go/types + go/cfg model of the working tree"},
		ThoroughConfigs: []string{"elpscheck"},
	})
	registerProp(PropSpec{ID: "C01",
		Rules: []string{"ERR.same", "ERR.discarded", "BIND.fresh-scope", "CENSUS.LEnv.scope", "CENSUS.LEnv.parent", "PAIR.package", "PAIR.load-package", "PAIR.loc", "REG.resolved", "REG.formals", "REG.arity"},
		Explanation: "error discipline of the evaluator kernel",
		Assumptions: []string{"go/types + go/cfg model of the working tree"},
		ThoroughConfigs: []string{"elpscheck"},
	})
	registerProp(PropSpec{ID: "C15",
		Rules: []string{"SLEEP.cap", "SLEEP.context", "SLEEP.only-here"},
		Explanation: "sleep bounded by cap, deadline and cancellation",
		Assumptions: []string{"go/types + go/cfg model of the working tree", "Go time and context packages"},
		ThoroughConfigs: []string{"elpscheck"},
	})
	registerProp(PropSpec{ID: "C09",
		Rules: []string{"MUT.field", "MUT.elem", "MUT.grow", "MUT.view", "CENSUS.LVal.sealed"},
		Explanation: "write discipline over shared parsed programs",
		Assumptions: []string{"go/types + go/cfg model of the working tree"},
		ThoroughConfigs: []string{"elpscheck"},
	})
	registerProp(PropSpec{ID: "C11",
		Rules: []string{"MUT.mutators", "MUT.map", "VIEW.producers", "MAP.backing-fresh", "MUT.field", "MUT.elem", "MUT.grow", "MUT.view", "MAP.entries-sorted"},
		Explanation: "who may change a value in place",
		Assumptions: []string{"go/types + go/cfg + go/ssa model of the working tree"},
		ThoroughConfigs: []string{"elpscheck"},
	})
	registerProp(PropSpec{ID: "C08",
		Rules: []string{"PAIR.package", "PAIR.load-package", "CONST.guard", "PKG.keyword-refused", "PKG.use-all-exports", "PKG.new-uses-lang", "CENSUS.LEnv.scope", "CENSUS.Package.symbols", "ERR.discarded"},
		Explanation: "package switching, constants guard and complete imports",
		Assumptions: []string{"go/types + go/cfg model of the working tree"},
		ThoroughConfigs: []string{"elpscheck"},
	})
	registerProp(PropSpec{ID: "C07",
		Rules: []string{"GENSYM.format", "BIND.fresh-scope", "CALLERS.markMacExpand", "MACROEXP.bound", "MUT.view", "MUT.grow", "TRO.block-first"},
		Explanation: "macro call protocol and gensym naming",
		Assumptions: []string{"go/types + go/cfg model of the working tree"},
		ThoroughConfigs: []string{"elpscheck"},
	})
	registerProp(PropSpec{ID: "C10",
		Rules: []string{"DET.map-range", "DET.ptr-format", "MAP.entries-sorted", "MAP.backing-fresh", "STATE.package-vars", "SORT.total-order"},
		Explanation: "no observable value depends on map order, addresses or process-wide state",
		Assumptions: []string{"go/types model of the working tree", "fmt prints maps with sorted keys"},
		ThoroughConfigs: []string{"elpscheck"},
	})
	registerProp(PropSpec{ID: "C13",
		Rules: []string{"JSON.single-acceptance", "JSON.trailing-data", "JSON.syntax-mapped", "JSON.opts-forwarded", "JSON.encoder-table", "MAP.entries-sorted", "SORT.total-order", "REC.guarded", "DET.map-range"},
		Explanation: "encoder/decoder sibling agreement",
		Assumptions: []string{"go/types model of the working tree", "encoding/json semantics"},
		ThoroughConfigs: []string{"elpscheck"},
	})
}
