package main

import (
	"fmt"
	"go/ast"
	"go/token"
	"go/types"
	"sort"
	"strings"

	"golang.org/x/tools/go/cfg"
	"golang.org/x/tools/go/ssa"
)

// C11: which functions change a value they did not create.

var permittedMutators = map[string]string{
	"lisp.builtinAppendMutate":        "append! — documented: grows its vector argument in place",
	"lisp.appendMutateBytes":          "append-bytes! / append! on bytes — documented in-place growth",
	"lisp.builtinAppendBytesMutate":   "append-bytes! — documented",
	"lisp.builtinSortStable":          "stable-sort — documented: permutes its target (private copy when the target is a program literal)",
	"lisp.stampGuarded":               "macro-expansion metadata stamp on unsealed expansion output (not a lisp-visible change)",
	"lisp.(*LEnv).ErrorAssociate":     "stamps location/stack onto an in-flight error value that had none",
	"lisp.(*LVal).SetCallStack":       "error metadata",
	"lisp.(*LVal).SetSource":          "location metadata; no-op on sealed nodes",
	"lisp.(*Package).get":             "stamps the symbol's location on the fresh unbound-symbol error",
	"lisp.TextLoader":                 "stamps a location on a fresh parse error",
	"lisp.doUnquoteSExpr":             "location fix-up on the list it has just built",
	"lisp.decrementMarkTailRec":       "evaluator-internal mark",
	"lisp.(*LEnv).evalSExpr":          "decap of the per-call argument list",
	"lisp.(*formalsCopier).copy":      "initialises block-allocated copies",
	"lisp.init":                       "internal hooks (format metadata, test-only macro expansion records)",
	"lisp.Array":                      "fills the storage it allocated",
	"lisp.builtinSlice":               "copy-on-write arm writes a fresh slice",
	"lisp.sortedmap.Entries":          "Map.Entries contract: caller's buffer",
	"lisp.sortedmap.Keys":             "rewrites the list it just built",
	"lisp/lisplib/libjson.SortedMap.Entries":                  "Map.Entries contract: caller's buffer",
	"lisp/lisplib/libelpspath.storeCells":                     "elpspath in-place operations on caller-owned arrays (documented ! variants) and private copies",
	"lisp/lisplib/libelpspath.(*indexPath).setMutate":         "elpspath ?set! on vectors / private copies",
	"lisp/lisplib/libschema.markValidator":                    "construction-time tagging of a new validator function",
	"lisp/lisplib/libjson.(*Serializer).LoadWith":             "renames the condition of the fresh error it built",
	"lisp/lisplib/libjson.loadNumber":                         "renames the condition of the fresh error it built",
	"lisp.GetType":                                            "builds a fresh quoted symbol",
}

// bangImplementations: the declared functions registered as builtins ONLY under names that end in
// `!` — the language's own convention for operations that change their argument in place
// (docs/lang.md: assoc!, dissoc!, append!, append-bytes!).  A new in-place operation that follows
// the convention is a documented mutator by its name; the non-mutating twin is judged by
// NONMUT.result-not-argument and the MUT.* ownership rules as before.
func (c *Ctx) bangImplementations() map[string]string {
	if c.bangImpls != nil {
		return c.bangImpls
	}
	names := map[string][]string{}
	for _, e := range c.Registry() {
		if e.Fn == nil || e.Kind != "builtin" {
			continue
		}
		names[FuncName(originOf(e.Fn))] = append(names[FuncName(originOf(e.Fn))], e.Name)
	}
	out := map[string]string{}
	for fn, ns := range names {
		all := true
		for _, n := range ns {
			if !strings.HasSuffix(n, "!") {
				all = false
			}
		}
		if all {
			sort.Strings(ns)
			out[fn] = strings.Join(ns, ", ")
		}
	}
	c.bangImpls = out
	return out
}

func init() {
	register(&Rule{ID: "MUT.mutators", Floor: 8,
		Doc: "the functions that write, in place, storage of a value they did not allocate (justified by an unsealed/never-sealed test, or audited) are exactly the documented mutators and metadata stampers; every other builtin only writes storage it owns",
		Run: func(c *Ctx) []Obligation {
			var obs []Obligation
			for _, u := range c.Funcs(isKernel) {
				n := 0
				var first ast.Node
				var kinds []string
				for _, s := range c.ownSitesCached(u) {
					if s.inPlaceOnBorrowed() {
						n++
						if first == nil {
							first = s.node
						}
						kinds = append(kinds, s.construct)
					}
				}
				if n == 0 {
					continue
				}
				sort.Strings(kinds)
				if why, ok := permittedMutators[u.Name()]; ok {
					obs = append(obs, mkOb(c, "MUT.mutators", u, "writes storage it does not own", first, Proved, "documented in-place writer ("+strings.Join(kinds, ", ")+"): "+why, false))
				} else if via, ok := c.privateHelperOf(u.Obj, func(n string) bool { _, p := permittedMutators[n]; return p }, 0); ok {
					obs = append(obs, mkOb(c, "MUT.mutators", u, "writes storage it does not own", first, Proved, "private helper called only by the documented in-place writer "+via+" ("+strings.Join(kinds, ", ")+")", false))
				} else if bang, ok := c.bangImplementations()[u.Name()]; ok {
					obs = append(obs, mkOb(c, "MUT.mutators", u, "writes storage it does not own", first, Proved, "registered only as "+bang+": a name ending in `!` is the language's convention for an operation that changes its argument in place ("+strings.Join(kinds, ", ")+")", false))
				} else if via, ok := c.privateHelperOf(u.Obj, func(n string) bool { _, p := c.bangImplementations()[n]; return p }, 0); ok {
					obs = append(obs, mkOb(c, "MUT.mutators", u, "writes storage it does not own", first, Proved, "private helper of the `!` operation "+via, false))
				} else {
					obs = append(obs, mkOb(c, "MUT.mutators", u, "writes storage it does not own", first, Violated,
						"this function changes, in place, a value it did not create ("+strings.Join(kinds, ", ")+") and is not one of the documented mutating operations (assoc! dissoc! append! append-bytes! stable-sort, elpspath ! forms): a pre-existing value becomes visible changed through every reference to it", true))
				}
			}
			return obs
		}})

	register(&Rule{ID: "MUT.map", Floor: 6,
		Doc: "every Set/Del on a sorted map goes to a map the function has just created or copied (all SSA definitions of the receiver are constructor/copy results), except in the documented mutators assoc!, dissoc! and the elpspath ! forms",
		Run: func(c *Ctx) []Obligation {
			permitted := map[string]string{
				"lisp.builtinAssocMutate":  "assoc! — documented",
				"lisp.builtinDissocMutate": "dissoc! — documented",
				"lisp/lisplib/libelpspath.(*dotPath).SetMutate":    "elpspath ?set! on a map — documented in-place form (the non-mutating Set passes a private copy)",
				"lisp/lisplib/libelpspath.(*dotPath).DeleteMutate": "elpspath ?del! on a map — documented in-place form (the non-mutating Delete passes a private copy)",
				"lisp.(*LVal).MapSet":                              "exported embedder API that documents mutating its receiver; no function in this module calls it",
			}
			fresh := c.freshReturning()
			var obs []Obligation
			c.CallGraph()
			for fn := range ssaAllFuncs(c) {
				if fn.Pkg == nil || !isKernel(fn.Pkg.Pkg.Path()) || len(fn.Blocks) == 0 {
					continue
				}
				ord := &ordinal{}
				for _, b := range fn.Blocks {
					for _, ins := range b.Instrs {
						call, ok := ins.(ssa.CallInstruction)
						if !ok {
							continue
						}
						cc := call.Common()
						name := ""
						var recv ssa.Value
						if cc.IsInvoke() {
							name = cc.Method.Name()
							recv = cc.Value
							if ts := types.Unalias(cc.Value.Type()).String(); !strings.HasSuffix(ts, "lisp.Map") {
								continue
							}
						} else if callee := cc.StaticCallee(); callee != nil && len(cc.Args) > 0 {
							qn := SSAFuncName(callee)
							if qn != "lisp.(*MapData).Set" && qn != "lisp.(*MapData).Del" && qn != "lisp.sortedmap.Set" && qn != "lisp.sortedmap.Del" {
								continue
							}
							name = callee.Name()
							recv = cc.Args[0]
						} else {
							continue
						}
						if name != "Set" && name != "Del" {
							continue
						}
						fname := SSAFuncName(fn)
						// the implementations themselves
						if strings.HasPrefix(fname, "lisp.(*MapData).") || strings.HasPrefix(fname, "lisp.sortedmap.") {
							continue
						}
						construct := ord.next("call Map." + name)
						o := Obligation{Rule: "MUT.map", Func: fname, Construct: construct, Pos: c.Pos(ins.Pos()), Nontrivial: true}
						if why, ok := permitted[fname]; ok {
							o.Verdict, o.Detail = Proved, "documented mutator: "+why
							obs = append(obs, o)
							continue
						}
						if bang, ok := c.bangImplementations()[fname]; ok {
							o.Verdict, o.Detail = Proved, "registered only as "+bang+": a name ending in `!` documents an in-place operation"
							obs = append(obs, o)
							continue
						}
						if via, ok := c.servesPermitted(fname, func(n string) bool {
							_, p := permitted[n]
							_, b := c.bangImplementations()[n]
							return p || b
						}); ok {
							o.Verdict, o.Detail = Proved, "private helper of the documented mutator "+via
							obs = append(obs, o)
							continue
						}
						if ssaMapIsFresh(recv, fresh, 0, map[ssa.Value]bool{}) {
							o.Verdict, o.Detail = Proved, "receiver is, on every path, a map this function created or copied"
						} else {
							o.Verdict, o.Detail = Violated, "Set/Del on a sorted map that may be the caller's own value, in a function that is not a documented mutator: a non-mutating operation would change a pre-existing map through every reference"
						}
						obs = append(obs, o)
					}
				}
			}
			sort.Slice(obs, func(i, j int) bool { return obs[i].Key() < obs[j].Key() })
			return obs
		}})

	register(&Rule{ID: "MAP.entries-sorted", Floor: 2,
		Doc: "every implementation of lisp.Map.Entries sorts the buffer it filled (sort.Sort/sort.Slice/slices.Sort*) on every path to a non-error return; map enumeration order never depends on Go map iteration",
		Run: func(c *Ctx) []Obligation {
			mapI := c.Pkg("lisp").Types.Scope().Lookup("Map")
			if mapI == nil {
				return []Obligation{anchorMissing("MAP.entries-sorted", "lisp.Map")}
			}
			iface, ok := mapI.Type().Underlying().(*types.Interface)
			if !ok {
				return []Obligation{anchorMissing("MAP.entries-sorted", "lisp.Map interface")}
			}
			var obs []Obligation
			for _, u := range c.Funcs(nil) {
				if u.Obj.Name() != "Entries" {
					continue
				}
				sig := u.Obj.Type().(*types.Signature)
				if sig.Recv() == nil {
					continue
				}
				rt := sig.Recv().Type()
				if !types.Implements(rt, iface) && !types.Implements(types.NewPointer(rt), iface) {
					continue
				}
				info := u.Pkg.TypesInfo
				fc := c.cfgOf(u, nil)
				// a sorting call: sort.S* / slices.S*, or a helper of the module every path of which makes one
				// (`sortEntriesByKey(entries)` with `sort.Sort(entriesByKeyName(entries))` inside)
				var sortsAlways func(fn *types.Func, depth int) bool
				sortsAlways = func(fn *types.Func, depth int) bool {
					if fn == nil {
						return false
					}
					if fn.Pkg() != nil && (fn.Pkg().Path() == "sort" || fn.Pkg().Path() == "slices") && strings.HasPrefix(fn.Name(), "S") {
						return true
					}
					hd := c.declOf[originOf(fn)]
					if hd == nil || hd.Body == nil || depth > 2 {
						return false
					}
					hu := FuncUnit{originOf(fn), hd, c.pkgOf[hd]}
					hfc := c.cfgOf(hu, nil)
					hinfo := hu.Pkg.TypesInfo
					through := hfc.blocksWith(func(n ast.Node) bool {
						for _, ce := range callsIn(n, false) {
							if sortsAlways(Callee(hinfo, ce), depth+1) {
								return true
							}
						}
						return false
					})
					return len(through) > 0 && !hfc.exitReachableAvoiding(through, nil)
				}
				sorts := fc.blocksWith(func(n ast.Node) bool {
					for _, ce := range callsIn(n, false) {
						if sortsAlways(Callee(info, ce), 0) {
							return true
						}
					}
					return false
				})
				// ranges over a Go map?
				rangesMap := false
				ast.Inspect(u.Decl.Body, func(n ast.Node) bool {
					if rs, ok := n.(*ast.RangeStmt); ok {
						if tv, ok := info.Types[rs.X]; ok {
							if _, isMap := tv.Type.Underlying().(*types.Map); isMap {
								rangesMap = true
							}
						}
					}
					return true
				})
				if !rangesMap {
					obs = append(obs, mkOb(c, "MAP.entries-sorted", u, "Entries", u.Decl, Proved, "does not iterate a Go map", false))
					continue
				}
				// every success return reachable from the loop over the Go map must pass the sort
				var loopBlocks []*cfg.Block
				for _, b := range fc.G.Blocks {
					if !fc.Live(b) {
						continue
					}
					if rs, ok := b.Stmt.(*ast.RangeStmt); ok && b.Kind == cfg.KindRangeLoop {
						if tv, ok := info.Types[rs.X]; ok {
							if _, isMap := tv.Type.Underlying().(*types.Map); isMap {
								loopBlocks = append(loopBlocks, b)
							}
						}
					}
				}
				bad := len(loopBlocks) == 0
				for _, lb := range loopBlocks {
					for _, b := range fc.G.Blocks {
						if !fc.Live(b) || sorts[b] {
							continue
						}
						for _, n := range b.Nodes {
							rs, ok := n.(*ast.ReturnStmt)
							if !ok || len(rs.Results) != 1 {
								continue
							}
							if ce, ok := ast.Unparen(rs.Results[0]).(*ast.CallExpr); ok {
								if fn := Callee(info, ce); fn != nil && strings.HasPrefix(fn.Name(), "Error") {
									continue
								}
							}
							if fc.reachableFromAvoidingBlocks(lb, b, sorts) {
								bad = true
							}
						}
					}
				}
				if len(sorts) > 0 && !bad {
					obs = append(obs, mkOb(c, "MAP.entries-sorted", u, "Entries", u.Decl, Proved, "the buffer filled from the Go map is sorted on every path to a success return", true))
				} else {
					obs = append(obs, mkOb(c, "MAP.entries-sorted", u, "Entries", u.Decl, Violated, "entries collected by ranging a Go map can be returned unsorted: enumeration order would vary from run to run", true))
				}
			}
			return obs
		}})
}

// ssaMapIsFresh: the *LVal / Map value is, on every path, the result of a
// fresh-returning constructor or of copying.
// ssaResultFreshMap: callee is a function of this module with a body, and the
// idx-th operand of every one of its returns is nil or a fresh map value.
var ssaResultFreshMemo = map[string]int{}

func ssaResultFreshMap(callee *ssa.Function, idx int, fresh map[*types.Func]bool, depth int) bool {
	if callee == nil || len(callee.Blocks) == 0 || depth > 6 || callee.Pkg == nil || !strings.HasPrefix(callee.Pkg.Pkg.Path(), modPath) {
		return false
	}
	key := fmt.Sprintf("%p:%d", callee, idx)
	if v, ok := ssaResultFreshMemo[key]; ok {
		return v == 1
	}
	ssaResultFreshMemo[key] = 0
	nret := 0
	for _, b := range callee.Blocks {
		for _, ins := range b.Instrs {
			ret, ok := ins.(*ssa.Return)
			if !ok {
				continue
			}
			nret++
			if idx >= len(ret.Results) {
				return false
			}
			r := ret.Results[idx]
			if c, isConst := r.(*ssa.Const); isConst && c.IsNil() {
				continue
			}
			if !ssaMapIsFresh(r, fresh, depth+1, map[ssa.Value]bool{}) {
				return false
			}
		}
	}
	if nret == 0 {
		return false
	}
	ssaResultFreshMemo[key] = 1
	return true
}

func ssaMapIsFresh(v ssa.Value, fresh map[*types.Func]bool, depth int, seen map[ssa.Value]bool) bool {
	if v == nil || depth > 8 {
		return false
	}
	if seen[v] {
		return true
	}
	seen[v] = true
	switch x := v.(type) {
	case *ssa.Phi:
		for _, e := range x.Edges {
			if !ssaMapIsFresh(e, fresh, depth+1, seen) {
				return false
			}
		}
		return true
	case *ssa.Call:
		callee := x.Call.StaticCallee()
		if callee == nil {
			return false
		}
		if obj, ok := callee.Object().(*types.Func); ok && fresh[originOf(obj)] {
			return true
		}
		switch SSAFuncName(callee) {
		case "lisp.(*LVal).Map", "lisp.(*MapData).Map":
			if len(x.Call.Args) > 0 {
				return ssaMapIsFresh(x.Call.Args[0], fresh, depth+1, seen)
			}
		case "lisp.newmap", "lisp.(*LVal).copyMapData", "lisp.SortedMap", "lisp.SortedMapFromData":
			return true
		}
		if callee.Signature.Results().Len() == 1 && ssaResultFreshMap(callee, 0, fresh, depth+1) {
			return true
		}
		return false
	case *ssa.Extract:
		// k-th result of a helper of this module: fresh when every return of the helper
		// gives nil or a map it created / copied in that position (mapCopyForUpdate)
		if call, ok := x.Tuple.(*ssa.Call); ok {
			if callee := call.Call.StaticCallee(); callee != nil && ssaResultFreshMap(callee, x.Index, fresh, depth+1) {
				return true
			}
		}
		return ssaMapIsFresh(x.Tuple, fresh, depth+1, seen)
	case *ssa.MakeInterface:
		return ssaMapIsFresh(x.X, fresh, depth+1, seen)
	case *ssa.ChangeInterface:
		return ssaMapIsFresh(x.X, fresh, depth+1, seen)
	case *ssa.UnOp:
		if x.Op == token.MUL {
			// load of a field/local: fresh if it is the field of a freshly allocated struct
			if fa, ok := x.X.(*ssa.FieldAddr); ok {
				return ssaMapIsFresh(fa.X, fresh, depth+1, seen)
			}
			if al, ok := x.X.(*ssa.Alloc); ok {
				// local variable spilled to memory: all stores must be fresh
				okAll := true
				n := 0
				if al.Referrers() != nil {
					for _, r := range *al.Referrers() {
						if st, ok := r.(*ssa.Store); ok && st.Addr == ssa.Value(al) {
							n++
							if !ssaMapIsFresh(st.Val, fresh, depth+1, seen) {
								okAll = false
							}
						}
					}
				}
				return okAll && n > 0
			}
		}
		return false
	case *ssa.Alloc:
		return true
	case *ssa.MakeMap:
		return true
	}
	return false
}

func init() {
	register(&Rule{ID: "VIEW.producers", Floor: 3,
		Doc: "a list/vector header over the cells of a value the function does not own (a view that shares element slots with a pre-existing value) is built only by the documented view producers slice, cdr, rest and the elpspath range query, by the binder's &rest window, or by audited transient argument lists; every other operation returns storage of its own",
		Run: func(c *Ctx) []Obligation {
			permitted := map[string]string{
				"lisp.builtinSlice":             "slice — documented view",
				"lisp.builtinCDR":               "cdr — documented view",
				"lisp.builtinRest":              "rest — documented view",
				"lisp.(*LEnv).bindFormalNext":   "&rest window onto the call's own argument list",
				"lisp.(*LEnv).bind":             "function body list handed to call()",
				"lisp.opCond":                   "transient body list handed to opProgn",
				"lisp.divInt":                   "transient argument list handed to divFloat",
				"lisp.mulInt":                   "transient argument list handed to mulFloat",
				"lisp.Array":                    "constructor (callers are the sites)",
				"lisp.Value":                    "embedder conversion helper",
				"lisp.(*LVal).goValueNode":      "embedder conversion (GoValue), transient list for goSlice",
				"lisp/lisplib/libelpspath.(*rangePath).Get": "elpspath range query — documented O(1) view, clamped and seal-inheriting",
			}
			var obs []Obligation
			for _, u := range c.Funcs(isKernel) {
				a := newOwnAnalysis(c, u)
				for _, s := range c.ownSitesCached(u) {
					if s.rule != "MUT.view" {
						continue
					}
					if strings.Contains(s.detail, "constructor wrapper") {
						continue
					}
					// owned cells are not views of a pre-existing value
					if s.sliceArg == nil {
						continue
					}
					p := a.sliceProvOf(s.sliceArg, 0)
					owned := !p.unknown
					for _, x := range p.owners {
						if k := a.lvalKind(x, 0); k != ownFresh && k != ownArgs {
							owned = false
						}
					}
					if owned {
						continue
					}
					// append(clampCap(borrowed), more...) reallocates when `more` is non-empty
					if a.appendReallocates(c, u, s.sliceArg, s.node) {
						continue
					}
					if why, ok := permitted[u.Name()]; ok {
						obs = append(obs, mkOb(c, "VIEW.producers", u, s.construct, s.node, Proved, "documented view producer: "+why, false))
					} else if via, ok := c.privateHelperOf(u.Obj, func(n string) bool { _, p := permitted[n]; return p }, 0); ok {
						obs = append(obs, mkOb(c, "VIEW.producers", u, s.construct, s.node, Proved, "private helper of the documented view producer "+via, false))
					} else {
						obs = append(obs, mkOb(c, "VIEW.producers", u, s.construct, s.node, Violated,
							"the result shares element slots with a value that existed before the call, in an operation that is not a documented view producer: a later in-place operation on either value (stable-sort) changes the other", true))
					}
				}
			}
			return obs
		}})
}

// appendReallocates: e is append(X, more...) with X capacity-clamped, at a
// site dominated by an edge implying len(more) != 0 — the result is then a
// new array, not a view.
func (a *ownAnalysis) appendReallocates(c *Ctx, u FuncUnit, e ast.Expr, site ast.Node) bool {
	ce, ok := ast.Unparen(e).(*ast.CallExpr)
	if !ok || len(ce.Args) != 2 || !ce.Ellipsis.IsValid() {
		return false
	}
	id, ok := ast.Unparen(ce.Fun).(*ast.Ident)
	if !ok || id.Name != "append" {
		return false
	}
	p := a.sliceProvOf(ce.Args[0], 0)
	if !p.clamped || p.unknown {
		return false
	}
	more := identObj(a.info, ce.Args[1])
	if more == nil {
		return false
	}
	fc := c.cfgOf(u, nil)
	loc, found := fc.Locate(site)
	if !found {
		return false
	}
	nonEmpty := fc.edgesImplying(func(at LitAtom) bool {
		be, ok := ast.Unparen(at.E).(*ast.BinaryExpr)
		if !ok {
			return false
		}
		lc, ok := ast.Unparen(be.X).(*ast.CallExpr)
		if !ok || len(lc.Args) != 1 || identObj(a.info, lc.Args[0]) != more {
			return false
		}
		if lid, ok := ast.Unparen(lc.Fun).(*ast.Ident); !ok || lid.Name != "len" {
			return false
		}
		k, okc := intConst(a.info, be.Y)
		if !okc || k != 0 {
			return false
		}
		switch be.Op {
		case token.EQL:
			return !at.Positive
		case token.NEQ, token.GTR:
			return at.Positive
		}
		return false
	})
	return len(nonEmpty) > 0 && !fc.reachableAvoiding(loc.B, nonEmpty)
}

func init() {
	register(&Rule{ID: "MAP.backing-fresh", Floor: 1,
		Doc: "a sorted map's backing (lisp.sortedmap: the value table and the key-spelling table) is only ever built with both tables freshly made: no copy or clone shares a table between two maps",
		Run: func(c *Ctx) []Obligation {
			sm := c.LookupType("lisp.sortedmap")
			if sm == nil {
				return []Obligation{anchorMissing("MAP.backing-fresh", "lisp.sortedmap")}
			}
			var obs []Obligation
			for _, u := range c.Funcs(nil) {
				info := u.Pkg.TypesInfo
				ord := &ordinal{}
				ast.Inspect(u.Decl.Body, func(n ast.Node) bool {
					cl, ok := n.(*ast.CompositeLit)
					if !ok {
						return true
					}
					tv, ok := info.Types[cl]
					if !ok {
						return true
					}
					nt, ok := types.Unalias(tv.Type).(*types.Named)
					if !ok || nt.Obj() != sm.Obj() {
						return true
					}
					construct := ord.next("sortedmap literal")
					allFresh := len(cl.Elts) == 2
					for _, el := range cl.Elts {
						v := el
						if kv, ok := el.(*ast.KeyValueExpr); ok {
							v = kv.Value
						}
						ce, ok := ast.Unparen(v).(*ast.CallExpr)
						if !ok {
							allFresh = false
							continue
						}
						// make(...) or maps.Clone(...): a table of its own either way
						if id, ok := ast.Unparen(ce.Fun).(*ast.Ident); ok && id.Name == "make" {
							continue
						}
						if stdFuncCalled(info, ce, "maps", "Clone") {
							continue
						}
						allFresh = false
					}
					if allFresh {
						obs = append(obs, mkOb(c, "MAP.backing-fresh", u, construct, cl, Proved, "both tables are made fresh", false))
					} else {
						obs = append(obs, mkOb(c, "MAP.backing-fresh", u, construct, cl, Violated, "a sorted-map backing is assembled from existing tables: two maps would share a mutable table, so changing one (assoc, key spelling) shows through the other", true))
					}
					return true
				})
				// field stores m.m = / m.tm =
				for _, w := range c.censusFor(nil).Writes {
					_ = w
				}
			}
			// stores to the two fields: only fresh tables
			for _, fname := range []string{"lisp.sortedmap.m", "lisp.sortedmap.tm"} {
				if f := c.LookupField(fname); f != nil {
					for _, w := range c.censusFor(nil).WritersOf(f) {
						if w.Kind != "assign" {
							continue
						}
						isMake := false
						if ce, ok := ast.Unparen(w.RHS).(*ast.CallExpr); ok {
							if id, ok := ast.Unparen(ce.Fun).(*ast.Ident); ok && id.Name == "make" {
								isMake = true
							}
							if stdFuncCalled(w.Unit.Pkg.TypesInfo, ce, "maps", "Clone") {
								isMake = true
							}
						}
						if isMake {
							obs = append(obs, mkOb(c, "MAP.backing-fresh", w.Unit, "store "+fname, w.Node, Proved, "table replaced by a freshly made one", false))
						} else {
							obs = append(obs, mkOb(c, "MAP.backing-fresh", w.Unit, "store "+fname, w.Node, Violated, "a sorted map's table is replaced by an existing table", true))
						}
					}
				}
			}
			// struct copies of a sortedmap value share both tables
			for _, u := range c.Funcs(nil) {
				info := u.Pkg.TypesInfo
				ord := &ordinal{}
				ast.Inspect(u.Decl.Body, func(n ast.Node) bool {
					as, ok := n.(*ast.AssignStmt)
					if !ok || len(as.Lhs) != len(as.Rhs) {
						return true
					}
					for i, r := range as.Rhs {
						tv, ok := info.Types[r]
						if !ok {
							continue
						}
						nt, ok := types.Unalias(tv.Type).(*types.Named)
						if !ok || nt.Obj() != sm.Obj() {
							continue
						}
						if _, isLit := ast.Unparen(r).(*ast.CompositeLit); isLit {
							continue
						}
						if ce, ok := ast.Unparen(r).(*ast.CallExpr); ok {
							if fn := Callee(info, ce); fn != nil && FuncName(originOf(fn)) == "lisp.newmap" {
								continue
							}
						}
						if _, isTA := ast.Unparen(r).(*ast.TypeAssertExpr); isTA {
							continue // reading the backing out of the interface, not making a second map
						}
						_ = i
						obs = append(obs, mkOb(c, "MAP.backing-fresh", u, ord.next("copy of a sortedmap value"), as, Violated,
							"copies a sortedmap struct: the copy shares both tables with the original (assoc / key-spelling changes on one map show through the other)", true))
					}
					return true
				})
			}
			return obs
		}})
}

// MAP.found-is-presence — C11 ("sorted maps behave as a finite map") / C14 (the
// key constraints of a schema ask `is the key there`): the second result of a
// map lookup says whether the key is PRESENT.  A key bound to () is present.
// The flag may depend on the map's own storage (the Go comma-ok, or the
// looked-up pointer being non-nil) and on nothing about the value found.
func init() {
	register(&Rule{ID: "MAP.found-is-presence", Floor: 2,
		Doc: "in the Get method of every implementation of lisp.Map (the kernel's sorted map and the one JSON decoding produces) the `found` result is decided by presence only: a `return <value>, true` is guarded only by presence tests — the element looked up in the backing Go map is non-nil, or the comma-ok of that lookup — and a computed found result is itself such a test; nothing that inspects the VALUE (IsNil, Type, length) takes part: key?, get-default, the schema key constraints and no-other-keys see a key whose value is () as present",
		Run: func(c *Ctx) []Obligation {
			const rid = "MAP.found-is-presence"
			lp := c.Pkg("lisp")
			if lp == nil {
				return []Obligation{anchorMissing(rid, "package lisp")}
			}
			mapIface, _ := lp.Types.Scope().Lookup("Map").Type().Underlying().(*types.Interface)
			if mapIface == nil {
				return []Obligation{anchorMissing(rid, "lisp.Map")}
			}
			var obs []Obligation
			n := 0
			for _, u := range c.Funcs(func(p string) bool { return true }) {
				if u.Decl == nil || u.Decl.Recv == nil || u.Decl.Body == nil || u.Obj.Name() != "Get" {
					continue
				}
				rt := u.Obj.Type().(*types.Signature).Recv().Type()
				if !types.Implements(rt, mapIface) && !types.Implements(types.NewPointer(rt), mapIface) {
					continue
				}
				n++
				fd := u.Decl
				info := u.Pkg.TypesInfo
				ord := &ordinal{}
				// atoms of a presence test: X != nil / X == nil, or a bool local that is the
				// comma-ok of a map lookup; anything else inspects the value
				var badAtom func(e ast.Expr) string
				badAtom = func(e ast.Expr) string {
					e = ast.Unparen(e)
					switch x := e.(type) {
					case *ast.UnaryExpr:
						if x.Op == token.NOT {
							return badAtom(x.X)
						}
					case *ast.BinaryExpr:
						if x.Op == token.LAND || x.Op == token.LOR {
							if b := badAtom(x.X); b != "" {
								return b
							}
							return badAtom(x.Y)
						}
						if x.Op == token.NEQ || x.Op == token.EQL {
							tx, okx := info.Types[x.X]
							ty, oky := info.Types[x.Y]
							if okx && oky && (tx.IsNil() || ty.IsNil()) {
								return ""
							}
						}
					case *ast.Ident:
						if bt, ok := info.TypeOf(x).Underlying().(*types.Basic); ok && bt.Kind() == types.Bool {
							if tv, ok := info.Types[x]; ok && tv.Value != nil {
								return "" // true / false
							}
							// a comma-ok local
							okDef := false
							if o := identObj(info, x); o != nil {
								ast.Inspect(fd.Body, func(m ast.Node) bool {
									if as, ok := m.(*ast.AssignStmt); ok && len(as.Lhs) == 2 && len(as.Rhs) == 1 && identObj(info, as.Lhs[1]) == o {
										if ix, ok := ast.Unparen(as.Rhs[0]).(*ast.IndexExpr); ok {
											if _, isMap := info.TypeOf(ix.X).Underlying().(*types.Map); isMap {
												okDef = true
											}
										}
									}
									return true
								})
							}
							if okDef {
								return ""
							}
						}
					}
					return types.ExprString(e)
				}
				var stack []ast.Node
				ast.Inspect(fd.Body, func(nd ast.Node) bool {
					if nd == nil {
						stack = stack[:len(stack)-1]
						return true
					}
					stack = append(stack, nd)
					rs, ok := nd.(*ast.ReturnStmt)
					if !ok || len(rs.Results) != 2 {
						return true
					}
					// `return x, false` is judged like `return x, true`: absence, too, is decided by
					// the backing storage only (a `found` withdrawn because the value is () is the same defect)
					cname := "return found"
					if isBoolConst(info, rs.Results[1], false) {
						cname = "return not found"
					}
					construct := ord.next(cname)
					bad := ""
					if !isBoolConst(info, rs.Results[1], true) && !isBoolConst(info, rs.Results[1], false) {
						bad = badAtom(rs.Results[1])
					}
					for _, anc := range stack {
						if is, ok := anc.(*ast.IfStmt); ok && bad == "" {
							// an enclosing test of the key's type is not a test of the value
							keyTest := false
							if fd.Type.Params != nil && len(fd.Type.Params.List) > 0 && len(fd.Type.Params.List[0].Names) > 0 {
								key := info.Defs[fd.Type.Params.List[0].Names[0]]
								mentionsOnlyKey := true
								ast.Inspect(is.Cond, func(m ast.Node) bool {
									if id, ok := m.(*ast.Ident); ok {
										if v, ok := info.Uses[id].(*types.Var); ok && !v.IsField() && v != key {
											mentionsOnlyKey = false
										}
									}
									return true
								})
								keyTest = mentionsOnlyKey
							}
							if !keyTest {
								bad = badAtom(is.Cond)
							}
						}
					}
					if bad != "" {
						obs = append(obs, mkOb(c, rid, u, construct, rs, Violated, "whether the key is reported as found depends on `"+bad+"`, a property of the value stored under it: a key bound to () (or whatever the test excludes) reads as absent, so s:has-key fails on a map that has the key, s:no-other-keys and s:may-have-key pass maps they should judge, and lisp-built and JSON-decoded maps disagree", true))
					} else {
						obs = append(obs, mkOb(c, rid, u, construct, rs, Proved, "decided by presence in the backing map only", true))
					}
					return true
				})
			}
			if n == 0 {
				obs = append(obs, anchorMissing(rid, "a Get method of a lisp.Map implementation"))
			}
			return obs
		}})
}

// MAP.key-types-agree — C11 ("sorted maps identify a key by its name whether
// given as string or symbol"): the language has one sorted-map type and two
// implementations behind it — the kernel's own and the one JSON decoding
// produces.  Programs cannot tell which one they hold, so Get, Set and Del of
// every implementation must accept the same key types.
func init() {
	register(&Rule{ID: "MAP.key-types-agree", Floor: 6,
		Doc: "every implementation of the lisp.Map interface in the module accepts, in each of Get, Set and Del, exactly the key types the kernel's own sorted map accepts there (today: string and symbol) — read from the type tests on the key parameter: a map decoded from JSON answers get, key?, assoc! and dissoc! for a symbol key as a map built with sorted-map does",
		Run: func(c *Ctx) []Obligation {
			const rid = "MAP.key-types-agree"
			lp := c.Pkg("lisp")
			if lp == nil {
				return []Obligation{anchorMissing(rid, "package lisp")}
			}
			mapIface, _ := lp.Types.Scope().Lookup("Map").Type().Underlying().(*types.Interface)
			if mapIface == nil {
				return []Obligation{anchorMissing(rid, "lisp.Map")}
			}
			// accepted key types of a method: constants compared with <key>.Type that do not lead to an error return
			// decided on the flow graph (typeflow.go): a key type K is accepted when, assuming the key's
			// Type is K, the method reaches code it does not reach for a type it never mentions, other
			// than a return that only refuses
			accepted := func(u FuncUnit) (map[string]bool, bool) {
				info := u.Pkg.TypesInfo
				if u.Decl.Type.Params == nil || len(u.Decl.Type.Params.List) == 0 || len(u.Decl.Type.Params.List[0].Names) == 0 {
					return nil, false
				}
				key := info.Defs[u.Decl.Type.Params.List[0].Names[0]]
				return c.acceptedTypes(u, key, func(info *types.Info, b *cfg.Block) bool {
					for _, n := range b.Nodes {
						if rs, ok := n.(*ast.ReturnStmt); ok {
							for _, r := range rs.Results {
								if c.isErrorValueCall(info, r, 0) {
									return true
								}
							}
						}
					}
					return false
				})
			}
			type impl struct {
				name    string
				methods map[string]FuncUnit
			}
			impls := map[string]*impl{}
			for _, u := range c.Funcs(func(p string) bool { return true }) {
				if u.Decl == nil || u.Decl.Recv == nil || u.Decl.Body == nil {
					continue
				}
				switch u.Obj.Name() {
				case "Get", "Set", "Del":
				default:
					continue
				}
				sig := u.Obj.Type().(*types.Signature)
				rt := sig.Recv().Type()
				if !types.Implements(rt, mapIface) && !types.Implements(types.NewPointer(rt), mapIface) {
					continue
				}
				tn := rt.String()
				if impls[tn] == nil {
					impls[tn] = &impl{name: tn, methods: map[string]FuncUnit{}}
				}
				impls[tn].methods[u.Obj.Name()] = u
			}
			var ref *impl
			for tn, im := range impls {
				if strings.HasSuffix(canonTypes(tn), "lisp.sortedmap") {
					ref = im
				}
			}
			if ref == nil {
				return []Obligation{anchorMissing(rid, "lisp.sortedmap (the reference implementation of lisp.Map)")}
			}
			var obs []Obligation
			for _, tn := range sortedKeys(impls) {
				im := impls[tn]
				for _, mn := range []string{"Get", "Set", "Del"} {
					u, ok := im.methods[mn]
					ru, rok := ref.methods[mn]
					if !ok || !rok {
						continue
					}
					want, wok := accepted(ru)
					got, gok := accepted(u)
					construct := mn + " key types"
					switch {
					case !wok || !gok:
						obs = append(obs, mkOb(c, rid, u, construct, u.Decl, Undecided, "the key-type test of this method (or of the reference) was not recognised", true))
					default:
						var missing, extra []string
						for k := range want {
							if !got[k] {
								missing = append(missing, k)
							}
						}
						for k := range got {
							if !want[k] {
								extra = append(extra, k)
							}
						}
						sort.Strings(missing)
						sort.Strings(extra)
						if len(missing)+len(extra) == 0 {
							obs = append(obs, mkOb(c, rid, u, construct, u.Decl, Proved, "accepts "+strings.Join(sortedKeys(got), ", ")+", as the kernel's sorted map does", im != ref))
						} else {
							obs = append(obs, mkOb(c, rid, u, construct, u.Decl, Violated, fmt.Sprintf("this implementation of lisp.Map accepts %v where the kernel's sorted map accepts %v: a map decoded from JSON refuses (get m 'k), (key? m 'k), (assoc! m 'k v) while the same calls work on a map built with sorted-map, and non-mutating assoc/dissoc (which rebuild through the kernel map) accept the symbol", sortedKeys(got), sortedKeys(want)), true))
						}
					}
				}
			}
			return obs
		}})
}
