package main

import (
	"go/ast"
	"go/constant"
	"go/token"
	"go/types"
)

// PRINT.quote-operand-on-record (C12, quote depth).
//
// The printer has two ways to show a quote mark: types that may evaluate to something else
// (symbols, lists, functions, errors) print one from their own `quoted` flag; the
// self-evaluating leaves (ints, floats, strings, bytes, maps, arrays) ignore that flag and
// print a mark only when the caller renders them "on the record".  An LQuote node stands for
// exactly one written quote, so the branch of the printer that handles LQuote must render
// whatever it finds underneath on the record — otherwise `''3` prints as `'3` and reads
// back one level short.  The rule is stated on the code that exists: every region that runs
// only for Type == LQuote (a case clause, an if body, the statements after a peeling loop,
// or a private helper called from such a region with the node) passes constant true for the
// on-the-record parameter of every printer call it makes.

func init() {
	register(&Rule{ID: "PRINT.quote-operand-on-record", Floor: 1,
		Doc: "in the printer, the code that handles an LQuote node renders what is underneath with the on-the-record flag set to constant true (directly, after a peeling loop, or in a private helper): self-evaluating literals print a quote mark only on the record, so anything else loses one level of a quote run in front of a number or string",
		Run: func(c *Ctx) []Obligation {
			const id = "PRINT.quote-operand-on-record"
			strFn, strFd, strPkg := c.LookupFunc("lisp.(*LVal).str")
			nestFn, nestFd, nestPkg := c.LookupFunc("lisp.(*LVal).strNested")
			lquote := c.LookupConst("lisp.LQuote")
			typFld := c.LookupField("lisp.LVal.Type")
			if strFn == nil || nestFn == nil || lquote == nil || typFld == nil {
				return []Obligation{anchorMissing(id, "lisp.(*LVal).str / strNested / LQuote / LVal.Type")}
			}
			// the printer family: methods/functions of package lisp whose first bool parameter is the
			// on-the-record flag — str, strNested and whatever forwards to them with a bool parameter
			recordParam := func(fn *types.Func) int {
				if fn == nil {
					return -1
				}
				fn = originOf(fn)
				if fn != strFn && fn != nestFn {
					return -1
				}
				sig := fn.Type().(*types.Signature)
				for i := 0; i < sig.Params().Len(); i++ {
					if b, ok := sig.Params().At(i).Type().Underlying().(*types.Basic); ok && b.Kind() == types.Bool {
						return i
					}
				}
				return -1
			}
			var obs []Obligation
			ord := &ordinal{}
			seenHelper := map[*types.Func]bool{}
			var judgeRegion func(u FuncUnit, stmts []ast.Stmt, depth int)
			judgeRegion = func(u FuncUnit, stmts []ast.Stmt, depth int) {
				info := u.Pkg.TypesInfo
				for _, s := range stmts {
					ast.Inspect(s, func(n ast.Node) bool {
						ce, ok := n.(*ast.CallExpr)
						if !ok {
							return true
						}
						fn := Callee(info, ce)
						if k := recordParam(fn); k >= 0 && k < len(ce.Args) {
							construct := ord.next("printer call under LQuote")
							tv := info.Types[ce.Args[k]]
							if tv.Value != nil && tv.Value.Kind() == constant.Bool && constant.BoolVal(tv.Value) {
								obs = append(obs, mkOb(c, id, u, construct, ce, Proved, "the operand of a quote node is rendered on the record", true))
							} else {
								obs = append(obs, mkOb(c, id, u, construct, ce, Violated, "the operand of a quote node is rendered with on-the-record = `"+types.ExprString(ce.Args[k])+"`: a number, string, bytes, map or array underneath prints no quote mark of its own, so one level of the quote run is lost", true))
							}
							return true
						}
						// private helper that receives an *LVal: its printer calls are judged too
						if fn != nil && depth > 0 {
							o := originOf(fn)
							if fd := c.declOf[o]; fd != nil && fd.Body != nil && o.Pkg() == strFn.Pkg() && !o.Exported() && o != strFn && o != nestFn && !seenHelper[o] {
								// only helpers that are handed the node (or its cells): those render for the quote
								takesVal := false
								sig := o.Type().(*types.Signature)
								for i := 0; i < sig.Params().Len(); i++ {
									if isLValPtr(c, sig.Params().At(i).Type()) {
										takesVal = true
									}
								}
								if takesVal && callsPrinter(c, fd, c.pkgOf[fd].TypesInfo, recordParam) {
									seenHelper[o] = true
									judgeRegion(FuncUnit{o, fd, c.pkgOf[fd]}, fd.Body.List, depth-1)
								}
							}
						}
						return true
					})
				}
			}
			isQuoteTest := func(info *types.Info, e ast.Expr) bool {
				be, ok := ast.Unparen(e).(*ast.BinaryExpr)
				if !ok || be.Op != token.EQL {
					return false
				}
				isT := func(x ast.Expr) bool {
					se, ok := ast.Unparen(x).(*ast.SelectorExpr)
					return ok && FieldOfSelector(info, se) == typFld
				}
				isQ := func(x ast.Expr) bool { return identObjOrSel(info, x) == lquote }
				return (isT(be.X) && isQ(be.Y)) || (isT(be.Y) && isQ(be.X))
			}
			regions := 0
			for _, u := range []FuncUnit{{strFn, strFd, strPkg}, {nestFn, nestFd, nestPkg}} {
				info := u.Pkg.TypesInfo
				var walk func(list []ast.Stmt)
				walk = func(list []ast.Stmt) {
					for i, s := range list {
						switch x := s.(type) {
						case *ast.ForStmt:
							if x.Cond != nil && isQuoteTest(info, x.Cond) {
								// a peeling loop: what follows it in this list renders the operand
								regions++
								judgeRegion(u, []ast.Stmt{x.Body}, 1)
								judgeRegion(u, list[i+1:], 1)
								return
							}
						case *ast.IfStmt:
							if isQuoteTest(info, x.Cond) {
								regions++
								judgeRegion(u, x.Body.List, 1)
							}
						}
						ast.Inspect(s, func(n ast.Node) bool {
							switch y := n.(type) {
							case *ast.CaseClause:
								for _, e := range y.List {
									if identObjOrSel(info, e) == lquote {
										regions++
										// a peeling loop inside the clause is part of the region
										judgeRegion(u, y.Body, 1)
										return false
									}
								}
							case *ast.BlockStmt:
								if n != s {
									walk(y.List)
									return false
								}
							}
							return true
						})
					}
				}
				walk(u.Decl.Body.List)
			}
			if regions == 0 {
				obs = append(obs, Obligation{Rule: id, Func: "lisp.(*LVal).strNested", Construct: "LQuote region", Pos: "-", Verdict: Undecided, Detail: "no code that handles Type == LQuote was found in the printer", Nontrivial: true})
			}
			return obs
		}})
}

func callsPrinter(c *Ctx, fd *ast.FuncDecl, info *types.Info, recordParam func(*types.Func) int) bool {
	hit := false
	ast.Inspect(fd.Body, func(n ast.Node) bool {
		if ce, ok := n.(*ast.CallExpr); ok {
			if recordParam(Callee(info, ce)) >= 0 {
				hit = true
			}
		}
		return !hit
	})
	return hit
}
