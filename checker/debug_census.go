package main

import (
	"fmt"
	"sort"
)

// debugCensus prints writers of the named fields (development aid).
func debugCensus(c *Ctx, fields []string) {
	cs := c.censusFor(nil)
	for _, fname := range fields {
		f := c.LookupField(fname)
		if f == nil {
			fmt.Println("??", fname)
			continue
		}
		m := map[string][]string{}
		for _, w := range cs.WritersOf(f) {
			m[w.Unit.Name()] = append(m[w.Unit.Name()], w.Kind+"@"+c.Pos(w.Node.Pos()))
		}
		fmt.Println("==", fname)
		ks := sortedKeys(m)
		sort.Strings(ks)
		for _, k := range ks {
			fmt.Println("   ", k, m[k])
		}
	}
}
