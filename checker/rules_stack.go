package main

import (
	"go/ast"
	"go/token"
	"go/types"
)

// STACK.no-overwrite — C06 ("rethrow signals the same condition, data and
// stack trace"; host panics are never contained) and C18 ("errors carry the
// active calls"): the call stack recorded on an error is written once, where
// the error is raised.  An error that is PROPAGATING — the result of an
// evaluation — already carries the trace of the place it came from and, for a
// recovered host panic, the Go-stack marker that keeps handlers from
// containing it.  Stamping a new stack over it replaces the trace and drops
// the marker.  Structural half: a SetCallStack on a value that came out of the
// evaluator is reached only over an edge that shows the value has no stack yet.
func init() {
	register(&Rule{ID: "STACK.no-overwrite", Floor: 5,
		Doc: "every X.SetCallStack(…) whose receiver is the result of an evaluating call (a function that reaches the evaluator funnels, or a dynamic call) — or a parameter some caller fills with such a result — is reached only over an edge entailing X.CallStack() == nil: an error in flight keeps the trace and the host-panic marker it was raised with; only errors built by non-evaluating constructors (env.Lambda, Map.Get, lisp.Errorf) are stamped unconditionally",
		Run: func(c *Ctx) []Obligation {
			const rid = "STACK.no-overwrite"
			set := c.LookupMethod("lisp.LVal.SetCallStack")
			get := c.LookupMethod("lisp.LVal.CallStack")
			evalM := c.LookupMethod("lisp.LEnv.eval")
			callM := c.LookupMethod("lisp.LEnv.call")
			if set == nil || get == nil || evalM == nil || callM == nil {
				return []Obligation{anchorMissing(rid, "LVal.SetCallStack / LVal.CallStack / LEnv.eval / LEnv.call")}
			}
			inMod := func(p string) bool { return true }
			evaluating := c.staticReach(inMod, evalM)
			for f := range c.staticReach(inMod, callM) {
				evaluating[f] = true
			}
			evaluating[evalM], evaluating[callM] = true, true
			sites, _ := c.CallsTo(inMod, set)
			var obs []Obligation
			ords := map[*types.Func]*ordinal{}
			// exprEvaluating: may e be the result of an evaluation?
			var exprEvaluating func(info *types.Info, body ast.Node, e ast.Expr, depth int) (bool, string)
			exprEvaluating = func(info *types.Info, body ast.Node, e ast.Expr, depth int) (bool, string) {
				e = ast.Unparen(e)
				switch x := e.(type) {
				case *ast.CallExpr:
					f := originOf(Callee(info, x))
					if f == nil {
						if _, isConv := info.Types[x.Fun]; isConv && info.Types[x.Fun].IsType() {
							return false, ""
						}
						return true, "dynamic call " + types.ExprString(x.Fun)
					}
					if evaluating[f] {
						return true, "result of " + FuncName(f)
					}
					return false, ""
				case *ast.Ident:
					o := identObj(info, x)
					if o == nil || depth > 4 {
						return false, ""
					}
					found, why := false, ""
					ast.Inspect(body, func(n ast.Node) bool {
						as, ok := n.(*ast.AssignStmt)
						if !ok {
							return true
						}
						for i, l := range as.Lhs {
							if identObj(info, l) != o {
								continue
							}
							r := as.Rhs[0]
							if len(as.Rhs) == len(as.Lhs) {
								r = as.Rhs[i]
							}
							if ev, w := exprEvaluating(info, body, r, depth+1); ev {
								found, why = true, w
							}
						}
						return true
					})
					return found, why
				}
				return false, ""
			}
			for _, s := range sites {
				u := s.Unit
				if u.Decl == nil {
					continue
				}
				info := u.Pkg.TypesInfo
				se, ok := ast.Unparen(s.Call.Fun).(*ast.SelectorExpr)
				if !ok {
					continue
				}
				X := identObj(info, se.X)
				if ords[u.Obj] == nil {
					ords[u.Obj] = &ordinal{}
				}
				construct := ords[u.Obj].next(types.ExprString(se.X) + ".SetCallStack")
				if X == nil {
					obs = append(obs, mkOb(c, rid, u, construct, s.Call, Undecided, "receiver is not a local or parameter", true))
					continue
				}
				propagating, why := exprEvaluating(info, u.Decl.Body, se.X, 0)
				// parameter: look at what callers pass
				isParam := false
				for i, p := range paramObjs(u) {
					if p != X {
						continue
					}
					isParam = true
					callers, _ := c.CallsTo(inMod, u.Obj)
					for _, cs := range callers {
						if i >= len(cs.Call.Args) || cs.Unit.Decl == nil {
							continue
						}
						if ev, w := exprEvaluating(cs.Unit.Pkg.TypesInfo, cs.Unit.Decl.Body, cs.Call.Args[i], 0); ev {
							propagating, why = true, "caller "+cs.Unit.Name()+" passes the "+w
						}
					}
					if u.Obj.Exported() || len(callers) == 0 {
						propagating, why = true, "parameter of a function with unknown callers"
					}
				}
				if !propagating {
					detail := "the receiver is built by a non-evaluating constructor: it cannot be an error in flight"
					if isParam {
						detail = "no caller passes the result of an evaluation"
					}
					obs = append(obs, mkOb(c, rid, u, construct, s.Call, Proved, detail, false))
					continue
				}
				fc := c.cfgOf(u, s.Lit)
				cls := func(e ast.Expr) (string, bool) {
					be, ok := ast.Unparen(e).(*ast.BinaryExpr)
					if !ok || be.Op != token.EQL && be.Op != token.NEQ {
						return "", false
					}
					isGet := func(a ast.Expr) bool {
						ce, ok := ast.Unparen(a).(*ast.CallExpr)
						if !ok || originOf(Callee(info, ce)) != get {
							return false
						}
						gs, ok := ast.Unparen(ce.Fun).(*ast.SelectorExpr)
						return ok && identObj(info, gs.X) == X
					}
					isNil := func(a ast.Expr) bool {
						tv, ok := info.Types[a]
						return ok && tv.IsNil()
					}
					if isGet(be.X) && isNil(be.Y) || isGet(be.Y) && isNil(be.X) {
						return "nostack", be.Op == token.NEQ
					}
					return "", false
				}
				cut := fc.edgesEntailing(cls, func(v map[string]bool) bool { return v["$has:nostack"] && v["nostack"] })
				loc, ok := fc.Locate(s.Call)
				switch {
				case !ok:
					obs = append(obs, mkOb(c, rid, u, construct, s.Call, Undecided, "call not located in the CFG", true))
				case fc.reachableAvoiding(loc.B, cut):
					obs = append(obs, mkOb(c, rid, u, construct, s.Call, Violated, "the receiver may be an error in flight ("+why+") and is stamped without a test that it has no stack yet: the trace of the place the error was raised is replaced by this call site, and for a recovered host panic the Go-stack marker is lost, so ignore-errors and a `condition` handler contain a failure of the embedding program", true))
				default:
					obs = append(obs, mkOb(c, rid, u, construct, s.Call, Proved, "reached only when "+types.ExprString(se.X)+".CallStack() == nil ("+why+")", true))
				}
			}
			return obs
		}})
}
