package main

import (
	"sort"
	"golang.org/x/tools/go/cfg"
	"strings"
	"fmt"
	"go/ast"
	"go/token"
	"go/types"
)

// Rules written after round 6 of seeded changes.

// isLoadSourceCall: a call of SourceLibrary.LoadSource (the interface method or any
// implementation): four results (name, trueloc string, data []byte, err error).
func isLoadSourceCall(info *types.Info, ce *ast.CallExpr) bool {
	fn := originOf(Callee(info, ce))
	if fn == nil || fn.Name() != "LoadSource" {
		return false
	}
	sig, ok := fn.Type().(*types.Signature)
	if !ok || sig.Recv() == nil || sig.Results().Len() != 4 {
		return false
	}
	isString := func(t types.Type) bool {
		b, ok := t.Underlying().(*types.Basic)
		return ok && b.Kind() == types.String
	}
	return isString(sig.Results().At(0).Type()) && isString(sig.Results().At(1).Type())
}

// loadSourceLike: fn is a function of the module that obtains (location, data) from a LoadSource call — or from
// another such function — and returns both: every return that hands back the data variable at result
// index di hands back the location variable at index li.
func (c *Ctx) loadSourceLike(fn *types.Func, depth int) (li, di int, ok bool) {
	fd := c.declOf[fn]
	if fd == nil || fd.Body == nil || depth > 2 {
		return 0, 0, false
	}
	info := c.pkgOf[fd].TypesInfo
	var locObj, dataObj types.Object
	ast.Inspect(fd.Body, func(n ast.Node) bool {
		as, isAs := n.(*ast.AssignStmt)
		if !isAs || len(as.Rhs) != 1 || len(as.Lhs) < 3 {
			return true
		}
		ce, isCall := ast.Unparen(as.Rhs[0]).(*ast.CallExpr)
		if !isCall {
			return true
		}
		l, d, like := 1, 2, isLoadSourceCall(info, ce)
		if !like {
			if h := originOf(Callee(info, ce)); h != nil && h != fn {
				l, d, like = c.loadSourceLike(h, depth+1)
			}
		}
		if like && l < len(as.Lhs) && d < len(as.Lhs) {
			locObj, dataObj = identObj(info, as.Lhs[l]), identObj(info, as.Lhs[d])
		}
		return true
	})
	if locObj == nil || dataObj == nil {
		return 0, 0, false
	}
	li, di = -1, -1
	good := true
	ast.Inspect(fd.Body, func(n ast.Node) bool {
		if _, isLit := n.(*ast.FuncLit); isLit {
			return false
		}
		rs, isRet := n.(*ast.ReturnStmt)
		if !isRet {
			return true
		}
		d, l := -1, -1
		for i, r := range rs.Results {
			if o := identObj(info, r); o != nil {
				if o == dataObj {
					d = i
				}
				if o == locObj {
					l = i
				}
			}
		}
		if d < 0 {
			return true
		}
		if l < 0 || (di >= 0 && (di != d || li != l)) {
			good = false
			return true
		}
		li, di = l, d
		return true
	})
	if !good || di < 0 {
		return 0, 0, false
	}
	return li, di, true
}

func init() {
	register(&Rule{ID: "CONFINE.location-consumed", Floor: 2,
		Doc: "wherever the interpreter asks its source library for a file and goes on to evaluate the bytes (a LoadSource call whose data result is used), the location the loaded forms are stamped with is the library's OWN report of what it read — the call's second result, bound to a variable that reaches the loading call unchanged — never the location string the caller supplied: nested relative load-file calls resolve against the directory of the file that was actually read (a confined library reports the resolved path it checked), so a symlinked or re-spelled location cannot make them resolve somewhere else",
		Run: func(c *Ctx) []Obligation {
			var obs []Obligation
			for _, u := range c.Funcs(func(p string) bool { return isKernel(p) }) {
				info := u.Pkg.TypesInfo
				ord := &ordinal{}
				ast.Inspect(u.Decl.Body, func(n ast.Node) bool {
					as, ok := n.(*ast.AssignStmt)
					if !ok || len(as.Rhs) != 1 || len(as.Lhs) < 3 {
						return true
					}
					ce, ok := ast.Unparen(as.Rhs[0]).(*ast.CallExpr)
					if !ok {
						return true
					}
					li, di, like := 1, 2, isLoadSourceCall(info, ce)
					if !like {
						// a wrapper of the module that hands back what a LoadSource call reported
						if h := originOf(Callee(info, ce)); h != nil {
							li, di, like = c.loadSourceLike(h, 0)
						}
					}
					if !like || li >= len(as.Lhs) || di >= len(as.Lhs) {
						return true
					}
					construct := ord.next("LoadSource result")
					dataObj := identObj(info, as.Lhs[di])
					if id, ok := as.Lhs[di].(*ast.Ident); ok && id.Name == "_" {
						dataObj = nil
					}
					if dataObj == nil {
						obs = append(obs, mkOb(c, "CONFINE.location-consumed", u, construct, as, Proved, "the data result is not used: nothing is loaded from this call", false))
						return true
					}
					// the function is itself such a wrapper: it returns the data together with the location, and
					// the obligation is owed where its result is used
					if wl, wd, isW := c.loadSourceLike(u.Obj, 0); isW {
						obs = append(obs, mkOb(c, "CONFINE.location-consumed", u, construct, as, Proved,
							fmt.Sprintf("hands the library's data (result %d) back together with the location the library reported (result %d); judged at its callers", wd, wl), true))
						return true
					}
					locID, _ := as.Lhs[li].(*ast.Ident)
					if locID == nil || locID.Name == "_" {
						obs = append(obs, mkOb(c, "CONFINE.location-consumed", u, construct, as, Violated,
							"the library's report of the location it read (second result) is discarded while the bytes are loaded: the forms are stamped with some other location, and relative load-file calls inside them resolve against a directory the library never checked", true))
						return true
					}
					locObj := identObj(info, locID)
					// the loading call: a later call in this function one of whose arguments mentions the data
					var loader *ast.CallExpr
					ast.Inspect(u.Decl.Body, func(m ast.Node) bool {
						c2, ok := m.(*ast.CallExpr)
						if !ok || c2.Pos() <= as.End() || loader != nil {
							return true
						}
						if tv, ok := info.Types[c2.Fun]; ok && tv.IsType() {
							return true
						}
						fn := originOf(Callee(info, c2))
						if fn == nil || fn.Pkg() == nil || !isKernel(fn.Pkg().Path()) {
							return true
						}
						for _, a := range c2.Args {
							uses := false
							ast.Inspect(a, func(k ast.Node) bool {
								if id, ok := k.(*ast.Ident); ok && info.Uses[id] == dataObj {
									uses = true
								}
								return true
							})
							if uses {
								loader = c2
							}
						}
						return true
					})
					if loader == nil {
						obs = append(obs, mkOb(c, "CONFINE.location-consumed", u, construct, as, Undecided, "the data result is used but no call of the interpreter receives it: cannot find where the bytes are loaded", true))
						return true
					}
					passes := false
					for _, a := range loader.Args {
						if id, ok := ast.Unparen(a).(*ast.Ident); ok && info.Uses[id] == locObj {
							passes = true
						}
					}
					reassigned := false
					ast.Inspect(u.Decl.Body, func(m ast.Node) bool {
						a2, ok := m.(*ast.AssignStmt)
						if !ok || a2 == as || a2.Pos() < as.End() || a2.Pos() > loader.Pos() {
							return true
						}
						for _, l := range a2.Lhs {
							if identObj(info, l) == locObj {
								reassigned = true
							}
						}
						return true
					})
					switch {
					case !passes:
						obs = append(obs, mkOb(c, "CONFINE.location-consumed", u, construct, as, Violated,
							fmt.Sprintf("the loading call %s does not receive the variable bound to the library's reported location (%s)", types.ExprString(loader.Fun), locID.Name), true))
					case reassigned:
						obs = append(obs, mkOb(c, "CONFINE.location-consumed", u, construct, as, Violated,
							fmt.Sprintf("%s is assigned again between the LoadSource call and the loading call: what reaches the loader is not the library's report", locID.Name), true))
					default:
						obs = append(obs, mkOb(c, "CONFINE.location-consumed", u, construct, as, Proved,
							fmt.Sprintf("%s receives %s, the library's reported location, unchanged", types.ExprString(loader.Fun), locID.Name), true))
					}
					return true
				})
			}
			return obs
		}})
}

var _ = token.NoPos

// JSON.keys-through-string-encoder — an object member name is a JSON string whatever the lisp key
// was: the function that encodes a map's keys (the callee that receives `<entry>.Cells[0]` inside the
// encoder function that writes '{') reaches, in the static call graph of the package, no function
// that writes to the output other than the string encoder and its private helpers.  A key routed
// through a VALUE encoder inherits that encoder's exceptions — the symbol encoder writes the symbols
// true and false as bare literals, which is not a member name any JSON reader accepts.
func init() {
	register(&Rule{ID: "JSON.keys-through-string-encoder", Floor: 1,
		Doc: "in the JSON encoder the function that encodes the keys of a map (the callee that receives <entry>.Cells[0] inside the encoder method that writes '{') reaches, through the package's static calls, no function that writes to the output buffer except encodeString and helpers only encodeString calls: a member name is always a quoted, escaped JSON string, never what a value encoder would write for the same lisp value (the symbol encoder writes true/false bare: {true:1} is not JSON)",
		Run: func(c *Ctx) []Obligation {
			cellsFld := c.LookupField("lisp.LVal.Cells")
			if c.Pkg(jsonPkg) == nil || cellsFld == nil {
				return []Obligation{anchorMissing("JSON.keys-through-string-encoder", "libjson / LVal.Cells")}
			}
			units := map[*types.Func]FuncUnit{}
			for _, u := range c.Funcs(func(pp string) bool { return rel(pp) == jsonPkg }) {
				units[u.Obj] = u
			}
			isBufWrite := func(info *types.Info, ce *ast.CallExpr) bool {
				se, ok := ast.Unparen(ce.Fun).(*ast.SelectorExpr)
				if !ok {
					return false
				}
				switch se.Sel.Name {
				case "Write", "WriteString", "WriteByte", "WriteRune":
				default:
					return false
				}
				tv, ok := info.Types[se.X]
				return ok && strings.Contains(tv.Type.String(), "bytes.Buffer")
			}
			writesBrace := func(u FuncUnit) bool {
				hit := false
				ast.Inspect(u.Decl.Body, func(n ast.Node) bool {
					ce, ok := n.(*ast.CallExpr)
					if !ok || !isBufWrite(u.Pkg.TypesInfo, ce) || len(ce.Args) != 1 {
						return true
					}
					if tv, ok := u.Pkg.TypesInfo.Types[ce.Args[0]]; ok && tv.Value != nil {
						s := tv.Value.ExactString()
						if s == "123" || s == `"{"` { // '{'
							hit = true
						}
					}
					return true
				})
				return hit
			}
			isStringEncoder := func(fn *types.Func) bool {
				if shortName(fn) == "encodeString" {
					return true
				}
				_, ok := c.privateHelperOf(fn, func(n string) bool { return strings.HasSuffix(n, ".encodeString") }, 0)
				return ok
			}
			var obs []Obligation
			for _, u := range c.Funcs(func(pp string) bool { return rel(pp) == jsonPkg }) {
				if !writesBrace(u) {
					continue
				}
				info := u.Pkg.TypesInfo
				ord := &ordinal{}
				ast.Inspect(u.Decl.Body, func(n ast.Node) bool {
					ce, ok := n.(*ast.CallExpr)
					if !ok {
						return true
					}
					callee := originOf(Callee(info, ce))
					if callee == nil {
						return true
					}
					if _, inPkg := units[callee]; !inPkg {
						return true
					}
					keyArg := false
					for _, a := range ce.Args {
						ie, ok := ast.Unparen(a).(*ast.IndexExpr)
						if !ok {
							// a local defined once from such an index
							if d := soleDef(info, u.Decl.Body, a); d != nil {
								ie, ok = ast.Unparen(d).(*ast.IndexExpr)
							}
						}
						if !ok || ie == nil {
							continue
						}
						se, ok := ast.Unparen(ie.X).(*ast.SelectorExpr)
						if !ok || FieldOfSelector(info, se) != cellsFld {
							continue
						}
						if k, ok := intConst(info, ie.Index); ok && k == 0 {
							keyArg = true
						}
					}
					if !keyArg {
						return true
					}
					construct := ord.next("key encoder " + shortName(callee))
					// static closure inside the package
					seen := map[*types.Func]bool{}
					var bad []string
					var walk func(fn *types.Func)
					walk = func(fn *types.Func) {
						if seen[fn] {
							return
						}
						seen[fn] = true
						fu, ok := units[fn]
						if !ok {
							return
						}
						if isStringEncoder(fn) {
							return
						}
						finfo := fu.Pkg.TypesInfo
						ast.Inspect(fu.Decl.Body, func(m ast.Node) bool {
							c2, ok := m.(*ast.CallExpr)
							if !ok {
								return true
							}
							if isBufWrite(finfo, c2) {
								bad = append(bad, fmt.Sprintf("%s writes %s", shortName(fn), types.ExprString(c2)))
								return true
							}
							if g := originOf(Callee(finfo, c2)); g != nil {
								walk(g)
							}
							return true
						})
					}
					walk(callee)
					if len(bad) > 0 {
						obs = append(obs, mkOb(c, "JSON.keys-through-string-encoder", u, construct, ce, Violated,
							"the key encoder reaches output that is not written by the string encoder ("+strings.Join(bad, "; ")+"): for some key the member name is not a quoted JSON string", true))
					} else {
						obs = append(obs, mkOb(c, "JSON.keys-through-string-encoder", u, construct, ce, Proved,
							fmt.Sprintf("%d package function(s) reachable from the key encoder; every output write among them is inside the string encoder", len(seen)), true))
					}
					return true
				})
			}
			return obs
		}})
}

// SCHEMA.input-scanned — a validator that walks its input (the keys of the map, the elements of the
// array) answers "valid" only after the walk: every success return of the closure is dominated by
// the loop over the input.  A counting shortcut in front of the loop ("no more entries than declared
// keys, so there is no room for an undeclared one") is an argument about the SIZE of the input, and
// the sizes do not decide membership: s:may-have-key declares a key that need not be present.
func init() {
	register(&Rule{ID: "SCHEMA.input-scanned", Floor: 2,
		Doc: "a validator closure of libschema that ranges over its own input (the keys a map's Keys() returns, the cells of an array or list: a range statement whose operand mentions the closure's input parameter) reaches a success return — `return lisp.Nil()` — only through that loop: no path answers `valid` on the strength of a length or count comparison made in front of the walk, because how many entries the input has does not decide which entries it has (s:no-other-keys with an absent s:may-have-key key and an undeclared key in its place)",
		Run: func(c *Ctx) []Obligation {
			const rid = "SCHEMA.input-scanned"
			nilFn := c.LookupPkgFunc("lisp.Nil")
			if nilFn == nil {
				return []Obligation{anchorMissing(rid, "lisp.Nil")}
			}
			mkVal := map[string]bool{"newValidator": true, "newNamedValidator": true, "NewValidator": true}
			var obs []Obligation
			for _, u := range c.Funcs(func(p string) bool { return rel(p) == "lisp/lisplib/libschema" }) {
				info := u.Pkg.TypesInfo
				ord := &ordinal{}
				ast.Inspect(u.Decl.Body, func(n ast.Node) bool {
					ce, ok := n.(*ast.CallExpr)
					if !ok {
						return true
					}
					fn := Callee(info, ce)
					if fn == nil || !mkVal[shortName(originOf(fn))] {
						return true
					}
					for _, a := range ce.Args {
						lit, ok := ast.Unparen(a).(*ast.FuncLit)
						if !ok || lit.Type.Params == nil {
							continue
						}
						var inputObj types.Object
						for _, f := range lit.Type.Params.List {
							for _, nm := range f.Names {
								if o := info.Defs[nm]; o != nil && isLValPtr(c, o.Type()) {
									inputObj = o
								}
							}
						}
						if inputObj == nil {
							continue
						}
						// locals of the closure derived from the input by a single definition (entries := input.Map())
						derived := map[types.Object]bool{inputObj: true}
						for pass := 0; pass < 3; pass++ {
							ast.Inspect(lit.Body, func(m ast.Node) bool {
								as, ok := m.(*ast.AssignStmt)
								if !ok || len(as.Lhs) != len(as.Rhs) {
									return true
								}
								for i, r := range as.Rhs {
									mentions := false
									ast.Inspect(r, func(k ast.Node) bool {
										if id, ok := k.(*ast.Ident); ok && derived[info.Uses[id]] {
											mentions = true
										}
										return true
									})
									if mentions {
										if o := identObj(info, as.Lhs[i]); o != nil {
											if _, isCall := ast.Unparen(r).(*ast.CallExpr); isCall || true {
												// only storage-like derivations: method calls / selectors on the input, not results of applyConstraint
												if isInputProjection(info, r, derived) {
													derived[o] = true
												}
											}
										}
									}
								}
								return true
							})
						}
						var loops []*ast.RangeStmt
						ast.Inspect(lit.Body, func(m ast.Node) bool {
							if fl, ok := m.(*ast.FuncLit); ok && fl != lit {
								return false
							}
							rs, ok := m.(*ast.RangeStmt)
							if !ok {
								return true
							}
							if isInputProjection(info, rs.X, derived) {
								loops = append(loops, rs)
							}
							return true
						})
						if len(loops) == 0 {
							continue
						}
						fc := c.cfgOf(u, lit)
						construct := ord.next("success returns of an input-walking validator")
						// the outermost first loop over the input
						first := loops[0]
						var loopBlock *cfg.Block
						for _, b := range fc.G.Blocks {
							if b.Stmt == first && b.Kind == cfg.KindRangeLoop && fc.Live(b) {
								loopBlock = b
							}
						}
						if loopBlock == nil {
							obs = append(obs, mkOb(c, rid, u, construct, lit, Undecided, "input loop not located in the closure's CFG", false))
							continue
						}
						bad := ""
						for _, b := range fc.G.Blocks {
							if !fc.Live(b) {
								continue
							}
							for _, nd := range b.Nodes {
								rs, ok := nd.(*ast.ReturnStmt)
								if !ok || len(rs.Results) != 1 {
									continue
								}
								rc, ok := ast.Unparen(rs.Results[0]).(*ast.CallExpr)
								if !ok || originOf(Callee(info, rc)) != nilFn {
									continue
								}
								if !fc.BlockDominates(loopBlock, b) {
									bad = c.Pos(rs.Pos())
								}
							}
						}
						if bad == "" {
							obs = append(obs, mkOb(c, rid, u, construct, first, Proved, "every `return lisp.Nil()` is dominated by the loop over the input", true))
						} else {
							obs = append(obs, mkOb(c, rid, u, construct, first, Violated, "the validator can answer `valid` ("+bad+") without having walked its input: the shortcut in front of the loop decides by something other than the entries themselves", true))
						}
					}
					return true
				})
			}
			return obs
		}})
}

// isInputProjection: e reads storage of a derived object: the object itself, a selector / index /
// slice / zero- or one-argument method call chain on it (input.Map().Keys().Cells, input.Cells[1].Cells).
func isInputProjection(info *types.Info, e ast.Expr, derived map[types.Object]bool) bool {
	for {
		switch x := ast.Unparen(e).(type) {
		case *ast.Ident:
			return derived[info.Uses[x]]
		case *ast.SelectorExpr:
			e = x.X
		case *ast.IndexExpr:
			e = x.X
		case *ast.SliceExpr:
			e = x.X
		case *ast.CallExpr:
			se, ok := ast.Unparen(x.Fun).(*ast.SelectorExpr)
			if !ok || info.Selections[se] == nil {
				// a plain function of the input: seqCells(input), sortedMapEntries(input.Map())
				if len(x.Args) == 1 {
					e = x.Args[0]
					continue
				}
				return false
			}
			e = se.X
		default:
			return false
		}
	}
}

// GUARD.ascend-same-guard — the cycle guards are values: descend returns the guard for the walk
// BELOW a node, and only that guard knows whether the node was recorded on the path.  The step back
// must therefore be asked of, and made on, the guard descend returned: `if g2.tracking() {
// g2.ascend(v) }` with g2 the first result of the descend call of this function.  Testing the parent
// guard's tracking() differs from the child's at exactly the depth where recording starts: the node
// entered at that depth is recorded and never removed, and a second, acyclic occurrence of the same
// node is reported as a cycle (printed as #<cycle>, refused by the elpspath walkers).
func init() {
	register(&Rule{ID: "GUARD.ascend-same-guard", Floor: 4,
		Doc: "wherever a walker of the kernel steps back out of a node with <g>.ascend(v), <g> is the variable that received the first result of the <parent>.descend(v) call of the same function, and every tracking() test the ascend is control-dependent on is asked of that same variable: the node recorded by descend at the depth where path recording starts is un-recorded again, so a value that merely contains the same (acyclic) node twice at that depth is not taken for a cycle",
		Run: func(c *Ctx) []Obligation {
			const rid = "GUARD.ascend-same-guard"
			var obs []Obligation
			for _, u := range c.Funcs(func(p string) bool { return isKernel(p) }) {
				info := u.Pkg.TypesInfo
				// variables assigned from the first result of a .descend(...) call
				descended := map[types.Object]bool{}
				ast.Inspect(u.Decl.Body, func(n ast.Node) bool {
					as, ok := n.(*ast.AssignStmt)
					if !ok || len(as.Rhs) != 1 || len(as.Lhs) < 1 {
						return true
					}
					ce, ok := ast.Unparen(as.Rhs[0]).(*ast.CallExpr)
					if !ok {
						return true
					}
					fn := originOf(Callee(info, ce))
					if fn == nil || fn.Name() != "descend" {
						return true
					}
					if o := identObj(info, as.Lhs[0]); o != nil {
						descended[o] = true
					}
					return true
				})
				if len(descended) == 0 {
					continue
				}
				ord := &ordinal{}
				var stack []ast.Node
				ast.Inspect(u.Decl.Body, func(n ast.Node) bool {
					if n == nil {
						stack = stack[:len(stack)-1]
						return true
					}
					stack = append(stack, n)
					ce, ok := n.(*ast.CallExpr)
					if !ok {
						return true
					}
					fn := originOf(Callee(info, ce))
					if fn == nil || fn.Name() != "ascend" {
						return true
					}
					se, ok := ast.Unparen(ce.Fun).(*ast.SelectorExpr)
					if !ok {
						return true
					}
					recv := identObj(info, se.X)
					construct := ord.next("ascend")
					if recv == nil || !descended[recv] {
						obs = append(obs, mkOb(c, rid, u, construct, ce, Violated, "the guard that steps back is not the one this function's descend call returned", true))
						return true
					}
					bad := ""
					for i := len(stack) - 2; i >= 0; i-- {
						is, ok := stack[i].(*ast.IfStmt)
						if !ok {
							continue
						}
						// only when the ascend sits in the body (not the else) — either way the receivers must agree
						ast.Inspect(is.Cond, func(m ast.Node) bool {
							c2, ok := m.(*ast.CallExpr)
							if !ok {
								return true
							}
							f2 := originOf(Callee(info, c2))
							if f2 == nil || f2.Name() != "tracking" {
								return true
							}
							if s2, ok := ast.Unparen(c2.Fun).(*ast.SelectorExpr); ok && identObj(info, s2.X) != recv {
								bad = types.ExprString(c2)
							}
							return true
						})
					}
					if bad != "" {
						obs = append(obs, mkOb(c, rid, u, construct, ce, Violated, "the step back is conditional on `"+bad+"`, a different guard from the one that steps back ("+types.ExprString(se.X)+"): at the depth where path recording starts the two disagree, the node stays on the path and its next acyclic occurrence is reported as a cycle", true))
					} else {
						obs = append(obs, mkOb(c, rid, u, construct, ce, Proved, "ascend and its tracking() test are on the guard this function's descend returned", true))
					}
					return true
				})
			}
			return obs
		}})

	// ANALYZE.last-definition-wins — the evaluator's package table holds the LAST definition of a name
	// (defun/defmacro replace); lint's user-arity check and the minifier read the analyzer's scope.  The
	// analyzer's prescan must therefore install every function definition it records.
	register(&Rule{ID: "ANALYZE.last-definition-wins", Floor: 1,
		Doc: "in the static analyzer's prescan of defun/defmacro (the function that builds a Symbol with a Signature from the form's formals and appends it to the result), every path that records the symbol also installs it in the scope with Define — unconditionally, so a later definition of a name replaces the earlier one as it does in the evaluator's package table: lint's user-arity judges a call after two definitions by the one the evaluator will call",
		Run: func(c *Ctx) []Obligation {
			const rid = "ANALYZE.last-definition-wins"
			var obs []Obligation
			for _, u := range c.Funcs(func(p string) bool { return rel(p) == "analysis" }) {
				info := u.Pkg.TypesInfo
				// a function that builds a composite literal with a Signature field from signatureFromFormals-like call and appends to result.Symbols
				var symObj types.Object
				ast.Inspect(u.Decl.Body, func(n ast.Node) bool {
					as, ok := n.(*ast.AssignStmt)
					if !ok || len(as.Lhs) != 1 || len(as.Rhs) != 1 {
						return true
					}
					e := ast.Unparen(as.Rhs[0])
					if ue, ok := e.(*ast.UnaryExpr); ok && ue.Op == token.AND {
						e = ast.Unparen(ue.X)
					}
					cl, ok := e.(*ast.CompositeLit)
					if !ok {
						return true
					}
					hasSig := false
					for _, el := range cl.Elts {
						if kv, ok := el.(*ast.KeyValueExpr); ok {
							if kid, _ := kv.Key.(*ast.Ident); kid != nil && kid.Name == "Signature" {
								if _, isCall := ast.Unparen(kv.Value).(*ast.CallExpr); isCall {
									hasSig = true
								}
							}
						}
					}
					if hasSig {
						symObj = identObj(info, as.Lhs[0])
					}
					return true
				})
				if symObj == nil {
					continue
				}
				// recording statement: append(<…>.Symbols, sym)
				var record ast.Node
				var defines []ast.Node
				ast.Inspect(u.Decl.Body, func(n ast.Node) bool {
					ce, ok := n.(*ast.CallExpr)
					if !ok {
						return true
					}
					if id, ok := ast.Unparen(ce.Fun).(*ast.Ident); ok && id.Name == "append" && len(ce.Args) == 2 {
						if se, ok := ast.Unparen(ce.Args[0]).(*ast.SelectorExpr); ok && se.Sel.Name == "Symbols" && identObj(info, ce.Args[1]) == symObj {
							record = ce
						}
					}
					if fn := originOf(Callee(info, ce)); fn != nil && fn.Name() == "Define" && len(ce.Args) == 1 && identObj(info, ce.Args[0]) == symObj {
						defines = append(defines, ce)
					}
					return true
				})
				if record == nil {
					continue
				}
				fc := c.cfgOf(u, nil)
				rloc, ok := fc.Locate(record)
				construct := "definition installed"
				if !ok {
					obs = append(obs, mkOb(c, rid, u, construct, record, Undecided, "recording statement not located in the CFG", false))
					continue
				}
				dominated := false
				for _, d := range defines {
					if dl, ok := fc.Locate(d); ok && fc.Dominates(dl, rloc) {
						dominated = true
					}
				}
				if dominated {
					obs = append(obs, mkOb(c, rid, u, construct, record, Proved, "scope.Define(sym) dominates the statement that records the symbol: every recorded definition is installed", true))
				} else {
					obs = append(obs, mkOb(c, rid, u, construct, record, Violated, "a function definition can be recorded without being installed in the scope (Define is conditional or absent): a second defun of a name leaves the first one in place, and arity checks, references and renames follow a definition the evaluator has replaced", true))
				}
			}
			return obs
		}})

	// SCHEMA.in-by-equal — s:in compares with equal?: a string and a symbol of the same spelling are
	// different values.
	register(&Rule{ID: "SCHEMA.in-by-equal", Floor: 1,
		Doc: "the validator s:in builds (builtinAllowedValues) answers `valid` only over an edge on which lisp's own equality, <input>.Equal(<member>) (or <member>.Equal(<input>)), was true for a member — in the closure itself or in a boolean helper it hands the input to, every `return true` of which lies behind such an edge: membership is never decided by a key derived from the value (its text, its printed form), which identifies the string \"a\" with the symbol a",
		Run: func(c *Ctx) []Obligation {
			const rid = "SCHEMA.in-by-equal"
			fn, fd, pkg := c.LookupFunc("lisp/lisplib/libschema.builtinAllowedValues")
			nilFn := c.LookupPkgFunc("lisp.Nil")
			equalM := c.LookupMethod("lisp.LVal.Equal")
			if fn == nil || nilFn == nil || equalM == nil {
				return []Obligation{anchorMissing(rid, "libschema.builtinAllowedValues / lisp.Nil / LVal.Equal")}
			}
			u := FuncUnit{fn, fd, pkg}
			info := pkg.TypesInfo
			var lit *ast.FuncLit
			ast.Inspect(fd.Body, func(n ast.Node) bool {
				if l, ok := n.(*ast.FuncLit); ok && lit == nil {
					lit = l
				}
				return true
			})
			if lit == nil {
				return []Obligation{mkOb(c, rid, u, "validator closure", fd, Undecided, "no validator closure found", false)}
			}
			// does cond (true side) contain an Equal call? directly or through True(...) / a local defined by it
			var hasEqual func(ui *types.Info, body ast.Node, e ast.Expr, depth int) bool
			hasEqual = func(ui *types.Info, body ast.Node, e ast.Expr, depth int) bool {
				found := false
				ast.Inspect(e, func(m ast.Node) bool {
					switch x := m.(type) {
					case *ast.CallExpr:
						if originOf(Callee(ui, x)) == equalM {
							found = true
						}
					case *ast.Ident:
						if depth < 2 {
							if d := soleDef(ui, body, x); d != nil && hasEqual(ui, body, d, depth+1) {
								found = true
							}
						}
					}
					return !found
				})
				return found
			}
			// successReturnsGuarded: in body (with info ui), every return whose result satisfies isSuccess is
			// nested in the body of an if whose condition has an Equal call (true side), or in a helper
			var check func(ui *types.Info, body *ast.BlockStmt, isSuccess func(*ast.ReturnStmt) bool, depth int) (bool, string)
			check = func(ui *types.Info, body *ast.BlockStmt, isSuccess func(*ast.ReturnStmt) bool, depth int) (bool, string) {
				ok := true
				why := ""
				var stack []ast.Node
				ast.Inspect(body, func(n ast.Node) bool {
					if n == nil {
						stack = stack[:len(stack)-1]
						return true
					}
					stack = append(stack, n)
					rs, isRet := n.(*ast.ReturnStmt)
					if !isRet || !isSuccess(rs) {
						return true
					}
					guarded := false
					for i := len(stack) - 2; i >= 0 && !guarded; i-- {
						is, isIf := stack[i].(*ast.IfStmt)
						if !isIf || i+1 >= len(stack) || stack[i+1] != ast.Node(is.Body) {
							continue
						}
						if is.Init != nil {
							// if eq := input.Equal(v); lisp.True(eq) {
							if as, ok := is.Init.(*ast.AssignStmt); ok {
								for _, r := range as.Rhs {
									if hasEqual(ui, body, r, 0) {
										guarded = true
									}
								}
							}
						}
						if hasEqual(ui, body, is.Cond, 0) {
							guarded = true
						}
						// boolean helper of the module
						if depth < 2 && !guarded {
							ast.Inspect(is.Cond, func(m ast.Node) bool {
								hc, ok := m.(*ast.CallExpr)
								if !ok {
									return true
								}
								h := originOf(Callee(ui, hc))
								if h == nil || c.declOf[h] == nil || c.declOf[h].Body == nil {
									return true
								}
								hd := c.declOf[h]
								hinfo := c.pkgOf[hd].TypesInfo
								good, _ := check(hinfo, hd.Body, func(r *ast.ReturnStmt) bool {
									if len(r.Results) != 1 {
										return false
									}
									tv, ok := hinfo.Types[r.Results[0]]
									if ok && tv.Value != nil {
										return tv.Value.ExactString() == "true"
									}
									return true // a computed boolean: must itself be guarded
								}, depth+1)
								if good {
									guarded = true
								}
								return true
							})
						}
					}
					if !guarded {
						ok = false
						why = c.Pos(rs.Pos())
					}
					return true
				})
				return ok, why
			}
			good, why := check(info, lit.Body, func(r *ast.ReturnStmt) bool {
				if len(r.Results) != 1 {
					return false
				}
				rc, ok := ast.Unparen(r.Results[0]).(*ast.CallExpr)
				return ok && originOf(Callee(info, rc)) == nilFn
			}, 0)
			if good {
				return []Obligation{mkOb(c, rid, u, "membership decided by Equal", lit, Proved, "every success return of the s:in validator lies behind a true Equal comparison with a member", true)}
			}
			return []Obligation{mkOb(c, rid, u, "membership decided by Equal", lit, Violated, "the s:in validator can answer `valid` ("+why+") without lisp's Equal having found the input among the members: a lookup by derived key accepts values Equal distinguishes (the symbol a for the member \"a\")", true)}
		}})
}

// CTX.not-from-root — the context of THIS evaluation lives on the environment a builtin was called
// with (LEnv.call bridges it there).  The root environment carries it only while a builtin is called
// directly at top level; reading the context off root() and handing it on gives a nested evaluation
// whatever the root happens to hold — nothing, from inside a function body — whichever helper or
// callback the hand-over is written in.
func init() {
	register(&Rule{ID: "CTX.not-from-root", Floor: 0,
		Doc: "in the interpreter kernel no context is read off an environment obtained from (*LEnv).root() — <root>.evalCtx or <root>.Context(), with <root> the call itself, a local defined by it, or a function parameter that a caller fills with it: the context a nested load or evaluation runs under is the calling environment's (env.evalCtx, which LEnv.call has just set), never the root environment's, which carries this evaluation's cancellation and deadline only when the builtin happens to be called at top level (expected count zero; seeded C04-r6m2 is the positive example)",
		Run: func(c *Ctx) []Obligation {
			const rid = "CTX.not-from-root"
			rootM := c.LookupMethod("lisp.LEnv.root")
			ctxFld := c.LookupField("lisp.LEnv.evalCtx")
			ctxM := c.LookupMethod("lisp.LEnv.Context")
			if rootM == nil || ctxFld == nil {
				return []Obligation{anchorMissing(rid, "LEnv.root / LEnv.evalCtx")}
			}
			var obs []Obligation
			n := 0
			for _, u := range c.Funcs(func(p string) bool { return isKernel(p) }) {
				info := u.Pkg.TypesInfo
				isRootEnv := func(e ast.Expr) bool {
					e = ast.Unparen(e)
					if id, ok := e.(*ast.Ident); ok {
						if d := soleDef(info, u.Decl.Body, id); d != nil {
							e = ast.Unparen(d)
						}
					}
					ce, ok := e.(*ast.CallExpr)
					return ok && originOf(Callee(info, ce)) == rootM
				}
				// function-literal parameters that a call in this function fills with a root environment:
				// f(func(root *LEnv, …) {…}) where f's body calls its callback with root()
				ord := &ordinal{}
				ast.Inspect(u.Decl.Body, func(m ast.Node) bool {
					var recv ast.Expr
					switch x := m.(type) {
					case *ast.SelectorExpr:
						if FieldOfSelector(info, x) == ctxFld {
							recv = x.X
						}
					case *ast.CallExpr:
						if ctxM != nil && originOf(Callee(info, x)) == ctxM {
							if se, ok := ast.Unparen(x.Fun).(*ast.SelectorExpr); ok {
								recv = se.X
							}
						}
					}
					if recv == nil {
						return true
					}
					n++
					if isRootEnv(recv) {
						obs = append(obs, mkOb(c, rid, u, ord.next("context read off the root environment"), m, Violated,
							"`"+types.ExprString(m.(ast.Expr))+"` reads the context of the ROOT environment: it is this evaluation's context only when the builtin is called at top level; from inside a function body it is nil or a stale one, and whatever is evaluated under it ignores cancellation and the deadline", true))
					}
					return true
				})
			}
			obs = append(obs, Obligation{Rule: rid, Func: "-", Construct: "reads of an environment's context in the kernel", Pos: "-", Verdict: Proved,
				Detail: fmt.Sprintf("%d reads of LEnv.evalCtx / LEnv.Context() examined; none is made on a root() result", n)})
			return obs
		}})
}

// TEMPLATE.brackets-walked — inside a quasiquote template a bracketed list is a quoted list to the
// parser and SYNTAX to the expansion: `(let ([doubled (double (unquote v))]) …)` calls double every
// time the macro is used.  The tooling's template walkers (the self-recursive functions of the
// analyzer and the minifier that single out the heads unquote / unquote-splicing) must therefore
// keep walking the children of a quoted node themselves; handing them to a walker of "data", or
// returning, loses the references written there: the minifier renames the definition and not the
// template, and every expansion fails with an unbound symbol.
func init() {
	register(&Rule{ID: "TEMPLATE.brackets-walked", Floor: 2,
		Doc: "every quasiquote-template walker of the tooling (a function of analysis or minifier that calls itself over the cells of its node parameter and singles out the heads unquote / unquote-splicing) still reaches a call of ITSELF on the node's children when the node's quoted flag is assumed set: a bracketed list inside a template — a quoted list to the parser, a binding list or clause to the expansion — is walked by the same walker, with the same treatment of the symbols in it, as its parenthesised spelling; the quoted flag never hands the children to another function or ends the walk",
		Run: func(c *Ctx) []Obligation {
			const rid = "TEMPLATE.brackets-walked"
			isQuotedM := c.LookupMethod("lisp.LVal.IsQuoted")
			if isQuotedM == nil {
				return []Obligation{anchorMissing(rid, "LVal.IsQuoted")}
			}
			var obs []Obligation
			for _, u := range c.Funcs(func(p string) bool { r := rel(p); return r == "analysis" || r == "minifier" }) {
				info := u.Pkg.TypesInfo
				// node parameters
				var nodeParams []types.Object
				for _, po := range paramObjs(u) {
					if isLValPtr(c, po.Type()) {
						nodeParams = append(nodeParams, po)
					}
				}
				if len(nodeParams) == 0 {
					continue
				}
				mentionsUnquote := false
				selfCalls := 0
				ast.Inspect(u.Decl.Body, func(n ast.Node) bool {
					switch x := n.(type) {
					case *ast.BasicLit:
						if x.Value == `"unquote"` || x.Value == `"unquote-splicing"` {
							mentionsUnquote = true
						}
					case *ast.CallExpr:
						if originOf(Callee(info, x)) == u.Obj {
							selfCalls++
						}
					}
					return true
				})
				if !mentionsUnquote || selfCalls == 0 {
					continue
				}
				for _, np := range nodeParams {
					testsQuoted := false
					ast.Inspect(u.Decl.Body, func(n ast.Node) bool {
						if ce, ok := n.(*ast.CallExpr); ok && originOf(Callee(info, ce)) == isQuotedM {
							if se, ok := ast.Unparen(ce.Fun).(*ast.SelectorExpr); ok && identObj(info, se.X) == np {
								testsQuoted = true
							}
						}
						return true
					})
					fc := c.cfgOf(u, nil)
					construct := "children of a quoted " + np.Name()
					if !testsQuoted {
						obs = append(obs, mkOb(c, rid, u, "quoted flag not consulted", u.Decl, Proved, "the walker never reads the quoted flag of its node: bracket lists are walked like any list", false))
						continue
					}
					reach := fc.reachableUnder(func(e ast.Expr) int {
						ce, ok := ast.Unparen(e).(*ast.CallExpr)
						if ok && originOf(Callee(info, ce)) == isQuotedM {
							if se, ok := ast.Unparen(ce.Fun).(*ast.SelectorExpr); ok && identObj(info, se.X) == np {
								return 1
							}
						}
						return -1
					})
					found := false
					for b := range reach {
						for _, nd := range b.Nodes {
							for _, ce := range callsIn(nd, false) {
								if originOf(Callee(info, ce)) != u.Obj {
									continue
								}
								// an argument that is an element of np.Cells (range value / index)
								for _, a := range ce.Args {
									if elementOfCells(info, u, a, np) {
										found = true
									}
								}
							}
						}
					}
					if found {
						obs = append(obs, mkOb(c, rid, u, construct, u.Decl, Proved, "with the quoted flag assumed set, a call of the walker itself on the node's cells stays reachable", true))
					} else {
						obs = append(obs, mkOb(c, rid, u, construct, u.Decl, Violated, "when the node is a quoted (bracket) list the walker does not go on to walk its cells itself — it returns or hands them to another function: the symbols of a bracketed binding list or clause inside a template are treated as data, so a function called there is not recorded as referenced and not protected from renaming", true))
					}
				}
			}
			return obs
		}})
}

// elementOfCells: a is <np>.Cells[i], or the value variable of a range over <np>.Cells (or a reslice of it).
func elementOfCells(info *types.Info, u FuncUnit, a ast.Expr, np types.Object) bool {
	isCellsOf := func(e ast.Expr) bool {
		e = ast.Unparen(e)
		if sl, ok := e.(*ast.SliceExpr); ok {
			e = ast.Unparen(sl.X)
		}
		se, ok := e.(*ast.SelectorExpr)
		return ok && se.Sel.Name == "Cells" && identObj(info, se.X) == np
	}
	a = ast.Unparen(a)
	if ie, ok := a.(*ast.IndexExpr); ok {
		return isCellsOf(ie.X)
	}
	o := identObj(info, a)
	if o == nil {
		return false
	}
	found := false
	ast.Inspect(u.Decl.Body, func(n ast.Node) bool {
		rs, ok := n.(*ast.RangeStmt)
		if !ok || rs.Value == nil {
			return true
		}
		if identObj(info, rs.Value) == o && isCellsOf(rs.X) {
			found = true
		}
		return true
	})
	return found
}

// MINIFY.definition-count-from-forms — "a name the session defines more than once keeps its name"
// needs a COUNT of defining forms.  A count taken over a collection that identifies symbols by
// package and name (the scanner's per-file symbol set) is at most one per file: two defuns of one
// name in one file, or a defun followed by a set, read as a single definition and the name is renamed
// — to the second definition's name, while uses between the two still say the first.
func init() {
	register(&Rule{ID: "MINIFY.definition-count-from-forms", Floor: 1,
		Doc: "in the minifier every counter keyed by name (an increment m[key]++ of a map[string]int) is stepped inside a loop over parsed top-level forms — a range over a slice of *lisp.LVal — and its key is built from the text of the form's own cells: the number of definitions of a name is the number of forms that define it, never the size of a de-duplicated symbol collection, in which a name defined twice in one file counts once and loses the protection that redefined names get",
		Run: func(c *Ctx) []Obligation {
			const rid = "MINIFY.definition-count-from-forms"
			var obs []Obligation
			for _, u := range c.Funcs(func(p string) bool { return rel(p) == "minifier" }) {
				info := u.Pkg.TypesInfo
				ord := &ordinal{}
				var stack []ast.Node
				ast.Inspect(u.Decl.Body, func(n ast.Node) bool {
					if n == nil {
						stack = stack[:len(stack)-1]
						return true
					}
					stack = append(stack, n)
					inc, ok := n.(*ast.IncDecStmt)
					if !ok || inc.Tok != token.INC {
						return true
					}
					ie, ok := ast.Unparen(inc.X).(*ast.IndexExpr)
					if !ok {
						return true
					}
					tv, ok := info.Types[ie.X]
					if !ok {
						return true
					}
					mt, ok := tv.Type.Underlying().(*types.Map)
					if !ok {
						return true
					}
					if kb, ok := mt.Key().Underlying().(*types.Basic); !ok || kb.Kind() != types.String {
						return true
					}
					construct := ord.next("counter " + exprShape(info, ie.X))
					// innermost enclosing range statement
					var loop *ast.RangeStmt
					for i := len(stack) - 2; i >= 0 && loop == nil; i-- {
						if rs, ok := stack[i].(*ast.RangeStmt); ok {
							loop = rs
						}
					}
					if loop == nil {
						// stepped in a callback that an internal iterator of the package calls once per element of
						// a slice of parsed forms (`forEachTopLevelForm(exprs, func(expr, head, pkg) { … counts[k]++ })`)
						if drv, _, _, over, ok := c.callbackDriver(u, inc); ok {
							if xt, ok := info.Types[over]; ok {
								if sl, ok := xt.Type.Underlying().(*types.Slice); ok && isLValPtr(c, sl.Elem()) {
									obs = append(obs, mkOb(c, rid, u, construct, inc, Proved, "stepped once per parsed form of `"+types.ExprString(over)+"` (callback driven by "+drv.Name()+")", true))
									return true
								}
							}
						}
						obs = append(obs, mkOb(c, rid, u, construct, inc, Violated, "the counter is stepped outside any loop over parsed forms", true))
						return true
					}
					elemIsLVal := false
					if xt, ok := info.Types[loop.X]; ok {
						if sl, ok := xt.Type.Underlying().(*types.Slice); ok && isLValPtr(c, sl.Elem()) {
							elemIsLVal = true
						}
					}
					if elemIsLVal {
						obs = append(obs, mkOb(c, rid, u, construct, inc, Proved, "stepped once per parsed form of `"+types.ExprString(loop.X)+"`", true))
					} else {
						obs = append(obs, mkOb(c, rid, u, construct, inc, Violated, "the counter is stepped per element of `"+types.ExprString(loop.X)+"`, which is not a list of parsed forms: a collection of symbols holds each package/name once, so a name defined twice in a file is counted once and is no longer protected as redefined", true))
					}
					return true
				})
			}
			return obs
		}})
}

// PAIR.pop-only-after-push — the converse of PAIR.frame: a deferred Pop is registered only on the
// path where the push succeeded.  PushFID refuses at the physical height bound WITHOUT pushing; a
// `defer stack.Pop()` registered before the refusal is tested pops the CALLER's frame on that path,
// the outermost Pop then finds the stack empty and panics — the ordinary, catchable overflow error
// becomes an internal-panic.
func init() {
	register(&Rule{ID: "PAIR.pop-only-after-push", Floor: 3,
		Doc: "every `defer <stack>.Pop()` of the interpreter is reached only over an edge that entails the error result of a frame push was nil — the PushFID call itself or an acquire wrapper that reaches it, assigned before the defer: a push that is refused at the physical height bound pushes nothing, so a Pop registered before the refusal is tested removes the caller's frame, the outermost Pop panics on an empty stack and the ordinary overflow error turns into an internal-panic",
		Run: func(c *Ctx) []Obligation {
			const rid = "PAIR.pop-only-after-push"
			push := c.LookupMethod("lisp.CallStack.PushFID")
			pop := c.LookupMethod("lisp.CallStack.Pop")
			if push == nil || pop == nil {
				return []Obligation{anchorMissing(rid, "CallStack.PushFID/Pop")}
			}
			// functions that reach PushFID through at most two static calls
			reaches := map[*types.Func]bool{push: true}
			for depth := 0; depth < 2; depth++ {
				for _, u := range c.Funcs(func(p string) bool { return isKernel(p) }) {
					if reaches[u.Obj] {
						continue
					}
					info := u.Pkg.TypesInfo
					for _, ce := range callsIn(u.Decl.Body, false) {
						if f := originOf(Callee(info, ce)); f != nil && reaches[f] {
							reaches[u.Obj] = true
						}
					}
				}
			}
			var obs []Obligation
			for _, u := range c.Funcs(func(p string) bool { return isKernel(p) }) {
				info := u.Pkg.TypesInfo
				ord := &ordinal{}
				var defers []*ast.DeferStmt
				ast.Inspect(u.Decl.Body, func(n ast.Node) bool {
					if d, ok := n.(*ast.DeferStmt); ok && originOf(Callee(info, d.Call)) == pop {
						defers = append(defers, d)
					}
					return true
				})
				for _, d := range defers {
					construct := ord.next("defer Pop")
					lit := innermostBody(u.Decl, d)
					fc := c.cfgOf(u, lit.Lit)
					dloc, ok := fc.Locate(d)
					if !ok {
						obs = append(obs, mkOb(c, rid, u, construct, d, Undecided, "defer not located in the CFG", false))
						continue
					}
					// locals assigned, before the defer, from a call that reaches PushFID
					pushed := map[types.Object]bool{}
					ast.Inspect(lit.Body, func(n ast.Node) bool {
						as, ok := n.(*ast.AssignStmt)
						if !ok || as.Pos() >= d.Pos() || len(as.Rhs) != 1 {
							return true
						}
						ce, ok := ast.Unparen(as.Rhs[0]).(*ast.CallExpr)
						if !ok {
							return true
						}
						if f := originOf(Callee(info, ce)); f == nil || !reaches[f] {
							return true
						}
						for _, l := range as.Lhs {
							if o := identObj(info, l); o != nil {
								pushed[o] = true
							}
						}
						return true
					})
					guarded := false
					for _, b := range fc.G.Blocks {
						if !fc.Live(b) || fc.CondOf(b) == nil {
							continue
						}
						for edge := 0; edge < 2 && !guarded; edge++ {
							if b == dloc.B || !fc.edgeDominates(b, edge, dloc.B) {
								continue
							}
							for _, at := range impliedAtoms(fc.CondOf(b), edge == 0) {
								be, ok := ast.Unparen(at.E).(*ast.BinaryExpr)
								if !ok || (be.Op != token.EQL && be.Op != token.NEQ) {
									continue
								}
								var x ast.Expr
								if isNilIdent(info, be.Y) {
									x = be.X
								} else if isNilIdent(info, be.X) {
									x = be.Y
								} else {
									continue
								}
								if o := identObj(info, x); o != nil && pushed[o] && (be.Op == token.EQL) == at.Positive {
									guarded = true
								}
							}
						}
					}
					if guarded {
						obs = append(obs, mkOb(c, rid, u, construct, d, Proved, "registered only on the edge where the push's error result is nil", true))
					} else {
						obs = append(obs, mkOb(c, rid, u, construct, d, Violated, "this Pop is registered on a path that has not established that a frame was pushed (the push's error is tested later, or not at all): when PushFID refuses at the height bound the deferred Pop removes the caller's frame, and the overflow surfaces as an internal-panic (pop on an empty stack)", true))
					}
				}
			}
			return obs
		}})
}

// SCHEMA.required-key-looked-up — C14 ("a validator accepts exactly the values its
// declaration describes"): s:has-key REQUIRES the key.  Whether a type list was
// given or not, the validator it builds answers `valid` only after it has asked
// the map for the key — the lookup is the presence check.  A shortcut in front of
// it ("no type list, nothing to check about the value") accepts maps without the
// key; s:may-have-key may take that shortcut, s:has-key may not.
func init() {
	register(&Rule{ID: "SCHEMA.required-key-looked-up", Floor: 1,
		Doc: "in the validator that s:has-key builds (the closure of the implementation registered under the name has-key) every return that does not construct an error is reached only through a block that calls Map.Get on the input — whatever the constraint's other arguments are (an omitted type list): the lookup is the presence check, so no path declares a map valid without having asked it for the required key (s:may-have-key, whose key is optional, is free to skip the lookup)",
		Run: func(c *Ctx) []Obligation {
			const rid = "SCHEMA.required-key-looked-up"
			ent := c.RegistryByName(schemaPkg, "has-key")
			if ent == nil {
				return []Obligation{anchorMissing(rid, "the registered builtin s:has-key")}
			}
			body, u, _, ok := c.BodyOf(*ent)
			if !ok || u.Decl == nil {
				return []Obligation{anchorMissing(rid, "the implementation of s:has-key")}
			}
			// has-key and may-have-key may share one implementation selected by a constant flag
			// (`return keyConstraint(env, args, true)`): the validator is judged with the flag bound
			body, u, flags := c.followForwarder(body, u)
			info := u.Pkg.TypesInfo
			flagAtom := func(e ast.Expr) int {
				if o := identObj(info, e); o != nil {
					if v, ok := flags[o]; ok {
						if v {
							return 1
						}
						return 0
					}
				}
				return -1
			}
			var obs []Obligation
			ord := &ordinal{}
			nlits := 0
			ast.Inspect(body, func(n ast.Node) bool {
				lit, isLit := n.(*ast.FuncLit)
				if !isLit {
					return true
				}
				// the validator closure: a literal that looks a key up in a map (or should)
				sig, _ := info.TypeOf(lit).(*types.Signature)
				if sig == nil || sig.Results().Len() != 1 || !isLValPtr(c, sig.Results().At(0).Type()) {
					return true
				}
				nlits++
				fc := c.cfgOf(u, lit)
				gets := fc.blocksWith(func(m ast.Node) bool {
					for _, ce := range callsIn(m, false) {
						if fn := Callee(info, ce); fn != nil && fn.Name() == "Get" && fn.Pkg() != nil && rel(fn.Pkg().Path()) == "lisp" {
							return true
						}
					}
					return false
				})
				// what cannot run for s:has-key (the flag's other value) is out of the picture
				if len(flags) > 0 {
					under := fc.reachableUnder(flagAtom)
					for _, b := range fc.G.Blocks {
						if !under[b] {
							gets[b] = true
						}
					}
				}
				for _, b := range fc.G.Blocks {
					if !fc.Live(b) {
						continue
					}
					if len(flags) > 0 && !fc.reachableUnder(flagAtom)[b] {
						continue
					}
					for _, m := range b.Nodes {
						rs, isRet := m.(*ast.ReturnStmt)
						if !isRet || len(rs.Results) != 1 || c.isErrorValueCall(info, rs.Results[0], 0) {
							continue
						}
						if identObj(info, rs.Results[0]) != nil {
							continue // an error value handed on (`return lerr`)
						}
						construct := ord.next("success return")
						if gets[b] || !fc.reachableFromAvoidingBlocks(fc.G.Blocks[0], b, gets) {
							obs = append(obs, mkOb(c, rid, u, construct, rs, Proved, "reached only after the input map was asked for the key", true))
						} else {
							obs = append(obs, mkOb(c, rid, u, construct, rs, Violated, "the validator of s:has-key can answer `valid` on a path that never looks the key up: (s:validate (s:make-validator \"T\" s:sorted-map (s:has-key \"id\")) (sorted-map)) passes although the required key is absent", true))
						}
					}
				}
				return false
			})
			if nlits == 0 {
				obs = append(obs, mkOb(c, rid, u, "validator closure", u.Decl, Undecided, "no validator closure found in the implementation of s:has-key", true))
			}
			return obs
		}})
}

// PANICMARK.mark-last — C06 (the host-panic carve-out): the recovered panic is
// marked by storing the Go stack snapshot into its CallStack.  IsInternalPanic
// reads that mark.  Whatever else the recover handler does to the condition, it
// must not replace the call stack afterwards: SetCallStack copies another
// stack — with no snapshot — over the marked one, and the condition, still NAMED
// internal-panic, is swallowed by ignore-errors and matched by `condition`.
func init() {
	register(&Rule{ID: "PANICMARK.mark-last", Floor: 1,
		Doc: "in the function (or deferred literal) that stores the Go stack snapshot into CallStack.GoStack — the mark IsInternalPanic reads — nothing that runs after the store can take the mark away again: no call of LVal.SetCallStack and no assignment to the variable holding the marked condition is reachable from the store; a recovered host panic keeps its mark whatever the panic value was (a string, a runtime error, a lisp error value that host code re-panicked with)",
		Run: func(c *Ctx) []Obligation {
			const rid = "PANICMARK.mark-last"
			gs := c.LookupField("lisp.CallStack.GoStack")
			setCS := c.LookupMethod("lisp.LVal.SetCallStack")
			if gs == nil {
				return []Obligation{anchorMissing(rid, "CallStack.GoStack")}
			}
			var obs []Obligation
			for _, u := range c.Funcs(func(p string) bool { return rel(p) == "lisp" }) {
				if u.Decl == nil || u.Decl.Body == nil {
					continue
				}
				info := u.Pkg.TypesInfo
				for _, bu := range bodiesOf(u.Decl) {
					fc := c.cfgOf(u, bu.Lit)
					ord := &ordinal{}
					for _, b := range fc.G.Blocks {
						if !fc.Live(b) {
							continue
						}
						for i, n := range b.Nodes {
							as, ok := n.(*ast.AssignStmt)
							if !ok || len(as.Lhs) != 1 || FieldOfSelector(info, as.Lhs[0]) != gs {
								continue
							}
							if innermostBody(u.Decl, as).Lit != bu.Lit {
								continue
							}
							construct := ord.next("store .GoStack")
							// the marked condition: X in `stack := X.CallStack()` for the stack written to
							var marked types.Object
							if se, ok := ast.Unparen(as.Lhs[0]).(*ast.SelectorExpr); ok {
								if so := identObj(info, se.X); so != nil {
									if dc, _, _ := definingCall(info, bu.Body, so); dc != nil {
										if fs, ok := ast.Unparen(dc.Fun).(*ast.SelectorExpr); ok {
											marked = identObj(info, fs.X)
										}
									}
								}
							}
							bad := ""
							judge := func(m ast.Node) {
								for _, ce := range callsIn(m, false) {
									if setCS != nil && originOf(Callee(info, ce)) == setCS {
										bad = "calls SetCallStack (`" + types.ExprString(ce) + "`)"
									}
								}
								if a2, ok := m.(*ast.AssignStmt); ok && marked != nil {
									for _, l := range a2.Lhs {
										if identObj(info, l) == marked {
											bad = "assigns `" + marked.Name() + "` again"
										}
									}
								}
							}
							for _, m := range b.Nodes[i+1:] {
								judge(m)
							}
							seen := map[*cfg.Block]bool{}
							var walk func(x *cfg.Block)
							walk = func(x *cfg.Block) {
								if seen[x] {
									return
								}
								seen[x] = true
								for _, m := range x.Nodes {
									judge(m)
								}
								for _, sx := range x.Succs {
									walk(sx)
								}
							}
							for _, sx := range b.Succs {
								walk(sx)
							}
							if bad == "" {
								obs = append(obs, mkOb(c, rid, u, construct, as, Proved, "nothing reachable after the mark replaces the condition's call stack", true))
							} else {
								obs = append(obs, mkOb(c, rid, u, construct, as, Violated, "after the Go stack snapshot was stored, the handler "+bad+": the marked call stack is replaced by one without a snapshot, IsInternalPanic answers false, and the host panic is swallowed by ignore-errors / a `condition` handler although it is still named internal-panic", true))
							}
						}
					}
				}
			}
			return obs
		}})
}

// ALIAS.compact-in-place — C07 (quasiquote builds its template; the splice pass)
// and C11 (no operation writes cells it is still reading): `out := xs[:0]` reuses
// xs's backing array.  Filling out while ranging over xs is the classic in-place
// filter and is sound only while each turn appends AT MOST ONE element — the write
// index can then never overtake the read index.  A turn that appends a whole
// sequence (a spliced list) overwrites cells the loop has not read yet, however
// the total length compares.
func init() {
	register(&Rule{ID: "ALIAS.compact-in-place", Floor: 0,
		Doc: "wherever a slice of lisp values is re-sliced to length zero over its own backing (`out := xs[:0]`) and then filled inside a loop that ranges over the same slice xs, every append to it inside that loop adds exactly one element (`out = append(out, x)`): no spread append (`append(out, ys...)`) and no multi-element append, which can overwrite cells of xs the loop has not read yet — a comparison of total lengths made in front of the loop does not bound the write index turn by turn (expected count zero; seeded C07-r7m2 is the positive example)",
		Run: func(c *Ctx) []Obligation {
			const rid = "ALIAS.compact-in-place"
			var obs []Obligation
			for _, u := range c.Funcs(nil) {
				if u.Decl == nil || u.Decl.Body == nil {
					continue
				}
				info := u.Pkg.TypesInfo
				// out -> xs for every `out := xs[:0]` / `out = xs[:0]` over []*LVal
				alias := map[types.Object]types.Object{}
				ast.Inspect(u.Decl.Body, func(n ast.Node) bool {
					as, ok := n.(*ast.AssignStmt)
					if !ok || len(as.Lhs) != len(as.Rhs) {
						return true
					}
					for i, r := range as.Rhs {
						se, ok := ast.Unparen(r).(*ast.SliceExpr)
						if !ok || se.Low != nil || se.High == nil {
							continue
						}
						if k, isC := intConst(info, se.High); !isC || k != 0 {
							continue
						}
						tv, ok := info.Types[se.X]
						if !ok {
							continue
						}
						sl, ok := tv.Type.Underlying().(*types.Slice)
						if !ok || !isLValPtr(c, sl.Elem()) {
							continue
						}
						out, src := identObj(info, as.Lhs[i]), identObj(info, se.X)
						if out != nil && src != nil && out != src {
							alias[out] = src
						}
					}
					return true
				})
				if len(alias) == 0 {
					continue
				}
				ord := &ordinal{}
				ast.Inspect(u.Decl.Body, func(n ast.Node) bool {
					rs, ok := n.(*ast.RangeStmt)
					if !ok {
						return true
					}
					src := identObj(info, rs.X)
					if src == nil {
						return true
					}
					ast.Inspect(rs.Body, func(m ast.Node) bool {
						as, ok := m.(*ast.AssignStmt)
						if !ok || len(as.Lhs) != len(as.Rhs) {
							return true
						}
						for i, l := range as.Lhs {
							out := identObj(info, l)
							if out == nil || alias[out] != src {
								continue
							}
							ce, ok := ast.Unparen(as.Rhs[i]).(*ast.CallExpr)
							if !ok {
								continue
							}
							if id, ok := ast.Unparen(ce.Fun).(*ast.Ident); !ok || id.Name != "append" || len(ce.Args) == 0 || identObj(info, ce.Args[0]) != out {
								continue
							}
							construct := ord.next("append to " + exprShape(info, ce.Args[0]) + " over its own backing")
							if ce.Ellipsis.IsValid() || len(ce.Args) != 2 {
								obs = append(obs, mkOb(c, rid, u, construct, as, Violated, "`"+types.ExprString(as.Rhs[i])+"` appends more than one element per turn to `"+out.Name()+"`, which shares its backing array with `"+src.Name()+"`, inside the loop that is still reading `"+src.Name()+"`: a spliced sequence of two or more elements overwrites cells the loop has not reached — `(quasiquote ((unquote-splicing '(a b)) (unquote-splicing '())))` gives (a b b)", true))
							} else {
								obs = append(obs, mkOb(c, rid, u, construct, as, Proved, "one element per turn: the write index cannot overtake the read index", true))
							}
						}
						return true
					})
					return true
				})
			}
			return obs
		}})
}

// SNAPSHOT.no-reread — C03 ("no builtin answers with a host panic"): a builtin that
// takes the cells of an argument sequence into a local and then runs USER code
// (a predicate, a key function, a comparator) must keep working from that local.
// The user code can shrink or grow the very sequence in place (elpspath:?del!,
// append!); a length or cell slice read from the argument AGAIN afterwards no longer
// fits indexes computed against the snapshot, and the reslice panics in the Go
// runtime — an internal-panic that no catch-all handler contains.
func init() {
	register(&Rule{ID: "SNAPSHOT.no-reread", Floor: 1,
		Doc: "in every registered builtin of the kernel that copies the cells of an argument into a local (`cells := seqCells(x)` / `x.Cells`) and afterwards calls something that can run user code (FunCall and the helpers that reach it, also inside a callback literal), no later expression reads the length or the cells of that same argument again (`x.Len()`, `len(x.Cells)`, `seqCells(x)`): sizes and indexes all come from the one snapshot, so a predicate that shrinks the sequence in place cannot make them disagree (found: insert-sorted sized its result from list.Len() after the binary search had run the predicate)",
		Run: func(c *Ctx) []Obligation {
			const rid = "SNAPSHOT.no-reread"
			seqCellsFn := c.LookupPkgFunc("lisp.seqCells")
			lenM := c.LookupMethod("lisp.LVal.Len")
			cellsFld := c.LookupField("lisp.LVal.Cells")
			funCall := c.LookupMethod("lisp.LEnv.FunCall")
			if seqCellsFn == nil || lenM == nil || cellsFld == nil || funCall == nil {
				return []Obligation{anchorMissing(rid, "seqCells / LVal.Len / LVal.Cells / LEnv.FunCall")}
			}
			// functions that can run user code: FunCall and whatever reaches it (static calls, depth 3)
			runsUser := map[*types.Func]bool{funCall: true}
			for _, n := range []string{"lisp.LEnv.funCall", "lisp.LEnv.FunCallContext", "lisp.LEnv.Eval", "lisp.LEnv.EvalContext", "lisp.LEnv.call"} {
				if f := c.LookupMethod(n); f != nil {
					runsUser[f] = true
				}
			}
			for pass := 0; pass < 3; pass++ {
				for _, u := range c.Funcs(isKernel) {
					if u.Decl == nil || u.Decl.Body == nil || runsUser[u.Obj] {
						continue
					}
					info := u.Pkg.TypesInfo
					for _, ce := range callsIn(u.Decl.Body, true) {
						if f := originOf(Callee(info, ce)); f != nil && runsUser[f] {
							runsUser[u.Obj] = true
							break
						}
					}
				}
			}
			var obs []Obligation
			// sort adapters whose comparison runs user code: Len, Less and Swap are called by the sort
			// routine in between the user's comparisons, so they too must work from cells captured once —
			// a slice FIELD — and not fetch the cells of a *LVal field each time
			{
				type adapter struct {
					methods map[string]FuncUnit
				}
				ads := map[string]*adapter{}
				for _, u := range c.Funcs(isKernel) {
					if u.Decl == nil || u.Decl.Recv == nil || u.Decl.Body == nil {
						continue
					}
					sig := u.Obj.Type().(*types.Signature)
					if sig.Recv() == nil {
						continue
					}
					tn := canonTypes(sig.Recv().Type().String())
					tn = strings.TrimPrefix(tn, "*")
					if ads[tn] == nil {
						ads[tn] = &adapter{methods: map[string]FuncUnit{}}
					}
					ads[tn].methods[u.Obj.Name()] = u
				}
				for _, tn := range sortedKeys(ads) {
					ad := ads[tn]
					less, hasLess := ad.methods["Less"]
					_, hasLen := ad.methods["Len"]
					_, hasSwap := ad.methods["Swap"]
					if !hasLess || !hasLen || !hasSwap {
						continue
					}
					userCmp := false
					for _, ce := range callsIn(less.Decl.Body, true) {
						if f := originOf(Callee(less.Pkg.TypesInfo, ce)); f != nil && runsUser[f] {
							userCmp = true
						}
					}
					if !userCmp {
						continue
					}
					for _, mn := range sortedKeys(ad.methods) {
						mu := ad.methods[mn]
						minfo := mu.Pkg.TypesInfo
						if mu.Decl.Recv == nil || len(mu.Decl.Recv.List) != 1 || len(mu.Decl.Recv.List[0].Names) != 1 {
							continue
						}
						recv := minfo.Defs[mu.Decl.Recv.List[0].Names[0]]
						var reread ast.Node
						isRecvLValField := func(e ast.Expr) bool {
							se, ok := ast.Unparen(e).(*ast.SelectorExpr)
							if !ok || identObj(minfo, se.X) != recv {
								return false
							}
							tv, ok := minfo.Types[se]
							return ok && isLValPtr(c, tv.Type)
						}
						ast.Inspect(mu.Decl.Body, func(n ast.Node) bool {
							switch y := n.(type) {
							case *ast.CallExpr:
								f := originOf(Callee(minfo, y))
								if f == seqCellsFn && len(y.Args) == 1 && isRecvLValField(y.Args[0]) {
									reread = y
								}
								if f == lenM {
									if se, ok := ast.Unparen(y.Fun).(*ast.SelectorExpr); ok && isRecvLValField(se.X) {
										reread = y
									}
								}
							case *ast.SelectorExpr:
								if FieldOfSelector(minfo, y) == cellsFld && isRecvLValField(y.X) {
									reread = y
								}
							}
							return true
						})
						construct := "sort adapter method " + mn
						if reread != nil {
							obs = append(obs, mkOb(c, rid, mu, construct, reread, Violated, "the sort adapter fetches the cells of the sequence it sorts (`"+types.ExprString(reread.(ast.Expr))+"`) on every call, while its Less runs user code between the calls: a comparator that shrinks the vector in place (elpspath:?del!) leaves sort.Stable with indexes past the new end, and the builtin answers internal-panic (index out of range)", true))
						} else if mn == "Len" || mn == "Less" || mn == "Swap" {
							obs = append(obs, mkOb(c, rid, mu, construct, mu.Decl, Proved, "works from the cells the adapter was built with", true))
						}
					}
				}
			}
			seen := map[*types.Func]bool{}
			for _, e := range c.Registry() {
				body, u, _, ok := c.BodyOf(e)
				if !ok || u.Decl == nil || seen[u.Obj] || !isKernel(u.Pkg.PkgPath) {
					continue
				}
				seen[u.Obj] = true
				info := u.Pkg.TypesInfo
				// snapshots: local := seqCells(X) / X.Cells, X an identifier
				type snap struct {
					x   types.Object
					pos token.Pos
				}
				var snaps []snap
				ast.Inspect(body, func(n ast.Node) bool {
					as, ok := n.(*ast.AssignStmt)
					if !ok || len(as.Lhs) != len(as.Rhs) {
						return true
					}
					for i, r := range as.Rhs {
						if _, isId := as.Lhs[i].(*ast.Ident); !isId {
							continue
						}
						r = ast.Unparen(r)
						var x types.Object
						if ce, ok := r.(*ast.CallExpr); ok && originOf(Callee(info, ce)) == seqCellsFn && len(ce.Args) == 1 {
							x = identObj(info, ce.Args[0])
						} else if se, ok := r.(*ast.SelectorExpr); ok && FieldOfSelector(info, se) == cellsFld {
							x = identObj(info, se.X)
						}
						if x != nil {
							snaps = append(snaps, snap{x, as.End()})
						}
					}
					return true
				})
				if len(snaps) == 0 {
					continue
				}
				ord := &ordinal{}
				for _, sn := range snaps {
					// first user-code call after the snapshot
					var first token.Pos
					for _, ce := range callsIn(body, true) {
						if ce.Pos() < sn.pos {
							continue
						}
						if f := originOf(Callee(info, ce)); f != nil && runsUser[f] {
							if !first.IsValid() || ce.Pos() < first {
								first = ce.Pos()
							}
						}
					}
					if !first.IsValid() {
						continue
					}
					var reread ast.Node
					ast.Inspect(body, func(n ast.Node) bool {
						if reread != nil || n == nil || n.End() <= first {
							return reread == nil
						}
						switch y := n.(type) {
						case *ast.CallExpr:
							if y.Pos() <= first {
								return true
							}
							f := originOf(Callee(info, y))
							if f == seqCellsFn && len(y.Args) == 1 && identObj(info, y.Args[0]) == sn.x {
								reread = y
							}
							if f == lenM {
								if se, ok := ast.Unparen(y.Fun).(*ast.SelectorExpr); ok && identObj(info, se.X) == sn.x {
									reread = y
								}
							}
							if id, ok := ast.Unparen(y.Fun).(*ast.Ident); ok && id.Name == "len" && len(y.Args) == 1 {
								if se, ok := ast.Unparen(y.Args[0]).(*ast.SelectorExpr); ok && FieldOfSelector(info, se) == cellsFld && identObj(info, se.X) == sn.x {
									reread = y
								}
							}
						}
						return true
					})
					construct := ord.next("snapshot of " + sn.x.Name() + " then user code")
					if reread == nil {
						obs = append(obs, mkOb(c, rid, u, construct, body, Proved, "after the user code ran, nothing reads the argument's length or cells again", true))
					} else {
						obs = append(obs, mkOb(c, rid, u, construct, reread, Violated, "`"+types.ExprString(reread.(ast.Expr))+"` reads the argument again after user code (a predicate / key function) has run: that code can shrink or grow the sequence in place, so this size no longer matches the indexes computed against the cells taken before — the reslice that follows panics in the Go runtime (internal-panic)", true))
					}
				}
			}
			return obs
		}})
}

// MEMO.key-covers-inputs — C16 (Format writes only what the reader accepts), and any other
// property a cached decision feeds: a memo in front of a decision function must be keyed by
// everything the decision reads.  `if ok, seen := memo[x.Str]; seen { return ok }; ok := decide(x);
// memo[x.Str] = ok` answers for a later x with the same Str and a different quoted flag what it
// answered for the first.
func init() {
	register(&Rule{ID: "MEMO.key-covers-inputs", Floor: 0,
		Doc: "wherever a function keeps the result of a decision function of the module in a map and answers from that map on a later call (`v, seen := memo[K]; if seen { return v }` … `memo[K] = decide(x)`), every field and every argument-less method of the parameter x that decide reads is part of the key K or is pinned by an early-return guard in front of the lookup (`if x.Type != LSymbol { return false }`): two values that differ in something the decision looks at never share a memo entry (expected count small; seeded C16-r8m1 is the positive example)",
		Run: func(c *Ctx) []Obligation {
			const rid = "MEMO.key-covers-inputs"
			var obs []Obligation
			for _, u := range c.Funcs(nil) {
				if u.Decl == nil || u.Decl.Body == nil {
					continue
				}
				info := u.Pkg.TypesInfo
				params := map[types.Object]bool{}
				for _, p := range paramObjs(u) {
					params[p] = true
				}
				// memo lookups: v, seen := M[K] followed by use; memo stores: M[K] = R
				type look struct {
					m   string
					key ast.Expr
					at  ast.Node
				}
				var looks []look
				ast.Inspect(u.Decl.Body, func(n ast.Node) bool {
					as, ok := n.(*ast.AssignStmt)
					if !ok || len(as.Lhs) != 2 || len(as.Rhs) != 1 {
						return true
					}
					ix, ok := ast.Unparen(as.Rhs[0]).(*ast.IndexExpr)
					if !ok {
						return true
					}
					if tv, ok := info.Types[ix.X]; !ok {
						return true
					} else if _, isMap := tv.Type.Underlying().(*types.Map); !isMap {
						return true
					}
					looks = append(looks, look{types.ExprString(ix.X), ix.Index, as})
					return true
				})
				if len(looks) == 0 {
					continue
				}
				ord := &ordinal{}
				for _, lk := range looks {
					// the store with the same map and the same key, whose value comes from decide(x)
					var decide *types.Func
					var xObj types.Object
					ast.Inspect(u.Decl.Body, func(n ast.Node) bool {
						as, ok := n.(*ast.AssignStmt)
						if !ok || len(as.Lhs) != 1 || len(as.Rhs) != 1 {
							return true
						}
						ix, ok := ast.Unparen(as.Lhs[0]).(*ast.IndexExpr)
						if !ok || types.ExprString(ix.X) != lk.m || types.ExprString(ix.Index) != types.ExprString(lk.key) {
							return true
						}
						val := ast.Unparen(as.Rhs[0])
						if d := soleDef(info, u.Decl.Body, val); d != nil {
							val = ast.Unparen(d)
						}
						ce, ok := val.(*ast.CallExpr)
						if !ok {
							return true
						}
						f := originOf(Callee(info, ce))
						if f == nil || c.declOf[f] == nil || f == u.Obj {
							return true
						}
						for _, a := range ce.Args {
							if o := identObj(info, a); o != nil && params[o] {
								decide, xObj = f, o
							}
						}
						return true
					})
					if decide == nil || xObj == nil {
						continue
					}
					// which parameter of decide receives x
					dd := c.declOf[decide]
					dinfo := c.pkgOf[dd].TypesInfo
					var dparam types.Object
					for _, ce := range callsIn(u.Decl.Body, true) {
						if originOf(Callee(info, ce)) != decide {
							continue
						}
						dps := paramObjs(FuncUnit{decide, dd, c.pkgOf[dd]})
						for i, a := range ce.Args {
							if identObj(info, a) == xObj && i < len(dps) {
								dparam = dps[i]
							}
						}
					}
					if dparam == nil || dd.Body == nil {
						continue
					}
					// what decide reads of its parameter
					reads := map[string]bool{}
					ast.Inspect(dd.Body, func(n ast.Node) bool {
						switch y := n.(type) {
						case *ast.CallExpr:
							if se, ok := ast.Unparen(y.Fun).(*ast.SelectorExpr); ok && identObj(dinfo, se.X) == dparam && len(y.Args) == 0 {
								reads[se.Sel.Name+"()"] = true
								return false
							}
						case *ast.SelectorExpr:
							if identObj(dinfo, y.X) == dparam {
								reads[y.Sel.Name] = true
							}
						}
						return true
					})
					// what the key and the guards in front of the lookup cover
					covered := map[string]bool{}
					note := func(e ast.Expr) {
						ast.Inspect(e, func(n ast.Node) bool {
							switch y := n.(type) {
							case *ast.CallExpr:
								if se, ok := ast.Unparen(y.Fun).(*ast.SelectorExpr); ok && identObj(info, se.X) == xObj && len(y.Args) == 0 {
									covered[se.Sel.Name+"()"] = true
								}
							case *ast.SelectorExpr:
								if identObj(info, y.X) == xObj {
									covered[y.Sel.Name] = true
								}
							}
							return true
						})
					}
					note(lk.key)
					for _, st := range u.Decl.Body.List {
						if st.End() > lk.at.Pos() {
							break
						}
						if is, ok := st.(*ast.IfStmt); ok && is.Else == nil && len(is.Body.List) > 0 {
							if _, isRet := is.Body.List[len(is.Body.List)-1].(*ast.ReturnStmt); isRet {
								note(is.Cond)
							}
						}
					}
					var missing []string
					for r := range reads {
						if !covered[r] {
							missing = append(missing, r)
						}
					}
					sort.Strings(missing)
					construct := ord.next("memo " + exprShape(info, ast.Unparen(lk.at.(*ast.AssignStmt).Rhs[0])) + " of " + decide.Name())
					if len(missing) == 0 {
						obs = append(obs, mkOb(c, rid, u, construct, lk.at, Proved, "everything "+decide.Name()+" reads of its argument is in the key or pinned by a guard", true))
					} else {
						obs = append(obs, mkOb(c, rid, u, construct, lk.at, Violated, "the memo is keyed by `"+types.ExprString(lk.key)+"` but "+decide.Name()+" also reads "+strings.Join(missing, ", ")+" of its argument: a later value with the same key and a different "+missing[0]+" is answered from the entry made for the first (e.g. `(lisp:function 'car)` re-sugared to `#''car` after `#'car` was printed)", true))
					}
				}
			}
			return obs
		}})
}

// FORMALS.key-marker-not-skipped — C01 (application with keyword parameters): Go code that
// forwards a function's formals into a call form it builds (compose) must pass the formals
// after &key WITH their keywords.  An arm that merely skips the &key marker and carries on
// hands the keyword parameters' values over positionally, and the callee refuses every call
// ("argument is not a keyword").  &optional may be skipped: optional arguments are positional.
func init() {
	register(&Rule{ID: "FORMALS.key-marker-not-skipped", Floor: 1,
		Doc: "in every loop of the kernel that walks a list of formals and appends the symbols to a call form it is building, the arm that recognises the &key marker (a comparison with KeyArgSymbol) does more than `continue`: it records that the keyword section has begun (a flag, a mode) or emits the keywords itself, so that the formals after it reach the callee as `:name value` pairs — compose of a function with keyword parameters then works like the function itself",
		Run: func(c *Ctx) []Obligation {
			const rid = "FORMALS.key-marker-not-skipped"
			keySym := c.Pkg("lisp").Types.Scope().Lookup("KeyArgSymbol")
			if keySym == nil {
				return []Obligation{anchorMissing(rid, "lisp.KeyArgSymbol")}
			}
			var obs []Obligation
			for _, u := range c.Funcs(isKernel) {
				if u.Decl == nil || u.Decl.Body == nil {
					continue
				}
				info := u.Pkg.TypesInfo
				ord := &ordinal{}
				ast.Inspect(u.Decl.Body, func(n ast.Node) bool {
					var body *ast.BlockStmt
					switch x := n.(type) {
					case *ast.RangeStmt:
						body = x.Body
					case *ast.ForStmt:
						body = x.Body
					}
					if body == nil {
						return true
					}
					// the loop builds a call: it appends to the Cells of some value
					builds := false
					ast.Inspect(body, func(m ast.Node) bool {
						if as, ok := m.(*ast.AssignStmt); ok && len(as.Rhs) == 1 {
							if ce, ok := ast.Unparen(as.Rhs[0]).(*ast.CallExpr); ok {
								if id, ok := ast.Unparen(ce.Fun).(*ast.Ident); ok && id.Name == "append" && len(ce.Args) >= 2 {
									if se, ok := ast.Unparen(ce.Args[0]).(*ast.SelectorExpr); ok && se.Sel.Name == "Cells" {
										builds = true
									}
								}
							}
						}
						return true
					})
					if !builds {
						return true
					}
					for _, st := range body.List {
						is, ok := st.(*ast.IfStmt)
						if !ok {
							continue
						}
						be, ok := ast.Unparen(is.Cond).(*ast.BinaryExpr)
						if !ok || be.Op != token.EQL || (identObj(info, be.X) != keySym && identObj(info, be.Y) != keySym) {
							continue
						}
						construct := ord.next("the &key arm of a call-building loop")
						onlyContinue := len(is.Body.List) == 1
						if onlyContinue {
							br, isBr := is.Body.List[0].(*ast.BranchStmt)
							onlyContinue = isBr && br.Tok == token.CONTINUE
						}
						if onlyContinue {
							obs = append(obs, mkOb(c, rid, u, construct, is, Violated, "the &key marker is skipped and the formals after it are appended to the call like positional ones: the callee receives the keyword parameters' VALUES without their keywords — (compose identity g) with g = (lambda (&key a b) …) fails on every call with `argument is not a keyword`", true))
						} else {
							obs = append(obs, mkOb(c, rid, u, construct, is, Proved, "the arm records the start of the keyword section", true))
						}
					}
					return true
				})
			}
			return obs
		}})
}

// FMT.comment-loops-gated — C16 (idempotence under StripComments): whatever the printer writes
// BECAUSE a comment is there — the comment's line, and equally the blank lines and the break
// that separate it from what precedes — is written only when comments are kept.  A loop over
// comment tokens that still writes the gap of a stripped comment produces text whose second
// formatting (no comment, so no gap) differs from the first.
func init() {
	register(&Rule{ID: "FMT.comment-loops-gated", Floor: 2,
		Doc: "in the formatter's printer every loop over a slice of comment tokens writes to the output only where comments are known to be kept: each call of a writing method of the printer inside such a loop is reached only over an edge entailing !Config.StripComments (typically the early `if p.cfg.StripComments { return }` of the function), or is a call of a method that gates ALL its own writes that way — so the blank lines in front of a stripped comment are stripped with it",
		Run: func(c *Ctx) []Obligation {
			const rid = "FMT.comment-loops-gated"
			stripFld := c.LookupField("formatter.Config.StripComments")
			tokT := c.LookupType("parser/token.Token")
			if stripFld == nil || tokT == nil {
				return []Obligation{anchorMissing(rid, "formatter.Config.StripComments / token.Token")}
			}
			isPrinterMethod := func(f *types.Func) bool {
				if f == nil || f.Pkg() == nil || rel(f.Pkg().Path()) != "formatter" {
					return false
				}
				sig, ok := f.Type().(*types.Signature)
				return ok && sig.Recv() != nil && strings.HasSuffix(sig.Recv().Type().String(), "formatter.printer")
			}
			// writers: printer methods that (transitively) write to the buffer
			writes := map[*types.Func]bool{}
			units := c.Funcs(func(p string) bool { return rel(p) == "formatter" })
			for _, u := range units {
				if u.Decl == nil || u.Decl.Body == nil || !isPrinterMethod(u.Obj) {
					continue
				}
				info := u.Pkg.TypesInfo
				for _, ce := range callsIn(u.Decl.Body, true) {
					if se, ok := ast.Unparen(ce.Fun).(*ast.SelectorExpr); ok {
						if f := Callee(info, ce); f != nil && f.Pkg() != nil && (f.Pkg().Path() == "bytes" || f.Pkg().Path() == "strings") && strings.HasPrefix(f.Name(), "Write") {
							_ = se
							writes[u.Obj] = true
						}
					}
				}
			}
			for changed := true; changed; {
				changed = false
				for _, u := range units {
					if u.Decl == nil || u.Decl.Body == nil || !isPrinterMethod(u.Obj) || writes[u.Obj] {
						continue
					}
					for _, ce := range callsIn(u.Decl.Body, true) {
						if f := originOf(Callee(u.Pkg.TypesInfo, ce)); f != nil && writes[f] {
							writes[u.Obj] = true
							changed = true
						}
					}
				}
			}
			stripCls := func(info *types.Info) func(e ast.Expr) (string, bool) {
				return func(e ast.Expr) (string, bool) {
					if se, ok := ast.Unparen(e).(*ast.SelectorExpr); ok && FieldOfSelector(info, se) == stripFld {
						return "strip", false
					}
					return "", false
				}
			}
			kept := func(v map[string]bool) bool { return v["$has:strip"] && !v["strip"] }
			// gated: every write call of the method lies behind !StripComments
			gated := map[*types.Func]bool{}
			for _, u := range units {
				if u.Decl == nil || u.Decl.Body == nil || !writes[u.Obj] {
					continue
				}
				info := u.Pkg.TypesInfo
				fc := c.cfgOf(u, nil)
				cut := fc.edgesEntailing(stripCls(info), kept)
				if len(cut) == 0 {
					continue
				}
				all := true
				for _, b := range fc.G.Blocks {
					if !fc.Live(b) {
						continue
					}
					for _, n := range b.Nodes {
						for _, ce := range callsIn(n, false) {
							f := originOf(Callee(info, ce))
							direct := false
							if ff := Callee(info, ce); ff != nil && ff.Pkg() != nil && (ff.Pkg().Path() == "bytes" || ff.Pkg().Path() == "strings") && strings.HasPrefix(ff.Name(), "Write") {
								direct = true
							}
							if (direct || (f != nil && writes[f])) && fc.reachableAvoiding(b, cut) {
								all = false
							}
						}
					}
				}
				if all {
					gated[u.Obj] = true
				}
			}
			var obs []Obligation
			for _, u := range units {
				if u.Decl == nil || u.Decl.Body == nil || !isPrinterMethod(u.Obj) {
					continue
				}
				info := u.Pkg.TypesInfo
				var fc *FCFG
				ord := &ordinal{}
				ast.Inspect(u.Decl.Body, func(n ast.Node) bool {
					rs, ok := n.(*ast.RangeStmt)
					if !ok {
						return true
					}
					tv, ok := info.Types[rs.X]
					if !ok {
						return true
					}
					sl, ok := tv.Type.Underlying().(*types.Slice)
					if !ok {
						return true
					}
					pt, ok := sl.Elem().(*types.Pointer)
					if !ok || !types.Identical(pt.Elem(), tokT) {
						return true
					}
					if fc == nil {
						fc = c.cfgOf(u, nil)
					}
					cut := fc.edgesEntailing(stripCls(info), kept)
					construct := ord.next("loop over comment tokens " + exprShape(info, rs.X))
					bad := ""
					for _, ce := range callsIn(rs.Body, false) {
						f := originOf(Callee(info, ce))
						if f == nil || !writes[f] || gated[f] {
							continue
						}
						loc, ok := fc.Locate(ce)
						if !ok {
							continue
						}
						if len(cut) == 0 || fc.reachableAvoiding(loc.B, cut) {
							bad = types.ExprString(ce)
						}
					}
					if bad == "" {
						obs = append(obs, mkOb(c, rid, u, construct, rs, Proved, "every write inside the loop happens only when comments are kept", true))
					} else {
						obs = append(obs, mkOb(c, rid, u, construct, rs, Violated, "`"+bad+"` writes to the output inside a loop over comment tokens on a path where comments may be stripped: the gap in front of a stripped comment survives the first formatting and disappears on the second — with StripComments, Format(\"(a)\\n\\n; note\\n\") = \"(a)\\n\\n\" and formatting that again gives \"(a)\\n\"", true))
					}
					return true
				})
			}
			return obs
		}})
}
