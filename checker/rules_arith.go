package main

import (
	"go/ast"
	"go/token"
	"go/types"
)

// ARITH.promote-first — the n-ary arithmetic reducers (+, -, *) are documented
// as "int if all args are ints; otherwise float".  The structural half: integer
// accumulation happens only on a path that established, for the WHOLE argument
// list, that every operand is an int (numericListType(args.Cells) == LInt).
// Accumulating in int until the first float shows up lets the int prefix wrap
// around before promotion and makes a mixed result depend on argument order.

func init() {
	register(&Rule{ID: "ARITH.promote-first", Floor: 3,
		Doc: "in the implementations of +, - and * (and the same-package helpers they hand their arguments to) every integer accumulation (`acc op= x.Int`, `a.Int op b.Int`) is reached only over an edge entailing numericListType(args.Cells) == LInt: the int/float decision is taken for the whole argument list before anything is accumulated, so an int prefix cannot wrap around before promotion and the result does not depend on argument order",
		Run: func(c *Ctx) []Obligation {
			nlt := c.LookupPkgFunc("lisp.numericListType")
			lint := c.LookupConst("lisp.LInt")
			intFld := c.LookupField("lisp.LVal.Int")
			if nlt == nil || lint == nil || intFld == nil {
				return []Obligation{anchorMissing("ARITH.promote-first", "lisp.numericListType / LInt / LVal.Int")}
			}
			var obs []Obligation
			for _, op := range []string{"+", "-", "*"} {
				ent := c.RegistryByName("lisp", op)
				if ent == nil {
					obs = append(obs, anchorMissing("ARITH.promote-first", "operator "+op))
					continue
				}
				_, u0, _, ok := c.BodyOf(*ent)
				if !ok || u0.Decl == nil {
					obs = append(obs, anchorMissing("ARITH.promote-first", "body of "+op))
					continue
				}
				// closure over same-package helpers (depth 2)
				seen := map[*types.Func]bool{u0.Obj: true}
				work := []FuncUnit{u0}
				var units []FuncUnit
				for d := 0; d < 3 && len(work) > 0; d++ {
					var next []FuncUnit
					for _, u := range work {
						units = append(units, u)
						info := u.Pkg.TypesInfo
						ast.Inspect(u.Decl.Body, func(n ast.Node) bool {
							ce, ok := n.(*ast.CallExpr)
							if !ok {
								return true
							}
							fn := originOf(Callee(info, ce))
							if fn == nil || fn.Pkg() != u.Obj.Pkg() || seen[fn] {
								return true
							}
							fd := c.declOf[fn]
							if fd == nil || fd.Body == nil {
								return true
							}
							// only helpers that receive lisp values (arguments)
							takesVal := false
							for _, p := range paramObjs(FuncUnit{fn, fd, c.pkgOf[fd]}) {
								if isLValPtr(c, p.Type()) {
									takesVal = true
								}
							}
							if !takesVal {
								return true
							}
							// constructors and accessors of the value model are not reducers
							switch fn.Name() {
							case "Int", "Float", "SExpr", "toFloat", "numericListType":
								return true
							}
							seen[fn] = true
							next = append(next, FuncUnit{fn, fd, c.pkgOf[fd]})
							return true
						})
					}
					work = next
				}
				nacc := 0
				for _, u := range units {
					info := u.Pkg.TypesInfo
					fc := c.cfgOf(u, nil)
					readsInt := func(e ast.Expr) bool {
						hit := false
						ast.Inspect(e, func(n ast.Node) bool {
							if se, ok := n.(*ast.SelectorExpr); ok && FieldOfSelector(info, se) == intFld {
								hit = true
							}
							return !hit
						})
						return hit
					}
					cls := func(e ast.Expr) (string, bool) {
						be, ok := ast.Unparen(e).(*ast.BinaryExpr)
						if !ok || (be.Op != token.EQL && be.Op != token.NEQ) {
							return "", false
						}
						isLInt := func(x ast.Expr) bool { return identObjOrSel(info, x) == lint }
						isWhole := func(x ast.Expr) bool {
							if ce, ok := ast.Unparen(x).(*ast.CallExpr); ok && originOf(Callee(info, ce)) == nlt {
								return true
							}
							if o := identObj(info, x); o != nil {
								if dc, _, _ := definingCall(info, u.Decl.Body, o); dc != nil && originOf(Callee(info, dc)) == nlt {
									return true
								}
							}
							return false
						}
						if (isWhole(be.X) && isLInt(be.Y)) || (isWhole(be.Y) && isLInt(be.X)) {
							return "allInt", be.Op == token.NEQ
						}
						return "", false
					}
					cut := fc.edgesEntailing(cls, func(v map[string]bool) bool { return v["$has:allInt"] && v["allInt"] })
					ord := &ordinal{}
					for _, b := range fc.G.Blocks {
						if !fc.Live(b) {
							continue
						}
						for _, n := range b.Nodes {
							var accs []ast.Node
							ast.Inspect(n, func(m ast.Node) bool {
								switch x := m.(type) {
								case *ast.AssignStmt:
									if (x.Tok == token.ADD_ASSIGN || x.Tok == token.SUB_ASSIGN || x.Tok == token.MUL_ASSIGN) && len(x.Rhs) == 1 && readsInt(x.Rhs[0]) {
										// float accumulation converts: float64(c.Int) — the target decides
										if tv, ok := info.Types[x.Lhs[0]]; ok {
											if bt, ok := tv.Type.Underlying().(*types.Basic); ok && bt.Info()&types.IsInteger != 0 {
												accs = append(accs, x)
											}
										}
									}
								case *ast.BinaryExpr:
									if (x.Op == token.ADD || x.Op == token.SUB || x.Op == token.MUL) && readsInt(x.X) && readsInt(x.Y) {
										if tv, ok := info.Types[x]; ok {
											if bt, ok := tv.Type.Underlying().(*types.Basic); ok && bt.Info()&types.IsInteger != 0 {
												accs = append(accs, x)
											}
										}
									}
								}
								return true
							})
							for _, a := range accs {
								nacc++
								construct := ord.next("int accumulation for " + op)
								if len(cut) > 0 && !fc.reachableAvoiding(b, cut) {
									obs = append(obs, mkOb(c, "ARITH.promote-first", u, construct, a, Proved, "reached only after numericListType(args) == LInt", true))
								} else {
									obs = append(obs, mkOb(c, "ARITH.promote-first", u, construct, a, Violated, "integers are accumulated before the whole argument list is known to be ints: an int prefix can wrap around before the result is promoted to float, and a mixed result depends on argument order", true))
								}
							}
						}
					}
				}
				if nacc == 0 {
					obs = append(obs, mkOb(c, "ARITH.promote-first", u0, "int accumulation for "+op, u0.Decl, Undecided, "no integer accumulation found in the implementation of "+op, false))
				}
			}
			return obs
		}})
}

