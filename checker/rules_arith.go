package main

import (
	"fmt"
	"go/ast"
	"go/token"
	"go/types"

	"golang.org/x/tools/go/cfg"
)

// ARITH.promote-first — the n-ary arithmetic reducers (+, -, *) are documented
// as "int if all args are ints; otherwise float".  The structural half: integer
// accumulation happens only on a path that established, for the WHOLE argument
// list, that every operand is an int (numericListType(args.Cells) == LInt).
// Accumulating in int until the first float shows up lets the int prefix wrap
// around before promotion and makes a mixed result depend on argument order.

func init() {
	register(&Rule{ID: "ARITH.promote-first", Floor: 3,
		Doc: "in the implementations of +, - and * (and the same-package helpers they hand their arguments to) every integer accumulation (`acc op= x.Int`, `a.Int op b.Int`) is reached only over an edge entailing numericListType(args.Cells) == LInt: the int/float decision is taken for the whole argument list before anything is accumulated, so an int prefix cannot wrap around before promotion and the result does not depend on argument order",
		Run: func(c *Ctx) []Obligation {
			nlt := c.LookupPkgFunc("lisp.numericListType")
			lint := c.LookupConst("lisp.LInt")
			intFld := c.LookupField("lisp.LVal.Int")
			if nlt == nil || lint == nil || intFld == nil {
				return []Obligation{anchorMissing("ARITH.promote-first", "lisp.numericListType / LInt / LVal.Int")}
			}
			var obs []Obligation
			for _, op := range []string{"+", "-", "*"} {
				ent := c.RegistryByName("lisp", op)
				if ent == nil {
					obs = append(obs, anchorMissing("ARITH.promote-first", "operator "+op))
					continue
				}
				_, u0, _, ok := c.BodyOf(*ent)
				if !ok || u0.Decl == nil {
					obs = append(obs, anchorMissing("ARITH.promote-first", "body of "+op))
					continue
				}
				// closure over same-package helpers (depth 2)
				seen := map[*types.Func]bool{u0.Obj: true}
				work := []FuncUnit{u0}
				var units []FuncUnit
				for d := 0; d < 3 && len(work) > 0; d++ {
					var next []FuncUnit
					for _, u := range work {
						units = append(units, u)
						info := u.Pkg.TypesInfo
						ast.Inspect(u.Decl.Body, func(n ast.Node) bool {
							ce, ok := n.(*ast.CallExpr)
							if !ok {
								return true
							}
							fn := originOf(Callee(info, ce))
							if fn == nil || fn.Pkg() != u.Obj.Pkg() || seen[fn] {
								return true
							}
							fd := c.declOf[fn]
							if fd == nil || fd.Body == nil {
								return true
							}
							// only helpers that receive lisp values (arguments)
							takesVal := false
							for _, p := range paramObjs(FuncUnit{fn, fd, c.pkgOf[fd]}) {
								if isLValPtr(c, p.Type()) {
									takesVal = true
								}
							}
							if !takesVal {
								return true
							}
							// constructors and accessors of the value model are not reducers
							switch fn.Name() {
							case "Int", "Float", "SExpr", "toFloat", "numericListType":
								return true
							}
							seen[fn] = true
							next = append(next, FuncUnit{fn, fd, c.pkgOf[fd]})
							return true
						})
					}
					work = next
				}
				nacc := 0
				for _, u := range units {
					info := u.Pkg.TypesInfo
					fc := c.cfgOf(u, nil)
					readsInt := func(e ast.Expr) bool {
						hit := false
						ast.Inspect(e, func(n ast.Node) bool {
							if se, ok := n.(*ast.SelectorExpr); ok && FieldOfSelector(info, se) == intFld {
								hit = true
							}
							return !hit
						})
						return hit
					}
					cls := func(e ast.Expr) (string, bool) {
						be, ok := ast.Unparen(e).(*ast.BinaryExpr)
						if !ok || (be.Op != token.EQL && be.Op != token.NEQ) {
							return "", false
						}
						isLInt := func(x ast.Expr) bool { return identObjOrSel(info, x) == lint }
						isWhole := func(x ast.Expr) bool {
							if ce, ok := ast.Unparen(x).(*ast.CallExpr); ok && originOf(Callee(info, ce)) == nlt {
								return true
							}
							if o := identObj(info, x); o != nil {
								if dc, _, _ := definingCall(info, u.Decl.Body, o); dc != nil && originOf(Callee(info, dc)) == nlt {
									return true
								}
							}
							return false
						}
						if (isWhole(be.X) && isLInt(be.Y)) || (isWhole(be.Y) && isLInt(be.X)) {
							return "allInt", be.Op == token.NEQ
						}
						return "", false
					}
					cut := fc.edgesEntailing(cls, func(v map[string]bool) bool { return v["$has:allInt"] && v["allInt"] })
					ord := &ordinal{}
					for _, b := range fc.G.Blocks {
						if !fc.Live(b) {
							continue
						}
						for _, n := range b.Nodes {
							var accs []ast.Node
							ast.Inspect(n, func(m ast.Node) bool {
								switch x := m.(type) {
								case *ast.AssignStmt:
									if (x.Tok == token.ADD_ASSIGN || x.Tok == token.SUB_ASSIGN || x.Tok == token.MUL_ASSIGN) && len(x.Rhs) == 1 && readsInt(x.Rhs[0]) {
										// float accumulation converts: float64(c.Int) — the target decides
										if tv, ok := info.Types[x.Lhs[0]]; ok {
											if bt, ok := tv.Type.Underlying().(*types.Basic); ok && bt.Info()&types.IsInteger != 0 {
												accs = append(accs, x)
											}
										}
									}
								case *ast.BinaryExpr:
									if (x.Op == token.ADD || x.Op == token.SUB || x.Op == token.MUL) && readsInt(x.X) && readsInt(x.Y) {
										if tv, ok := info.Types[x]; ok {
											if bt, ok := tv.Type.Underlying().(*types.Basic); ok && bt.Info()&types.IsInteger != 0 {
												accs = append(accs, x)
											}
										}
									}
								}
								return true
							})
							for _, a := range accs {
								nacc++
								construct := ord.next("int accumulation for " + op)
								if len(cut) > 0 && !fc.reachableAvoiding(b, cut) {
									obs = append(obs, mkOb(c, "ARITH.promote-first", u, construct, a, Proved, "reached only after numericListType(args) == LInt", true))
								} else {
									obs = append(obs, mkOb(c, "ARITH.promote-first", u, construct, a, Violated, "integers are accumulated before the whole argument list is known to be ints: an int prefix can wrap around before the result is promoted to float, and a mixed result depends on argument order", true))
								}
							}
						}
					}
				}
				if nacc == 0 {
					obs = append(obs, mkOb(c, "ARITH.promote-first", u0, "int accumulation for "+op, u0.Decl, Undecided, "no integer accumulation found in the implementation of "+op, false))
				}
			}
			return obs
		}})
}


func init() {
	register(&Rule{ID: "ARITH.compare-native", Floor: 8,
		Doc: "the four ordering predicates < <= > >= return Bool(x OP y) with OP the predicate's own Go operator applied directly to the two operands (both .Int, or both toFloat/.Float, first argument on the left): an IEEE comparison, false whenever an operand is NaN — never a three-way comparison (cmp.Compare orders NaN below everything and equal to itself) compared with zero; and nothing in the kernel calls cmp.Compare/cmp.Less on float64 operands",
		Run: func(c *Ctx) []Obligation {
			intFld := c.LookupField("lisp.LVal.Int")
			fltFld := c.LookupField("lisp.LVal.Float")
			toFloat := c.LookupPkgFunc("lisp.toFloat")
			if intFld == nil || fltFld == nil {
				return []Obligation{anchorMissing("ARITH.compare-native", "LVal.Int / LVal.Float")}
			}
			ops := map[string]token.Token{"<": token.LSS, "<=": token.LEQ, ">": token.GTR, ">=": token.GEQ}
			var obs []Obligation
			for _, name := range []string{"<", "<=", ">", ">="} {
				ent := c.RegistryByName("lisp", name)
				if ent == nil {
					obs = append(obs, anchorMissing("ARITH.compare-native", "operator "+name))
					continue
				}
				_, u, _, ok := c.BodyOf(*ent)
				if !ok || u.Decl == nil {
					obs = append(obs, anchorMissing("ARITH.compare-native", "body of "+name))
					continue
				}
				info := u.Pkg.TypesInfo
				ps := paramObjs(u)
				if len(ps) != 2 {
					continue
				}
				// which local is args.Cells[0] / [1]
				cellOf := map[types.Object]int{}
				ast.Inspect(u.Decl.Body, func(n ast.Node) bool {
					if as, ok := n.(*ast.AssignStmt); ok && len(as.Lhs) == len(as.Rhs) {
						for i, r := range as.Rhs {
							for k := 0; k < 2; k++ {
								if isCellsIndex(r, ps[1], info, k) {
									if o := identObj(info, as.Lhs[i]); o != nil {
										cellOf[o] = k
									}
								}
							}
						}
					}
					return true
				})
				operand := func(e ast.Expr) (idx int, kind string, ok bool) {
					e = ast.Unparen(e)
					if se, ok2 := e.(*ast.SelectorExpr); ok2 {
						f := FieldOfSelector(info, se)
						if f == intFld || f == fltFld {
							if o := identObj(info, se.X); o != nil {
								if k, ok3 := cellOf[o]; ok3 {
									if f == intFld {
										return k, "int", true
									}
									return k, "float", true
								}
							}
						}
					}
					if ce, ok2 := e.(*ast.CallExpr); ok2 && toFloat != nil && originOf(Callee(info, ce)) == toFloat && len(ce.Args) == 1 {
						if o := identObj(info, ce.Args[0]); o != nil {
							if k, ok3 := cellOf[o]; ok3 {
								return k, "float", true
							}
						}
					}
					return 0, "", false
				}
				nres := 0
				for _, rs := range returnsOf(u.Decl.Body) {
					if len(rs.Results) != 1 {
						continue
					}
					ce, ok := ast.Unparen(rs.Results[0]).(*ast.CallExpr)
					if !ok || len(ce.Args) != 1 {
						continue
					}
					if fn := Callee(info, ce); fn == nil || fn.Name() != "Bool" {
						continue
					}
					nres++
					construct := fmt.Sprintf("%s result#%d", name, nres)
					be, ok := ast.Unparen(ce.Args[0]).(*ast.BinaryExpr)
					if !ok {
						obs = append(obs, mkOb(c, "ARITH.compare-native", u, construct, rs, Undecided, "the result `"+types.ExprString(ce.Args[0])+"` is not a direct comparison", true))
						continue
					}
					li, lk, lok := operand(be.X)
					ri, rk, rok := operand(be.Y)
					switch {
					case lok && rok && lk == rk && li == 0 && ri == 1 && be.Op == ops[name]:
						obs = append(obs, mkOb(c, "ARITH.compare-native", u, construct, rs, Proved, "Bool(first "+be.Op.String()+" second) on "+lk+" operands", true))
					case lok && rok && lk == rk && li == 1 && ri == 0 && be.Op == mirrorOp(ops[name]):
						obs = append(obs, mkOb(c, "ARITH.compare-native", u, construct, rs, Proved, "Bool(second "+be.Op.String()+" first) on "+lk+" operands", true))
					default:
						obs = append(obs, mkOb(c, "ARITH.compare-native", u, construct, rs, Violated, "`"+types.ExprString(ce.Args[0])+"` is not the predicate's own operator applied to its two operands: a three-way comparison against zero orders NaN ((<= (/ 0 0) 1) becomes true), a swapped or different operator changes the order", true))
					}
				}
				if nres == 0 {
					obs = append(obs, mkOb(c, "ARITH.compare-native", u, name+" result", u.Decl, Undecided, "no Bool(...) result found", false))
				}
			}
			// no three-way comparison of floats anywhere in the kernel
			n3 := 0
			for _, u := range c.Funcs(isKernel) {
				info := u.Pkg.TypesInfo
				ord := &ordinal{}
				ast.Inspect(u.Decl.Body, func(n ast.Node) bool {
					ce, ok := n.(*ast.CallExpr)
					if !ok {
						return true
					}
					fn := Callee(info, ce)
					if fn == nil || fn.Pkg() == nil || fn.Pkg().Path() != "cmp" || (fn.Name() != "Compare" && fn.Name() != "Less") {
						return true
					}
					for _, a := range ce.Args {
						if tv, ok := info.Types[a]; ok {
							if bt, ok := tv.Type.Underlying().(*types.Basic); ok && bt.Info()&types.IsFloat != 0 {
								n3++
								obs = append(obs, mkOb(c, "ARITH.compare-native", u, ord.next("cmp."+fn.Name()+" on floats"), ce, Violated, "cmp."+fn.Name()+" orders NaN (below every number, equal to itself); lisp numeric predicates are IEEE comparisons", true))
								break
							}
						}
					}
					return true
				})
			}
			obs = append(obs, Obligation{Rule: "ARITH.compare-native", Func: "-", Construct: "three-way float comparisons in the kernel", Verdict: Proved, Detail: fmt.Sprintf("%d found (each is listed as a violation)", n3)})
			return obs
		}})
}

func mirrorOp(t token.Token) token.Token {
	switch t {
	case token.LSS:
		return token.GTR
	case token.LEQ:
		return token.GEQ
	case token.GTR:
		return token.LSS
	case token.GEQ:
		return token.LEQ
	}
	return t
}

// ARITH.div-folds-left — `/` is documented as "divides the first by all subsequent; int
// while every division is exact, otherwise float": (/ a b c) is (/ (/ a b) c).  The int prefix
// of a mixed operand list is therefore divided in integer arithmetic before anything is
// promoted.  The structural half: the integer division of the first operand is entered on
// some path that does NOT assume the whole argument list to be ints — a whole-list
// classification in front of it (the shape +, -, * rightly have) sends an int prefix above
// 2^53, or a wrapping quotient, through float64 first.

func init() {
	register(&Rule{ID: "ARITH.div-folds-left", Floor: 1,
		Doc: "in the implementation of `/`, some entry into integer division whose dividend is an operand of the call (x.Int / y.Int, directly or in a same-package helper handed the operand) stays reachable when every edge entailing numericListType(args) == LInt is removed: `/` folds left and stays exact on an int prefix, it does not classify the whole list first",
		Run: func(c *Ctx) []Obligation {
			const id = "ARITH.div-folds-left"
			nlt := c.LookupPkgFunc("lisp.numericListType")
			lint := c.LookupConst("lisp.LInt")
			intFld := c.LookupField("lisp.LVal.Int")
			cellsFld := c.LookupField("lisp.LVal.Cells")
			ent := c.RegistryByName("lisp", "/")
			if nlt == nil || lint == nil || intFld == nil || cellsFld == nil || ent == nil {
				return []Obligation{anchorMissing(id, "lisp.numericListType / LInt / LVal.Int / LVal.Cells / operator /")}
			}
			_, u0, _, ok := c.BodyOf(*ent)
			if !ok || u0.Decl == nil {
				return []Obligation{anchorMissing(id, "body of /")}
			}
			// does fn (same package, depth-bounded) divide two .Int reads in integer arithmetic?
			var intDivides func(fn *types.Func, depth int) bool
			hasIntQuo := func(u FuncUnit) bool {
				info := u.Pkg.TypesInfo
				hit := false
				ast.Inspect(u.Decl.Body, func(n ast.Node) bool {
					be, ok := n.(*ast.BinaryExpr)
					if !ok || be.Op != token.QUO {
						return true
					}
					reads := func(e ast.Expr) bool {
						r := false
						ast.Inspect(e, func(m ast.Node) bool {
							if se, ok := m.(*ast.SelectorExpr); ok && FieldOfSelector(info, se) == intFld {
								r = true
							}
							return !r
						})
						return r
					}
					if tv, ok := info.Types[be]; ok && reads(be.X) && reads(be.Y) {
						if bt, ok := tv.Type.Underlying().(*types.Basic); ok && bt.Info()&types.IsInteger != 0 {
							hit = true
						}
					}
					return !hit
				})
				return hit
			}
			seen := map[*types.Func]bool{}
			intDivides = func(fn *types.Func, depth int) bool {
				fn = originOf(fn)
				if fn == nil || fn.Pkg() != u0.Obj.Pkg() || seen[fn] {
					return false
				}
				fd := c.declOf[fn]
				if fd == nil || fd.Body == nil {
					return false
				}
				u := FuncUnit{fn, fd, c.pkgOf[fd]}
				if hasIntQuo(u) {
					return true
				}
				if depth == 0 {
					return false
				}
				seen[fn] = true
				defer delete(seen, fn)
				info := u.Pkg.TypesInfo
				hit := false
				ast.Inspect(fd.Body, func(n ast.Node) bool {
					if ce, ok := n.(*ast.CallExpr); ok && !hit {
						if g := Callee(info, ce); g != nil && intDivides(g, depth-1) {
							hit = true
						}
					}
					return !hit
				})
				return hit
			}
			info := u0.Pkg.TypesInfo
			fc := c.cfgOf(u0, nil)
			cls := func(e ast.Expr) (string, bool) {
				be, ok := ast.Unparen(e).(*ast.BinaryExpr)
				if !ok || (be.Op != token.EQL && be.Op != token.NEQ) {
					return "", false
				}
				isLInt := func(x ast.Expr) bool { return identObjOrSel(info, x) == lint }
				isWhole := func(x ast.Expr) bool {
					if ce, ok := ast.Unparen(x).(*ast.CallExpr); ok && originOf(Callee(info, ce)) == nlt {
						return true
					}
					if o := identObj(info, x); o != nil {
						if dc, _, _ := definingCall(info, u0.Decl.Body, o); dc != nil && originOf(Callee(info, dc)) == nlt {
							return true
						}
					}
					return false
				}
				if (isWhole(be.X) && isLInt(be.Y)) || (isWhole(be.Y) && isLInt(be.X)) {
					return "allInt", be.Op == token.NEQ
				}
				return "", false
			}
			cut := fc.edgesEntailing(cls, func(v map[string]bool) bool { return v["$has:allInt"] && v["allInt"] })
			// an operand of the call: an expression that reads the Cells of a parameter
			params := map[types.Object]bool{}
			for _, p := range paramObjs(u0) {
				params[p] = true
			}
			fromArgs := func(e ast.Expr) bool {
				hit := false
				ast.Inspect(e, func(n ast.Node) bool {
					if se, ok := n.(*ast.SelectorExpr); ok && FieldOfSelector(info, se) == cellsFld {
						if o := identObj(info, se.X); o != nil && params[o] {
							hit = true
						}
					}
					return !hit
				})
				if !hit {
					if o := identObj(info, e); o != nil && !params[o] {
						if d := soleDef(info, u0.Decl.Body, e); d != nil && d != e {
							ast.Inspect(d, func(n ast.Node) bool {
								if se, ok := n.(*ast.SelectorExpr); ok && FieldOfSelector(info, se) == cellsFld {
									if o := identObj(info, se.X); o != nil && params[o] {
										hit = true
									}
								}
								return !hit
							})
						}
					}
				}
				return hit
			}
			type entry struct {
				n ast.Node
				b *cfg.Block
			}
			var entries []entry
			for _, b := range fc.G.Blocks {
				if !fc.Live(b) {
					continue
				}
				for _, n := range b.Nodes {
					ast.Inspect(n, func(m ast.Node) bool {
						switch x := m.(type) {
						case *ast.CallExpr:
							if g := Callee(info, x); g != nil && intDivides(g, 2) && len(x.Args) > 0 && fromArgs(x.Args[0]) {
								entries = append(entries, entry{x, b})
							}
						case *ast.BinaryExpr:
							if x.Op == token.QUO && fromArgs(x.X) {
								if tv, ok := info.Types[x]; ok {
									if bt, ok := tv.Type.Underlying().(*types.Basic); ok && bt.Info()&types.IsInteger != 0 {
										entries = append(entries, entry{x, b})
									}
								}
							}
						}
						return true
					})
				}
			}
			if len(entries) == 0 {
				return []Obligation{mkOb(c, id, u0, "integer division of the first operand", u0.Decl, Undecided, "no integer division whose dividend is an operand of the call was found in the implementation of /", true)}
			}
			for _, e := range entries {
				if len(cut) == 0 || fc.reachableAvoiding(e.b, cut) {
					return []Obligation{mkOb(c, id, u0, "integer division of the first operand", e.n, Proved, "entered without assuming the whole operand list to be ints: an int prefix is divided exactly before any promotion", true)}
				}
			}
			return []Obligation{mkOb(c, id, u0, "integer division of the first operand", entries[0].n, Violated, "every integer division of the first operand is reached only after numericListType(args) == LInt: a mixed list such as (/ 9007199254740993 3 1.0) is divided in float64 from the start, so (/ a b c) no longer equals (/ (/ a b) c)", true)}
		}})
}
