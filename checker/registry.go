package main

import (
	"fmt"
	"go/ast"
	"go/constant"
	"go/types"
	"sort"
	"strings"

	"golang.org/x/tools/go/packages"
)

// E2 — registry extraction.  Every builtin, special operator and macro that
// lisp source can call is registered in one of a few table shapes; they are
// parsed from the AST with resolved constants.  An element that cannot be
// resolved fails the check (it never silently drops out of the rule's scope).

type RegEntry struct {
	Pkg     *packages.Package
	Table   string // variable (or function) holding the table
	Kind    string // builtin | op | macro | unknown
	Name    string
	Formals []string
	FnExpr  ast.Expr
	Fn      *types.Func  // declared function or method, when statically resolved
	Lit     *ast.FuncLit // inline literal
	FnVar   *types.Var   // package-level function variable (closure factory)
	Node    ast.Node
	Problem string
}

func (e RegEntry) Key() string { return rel(e.Pkg.PkgPath) + ":" + e.Name }

// NFixed returns the number of positional formals before any control symbol,
// whether the list has &rest / &optional / &key.
func (e RegEntry) Shape() (nfixed int, hasRest, hasOpt, hasKey bool) {
	for _, f := range e.Formals {
		switch f {
		case "&rest":
			hasRest = true
		case "&optional":
			hasOpt = true
		case "&key":
			hasKey = true
		}
	}
	for _, f := range e.Formals {
		if strings.HasPrefix(f, "&") {
			break
		}
		nfixed++
	}
	return
}

func constString(info *types.Info, e ast.Expr) (string, bool) {
	tv, ok := info.Types[e]
	if !ok || tv.Value == nil || tv.Value.Kind() != constant.String {
		return "", false
	}
	return constant.StringVal(tv.Value), true
}

func (c *Ctx) Registry() []RegEntry {
	if r, ok := c.memo["registry"].([]RegEntry); ok {
		return r
	}
	formalsFn := c.LookupPkgFunc("lisp.Formals")
	libFn := c.LookupPkgFunc("lisp/lisplib/internal/libutil.Function")
	libFnDoc := c.LookupPkgFunc("lisp/lisplib/internal/libutil.FunctionDoc")
	langBuiltinT := c.LookupType("lisp.langBuiltin")
	var out []RegEntry

	parseFormals := func(info *types.Info, e ast.Expr) ([]string, string) {
		ce, ok := ast.Unparen(e).(*ast.CallExpr)
		if !ok || originOf(Callee(info, ce)) != formalsFn {
			return nil, "formals are not a direct lisp.Formals(...) call: " + types.ExprString(e)
		}
		var fs []string
		for _, a := range ce.Args {
			s, ok := constString(info, a)
			if !ok {
				return nil, "non-constant formal: " + types.ExprString(a)
			}
			fs = append(fs, s)
		}
		return fs, ""
	}
	resolveFn := func(p *packages.Package, ent *RegEntry, e ast.Expr) {
		ent.FnExpr = e
		switch x := ast.Unparen(e).(type) {
		case *ast.FuncLit:
			ent.Lit = x
			return
		case *ast.Ident:
			switch o := p.TypesInfo.Uses[x].(type) {
			case *types.Func:
				ent.Fn = originOf(o)
				return
			case *types.Var:
				if o.Parent() == p.Types.Scope() {
					ent.FnVar = o
					return
				}
			}
		case *ast.SelectorExpr:
			if sel := p.TypesInfo.Selections[x]; sel != nil {
				if fn, ok := sel.Obj().(*types.Func); ok {
					ent.Fn = originOf(fn)
					return
				}
			}
			if fn, ok := p.TypesInfo.Uses[x.Sel].(*types.Func); ok {
				ent.Fn = originOf(fn)
				return
			}
		}
		ent.Problem = "function expression not resolved: " + types.ExprString(e)
	}
	kindOfTable := func(name string) string {
		l := strings.ToLower(name)
		switch {
		case strings.Contains(l, "macro"):
			return "macro"
		case strings.Contains(l, "specialop") || l == "ops" || strings.HasSuffix(l, "ops"):
			return "op"
		}
		return "builtin"
	}

	for _, p := range c.KernelPkgs() {
		info := p.TypesInfo
		for _, f := range p.Syntax {
			// track the enclosing top-level declaration name for each node
			for _, d := range f.Decls {
				tableName := ""
				switch dd := d.(type) {
				case *ast.GenDecl:
					for _, sp := range dd.Specs {
						vs, ok := sp.(*ast.ValueSpec)
						if !ok {
							continue
						}
						for i, nm := range vs.Names {
							if i < len(vs.Values) {
								tableName = nm.Name
								c.scanRegistry(p, info, vs.Values[i], tableName, kindOfTable(tableName), langBuiltinT, libFn, libFnDoc, parseFormals, resolveFn, &out)
							}
						}
					}
				case *ast.FuncDecl:
					if dd.Body != nil {
						tableName = dd.Name.Name
						c.scanRegistry(p, info, dd.Body, tableName, kindOfTable(tableName), langBuiltinT, libFn, libFnDoc, parseFormals, resolveFn, &out)
					}
				}
			}
		}
	}
	// Generic registration API (RegisterDefaultBuiltin(name, formals, fn)): the
	// element is built from the function's own parameters, not a table entry.
	kept := out[:0]
	for _, e := range out {
		if e.Name == "" && e.Fn == nil && e.Lit == nil && e.FnVar == nil {
			if id, ok := ast.Unparen(e.FnExpr).(*ast.Ident); ok {
				if v, ok := e.Pkg.TypesInfo.Uses[id].(*types.Var); ok && v.Parent() != e.Pkg.Types.Scope() && !v.IsField() {
					continue
				}
			}
		}
		kept = append(kept, e)
	}
	out = kept
	// Kinds for lisplib tables: by which Add* call consumes the table variable.
	c.refineKinds(out)
	sort.SliceStable(out, func(i, j int) bool { return out[i].Key() < out[j].Key() })
	c.memo["registry"] = out
	return out
}

func (c *Ctx) scanRegistry(p *packages.Package, info *types.Info, root ast.Node, table, kind string,
	langBuiltinT *types.Named, libFn, libFnDoc *types.Func,
	parseFormals func(*types.Info, ast.Expr) ([]string, string),
	resolveFn func(*packages.Package, *RegEntry, ast.Expr), out *[]RegEntry) {
	ast.Inspect(root, func(n ast.Node) bool {
		switch x := n.(type) {
		case *ast.CompositeLit:
			tv, ok := info.Types[x]
			if !ok {
				return true
			}
			t := tv.Type
			if ptr, ok := t.(*types.Pointer); ok {
				t = ptr.Elem()
			}
			if nt, ok := types.Unalias(t).(*types.Named); ok && langBuiltinT != nil && nt.Obj() == langBuiltinT.Obj() {
				ent := RegEntry{Pkg: p, Table: table, Kind: kind, Node: x}
				if len(x.Elts) < 3 {
					ent.Problem = "langBuiltin literal with fewer than 3 positional elements"
					*out = append(*out, ent)
					return false
				}
				if _, isKV := x.Elts[0].(*ast.KeyValueExpr); isKV {
					ent.Problem = "keyed langBuiltin literal not supported"
					*out = append(*out, ent)
					return false
				}
				if s, ok := constString(info, x.Elts[0]); ok {
					ent.Name = s
				} else {
					ent.Problem = "non-constant name"
				}
				fs, prob := parseFormals(info, x.Elts[1])
				ent.Formals = fs
				if prob != "" && ent.Problem == "" {
					ent.Problem = prob
				}
				resolveFn(p, &ent, x.Elts[2])
				*out = append(*out, ent)
				return false
			}
		case *ast.CallExpr:
			fn := originOf(Callee(info, x))
			if fn != nil && (fn == libFn || fn == libFnDoc) && len(x.Args) >= 3 {
				ent := RegEntry{Pkg: p, Table: table, Kind: kind, Node: x}
				if s, ok := constString(info, x.Args[0]); ok {
					ent.Name = s
				} else {
					ent.Problem = "non-constant name"
				}
				fs, prob := parseFormals(info, x.Args[1])
				ent.Formals = fs
				if prob != "" && ent.Problem == "" {
					ent.Problem = prob
				}
				resolveFn(p, &ent, x.Args[2])
				*out = append(*out, ent)
				return false
			}
		}
		return true
	})
}

// refineKinds looks at `env.AddMacros(true, X...)`-style consumers.
func (c *Ctx) refineKinds(ents []RegEntry) {
	addM := c.LookupMethod("lisp.LEnv.AddMacros")
	addO := c.LookupMethod("lisp.LEnv.AddSpecialOps")
	addB := c.LookupMethod("lisp.LEnv.AddBuiltins")
	// table var name (per package) -> kind, found by scanning range loops / direct args
	kinds := map[string]string{}
	for _, p := range c.KernelPkgs() {
		info := p.TypesInfo
		for _, f := range p.Syntax {
			ast.Inspect(f, func(n ast.Node) bool {
				rs, ok := n.(*ast.RangeStmt)
				if !ok {
					return true
				}
				id, ok := ast.Unparen(rs.X).(*ast.Ident)
				if !ok {
					return true
				}
				for _, ce := range callsIn(rs.Body, false) {
					switch originOf(Callee(info, ce)) {
					case addM:
						kinds[p.PkgPath+"."+id.Name] = "macro"
					case addO:
						kinds[p.PkgPath+"."+id.Name] = "op"
					case addB:
						kinds[p.PkgPath+"."+id.Name] = "builtin"
					}
				}
				return true
			})
		}
	}
	for i := range ents {
		if k, ok := kinds[ents[i].Pkg.PkgPath+"."+ents[i].Table]; ok {
			ents[i].Kind = k
		}
	}
}

// BodyOf returns the AST body implementing a registry entry when it is a
// declared function, a method or an inline literal.
func (c *Ctx) BodyOf(e RegEntry) (*ast.BlockStmt, FuncUnit, *ast.FuncLit, bool) {
	if e.Lit != nil {
		u, _ := c.unitOfPos(e.Pkg, e.Lit.Pos())
		return e.Lit.Body, u, e.Lit, true
	}
	if e.Fn != nil {
		if fd := c.declOf[e.Fn]; fd != nil && fd.Body != nil {
			return fd.Body, FuncUnit{e.Fn, fd, c.pkgOf[fd]}, nil, true
		}
	}
	if e.FnVar != nil {
		// package-level function variable: find its initializer; if it is a call
		// of a closure factory, the implementing body is the literal the factory returns.
		for _, f := range e.Pkg.Syntax {
			for _, d := range f.Decls {
				gd, ok := d.(*ast.GenDecl)
				if !ok {
					continue
				}
				for _, sp := range gd.Specs {
					vs, ok := sp.(*ast.ValueSpec)
					if !ok {
						continue
					}
					for i, nm := range vs.Names {
						if e.Pkg.TypesInfo.Defs[nm] != e.FnVar || i >= len(vs.Values) {
							continue
						}
						switch v := ast.Unparen(vs.Values[i]).(type) {
						case *ast.FuncLit:
							u, _ := c.unitOfPos(e.Pkg, v.Pos())
							return v.Body, u, v, true
						case *ast.SelectorExpr:
							// method value, e.g. realFunc(math.Sin).builtin
							if sel := e.Pkg.TypesInfo.Selections[v]; sel != nil {
								if fn, ok := sel.Obj().(*types.Func); ok {
									fn = originOf(fn)
									if fd := c.declOf[fn]; fd != nil && fd.Body != nil {
										return fd.Body, FuncUnit{fn, fd, c.pkgOf[fd]}, nil, true
									}
								}
							}
						case *ast.CallExpr:
							if fn := originOf(Callee(e.Pkg.TypesInfo, v)); fn != nil {
								if fd := c.declOf[fn]; fd != nil {
									var lit *ast.FuncLit
									ast.Inspect(fd.Body, func(n ast.Node) bool {
										if rs, ok := n.(*ast.ReturnStmt); ok && len(rs.Results) == 1 {
											if l, ok := ast.Unparen(rs.Results[0]).(*ast.FuncLit); ok {
												lit = l
											}
										}
										return true
									})
									if lit != nil {
										return lit.Body, FuncUnit{fn, fd, c.pkgOf[fd]}, lit, true
									}
								}
							}
						}
					}
				}
			}
		}
	}
	return nil, FuncUnit{}, nil, false
}

func (c *Ctx) RegistryByName(pkgRel, name string) *RegEntry {
	for _, e := range c.Registry() {
		if rel(e.Pkg.PkgPath) == pkgRel && e.Name == name {
			e := e
			return &e
		}
	}
	return nil
}

func debugRegistry(c *Ctx) {
	for _, e := range c.Registry() {
		impl := "?"
		switch {
		case e.Fn != nil:
			impl = FuncName(e.Fn)
		case e.Lit != nil:
			impl = "literal"
		case e.FnVar != nil:
			impl = "var " + e.FnVar.Name()
		}
		_, _, _, ok := c.BodyOf(e)
		fmt.Printf("%-34s %-8s table=%-18s formals=%v impl=%s body=%v %s\n", e.Key(), e.Kind, e.Table, e.Formals, impl, ok, e.Problem)
	}
}

// followForwarder: when the implementation body of a registered builtin is a pure forwarder —
// its only statement is `return g(…)` with g a declared function of the same package (has-key and
// may-have-key merged into `keyConstraint(env, args, required bool)`) — the body that implements the
// builtin is g's, with g's boolean parameters that receive constants bound to them.  Followed up to
// three hops; returns the body and unit given when it is no forwarder.
func (c *Ctx) followForwarder(body *ast.BlockStmt, u FuncUnit) (*ast.BlockStmt, FuncUnit, map[types.Object]bool) {
	flags := map[types.Object]bool{}
	for hop := 0; hop < 3; hop++ {
		if body == nil || len(body.List) != 1 {
			break
		}
		rs, ok := body.List[0].(*ast.ReturnStmt)
		if !ok || len(rs.Results) != 1 {
			break
		}
		ce, ok := ast.Unparen(rs.Results[0]).(*ast.CallExpr)
		if !ok {
			break
		}
		info := u.Pkg.TypesInfo
		g := originOf(Callee(info, ce))
		if g == nil || u.Obj == nil || g.Pkg() != u.Obj.Pkg() {
			break
		}
		gd := c.declOf[g]
		if gd == nil || gd.Body == nil {
			break
		}
		gu := FuncUnit{g, gd, c.pkgOf[gd]}
		ps := paramObjs(gu)
		for i, a := range ce.Args {
			if i >= len(ps) {
				break
			}
			if tv, ok := info.Types[a]; ok && tv.Value != nil && tv.Value.Kind() == constant.Bool {
				flags[ps[i]] = constant.BoolVal(tv.Value)
			}
		}
		body, u = gd.Body, gu
	}
	return body, u, flags
}
