package main

import (
	"go/token"
	"go/types"
	"strings"

	"golang.org/x/tools/go/ssa"
)

// NONMUT.result-not-argument — C11 ("who may change a value in place"): the
// language has pairs `op` / `op!` (assoc / assoc!, dissoc / dissoc!): the `!`
// form changes its argument, the plain form returns a NEW value and leaves the
// argument alone.  That promise has a second half the write rules do not see:
// the value the plain form returns must not BE its argument.  A shortcut that
// hands the input back when there is nothing to change ("the key is absent,
// the result has exactly the entries m has") makes result and argument one
// object, and the next assoc! on either shows through the other.
func init() {
	register(&Rule{ID: "NONMUT.result-not-argument", Floor: 2,
		Doc: "for every builtin `op` of the kernel that has a registered in-place twin `op!`, no return of `op` hands back one of its own argument values (a value loaded from args.Cells[k], directly or through locals and control-flow joins): the result of the non-mutating form is always a value distinct from its inputs",
		Run: func(c *Ctx) []Obligation {
			const rid = "NONMUT.result-not-argument"
			byName := map[string]RegEntry{}
			for _, e := range c.Registry() {
				if rel(e.Pkg.PkgPath) == "lisp" && e.Problem == "" && e.Fn != nil {
					byName[e.Name] = e
				}
			}
			cellsF := c.LookupField("lisp.LVal.Cells")
			var obs []Obligation
			for _, name := range sortedKeys(byName) {
				if strings.HasSuffix(name, "!") {
					continue
				}
				twin, ok := byName[name+"!"]
				if !ok {
					continue
				}
				e := byName[name]
				// both are ordinary builtins working on values (set / set! are binding operators)
				if e.Kind != "builtin" || twin.Kind != "builtin" {
					continue
				}
				fn := c.ssaFunc(e.Fn)
				if fn == nil || len(fn.Blocks) == 0 || len(fn.Params) < 2 {
					continue
				}
				argsP := fn.Params[len(fn.Params)-1]
				// is v a value loaded out of args.Cells (an element, at any index)?
				var fromArgs func(v ssa.Value, depth int, seen map[ssa.Value]bool) bool
				fromArgs = func(v ssa.Value, depth int, seen map[ssa.Value]bool) bool {
					if v == nil || depth > 8 || seen[v] {
						return false
					}
					seen[v] = true
					switch x := v.(type) {
					case *ssa.Phi:
						for _, ed := range x.Edges {
							if fromArgs(ed, depth+1, seen) {
								return true
							}
						}
					case *ssa.UnOp:
						if x.Op != token.MUL {
							return false
						}
						// *IndexAddr(<args.Cells or a reslice of it>, k)
						if ia, ok := x.X.(*ssa.IndexAddr); ok {
							return cellsOfArgs(ia.X, argsP, cellsF, 0)
						}
						// a local spilled to memory
						if al, ok := x.X.(*ssa.Alloc); ok && al.Referrers() != nil {
							for _, r := range *al.Referrers() {
								if st, ok := r.(*ssa.Store); ok && st.Addr == ssa.Value(al) && fromArgs(st.Val, depth+1, seen) {
									return true
								}
							}
						}
					}
					return false
				}
				u := FuncUnit{e.Fn, c.declOf[e.Fn], c.pkgOf[c.declOf[e.Fn]]}
				ord := &ordinal{}
				n := 0
				for _, b := range fn.Blocks {
					for _, ins := range b.Instrs {
						ret, ok := ins.(*ssa.Return)
						if !ok || len(ret.Results) != 1 {
							continue
						}
						n++
						construct := ord.next(name + ": value returned")
						o := Obligation{Rule: rid, Func: u.Name(), Construct: construct, Pos: c.Pos(ret.Pos()), Nontrivial: true}
						if fromArgs(ret.Results[0], 0, map[ssa.Value]bool{}) {
							o.Verdict = Violated
							o.Detail = "the non-mutating `" + name + "` can return one of its own arguments: result and argument are then the same object, and a later `" + name + "!` (or any in-place operation) on one of them changes the other — (let* ((m (sorted-map \"a\" 1)) (r (dissoc m \"zz\"))) (assoc! r \"b\" 2) m) shows the new key in m"
						} else {
							o.Verdict, o.Detail = Proved, "not an element of the argument list"
						}
						obs = append(obs, o)
					}
				}
				_ = n
			}
			return obs
		}})
}

// cellsOfArgs: v is args.Cells (a load of the Cells field of the args parameter) or a reslice of it.
func cellsOfArgs(v ssa.Value, argsP *ssa.Parameter, cellsF *types.Var, depth int) bool {
	if depth > 4 {
		return false
	}
	switch x := v.(type) {
	case *ssa.Slice:
		return cellsOfArgs(x.X, argsP, cellsF, depth+1)
	case *ssa.UnOp:
		if x.Op != token.MUL {
			return false
		}
		if fa, ok := x.X.(*ssa.FieldAddr); ok && fa.X == ssa.Value(argsP) {
			if st, ok := argsP.Type().Underlying().(*types.Pointer); ok {
				if s, ok := st.Elem().Underlying().(*types.Struct); ok && fa.Field < s.NumFields() && s.Field(fa.Field) == cellsF {
					return true
				}
			}
		}
	}
	return false
}
