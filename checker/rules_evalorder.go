package main

import (
	"fmt"
	"go/ast"
	"go/token"
	"go/types"
	"strings"

	"golang.org/x/tools/go/cfg"
)

// Rules over evalSExprCells, the function that evaluates the head and the
// arguments of an application, and over the frame push.

func init() {
	register(&Rule{ID: "EVALORDER.head-checked-first", Floor: 2,
		Doc: "in evalSExprCells the arguments of an application are evaluated only after its head was evaluated and found to be a function: every evaluator call on an argument cell (the calls inside the loop over the remaining cells) is reached only over an edge entailing head.Type == LFun, and the head's own evaluation precedes them — (5 (set! x 1)) fails with `not a function` without having run the assignment (left-to-right evaluation, error of the leftmost failing sub-expression)",
		Run: func(c *Ctx) []Obligation {
			fn, fd, pkg := c.LookupFunc("lisp.(*LEnv).evalSExprCells")
			evalM := c.LookupMethod("lisp.LEnv.eval")
			typeFld := c.LookupField("lisp.LVal.Type")
			lfun := c.LookupConst("lisp.LFun")
			if fn == nil || evalM == nil || typeFld == nil || lfun == nil {
				return []Obligation{anchorMissing("EVALORDER.head-checked-first", "evalSExprCells / LEnv.eval / LVal.Type / LFun")}
			}
			u := FuncUnit{fn, fd, pkg}
			info := pkg.TypesInfo
			fc := c.cfgOf(u, nil)
			// eval calls: head = the one whose result is assigned to a local outside any loop; args = those inside a range loop
			var headObj types.Object
			var headBlock *cfg.Block
			type site struct {
				b  *cfg.Block
				ce *ast.CallExpr
			}
			var argSites []site
			inLoop := map[ast.Node]bool{}
			ast.Inspect(fd.Body, func(n ast.Node) bool {
				if rs, ok := n.(*ast.RangeStmt); ok {
					ast.Inspect(rs.Body, func(m ast.Node) bool {
						if ce, ok := m.(*ast.CallExpr); ok {
							inLoop[ce] = true
						}
						return true
					})
				}
				if fs, ok := n.(*ast.ForStmt); ok {
					ast.Inspect(fs.Body, func(m ast.Node) bool {
						if ce, ok := m.(*ast.CallExpr); ok {
							inLoop[ce] = true
						}
						return true
					})
				}
				return true
			})
			for _, b := range fc.G.Blocks {
				if !fc.Live(b) {
					continue
				}
				for _, n := range b.Nodes {
					for _, ce := range callsIn(n, false) {
						if originOf(Callee(info, ce)) != evalM {
							continue
						}
						if inLoop[ce] {
							argSites = append(argSites, site{b, ce})
							continue
						}
						if as, ok := n.(*ast.AssignStmt); ok && len(as.Lhs) == 1 && headObj == nil {
							headObj = identObj(info, as.Lhs[0])
							headBlock = b
						}
					}
				}
			}
			var obs []Obligation
			if headObj == nil || len(argSites) == 0 {
				return []Obligation{mkOb(c, "EVALORDER.head-checked-first", u, "head and argument evaluation", fd, Undecided, "could not identify the head's evaluation and the argument loop in evalSExprCells", false)}
			}
			cls := func(e ast.Expr) (string, bool) {
				be, ok := ast.Unparen(e).(*ast.BinaryExpr)
				if !ok || (be.Op != token.EQL && be.Op != token.NEQ) || FieldOfSelector(info, be.X) != typeFld {
					return "", false
				}
				se, ok := ast.Unparen(be.X).(*ast.SelectorExpr)
				if !ok || identObj(info, se.X) != headObj {
					return "", false
				}
				if identObjOrSel(info, be.Y) != lfun {
					return "", false
				}
				return "headIsFun", be.Op == token.NEQ
			}
			cut := fc.edgesEntailing(cls, func(v map[string]bool) bool { return v["$has:headIsFun"] && v["headIsFun"] })
			ord := &ordinal{}
			for _, s := range argSites {
				construct := ord.next("argument evaluation")
				okOrder := fc.BlockDominates(headBlock, s.b)
				okGuard := len(cut) > 0 && !fc.reachableAvoiding(s.b, cut)
				switch {
				case okOrder && okGuard:
					obs = append(obs, mkOb(c, "EVALORDER.head-checked-first", u, construct, s.ce, Proved, "dominated by the head's evaluation and reached only when head.Type == LFun", true))
				case !okOrder:
					obs = append(obs, mkOb(c, "EVALORDER.head-checked-first", u, construct, s.ce, Violated, "an argument can be evaluated before the head of the application", true))
				default:
					obs = append(obs, mkOb(c, "EVALORDER.head-checked-first", u, construct, s.ce, Violated, "arguments are evaluated although the head may not be a function: (5 (set! x 1)) runs the assignment before failing, and an error in an argument hides the `not a function` error", true))
				}
			}
			obs = append(obs, mkOb(c, "EVALORDER.head-checked-first", u, "head evaluation", headBlock.Nodes[0], Proved, "the head is evaluated once, outside the argument loop", false))
			return obs
		}})

	register(&Rule{ID: "TRO.args-nonterminal", Floor: 2,
		Doc: "in evalSExprCells the test-and-clear of the top frame's Terminal flag comes before every evaluator call of the function — the head's as well as the arguments': the block that tests Stack.Top().Terminal dominates each of them, so no sub-expression of an application is evaluated in terminal context (a call inside the head expression cannot be mistaken for a tail call of the enclosing frame)",
		Run: func(c *Ctx) []Obligation {
			fn, fd, pkg := c.LookupFunc("lisp.(*LEnv).evalSExprCells")
			evalM := c.LookupMethod("lisp.LEnv.eval")
			term := c.LookupField("lisp.CallFrame.Terminal")
			if fn == nil || evalM == nil || term == nil {
				return []Obligation{anchorMissing("TRO.args-nonterminal", "evalSExprCells / LEnv.eval / CallFrame.Terminal")}
			}
			u := FuncUnit{fn, fd, pkg}
			info := pkg.TypesInfo
			fc := c.cfgOf(u, nil)
			// the block whose condition reads Terminal and whose true branch stores false to it
			var testBlock *cfg.Block
			for _, b := range fc.G.Blocks {
				cond := fc.CondOf(b)
				if cond == nil || !fc.Live(b) {
					continue
				}
				reads := false
				ast.Inspect(cond, func(n ast.Node) bool {
					if se, ok := n.(*ast.SelectorExpr); ok && FieldOfSelector(info, se) == term {
						reads = true
					}
					return true
				})
				if !reads {
					continue
				}
				stores := false
				for _, n := range b.Succs[0].Nodes {
					if as, ok := n.(*ast.AssignStmt); ok && len(as.Lhs) == 1 && FieldOfSelector(info, as.Lhs[0]) == term && isBoolConst(info, as.Rhs[0], false) {
						stores = true
					}
				}
				if stores {
					testBlock = b
				}
			}
			if testBlock == nil {
				return []Obligation{mkOb(c, "TRO.args-nonterminal", u, "terminal test-and-clear", fd, Violated, "evalSExprCells no longer tests the top frame's Terminal flag and clears it before evaluating the sub-expressions of an application", true)}
			}
			// the guard `Top() != nil` wraps the test; what must dominate the eval calls is the outermost condition block of that region
			region := testBlock
			for _, b := range fc.G.Blocks {
				if fc.Live(b) && fc.CondOf(b) != nil && fc.BlockDominates(b, testBlock) && b != testBlock {
					// the closest enclosing condition that mentions Top()
					mentionsTop := false
					ast.Inspect(fc.CondOf(b), func(n ast.Node) bool {
						if ce, ok := n.(*ast.CallExpr); ok {
							if f := Callee(info, ce); f != nil && f.Name() == "Top" {
								mentionsTop = true
							}
						}
						return true
					})
					if mentionsTop {
						region = b
					}
				}
			}
			var obs []Obligation
			ord := &ordinal{}
			// the clear is unconditional: the only reasons not to clear the flag are that there is no
			// frame or that the flag is not set — the edge of the test that does not lead to the store
			// entails `no frame ∨ ¬Terminal`.  A further conjunct (`… && argsMayCall(cells[1:])`) leaves
			// the head of the application to be evaluated in terminal context.
			{
				cls := func(e ast.Expr) (string, bool) {
					e = ast.Unparen(e)
					if se, ok := e.(*ast.SelectorExpr); ok && FieldOfSelector(info, se) == term {
						return "term", false
					}
					if be, ok := e.(*ast.BinaryExpr); ok && (be.Op == token.NEQ || be.Op == token.EQL) {
						if isNilIdent(info, be.Y) || isNilIdent(info, be.X) {
							return "frame", be.Op == token.EQL
						}
					}
					return "", false
				}
				if fc.edgeEntails(testBlock, 1, cls, func(v map[string]bool) bool {
					return (v["$has:term"] && !v["term"]) || (v["$has:frame"] && !v["frame"])
				}) {
					obs = append(obs, mkOb(c, "TRO.args-nonterminal", u, "clear is unconditional", fc.CondOf(testBlock), Proved, "the flag is left alone only when there is no frame or it is not set", true))
				} else {
					obs = append(obs, mkOb(c, "TRO.args-nonterminal", u, "clear is unconditional", fc.CondOf(testBlock), Violated, "the Terminal flag can stay set although a frame exists and the flag is set (a further condition guards the clear): the head of the application — and any argument the extra condition misjudges — is then evaluated in terminal context, and a call inside it is collapsed into the enclosing frame (`((build (- n 1)) n)` in tail position answers with a tail-recursion mark)", true))
				}
			}
			for _, b := range fc.G.Blocks {
				if !fc.Live(b) {
					continue
				}
				for _, n := range b.Nodes {
					for _, ce := range callsIn(n, false) {
						if originOf(Callee(info, ce)) != evalM {
							continue
						}
						construct := ord.next("evaluator call")
						if fc.BlockDominates(region, b) && b != region {
							obs = append(obs, mkOb(c, "TRO.args-nonterminal", u, construct, ce, Proved, "comes after the Terminal test-and-clear on every path", true))
						} else {
							obs = append(obs, mkOb(c, "TRO.args-nonterminal", u, construct, ce, Violated, "a sub-expression of the application is evaluated before the frame's Terminal flag was cleared: a call inside it can be taken for a tail call of the enclosing frame and be collapsed", true))
						}
					}
				}
			}
			return obs
		}})

	register(&Rule{ID: "FRAME.fresh-on-push", Floor: 2,
		Doc: "a frame enters CallStack.Frames only as a complete new value: PushFID grows the slice with append(Frames, CallFrame{...}) (a composite literal, every field determined) and never by re-slicing into spare capacity and assigning fields one by one, and Pop shrinks it by re-slicing only — so no field of a popped frame (Terminal, TROBlock, TailIterations, HeightLogical) can survive into the frame that later takes its slot",
		Run: func(c *Ctx) []Obligation {
			frames := c.LookupField("lisp.CallStack.Frames")
			frameT := c.LookupType("lisp.CallFrame")
			if frames == nil || frameT == nil {
				return []Obligation{anchorMissing("FRAME.fresh-on-push", "CallStack.Frames / CallFrame")}
			}
			var obs []Obligation
			for _, u := range c.Funcs(func(p string) bool { return rel(p) == "lisp" }) {
				info := u.Pkg.TypesInfo
				ord := &ordinal{}
				ast.Inspect(u.Decl.Body, func(n ast.Node) bool {
					as, ok := n.(*ast.AssignStmt)
					if !ok || len(as.Lhs) != len(as.Rhs) {
						return true
					}
					for i, l := range as.Lhs {
						if FieldOfSelector(info, l) != frames {
							continue
						}
						rhs := ast.Unparen(as.Rhs[i])
						construct := ord.next("store to Frames")
						switch x := rhs.(type) {
						case *ast.CallExpr:
							if id, ok := ast.Unparen(x.Fun).(*ast.Ident); ok && id.Name == "append" && len(x.Args) >= 2 {
								allLit := true
								for _, a := range x.Args[1:] {
									cl, ok := ast.Unparen(a).(*ast.CompositeLit)
									if !ok {
										// a local this function built from a composite literal (fields filled in
										// afterwards) is just as complete a new value
										if id, isID := ast.Unparen(a).(*ast.Ident); isID && freshLocalStruct(info, u.Decl.Body, id) {
											if tv, ok := info.Types[id]; ok && types.Unalias(tv.Type) == types.Type(frameT) {
												continue
											}
										}
										allLit = false
										continue
									}
									if tv, ok := info.Types[cl]; !ok || types.Unalias(tv.Type) != types.Type(frameT) {
										allLit = false
									}
								}
								if allLit && FieldOfSelector(info, x.Args[0]) == frames {
									obs = append(obs, mkOb(c, "FRAME.fresh-on-push", u, construct, as, Proved, "append(Frames, CallFrame{...}): the new frame is a complete fresh value", true))
								} else {
									obs = append(obs, mkOb(c, "FRAME.fresh-on-push", u, construct, as, Undecided, "Frames grows by append of something other than a CallFrame composite literal", true))
								}
								continue
							}
							obs = append(obs, mkOb(c, "FRAME.fresh-on-push", u, construct, as, Proved, "Frames replaced by the result of `"+types.ExprString(x.Fun)+"` (a copy/constructor)", false))
						case *ast.SliceExpr:
							// shrinking only: Frames[:len(Frames)-k] ; anything whose high bound is not `len(Frames) - const` may extend
							shrinks := false
							if x.High != nil && x.Low == nil {
								// the bound may be named first (`last := len(s.Frames) - 1`): a local with one
								// definition stands for it, provided this is the function's only store to Frames
								high := ast.Unparen(x.High)
								if nFramesStores(info, u.Decl.Body, frames) == 1 {
									high = resolveLocal(info, u.Decl.Body, high)
								}
								if be, ok := high.(*ast.BinaryExpr); ok && be.Op == token.SUB {
									if ce, ok := ast.Unparen(be.X).(*ast.CallExpr); ok {
										if id, ok := ast.Unparen(ce.Fun).(*ast.Ident); ok && id.Name == "len" && len(ce.Args) == 1 && FieldOfSelector(info, ce.Args[0]) == frames {
											if k, ok := intConst(info, be.Y); ok && k > 0 {
												shrinks = true
											}
										}
									}
								}
							}
							if shrinks {
								obs = append(obs, mkOb(c, "FRAME.fresh-on-push", u, construct, as, Proved, "re-slice to a shorter length (pop)", true))
							} else {
								obs = append(obs, mkOb(c, "FRAME.fresh-on-push", u, construct, as, Violated, "Frames is re-sliced to `"+types.ExprString(x)+"`, which can extend into spare capacity: the slot still holds the fields of the frame popped from it (stale Terminal / TROBlock / TailIterations)", true))
							}
						default:
							obs = append(obs, mkOb(c, "FRAME.fresh-on-push", u, construct, as, Proved, "Frames assigned `"+types.ExprString(rhs)+"`", false))
						}
					}
					return true
				})
			}
			return obs
		}})
}

// nFramesStores counts the assignments to field fld in body.
func nFramesStores(info *types.Info, body ast.Node, fld *types.Var) int {
	n := 0
	ast.Inspect(body, func(m ast.Node) bool {
		if as, ok := m.(*ast.AssignStmt); ok {
			for _, l := range as.Lhs {
				if FieldOfSelector(info, l) == fld {
					n++
				}
			}
		}
		return true
	})
	return n
}

func init() {
	register(&Rule{ID: "PARSE.depth-bound", Floor: 2,
		Doc: "the parser's nesting bound cannot be absent: every rdparser.Parser value in the module is built by a composite literal that sets maxDepth to a positive constant (all reader modes go through the one constructor), no other code stores to maxDepth, and the recursion guard is the plain comparison of depth with maxDepth whose true edge returns an error (not a conjunction that a zero bound switches off) — so deeply nested input is refused in every reader mode instead of exhausting the Go stack",
		Run: func(c *Ctx) []Obligation {
			pt := c.LookupType("parser/rdparser.Parser")
			maxF := c.LookupField("parser/rdparser.Parser.maxDepth")
			depthF := c.LookupField("parser/rdparser.Parser.depth")
			if pt == nil || maxF == nil || depthF == nil {
				return []Obligation{anchorMissing("PARSE.depth-bound", "rdparser.Parser / maxDepth / depth")}
			}
			var obs []Obligation
			nlit := 0
			for _, u := range c.Funcs(func(p string) bool { return true }) {
				info := u.Pkg.TypesInfo
				ord := &ordinal{}
				ast.Inspect(u.Decl.Body, func(n ast.Node) bool {
					switch x := n.(type) {
					case *ast.CompositeLit:
						tv, ok := info.Types[x]
						if !ok {
							return true
						}
						t := tv.Type
						if p, ok := t.(*types.Pointer); ok {
							t = p.Elem()
						}
						if types.Unalias(t) != types.Type(pt) {
							return true
						}
						nlit++
						construct := ord.next("Parser literal")
						okMax := false
						for _, el := range x.Elts {
							if kv, ok := el.(*ast.KeyValueExpr); ok {
								if id, ok := kv.Key.(*ast.Ident); ok && info.Uses[id] == maxF {
									if v, ok := intConst(info, kv.Value); ok && v > 0 {
										okMax = true
									}
								}
							}
						}
						if okMax {
							obs = append(obs, mkOb(c, "PARSE.depth-bound", u, construct, x, Proved, "maxDepth set to a positive constant", true))
						} else {
							obs = append(obs, mkOb(c, "PARSE.depth-bound", u, construct, x, Violated, "a Parser is built without a positive nesting bound: input with hundreds of thousands of opening brackets overflows the Go stack (fatal, not recoverable) in this reader mode", true))
						}
					case *ast.AssignStmt:
						for i, l := range x.Lhs {
							if FieldOfSelector(info, l) != maxF {
								continue
							}
							construct := ord.next("store maxDepth")
							if len(x.Rhs) == len(x.Lhs) {
								if v, ok := intConst(info, x.Rhs[i]); ok && v > 0 {
									obs = append(obs, mkOb(c, "PARSE.depth-bound", u, construct, x, Proved, "positive constant", false))
									continue
								}
							}
							obs = append(obs, mkOb(c, "PARSE.depth-bound", u, construct, x, Undecided, "the nesting bound is overwritten with a value that is not a positive constant: the bound can be switched off", true))
						}
					}
					return true
				})
			}
			if nlit == 0 {
				obs = append(obs, Obligation{Rule: "PARSE.depth-bound", Func: "parser/rdparser", Construct: "Parser literals", Verdict: Undecided, Detail: "no composite literal of rdparser.Parser found"})
			}
			// the guard itself
			nguard := 0
			for _, u := range c.Funcs(func(p string) bool { return rel(p) == "parser/rdparser" }) {
				info := u.Pkg.TypesInfo
				fc := c.cfgOf(u, nil)
				for _, b := range fc.G.Blocks {
					cond := fc.CondOf(b)
					if cond == nil || !fc.Live(b) {
						continue
					}
					mentions := false
					ast.Inspect(cond, func(n ast.Node) bool {
						if se, ok := n.(*ast.SelectorExpr); ok && FieldOfSelector(info, se) == maxF {
							mentions = true
						}
						return true
					})
					if !mentions {
						continue
					}
					nguard++
					be, ok := ast.Unparen(cond).(*ast.BinaryExpr)
					plain := ok && (be.Op == token.GTR || be.Op == token.GEQ) && FieldOfSelector(info, be.X) == depthF && FieldOfSelector(info, be.Y) == maxF
					if plain && fc.edgeReturns(cfgEdge{b, 0}, nil) {
						obs = append(obs, mkOb(c, "PARSE.depth-bound", u, "depth guard", cond, Proved, "`"+types.ExprString(cond)+"` returns an error on its true edge", true))
					} else {
						obs = append(obs, mkOb(c, "PARSE.depth-bound", u, "depth guard", cond, Violated, "the nesting guard is `"+types.ExprString(cond)+"`, not the plain comparison of depth with maxDepth returning an error: a zero or negative bound disables it", true))
					}
				}
			}
			if nguard == 0 {
				obs = append(obs, Obligation{Rule: "PARSE.depth-bound", Func: "parser/rdparser", Construct: "depth guard", Verdict: Violated, Detail: "no condition compares the parser's depth with maxDepth", Nontrivial: true})
			}
			return obs
		}})
}

func init() {
	register(&Rule{ID: "MACRO.expand-lookup", Floor: 1,
		Doc: "macroexpand and macroexpand-1 resolve the head of the form exactly as the evaluator does when it evaluates that form: the macro value handed to the expansion step is the result of LEnv.Get on the head symbol (innermost lexical binding, then the package), directly or through a helper all of whose returns are that — never a global-only lookup — so (eval (macroexpand form)) and (eval form) agree under macrolet, flet and let bindings of the head",
		Run: func(c *Ctx) []Obligation {
			exp1 := c.LookupPkgFunc("lisp.macroExpand1")
			get := c.LookupMethod("lisp.LEnv.Get")
			if exp1 == nil || get == nil {
				return []Obligation{anchorMissing("MACRO.expand-lookup", "lisp.macroExpand1 / LEnv.Get")}
			}
			var fromGet func(u FuncUnit, e ast.Expr, depth int) (bool, string)
			fromGet = func(u FuncUnit, e ast.Expr, depth int) (bool, string) {
				info := u.Pkg.TypesInfo
				e = ast.Unparen(e)
				if ce, ok := e.(*ast.CallExpr); ok {
					fn := originOf(Callee(info, ce))
					if fn == get {
						return true, ""
					}
					if fn != nil && fn.Pkg() == u.Obj.Pkg() && depth > 0 {
						if fd := c.declOf[fn]; fd != nil && fd.Body != nil {
							hu := FuncUnit{fn, fd, c.pkgOf[fd]}
							any := false
							for _, rs := range returnsOf(fd.Body) {
								if len(rs.Results) == 0 {
									continue
								}
								r := rs.Results[0]
								if tv, ok := hu.Pkg.TypesInfo.Types[r]; ok && tv.IsNil() {
									continue
								}
								any = true
								if ok, why := fromGet(hu, r, depth-1); !ok {
									return false, fn.Name() + ": " + why
								}
							}
							if any {
								return true, ""
							}
						}
					}
					if fn != nil {
						return false, "resolved with " + fn.Name()
					}
					return false, "resolved with `" + types.ExprString(ce.Fun) + "`"
				}
				if o := identObj(info, e); o != nil {
					var defs []ast.Expr
					ast.Inspect(u.Decl.Body, func(n ast.Node) bool {
						if as, ok := n.(*ast.AssignStmt); ok {
							if len(as.Lhs) == len(as.Rhs) {
								for i, l := range as.Lhs {
									if identObj(info, l) == o {
										defs = append(defs, as.Rhs[i])
									}
								}
							} else if len(as.Rhs) == 1 {
								for i, l := range as.Lhs {
									if identObj(info, l) == o && i == 0 {
										defs = append(defs, as.Rhs[0])
									}
								}
							}
						}
						return true
					})
					if len(defs) == 0 {
						return false, "`" + o.Name() + "` has no visible definition"
					}
					for _, d := range defs {
						if ok, why := fromGet(u, d, depth); !ok {
							return false, why
						}
					}
					return true, ""
				}
				return false, "`" + types.ExprString(e) + "`"
			}
			var obs []Obligation
			sites, _ := c.CallsTo(func(p string) bool { return rel(p) == "lisp" }, exp1)
			ord := map[string]*ordinal{}
			for _, s := range sites {
				if s.Call == nil || len(s.Call.Args) < 2 {
					continue
				}
				o := ord[s.Unit.Name()]
				if o == nil {
					o = &ordinal{}
					ord[s.Unit.Name()] = o
				}
				construct := o.next("macro value handed to macroExpand1")
				if ok, why := fromGet(s.Unit, s.Call.Args[1], 2); ok {
					obs = append(obs, mkOb(c, "MACRO.expand-lookup", s.Unit, construct, s.Call, Proved, "the result of LEnv.Get on the head symbol", true))
				} else {
					obs = append(obs, mkOb(c, "MACRO.expand-lookup", s.Unit, construct, s.Call, Violated, "the head of the form is not resolved with LEnv.Get ("+why+"): a macrolet/flet/let binding of the head is ignored, so macroexpand expands what eval would not (or the wrong macro)", true))
				}
			}
			return obs
		}})
}

func init() {
	register(&Rule{ID: "ARRAY.dims-owned", Floor: 1,
		Doc: "every array value owns its dimension list: wherever an LVal of type LArray is built (composite literal), the first cell is X.Copy() or a list built on the spot — never a caller's list stored as it is.  append! updates the length cell of that list in place (the `array internals` exemption of the write-discipline rules relies on this), so two vectors sharing one dimension list would change each other's length",
		Run: func(c *Ctx) []Obligation {
			lvalT := c.LookupType("lisp.LVal")
			larray := c.LookupConst("lisp.LArray")
			copyM := c.LookupMethod("lisp.LVal.Copy")
			if lvalT == nil || larray == nil || copyM == nil {
				return []Obligation{anchorMissing("ARRAY.dims-owned", "lisp.LVal / LArray / LVal.Copy")}
			}
			var obs []Obligation
			for _, u := range c.Funcs(isKernel) {
				info := u.Pkg.TypesInfo
				ord := &ordinal{}
				ast.Inspect(u.Decl.Body, func(n ast.Node) bool {
					cl, ok := n.(*ast.CompositeLit)
					if !ok {
						return true
					}
					tv, ok := info.Types[cl]
					if !ok || types.Unalias(tv.Type) != types.Type(lvalT) {
						return true
					}
					isArr := false
					var cells *ast.CompositeLit
					for _, el := range cl.Elts {
						kv, ok := el.(*ast.KeyValueExpr)
						if !ok {
							continue
						}
						id, _ := kv.Key.(*ast.Ident)
						if id == nil {
							continue
						}
						if id.Name == "Type" && identObjOrSel(info, kv.Value) == larray {
							isArr = true
						}
						if id.Name == "Cells" {
							cells, _ = ast.Unparen(kv.Value).(*ast.CompositeLit)
						}
					}
					if !isArr {
						return true
					}
					construct := ord.next("LArray literal")
					if cells == nil || len(cells.Elts) == 0 {
						obs = append(obs, mkOb(c, "ARRAY.dims-owned", u, construct, cl, Undecided, "an LArray is built without a literal cell list: cannot see where its dimension list comes from", true))
						return true
					}
					d := ast.Unparen(cells.Elts[0])
					if ce, ok := d.(*ast.CallExpr); ok {
						fn := originOf(Callee(info, ce))
						if fn == copyM {
							obs = append(obs, mkOb(c, "ARRAY.dims-owned", u, construct, cl, Proved, "dimension list is `"+types.ExprString(d)+"`, a copy", true))
							return true
						}
						if fn != nil && (fn.Name() == "QExpr" || fn.Name() == "SExpr") {
							// built on the spot: its argument must be a slice literal
							if len(ce.Args) == 1 {
								if _, ok := ast.Unparen(ce.Args[0]).(*ast.CompositeLit); ok {
									obs = append(obs, mkOb(c, "ARRAY.dims-owned", u, construct, cl, Proved, "dimension list is built on the spot", true))
									return true
								}
							}
						}
					}
					obs = append(obs, mkOb(c, "ARRAY.dims-owned", u, construct, cl, Violated, "the array stores `"+types.ExprString(d)+"` as its dimension list without copying it: a caller that passes another vector's list makes the two vectors share their length cell, and append! on one changes the other's length", true))
					return true
				})
			}
			return obs
		}})
}

func init() {
	register(&Rule{ID: "EVAL.no-reeval", Floor: 1,
		Doc: "a special operator never places a VALUE (the result of an evaluation it made, or the data cells of an error value) into a form that it then hands to the evaluator: values are passed to a function with FunCall, whose arguments are not evaluated again — a value that is a symbol or an unquoted list would otherwise be looked up or applied a second time",
		Run: func(c *Ctx) []Obligation {
			sexpr := c.LookupPkgFunc("lisp.SExpr")
			if sexpr == nil {
				return []Obligation{anchorMissing("EVAL.no-reeval", "lisp.SExpr")}
			}
			var obs []Obligation
			for _, e := range c.Registry() {
				if rel(e.Pkg.PkgPath) != "lisp" || e.Kind != "op" {
					continue
				}
				body, u, _, ok := c.BodyOf(e)
				if !ok || u.Decl == nil {
					continue
				}
				info := u.Pkg.TypesInfo
				isEvalCall := func(x ast.Expr) bool {
					ce, ok := ast.Unparen(x).(*ast.CallExpr)
					if !ok {
						return false
					}
					se, ok := ast.Unparen(ce.Fun).(*ast.SelectorExpr)
					if !ok || se.Sel.Name != "Eval" {
						return false
					}
					tv, ok := info.Types[se.X]
					return ok && strings.HasSuffix(tv.Type.String(), "lisp.LEnv")
				}
				// value locals: assigned from env.Eval(...) anywhere in the body
				values := map[types.Object]bool{}
				ast.Inspect(body, func(n ast.Node) bool {
					if as, ok := n.(*ast.AssignStmt); ok && len(as.Lhs) == len(as.Rhs) {
						for i, r := range as.Rhs {
							if isEvalCall(r) {
								if o := identObj(info, as.Lhs[i]); o != nil {
									values[o] = true
								}
							}
						}
					}
					return true
				})
				mentionsValue := func(x ast.Expr) (string, bool) {
					hit, what := false, ""
					ast.Inspect(x, func(n ast.Node) bool {
						if id, ok := n.(*ast.Ident); ok {
							if o := info.Uses[id]; o != nil && values[o] {
								hit, what = true, o.Name()
							}
						}
						return !hit
					})
					return what, hit
				}
				// slices that receive a value element (append(s, val) / append(s, val.Cells...) / literal)
				tainted := map[types.Object]string{}
				for pass := 0; pass < 2; pass++ {
					ast.Inspect(body, func(n ast.Node) bool {
						as, ok := n.(*ast.AssignStmt)
						if !ok || len(as.Lhs) != len(as.Rhs) {
							return true
						}
						for i, r := range as.Rhs {
							lo := identObj(info, as.Lhs[i])
							if lo == nil {
								continue
							}
							switch x := ast.Unparen(r).(type) {
							case *ast.CallExpr:
								if id, ok := ast.Unparen(x.Fun).(*ast.Ident); ok && id.Name == "append" {
									for _, a := range x.Args[1:] {
										if w, ok := mentionsValue(a); ok {
											tainted[lo] = w
										}
									}
									if o := identObj(info, x.Args[0]); o != nil {
										if w, ok := tainted[o]; ok {
											tainted[lo] = w
										}
									}
								}
							case *ast.CompositeLit:
								for _, el := range x.Elts {
									if w, ok := mentionsValue(el); ok {
										// a value wrapped in Quote(...) is inert
										if ce, ok := ast.Unparen(el).(*ast.CallExpr); ok {
											if fn := Callee(info, ce); fn != nil && fn.Name() == "Quote" {
												continue
											}
										}
										tainted[lo] = w
									}
								}
							}
						}
						return true
					})
				}
				ord := &ordinal{}
				nsites := 0
				ast.Inspect(body, func(n ast.Node) bool {
					ce, ok := n.(*ast.CallExpr)
					if !ok || len(ce.Args) != 1 {
						return true
					}
					se, ok := ast.Unparen(ce.Fun).(*ast.SelectorExpr)
					if !ok || (se.Sel.Name != "Eval" && se.Sel.Name != "Terminal") {
						return true
					}
					if tv, ok := info.Types[se.X]; !ok || !strings.HasSuffix(tv.Type.String(), "lisp.LEnv") {
						return true
					}
					// the form evaluated: SExpr(slice) directly or a local defined by it
					var sl ast.Expr
					arg := ast.Unparen(ce.Args[0])
					if inner, ok := arg.(*ast.CallExpr); ok && originOf(Callee(info, inner)) == sexpr && len(inner.Args) == 1 {
						sl = inner.Args[0]
					} else if o := identObj(info, arg); o != nil {
						if dc, _, _ := definingCall(info, body, o); dc != nil && originOf(Callee(info, dc)) == sexpr && len(dc.Args) == 1 {
							sl = dc.Args[0]
						}
					}
					if sl == nil {
						return true
					}
					nsites++
					construct := ord.next(se.Sel.Name + " of a built form")
					if o := identObj(info, sl); o != nil {
						if w, ok := tainted[o]; ok {
							obs = append(obs, mkOb(c, "EVAL.no-reeval", u, construct, ce, Violated, "the form handed to the evaluator contains `"+w+"`, a value this operator obtained by evaluation: it is evaluated a second time (a symbol value is looked up, an unquoted list value is applied)", true))
							return true
						}
					}
					obs = append(obs, mkOb(c, "EVAL.no-reeval", u, construct, ce, Proved, "the form is built from unevaluated source forms only", true))
					return true
				})
			}
			return obs
		}})
}

func init() {
	register(&Rule{ID: "BIND.all-args-consumed", Floor: 1,
		Doc: "the binder succeeds only when the whole argument list was consumed: every return of bind that hands back an environment is reached only over an edge entailing argsp.IsEOF() for the parser over the call's arguments — a call with more arguments than the formals can absorb fails with `invalid number of arguments`, which is what lint's upper bound predicts",
		Run: func(c *Ctx) []Obligation {
			fn, fd, pkg := c.LookupFunc("lisp.(*LEnv).bind")
			if fn == nil {
				return []Obligation{anchorMissing("BIND.all-args-consumed", "lisp.(*LEnv).bind")}
			}
			u := FuncUnit{fn, fd, pkg}
			info := pkg.TypesInfo
			fc := c.cfgOf(u, nil)
			ps := paramObjs(u)
			if len(ps) != 2 {
				return []Obligation{mkOb(c, "BIND.all-args-consumed", u, "signature", fd, Undecided, "bind no longer has (fun, args) parameters", false)}
			}
			argsP := ps[1]
			// the parser local over args.Cells
			var parser types.Object
			ast.Inspect(fd.Body, func(n ast.Node) bool {
				as, ok := n.(*ast.AssignStmt)
				if !ok || len(as.Lhs) != 1 || len(as.Rhs) != 1 {
					return true
				}
				cl, ok := ast.Unparen(as.Rhs[0]).(*ast.CompositeLit)
				if !ok {
					return true
				}
				for _, el := range cl.Elts {
					if kv, ok := el.(*ast.KeyValueExpr); ok {
						if se, ok := ast.Unparen(kv.Value).(*ast.SelectorExpr); ok && se.Sel.Name == "Cells" && identObj(info, se.X) == argsP {
							parser = identObj(info, as.Lhs[0])
						}
					}
				}
				return true
			})
			if parser == nil {
				return []Obligation{mkOb(c, "BIND.all-args-consumed", u, "argument parser", fd, Undecided, "no argParser over args.Cells found in bind", false)}
			}
			cls := func(e ast.Expr) (string, bool) {
				ce, ok := ast.Unparen(e).(*ast.CallExpr)
				if !ok {
					return "", false
				}
				se, ok := ast.Unparen(ce.Fun).(*ast.SelectorExpr)
				if !ok || se.Sel.Name != "IsEOF" || identObj(info, se.X) != parser {
					return "", false
				}
				return "argsDone", false
			}
			cut := fc.edgesEntailing(cls, func(v map[string]bool) bool { return v["$has:argsDone"] && v["argsDone"] })
			var obs []Obligation
			ord := &ordinal{}
			for _, b := range fc.G.Blocks {
				if !fc.Live(b) {
					continue
				}
				for _, n := range b.Nodes {
					rs, ok := n.(*ast.ReturnStmt)
					if !ok || len(rs.Results) != 2 {
						continue
					}
					if tv, ok := info.Types[rs.Results[0]]; ok && tv.IsNil() {
						continue // a failure return
					}
					construct := ord.next("success return")
					if len(cut) > 0 && !fc.reachableAvoiding(b, cut) {
						obs = append(obs, mkOb(c, "BIND.all-args-consumed", u, construct, rs, Proved, "reached only after the argument parser reported end of input", true))
					} else {
						obs = append(obs, mkOb(c, "BIND.all-args-consumed", u, construct, rs, Violated, "bind can succeed with arguments left over: a call with too many arguments is accepted (the surplus is silently dropped) although lint reports it and the reference signals `invalid number of arguments`", true))
					}
				}
			}
			if len(obs) == 0 {
				obs = append(obs, mkOb(c, "BIND.all-args-consumed", u, "success return", fd, Undecided, "no success return found", false))
			}
			return obs
		}})
}

func init() {
	register(&Rule{ID: "CONFINE.context-from-frame", Floor: 2,
		Doc: "Runtime.sourceContext — the loading context load-file hands to the source library — is computed from the top call-stack frame only: every value it returns is a sourceContext literal whose name and location are the File and Path of that frame's Source (or of the synthetic native location when the frame has none), or empty strings when there is no frame; no other runtime state (a `currently loading` register) takes part, so a relative location resolves against the file that CONTAINS the load-file call, whichever file's load is in progress",
		Run: func(c *Ctx) []Obligation {
			fn, fd, pkg := c.LookupFunc("lisp.(*Runtime).sourceContext")
			topM := c.LookupMethod("lisp.CallStack.Top")
			if fn == nil || topM == nil {
				return []Obligation{anchorMissing("CONFINE.context-from-frame", "Runtime.sourceContext / CallStack.Top")}
			}
			u := FuncUnit{fn, fd, pkg}
			info := pkg.TypesInfo
			// top := r.Stack.Top()
			var topObj types.Object
			ast.Inspect(fd.Body, func(n ast.Node) bool {
				if as, ok := n.(*ast.AssignStmt); ok && len(as.Lhs) == 1 && len(as.Rhs) == 1 {
					if ce, ok := ast.Unparen(as.Rhs[0]).(*ast.CallExpr); ok && originOf(Callee(info, ce)) == topM {
						topObj = identObj(info, as.Lhs[0])
					}
				}
				return true
			})
			// src locals: assigned from top.Source or &<local from nativeLocation()>
			srcOK := map[types.Object]bool{}
			natLoc := map[types.Object]bool{}
			ast.Inspect(fd.Body, func(n ast.Node) bool {
				as, ok := n.(*ast.AssignStmt)
				if !ok || len(as.Lhs) != len(as.Rhs) {
					return true
				}
				for i, r := range as.Rhs {
					r = ast.Unparen(r)
					lo := identObj(info, as.Lhs[i])
					if lo == nil {
						continue
					}
					if ce, ok := r.(*ast.CallExpr); ok {
						if f := Callee(info, ce); f != nil && shortName(originOf(f)) == "nativeLocation" {
							natLoc[lo] = true
						}
					}
					if se, ok := r.(*ast.SelectorExpr); ok && se.Sel.Name == "Source" && topObj != nil && identObj(info, se.X) == topObj {
						srcOK[lo] = true
					}
					if ue, ok := r.(*ast.UnaryExpr); ok && ue.Op == token.AND {
						if o := identObj(info, ue.X); o != nil && natLoc[o] {
							srcOK[lo] = true
						}
					}
				}
				return true
			})
			var obs []Obligation
			ord := &ordinal{}
			for _, rs := range returnsOf(fd.Body) {
				if len(rs.Results) != 1 {
					continue
				}
				construct := ord.next("context returned")
				e := ast.Unparen(rs.Results[0])
				if ue, ok := e.(*ast.UnaryExpr); ok && ue.Op == token.AND {
					e = ast.Unparen(ue.X)
				}
				var elems []ast.Expr
				if cl, ok := e.(*ast.CompositeLit); ok {
					for _, el := range cl.Elts {
						if kv, ok := el.(*ast.KeyValueExpr); ok {
							elems = append(elems, kv.Value)
						} else {
							elems = append(elems, el)
						}
					}
				} else if ce, ok := e.(*ast.CallExpr); ok && plainFieldConstructor(c, info, ce) {
					// a constructor of the module that only stores its arguments (NewSourceContext(name, loc))
					elems = append(elems, ce.Args...)
				} else {
					obs = append(obs, mkOb(c, "CONFINE.context-from-frame", u, construct, rs, Violated, "sourceContext returns `"+types.ExprString(rs.Results[0])+"`, not a context built from the top frame", true))
					continue
				}
				bad := ""
				for _, v := range elems {
					v = ast.Unparen(v)
					if s, ok := constStringVal(info, v); ok && s == "" {
						continue
					}
					if se, ok := v.(*ast.SelectorExpr); ok && (se.Sel.Name == "File" || se.Sel.Name == "Path") {
						if o := identObj(info, se.X); o != nil && (srcOK[o] || natLoc[o]) {
							continue // a local holding the frame's Source, or the synthetic native location
						}
						// top.Source.File / top.Source.Path written out
						if inner, ok := ast.Unparen(se.X).(*ast.SelectorExpr); ok && inner.Sel.Name == "Source" && topObj != nil && identObj(info, inner.X) == topObj {
							continue
						}
					}
					bad = types.ExprString(v)
				}
				if bad == "" {
					obs = append(obs, mkOb(c, "CONFINE.context-from-frame", u, construct, rs, Proved, "name and location come from the top frame's Source (or are empty)", true))
				} else {
					obs = append(obs, mkOb(c, "CONFINE.context-from-frame", u, construct, rs, Violated, "the loading context carries `"+bad+"`, which is not the File/Path of the top call-stack frame's Source: a load-file inside a function defined in another directory resolves its relative location against the wrong file", true))
				}
			}
			if topObj == nil {
				obs = append(obs, mkOb(c, "CONFINE.context-from-frame", u, "top frame", fd, Violated, "sourceContext no longer reads the top call-stack frame", true))
			}
			return obs
		}})
}

// plainFieldConstructor: ce calls a function of the module whose whole body is `return &T{…}` / `return T{…}`
// with every element one of its own parameters: the value it builds holds exactly the arguments.
func plainFieldConstructor(c *Ctx, info *types.Info, ce *ast.CallExpr) bool {
	h := originOf(Callee(info, ce))
	if h == nil {
		return false
	}
	hd := c.declOf[h]
	if hd == nil || hd.Body == nil || len(hd.Body.List) != 1 {
		return false
	}
	rs, ok := hd.Body.List[0].(*ast.ReturnStmt)
	if !ok || len(rs.Results) != 1 {
		return false
	}
	e := ast.Unparen(rs.Results[0])
	if ue, ok := e.(*ast.UnaryExpr); ok && ue.Op == token.AND {
		e = ast.Unparen(ue.X)
	}
	cl, ok := e.(*ast.CompositeLit)
	if !ok {
		return false
	}
	hinfo := c.pkgOf[hd].TypesInfo
	sig := h.Type().(*types.Signature)
	for _, el := range cl.Elts {
		v := el
		if kv, ok := el.(*ast.KeyValueExpr); ok {
			v = kv.Value
		}
		o := identObj(hinfo, v)
		isParam := false
		for i := 0; i < sig.Params().Len(); i++ {
			if sig.Params().At(i) == o {
				isParam = true
			}
		}
		if !isParam {
			return false
		}
	}
	return len(cl.Elts) == sig.Params().Len()
}

// QQ.single-walk — C07: quasiquote reproduces its template except at unquote
// forms "at any nesting of lists and quotes".  What counts as an unquote form,
// and how quote levels are looked through, is decided by findAndUnquote alone
// (CALLERS.getUnquoteType); this rule is the other half: opQuasiquote cannot
// return without having handed the template to that walker, so a pre-scan or a
// "constant template" shortcut that sees the template differently cannot
// answer for it.
func init() {
	register(&Rule{ID: "QQ.single-walk", Floor: 1,
		Doc: "every return of opQuasiquote is dominated by its call findAndUnquote(env, <the template>, 0): no path answers a quasiquote without the one template walker having processed it",
		Run: func(c *Ctx) []Obligation {
			const rid = "QQ.single-walk"
			fn, fd, pkg := c.LookupFunc("lisp.opQuasiquote")
			walker := c.LookupPkgFunc("lisp.findAndUnquote")
			if fn == nil || walker == nil {
				return []Obligation{anchorMissing(rid, "lisp.opQuasiquote / lisp.findAndUnquote")}
			}
			u := FuncUnit{fn, fd, pkg}
			info := pkg.TypesInfo
			fc := c.cfgOf(u, nil)
			var calls []Loc
			for _, b := range fc.G.Blocks {
				if !fc.Live(b) {
					continue
				}
				for i, n := range b.Nodes {
					for _, ce := range callsIn(n, false) {
						if originOf(Callee(info, ce)) == walker && len(ce.Args) == 3 {
							if d, ok := intConst(info, ce.Args[2]); ok && d == 0 {
								calls = append(calls, Loc{b, i})
							}
						}
					}
				}
			}
			var obs []Obligation
			ord := &ordinal{}
			for _, b := range fc.G.Blocks {
				if !fc.Live(b) {
					continue
				}
				for i, n := range b.Nodes {
					rs, ok := n.(*ast.ReturnStmt)
					if !ok {
						continue
					}
					construct := ord.next("return")
					dom := false
					for _, cl := range calls {
						if fc.Dominates(cl, Loc{b, i}) {
							dom = true
						}
					}
					if dom {
						obs = append(obs, mkOb(c, rid, u, construct, rs, Proved, "after findAndUnquote has walked the template", true))
					} else {
						obs = append(obs, mkOb(c, rid, u, construct, rs, Violated, "quasiquote answers without findAndUnquote having walked the template from depth 0: whatever decided that (a pre-scan, a cache, a shortcut) is a second reading of quote levels and unquote forms, and where it disagrees the unquote is left in the result unsubstituted", true))
					}
				}
			}
			return obs
		}})
}

// HEAD.quoted-is-data — C07: eval returns a quoted symbol as a symbol, so a list
// whose head is `'inc` or `'unquote` is not a call of inc and not an unquote
// form (`(list 'inc 41)` builds exactly such a list).  Every place that decides
// "this list is an operator form" by the NAME of its head must look at the
// head's quoted flag first, or it disagrees with eval: macroexpand keeps
// expanding a form that eval refuses, and quasiquote substitutes into a list
// the template only mentions as data.
func init() {
	register(&Rule{ID: "HEAD.quoted-is-data", Floor: 4,
		Doc: "getUnquoteType classifies a list as unquote / unquote-splicing, and macroexpand / macroexpand-1 look the head up as a macro, only over an edge that entails the head symbol is not quoted (`!head.quoted`): a quoted head is data for them as it is for eval",
		Run: func(c *Ctx) []Obligation {
			const rid = "HEAD.quoted-is-data"
			var obs []Obligation
			quotedCls := func(info *types.Info, body ast.Node, head string) func(e ast.Expr) (string, bool) {
				same := func(x ast.Expr) bool {
					return types.ExprString(ast.Unparen(x)) == head || aliasResolvedString(info, body, x) == head
				}
				return func(e ast.Expr) (string, bool) {
					e = ast.Unparen(e)
					if se, ok := e.(*ast.SelectorExpr); ok && se.Sel.Name == "quoted" && same(se.X) {
						return "q", false
					}
					if ce, ok := e.(*ast.CallExpr); ok && len(ce.Args) == 0 {
						if se, ok := ast.Unparen(ce.Fun).(*ast.SelectorExpr); ok && se.Sel.Name == "IsQuoted" && same(se.X) {
							return "q", false
						}
					}
					return "", false
				}
			}
			notQuoted := func(v map[string]bool) bool { return v["$has:q"] && !v["q"] }
			// (a) getUnquoteType
			if fn, fd, pkg := c.LookupFunc("lisp.getUnquoteType"); fn == nil {
				obs = append(obs, anchorMissing(rid, "lisp.getUnquoteType"))
			} else {
				u := FuncUnit{fn, fd, pkg}
				info := pkg.TypesInfo
				fc := c.cfgOf(u, nil)
				param := ""
				if fd.Type.Params != nil && len(fd.Type.Params.List) > 0 && len(fd.Type.Params.List[0].Names) > 0 {
					param = fd.Type.Params.List[0].Names[0].Name
				}
				cut := fc.edgesEntailing(quotedCls(info, fd.Body, param+".Cells[0]"), notQuoted)
				none := c.LookupConst("lisp.unquoteNone")
				ord := &ordinal{}
				for _, b := range fc.G.Blocks {
					if !fc.Live(b) {
						continue
					}
					for _, n := range b.Nodes {
						rs, ok := n.(*ast.ReturnStmt)
						if !ok || len(rs.Results) == 0 {
							continue
						}
						if o := identObjOrSel(info, rs.Results[0]); o == nil || o == none {
							continue
						}
						construct := ord.next("return " + types.ExprString(rs.Results[0]))
						if fc.reachableAvoiding(b, cut) {
							obs = append(obs, mkOb(c, rid, u, construct, rs, Violated, "a list is classified as an unquote form by the name of its head without a test that the head is not quoted: (quasiquote (a ('unquote x))) substitutes x although the template only mentions the symbol unquote as data", true))
						} else {
							obs = append(obs, mkOb(c, rid, u, construct, rs, Proved, "only for an unquoted head", true))
						}
					}
				}
			}
			// (b) the macroexpand builtins
			exp1 := c.LookupPkgFunc("lisp.macroExpand1")
			for _, name := range []string{"lisp.builtinMacroExpand", "lisp.builtinMacroExpand1"} {
				fn, fd, pkg := c.LookupFunc(name)
				if fn == nil || exp1 == nil {
					obs = append(obs, anchorMissing(rid, name+" / macroExpand1"))
					continue
				}
				u := FuncUnit{fn, fd, pkg}
				found := false
				// the expansion may be written in the builtin or in a private helper it calls
				for _, hu := range c.withHelpers(u) {
					info := hu.Pkg.TypesInfo
					direct := false
					for _, ce := range callsIn(hu.Decl.Body, false) {
						if originOf(Callee(info, ce)) == exp1 {
							direct = true
						}
					}
					if !direct {
						continue
					}
					fc := c.cfgOf(hu, nil)
					// the head: the local defined as <form>.Cells[0]
					head := ""
					ast.Inspect(hu.Decl.Body, func(n ast.Node) bool {
						as, ok := n.(*ast.AssignStmt)
						if !ok || len(as.Lhs) != 1 || len(as.Rhs) != 1 {
							return true
						}
						if ix, ok := ast.Unparen(as.Rhs[0]).(*ast.IndexExpr); ok {
							if k, ok := intConst(info, ix.Index); ok && k == 0 {
								if se, ok := ast.Unparen(ix.X).(*ast.SelectorExpr); ok && se.Sel.Name == "Cells" {
									if id, ok := as.Lhs[0].(*ast.Ident); ok {
										head = id.Name
									}
								}
							}
						}
						return true
					})
					cut := fc.edgesEntailing(quotedCls(info, hu.Decl.Body, head), notQuoted)
					// the test may be made by a selecting helper whose nil result is the refusal
					// (`mac := macroCallee(env, form); if mac == nil { return form }`): the non-nil edges of its
					// result carry what every non-nil return of the helper lies behind
					viaHelper := ""
					ast.Inspect(hu.Decl.Body, func(n ast.Node) bool {
						as, ok := n.(*ast.AssignStmt)
						if !ok || len(as.Lhs) != 1 || len(as.Rhs) != 1 {
							return true
						}
						hc, ok := ast.Unparen(as.Rhs[0]).(*ast.CallExpr)
						if !ok {
							return true
						}
						h := originOf(Callee(info, hc))
						obj := identObj(info, as.Lhs[0])
						if h == nil || obj == nil || h.Pkg() != hu.Obj.Pkg() || h.Exported() {
							return true
						}
						hd := c.declOf[h]
						if hd == nil || hd.Body == nil {
							return true
						}
						hhead := headLocalOf(c.pkgOf[hd].TypesInfo, hd.Body)
						if hhead == "" {
							return true
						}
						sub := func(hi *types.Info) func(e ast.Expr) (string, bool) { return quotedCls(hi, hd.Body, hhead) }
						if c.helperNonNilEntails(h, sub, notQuoted) {
							cut = append(cut, fc.nilEdges(obj, false)...)
							viaHelper = h.Name() + ": " + hhead
						}
						return true
					})
					if head == "" && viaHelper != "" {
						head = viaHelper
					}
					for _, b := range fc.G.Blocks {
						if !fc.Live(b) {
							continue
						}
						for _, n := range b.Nodes {
							ce := nodeCalls(info, n, exp1)
							if ce == nil {
								continue
							}
							found = true
							if head == "" {
								obs = append(obs, mkOb(c, rid, u, "expansion of the head", ce, Undecided, "the head of the form is not a local defined as <form>.Cells[0]", true))
							} else if fc.reachableAvoiding(b, cut) {
								obs = append(obs, mkOb(c, rid, u, "expansion of the head", ce, Violated, "the head symbol is looked up and expanded as a macro without a test that it is not quoted: (macroexpand '('inc 41)) expands a form that eval refuses (\"first element of expression is not a function: 'inc\"), so evaluating a macro call and evaluating its macroexpand disagree", true))
							} else {
								obs = append(obs, mkOb(c, rid, u, "expansion of the head", ce, Proved, "only for an unquoted head `"+head+"` ("+hu.Name()+")", true))
							}
						}
					}
				}
				if !found {
					obs = append(obs, mkOb(c, rid, u, "expansion of the head", fd, Undecided, "no macroExpand1 call found", true))
				}
			}
			return obs
		}})
}

// MACRO.arg-order — C01 ("operands are evaluated left to right"): a core macro
// implemented in Go receives its operands unevaluated and places them in the
// form it builds; the order in which they appear in that form is the order in
// which the program's side effects and errors happen.  For every such macro
// the operands appear in the built form in the order they were written.
func init() {
	register(&Rule{ID: "MACRO.arg-order", Floor: 4,
		Doc: "in every core macro implemented in Go, the operand expressions (locals bound to args.Cells[k] / args.Cells[k:]) are first mentioned, in the source order of the form-building expression the macro returns, in increasing k: the expansion evaluates the operands in the order the call wrote them (which of two failing operands raises, which side effect happens first)",
		Run: func(c *Ctx) []Obligation {
			const rid = "MACRO.arg-order"
			cellsFld := c.LookupField("lisp.LVal.Cells")
			if cellsFld == nil {
				return []Obligation{anchorMissing(rid, "LVal.Cells")}
			}
			var obs []Obligation
			seen := map[ast.Node]bool{}
			for _, e := range c.Registry() {
				if e.Kind != "macro" || rel(e.Pkg.PkgPath) != "lisp" || e.Problem != "" {
					continue
				}
				body, u, lit, ok := c.BodyOf(e)
				if !ok || seen[body] {
					continue
				}
				seen[body] = true
				info := u.Pkg.TypesInfo
				args := argsParam(info, u, lit)
				if args == nil {
					continue
				}
				// operand locals
				idx := map[types.Object]int{}
				ast.Inspect(body, func(n ast.Node) bool {
					as, ok := n.(*ast.AssignStmt)
					if !ok || len(as.Lhs) != len(as.Rhs) {
						return true
					}
					for i, r := range as.Rhs {
						var base ast.Expr
						k, okc := 0, false
						switch x := ast.Unparen(r).(type) {
						case *ast.IndexExpr:
							base = x.X
							k, okc = intConst(info, x.Index)
						case *ast.SliceExpr:
							base = x.X
							if x.Low != nil {
								k, okc = intConst(info, x.Low)
							}
						}
						if base != nil && okc && isArgsCells(info, base, args, cellsFld) {
							if o := identObj(info, as.Lhs[i]); o != nil {
								idx[o] = k
							}
						}
					}
					return true
				})
				if len(idx) < 2 {
					continue
				}
				// the returned form: mentions in source order, inside return statements (and
				// inside the definitions of locals the return mentions, one level)
				var order []types.Object
				mentioned := map[types.Object]bool{}
				var visit func(n ast.Node, depth int)
				visit = func(n ast.Node, depth int) {
					ast.Inspect(n, func(m ast.Node) bool {
						id, ok := m.(*ast.Ident)
						if !ok {
							return true
						}
						o := info.Uses[id]
						if o == nil {
							return true
						}
						if _, isOp := idx[o]; isOp {
							if !mentioned[o] {
								mentioned[o] = true
								order = append(order, o)
							}
							return true
						}
						// a local form-under-construction: follow its single definition
						if depth < 3 {
							if v, isVar := o.(*types.Var); isVar && !v.IsField() && v.Parent() != nil && v.Pkg() == u.Pkg.Types {
								var def ast.Expr
								nd := 0
								ast.Inspect(body, func(k ast.Node) bool {
									if as, ok := k.(*ast.AssignStmt); ok && len(as.Lhs) == len(as.Rhs) {
										for i, l := range as.Lhs {
											if identObj(info, l) == o {
												nd++
												def = as.Rhs[i]
											}
										}
									}
									return true
								})
								if nd == 1 && def != nil && def.Pos() < id.Pos() {
									visit(def, depth+1)
								}
							}
						}
						return true
					})
				}
				ast.Inspect(body, func(n ast.Node) bool {
					// error exits (`if x.Type == LError { return x }`, `return env.Errorf(…)`) build no form
					if is, ok := n.(*ast.IfStmt); ok && strings.Contains(types.ExprString(is.Cond), "LError") {
						if is.Else != nil {
							ast.Inspect(is.Else, func(ast.Node) bool { return true })
						}
						return false
					}
					if rs, ok := n.(*ast.ReturnStmt); ok && len(rs.Results) == 1 {
						if ce, ok := ast.Unparen(rs.Results[0]).(*ast.CallExpr); ok {
							if f := Callee(info, ce); f != nil && strings.HasSuffix(f.Name(), "Errorf") {
								return true
							}
						}
						visit(rs.Results[0], 0)
					}
					return true
				})
				if len(order) < 2 {
					continue
				}
				bad := ""
				for i := 1; i < len(order); i++ {
					if idx[order[i]] < idx[order[i-1]] {
						bad = fmt.Sprintf("operand %d (%s) is placed before operand %d (%s)", idx[order[i-1]], order[i-1].Name(), idx[order[i]], order[i].Name())
					}
				}
				construct := "macro " + e.Name
				if bad != "" {
					obs = append(obs, mkOb(c, rid, u, construct, body, Violated, "in the form this macro builds "+bad+": the expansion evaluates the later operand first, so when both have side effects they happen in the wrong order and when both fail the wrong error is raised", true))
				} else {
					names := []string{}
					for _, o := range order {
						names = append(names, o.Name())
					}
					obs = append(obs, mkOb(c, rid, u, construct, body, Proved, "operands appear in call order: "+strings.Join(names, ", "), true))
				}
			}
			return obs
		}})
}

// EVAL.values-are-called — C01 ("a builtin receives exactly the values of its
// operands"): everything a BUILTIN holds is already a value — its arguments were
// evaluated before it was entered, and the elements of a sequence argument are
// values too.  Splicing such a value into a form `(f elem)` and handing the
// form to Eval evaluates the element a second time: a symbol out of quoted
// data is looked up, a list is called.  A builtin applies a function with
// FunCall.  (The special operators' version of this is EVAL.no-reeval.)
func init() {
	register(&Rule{ID: "EVAL.values-are-called", Floor: 1,
		Doc: "outside the special operators and macros (whose operands are unevaluated source) no kernel function hands <env>.Eval a form it built itself — SExpr over a slice literal, directly or through a local — unless every element after the head is a self-evaluating constant it just constructed (Int, Float, String, Bool, Nil, Quote(…)): higher-order builtins (all?, any?, stable-sort, insert-sorted, search-sorted …) apply the user's function to the element values with FunCall",
		Run: func(c *Ctx) []Obligation {
			const rid = "EVAL.values-are-called"
			sexpr := c.LookupPkgFunc("lisp.SExpr")
			if sexpr == nil {
				return []Obligation{anchorMissing(rid, "lisp.SExpr")}
			}
			// bodies of operators and macros are exempt (EVAL.no-reeval covers operators)
			exempt := map[ast.Node]bool{}
			for _, e := range c.Registry() {
				if e.Kind == "op" || e.Kind == "macro" {
					if body, _, _, ok := c.BodyOf(e); ok {
						exempt[body] = true
					}
				}
			}
			inert := map[string]bool{"Int": true, "Float": true, "String": true, "Bool": true, "Nil": true, "Quote": true, "Symbol": false}
			var obs []Obligation
			for _, u := range c.Funcs(isKernel) {
				if u.Decl == nil || u.Decl.Body == nil || exempt[u.Decl.Body] {
					continue
				}
				info := u.Pkg.TypesInfo
				ord := &ordinal{}
				ast.Inspect(u.Decl.Body, func(n ast.Node) bool {
					if fl, ok := n.(*ast.FuncLit); ok && exempt[fl.Body] {
						return false
					}
					ce, ok := n.(*ast.CallExpr)
					if !ok || len(ce.Args) != 1 {
						return true
					}
					se, ok := ast.Unparen(ce.Fun).(*ast.SelectorExpr)
					if !ok || se.Sel.Name != "Eval" {
						return true
					}
					if tv, ok := info.Types[se.X]; !ok || !strings.HasSuffix(tv.Type.String(), "lisp.LEnv") {
						return true
					}
					// the form: SExpr(<slice literal>) directly or through a local
					var form *ast.CallExpr
					arg := ast.Unparen(ce.Args[0])
					if inner, ok := arg.(*ast.CallExpr); ok && originOf(Callee(info, inner)) == sexpr {
						form = inner
					} else if o := identObj(info, arg); o != nil {
						ast.Inspect(u.Decl.Body, func(m ast.Node) bool {
							if as, ok := m.(*ast.AssignStmt); ok && len(as.Lhs) == len(as.Rhs) {
								for i, l := range as.Lhs {
									if identObj(info, l) == o {
										if dc, ok := ast.Unparen(as.Rhs[i]).(*ast.CallExpr); ok && originOf(Callee(info, dc)) == sexpr {
											form = dc
										}
									}
								}
							}
							return true
						})
					}
					if form == nil || len(form.Args) != 1 {
						return true
					}
					cl, ok := ast.Unparen(form.Args[0]).(*ast.CompositeLit)
					construct := ord.next("Eval of a built form")
					if !ok {
						obs = append(obs, mkOb(c, rid, u, construct, ce, Undecided, "the evaluated form is built over a slice this rule cannot see into", true))
						return true
					}
					bad := ""
					for i, el := range cl.Elts {
						if i == 0 {
							continue // the function being applied
						}
						ok := false
						if ec, isCall := ast.Unparen(el).(*ast.CallExpr); isCall {
							if f := Callee(info, ec); f != nil && inert[shortName(originOf(f))] {
								ok = true
							}
						}
						if !ok {
							bad = types.ExprString(el)
						}
					}
					if bad != "" {
						obs = append(obs, mkOb(c, rid, u, construct, ce, Violated, "the form handed to Eval contains `"+bad+"`, a value (an argument of the builtin or an element of one): it is evaluated a second time, so (all? symbol? '(a b)) fails with `unbound symbol: a`, and (any? f '(a)) silently hands f the value of the variable a instead of the symbol", true))
					} else {
						obs = append(obs, mkOb(c, rid, u, construct, ce, Proved, "every operand in the built form is a self-evaluating constant", true))
					}
					return true
				})
			}
			return obs
		}})
}

// headLocalOf: the name of the local defined as <form>.Cells[0] in body ("" if none).
func headLocalOf(info *types.Info, body ast.Node) string {
	head := ""
	ast.Inspect(body, func(n ast.Node) bool {
		as, ok := n.(*ast.AssignStmt)
		if !ok || len(as.Lhs) != 1 || len(as.Rhs) != 1 {
			return true
		}
		if ix, ok := ast.Unparen(as.Rhs[0]).(*ast.IndexExpr); ok {
			if k, ok := intConst(info, ix.Index); ok && k == 0 {
				if se, ok := ast.Unparen(ix.X).(*ast.SelectorExpr); ok && se.Sel.Name == "Cells" {
					if id, ok := as.Lhs[0].(*ast.Ident); ok {
						head = id.Name
					}
				}
			}
		}
		return true
	})
	return head
}
