package main

import (
	"go/ast"
	"go/token"
	"go/types"
)

// LOADTREE.frame-local — C20 ("relative locations resolve against the directory
// of the file doing the loading") and C08 ("in-package inside a loaded file does
// not leak into the file that loaded it"): the workspace analysis follows
// load-file forms with a recursive walker of its own, so that lint, the language
// server and the minifier know which file a relative load names and which
// package each loaded file starts in.  Both facts are PER FILE BEING WALKED.
// Kept in a variable that outlives one recursion frame (a captured local, a
// field of a walker object) they are shared by the loader and the loaded file:
// the directory stays that of the entry point, and an in-package in a loaded
// file changes the package of the rest of its loader.
func init() {
	register(&Rule{ID: "LOADTREE.frame-local", Floor: 1,
		Doc: "in the analysis package's recursive load-file walker (the function or closure that handles the heads `load-file` and `in-package` and calls itself) (1) the directory joined with a load-file argument is a local of that same function, computed by filepath.Dir from the function's own path parameter (or a local derived from it), and (2) the variable an `in-package` form assigns is a parameter or local of that same function — neither is a captured variable of an enclosing function nor a struct field, so each file of the load tree has its own directory and its own current package",
		Run: func(c *Ctx) []Obligation {
			const rid = "LOADTREE.frame-local"
			var obs []Obligation
			type unit struct {
				u    FuncUnit
				body *ast.BlockStmt
				ftyp *ast.FuncType
				lit  *ast.FuncLit
			}
			for _, u := range c.Funcs(func(p string) bool { return rel(p) == "analysis" }) {
				if u.Decl == nil || u.Decl.Body == nil {
					continue
				}
				info := u.Pkg.TypesInfo
				// candidate units: the declaration and every function literal in it
				units := []unit{{u, u.Decl.Body, u.Decl.Type, nil}}
				ast.Inspect(u.Decl.Body, func(n ast.Node) bool {
					if fl, ok := n.(*ast.FuncLit); ok {
						units = append(units, unit{u, fl.Body, fl.Type, fl})
					}
					return true
				})
				for _, un := range units {
					// handles both heads, directly in this unit (not in nested literals)
					var loadCase, pkgCase *ast.CaseClause
					var walkOwn func(n ast.Node, visit func(ast.Node) bool)
					walkOwn = func(n ast.Node, visit func(ast.Node) bool) {
						ast.Inspect(n, func(m ast.Node) bool {
							if fl, ok := m.(*ast.FuncLit); ok && fl != un.lit {
								return false
							}
							return visit(m)
						})
					}
					walkOwn(un.body, func(m ast.Node) bool {
						if cc, ok := m.(*ast.CaseClause); ok {
							for _, e := range cc.List {
								if s, ok := constStringVal(info, e); ok {
									switch s {
									case "load-file":
										loadCase = cc
									case "in-package":
										pkgCase = cc
									}
								}
							}
						}
						return true
					})
					if loadCase == nil || pkgCase == nil {
						continue
					}
					inUnit := func(o types.Object) bool {
						if o == nil {
							return false
						}
						if v, ok := o.(*types.Var); ok && v.IsField() {
							return false
						}
						return o.Pos() >= un.ftyp.Pos() && o.Pos() <= un.body.End()
					}
					isParam := func(o types.Object) bool {
						return o != nil && un.ftyp.Params != nil && o.Pos() >= un.ftyp.Params.Pos() && o.Pos() <= un.ftyp.Params.End()
					}
					// (1) the directory
					dirDone := false
					for _, st := range loadCase.Body {
						walkOwn(st, func(m ast.Node) bool {
							ce, ok := m.(*ast.CallExpr)
							if !ok || !stdFuncCalled(info, ce, "path/filepath", "Join") || len(ce.Args) < 2 || dirDone {
								return true
							}
							dirDone = true
							dobj := identObj(info, ce.Args[0])
							ok1 := false
							why := "the directory is not a variable"
							if dc, isCall := ast.Unparen(ce.Args[0]).(*ast.CallExpr); isCall && stdFuncCalled(info, dc, "path/filepath", "Dir") {
								dobj = nil
								why = "computed in place"
								ok1 = true
								if o := identObj(info, dc.Args[0]); !inUnit(o) {
									ok1, why = false, "filepath.Dir is applied to a variable that is not local to the walker"
								}
							}
							if dobj != nil {
								switch {
								case !inUnit(dobj):
									why = "the directory `" + dobj.Name() + "` is declared outside the function that walks one file (a captured variable or a field): it is computed once, for the entry point, and every nested load-file is resolved against that directory instead of the directory of the file that contains it"
								default:
									// defined from filepath.Dir(<param or local of the unit>)
									var def ast.Expr
									ndef := 0
									walkOwn(un.body, func(k ast.Node) bool {
										if as, ok := k.(*ast.AssignStmt); ok && len(as.Lhs) == len(as.Rhs) {
											for i, l := range as.Lhs {
												if identObj(info, l) == dobj {
													ndef++
													def = as.Rhs[i]
												}
											}
										}
										return true
									})
									if dc, isCall := ast.Unparen(def).(*ast.CallExpr); ndef == 1 && isCall && stdFuncCalled(info, dc, "path/filepath", "Dir") && len(dc.Args) == 1 && inUnit(identObj(info, dc.Args[0])) {
										ok1, why = true, "filepath.Dir of the walked file's own path, computed per recursion frame"
									} else {
										why = "the directory is not filepath.Dir of the walked file's own path"
									}
								}
							}
							if ok1 {
								obs = append(obs, mkOb(c, rid, un.u, "directory of a nested load", ce, Proved, why, true))
							} else {
								obs = append(obs, mkOb(c, rid, un.u, "directory of a nested load", ce, Violated, why, true))
							}
							return true
						})
					}
					// (2) the package variable
					for _, st := range pkgCase.Body {
						walkOwn(st, func(m ast.Node) bool {
							as, ok := m.(*ast.AssignStmt)
							if !ok || as.Tok != token.ASSIGN || len(as.Lhs) != 1 {
								return true
							}
							var o types.Object
							switch l := ast.Unparen(as.Lhs[0]).(type) {
							case *ast.Ident:
								o = identObj(info, l)
							case *ast.SelectorExpr:
								o = FieldOfSelector(info, l)
							}
							if o == nil {
								return true
							}
							if bt, ok := o.Type().Underlying().(*types.Basic); !ok || bt.Kind() != types.String {
								return true
							}
							if inUnit(o) || isParam(o) {
								obs = append(obs, mkOb(c, rid, un.u, "current package of the walked file", as, Proved, "a parameter / local of the function that walks one file: each file has its own", true))
							} else {
								obs = append(obs, mkOb(c, rid, un.u, "current package of the walked file", as, Violated, "an in-package form assigns `"+o.Name()+"`, which outlives the walk of this file (a field or a captured variable): the package switch of a loaded file leaks into the rest of the file that loaded it, and bare files loaded later are attributed to the wrong package", true))
							}
							return true
						})
					}
				}
			}
			return obs
		}})
}
