package main

import (
	"go/ast"
	"go/token"
	"go/types"
	"sort"
	"strings"
)

// STATE.package-vars — process-wide mutable state in the kernel (C10, C09).

func init() {
	register(&Rule{ID: "STATE.package-vars", Floor: 3,
		Doc: "a package-level variable of the interpreter kernel is written after package initialisation (assigned, written through, or — for sync / sync/atomic / map / slice typed variables — mutated by a method call, element store, delete or append) only if it is in the audited set; everything else that runtimes share is immutable after init",
		Run: func(c *Ctx) []Obligation {
			type hit struct {
				u    FuncUnit
				node ast.Node
				how  string
			}
			hits := map[*types.Var][]hit{}
			for _, u := range c.Funcs(isKernel) {
				if u.Obj.Name() == "init" && u.Decl.Recv == nil {
					continue
				}
				info := u.Pkg.TypesInfo
				pkgVar := func(e ast.Expr) *types.Var {
					// root identifier of an lvalue / receiver expression
					for {
						switch x := ast.Unparen(e).(type) {
						case *ast.SelectorExpr:
							if info.Selections[x] == nil {
								// pkg.Var
								if v, ok := info.Uses[x.Sel].(*types.Var); ok && v.Parent() == v.Pkg().Scope() {
									return v
								}
								return nil
							}
							e = x.X
							continue
						case *ast.IndexExpr:
							e = x.X
							continue
						case *ast.StarExpr:
							e = x.X
							continue
						case *ast.Ident:
							if v, ok := info.Uses[x].(*types.Var); ok && v.Pkg() != nil && v.Parent() == v.Pkg().Scope() {
								return v
							}
							return nil
						case *ast.CallExpr:
							return nil
						}
						return nil
					}
				}
				ast.Inspect(u.Decl.Body, func(n ast.Node) bool {
					switch s := n.(type) {
					case *ast.AssignStmt:
						if s.Tok == token.DEFINE {
							return true
						}
						for _, l := range s.Lhs {
							if v := pkgVar(l); v != nil && isKernel(v.Pkg().Path()) {
								hits[v] = append(hits[v], hit{u, s, "assigned / written through"})
							}
						}
					case *ast.IncDecStmt:
						if v := pkgVar(s.X); v != nil && isKernel(v.Pkg().Path()) {
							hits[v] = append(hits[v], hit{u, s, "incremented"})
						}
					case *ast.CallExpr:
						if id, ok := ast.Unparen(s.Fun).(*ast.Ident); ok && (id.Name == "delete" || id.Name == "clear") && len(s.Args) > 0 {
							if v := pkgVar(s.Args[0]); v != nil && isKernel(v.Pkg().Path()) {
								hits[v] = append(hits[v], hit{u, s, id.Name})
							}
						}
						if se, ok := ast.Unparen(s.Fun).(*ast.SelectorExpr); ok && info.Selections[se] != nil {
							v := pkgVar(se.X)
							if v == nil || !isKernel(v.Pkg().Path()) {
								return true
							}
							fn, _ := info.Selections[se].Obj().(*types.Func)
							if fn == nil || fn.Pkg() == nil {
								return true
							}
							pp := fn.Pkg().Path()
							if pp == "sync" || pp == "sync/atomic" {
								switch fn.Name() {
								case "Load", "Range", "RLock", "RUnlock", "Lock", "Unlock", "Do":
									if fn.Name() == "Do" {
										hits[v] = append(hits[v], hit{u, s, "sync.Once.Do (one-time initialisation)"})
									}
								default:
									hits[v] = append(hits[v], hit{u, s, "mutating " + pp + " method " + fn.Name()})
								}
							}
							// the repository's own atomic counter type
							if strings.HasSuffix(fn.FullName(), "atomicCounter).Add") {
								hits[v] = append(hits[v], hit{u, s, "atomicCounter.Add"})
							}
						}
					case *ast.UnaryExpr:
						if s.Op == token.AND {
							if v := pkgVar(s.X); v != nil && isKernel(v.Pkg().Path()) {
								// address taken: only interesting for non-struct-table vars; record
								if _, isBasic := v.Type().Underlying().(*types.Basic); isBasic {
									hits[v] = append(hits[v], hit{u, s, "address taken"})
								}
							}
						}
					}
					return true
				})
			}
			permitted := map[string]string{
				"lisp.userBuiltins":   "RegisterDefaultBuiltin: embedder registration API, documented to be called before any runtime is created; formals are sealed copies",
				"lisp.userSpecialOps": "RegisterDefaultSpecialOp: as userBuiltins",
				"lisp.userMacros":     "RegisterDefaultMacro: as userBuiltins",
			}
			var obs []Obligation
			var vars []*types.Var
			for v := range hits {
				vars = append(vars, v)
			}
			sort.Slice(vars, func(i, j int) bool { return vars[i].Pkg().Path()+vars[i].Name() < vars[j].Pkg().Path()+vars[j].Name() })
			for _, v := range vars {
				name := canonObjName(v)
				hs := hits[v]
				var hows []string
				for _, h := range hs {
					hows = append(hows, h.u.Name()+": "+h.how)
				}
				sort.Strings(hows)
				o := Obligation{Rule: "STATE.package-vars", Func: name, Construct: "package-level variable written after init", Pos: c.Pos(hs[0].node.Pos())}
				if why, ok := permitted[name]; ok {
					o.Verdict, o.Detail = Proved, "audited: "+why+" ["+strings.Join(hows, "; ")+"]"
				} else {
					o.Verdict, o.Detail, o.Nontrivial = Violated, "process-wide state shared by every runtime is written after initialisation ("+strings.Join(hows, "; ")+"): what one runtime does becomes visible to (or ordered with) others", true
				}
				obs = append(obs, o)
			}
			return obs
		}})

	register(&Rule{ID: "SORT.total-order", Floor: 2,
		Doc: "the Less method of every sort adapter over map entries compares the two keys directly (a single `<` on the keys' own strings, no lossy transformation such as case folding): distinct keys never tie, so the sorted order does not depend on the order the Go map delivered them",
		Run: func(c *Ctx) []Obligation {
			var obs []Obligation
			for _, u := range c.Funcs(isKernel) {
				if u.Obj.Name() != "Less" {
					continue
				}
				sig := u.Obj.Type().(*types.Signature)
				if sig.Recv() == nil || !strings.Contains(canonTypes(sig.Recv().Type().String()), "mapEntriesByKey") {
					continue
				}
				info := u.Pkg.TypesInfo
				// body: return <a> < <b> where both sides are selector chains (no calls)
				ok := false
				if len(u.Decl.Body.List) == 1 {
					if rs, isRet := u.Decl.Body.List[0].(*ast.ReturnStmt); isRet && len(rs.Results) == 1 {
						if be, isBin := ast.Unparen(rs.Results[0]).(*ast.BinaryExpr); isBin && be.Op == token.LSS {
							// an accessor helper — `func entryKeyName(pair *LVal) string { return pair.Cells[0].Str }`,
							// one return of a call-free selector chain — reads the raw key like the chain written in place
							accessor := func(ce *ast.CallExpr) bool {
								h := originOf(Callee(info, ce))
								hd := c.declOf[h]
								if h == nil || hd == nil || hd.Body == nil || len(hd.Body.List) != 1 {
									return false
								}
								rs, ok := hd.Body.List[0].(*ast.ReturnStmt)
								if !ok || len(rs.Results) != 1 {
									return false
								}
								plain := true
								ast.Inspect(rs.Results[0], func(n ast.Node) bool {
									switch n.(type) {
									case *ast.CallExpr, *ast.BinaryExpr, *ast.FuncLit:
										plain = false
									}
									return true
								})
								return plain
							}
							pure := func(e ast.Expr) bool {
								hasCall := false
								ast.Inspect(e, func(n ast.Node) bool {
									if ce, isCall := n.(*ast.CallExpr); isCall && !accessor(ce) {
										hasCall = true
									}
									return true
								})
								tv, okT := info.Types[e]
								return !hasCall && okT && tv.Type.String() == "string"
							}
							ok = pure(be.X) && pure(be.Y)
						}
					}
				}
				if ok {
					obs = append(obs, mkOb(c, "SORT.total-order", u, "key comparison", u.Decl, Proved, "Less is `a.key < b.key` on the raw key strings", true))
				} else {
					obs = append(obs, mkOb(c, "SORT.total-order", u, "key comparison", u.Decl, Violated, "the comparator is not a plain `<` on the raw key strings: keys it considers equal keep whatever order the Go map produced", true))
				}
			}
			return obs
		}})
}

// STATE.no-pools — C11 ("appending to … any result of append never writes into
// another value"; non-mutating operations return values nothing else can write
// through) and C09 (runtimes share no mutable state): a sync.Pool hands the
// same buffer to successive callers.  A value built over pooled storage is
// overwritten by the next caller — another evaluation, another runtime, another
// goroutine — long after it was returned.  The kernel allocates its results.
func init() {
	register(&Rule{ID: "STATE.no-pools", Floor: 0,
		Doc: "no package-level variable, struct field or local of the interpreter kernel has type sync.Pool (or *sync.Pool): every value a builtin returns lives in storage allocated for it, not in a buffer that is recycled to a later call.  (Zero sites today; the seeded change C11-r3m3 is the standing positive example re-checked by selftest.)",
		Run: func(c *Ctx) []Obligation {
			const rid = "STATE.no-pools"
			isPool := func(t types.Type) bool {
				if p, ok := t.(*types.Pointer); ok {
					t = p.Elem()
				}
				n, ok := types.Unalias(t).(*types.Named)
				return ok && n.Obj().Pkg() != nil && n.Obj().Pkg().Path() == "sync" && n.Obj().Name() == "Pool"
			}
			var obs []Obligation
			for _, p := range c.Pkgs {
				if !isKernel(p.PkgPath) {
					continue
				}
				for id, o := range p.TypesInfo.Defs {
					v, ok := o.(*types.Var)
					if !ok || !isPool(v.Type()) {
						continue
					}
					if strings.HasSuffix(c.Fset.Position(id.Pos()).Filename, "_test.go") {
						continue
					}
					obs = append(obs, Obligation{Rule: rid, Func: rel(p.PkgPath) + "." + v.Name(), Construct: "sync.Pool", Pos: c.Pos(id.Pos()), Verdict: Violated, Nontrivial: true,
						Detail: "a recycled buffer: a value built over it (a byte string that wraps buf.Bytes(), a list over its cells) is rewritten by the next call that takes the buffer from the pool, so a result of a non-mutating operation changes after it was returned — in the same runtime or in another one"})
				}
			}
			return obs
		}})
}
