package main

import (
	"fmt"
	"go/ast"
	"go/token"
	"go/types"
	"sort"
	"strings"

	"golang.org/x/tools/go/cfg"
)

// READERS — configuration fields whose zero value means "use the default"
// (or whose sign carries meaning) are read only through the accessor that
// implements that convention; a raw read gives the limit another meaning
// (0 = unlimited) at that site.

type readerSpec struct {
	field     string
	permitted map[string]string
}

var readerSpecs = []readerSpec{
	{"lisp.Runtime.MaxMacroExpansionDepth", map[string]string{"lisp.(*Runtime).MaxMacroExpansions": "0 means DefaultMaxMacroExpansionDepth"}},
	{"lisp.Runtime.MaxAlloc", map[string]string{"lisp.(*Runtime).MaxAllocBytes": "0 means DefaultMaxAlloc"}},
	{"lisp.Runtime.MaxEvalNesting", map[string]string{
		"lisp.(*Runtime).MaxEvalNestingDepth": "0 means default, negative disables",
		"lisp.(*Runtime).evalNestingExceeded": "the hot-path form of the same convention"}},
	{"lisp.Runtime.MaxSleep", map[string]string{"lisp.(*Runtime).MaxSleepCeiling": "non-positive means no ceiling"}},
	{"lisp.Runtime.maxSteps", map[string]string{
		"lisp.(*LEnv).checkLimits":     "fast path: 0 means unlimited",
		"lisp.(*LEnv).checkLimitsSlow": "the step test and its message"}},
	{"lisp.CallStack.MaxHeightPhysical", map[string]string{
		"lisp.(*CallStack).checkHeightPhysical": "the pre-push test",
		"lisp.(*CallStack).Copy":                "copied onto the snapshot attached to an error",
		"lisp.detachCallStack":                  "copied onto a detached snapshot"}},
	{"lisp.CallStack.MaxHeightLogical", map[string]string{
		"lisp.(*CallStack).CheckHeight": "the logical-height test",
		"lisp.(*CallStack).Copy":        "snapshot",
		"lisp.detachCallStack":          "snapshot"}},
	{"lisp.CallStack.MaxTailIterations", map[string]string{
		"lisp.(*CallStack).CheckTailIterations": "the tail-iteration test",
		"lisp.(*CallStack).Copy":                "snapshot",
		"lisp.detachCallStack":                  "snapshot"}},
}

// fieldReads lists functions that read the field (a selector not in pure
// store position).
func (c *Ctx) fieldReads(fld *types.Var) map[string][]ast.Node {
	out := map[string][]ast.Node{}
	for _, u := range c.Funcs(nil) {
		info := u.Pkg.TypesInfo
		lhs := map[ast.Expr]bool{}
		ast.Inspect(u.Decl.Body, func(n ast.Node) bool {
			if as, ok := n.(*ast.AssignStmt); ok && as.Tok == token.ASSIGN {
				for _, l := range as.Lhs {
					lhs[ast.Unparen(l)] = true
				}
			}
			return true
		})
		ast.Inspect(u.Decl.Body, func(n ast.Node) bool {
			se, ok := n.(*ast.SelectorExpr)
			if !ok || lhs[se] {
				return true
			}
			if FieldOfSelector(info, se) == fld {
				out[u.Name()] = append(out[u.Name()], se)
			}
			return true
		})
	}
	return out
}

func init() {
	for _, sp := range readerSpecs {
		sp := sp
		rule := "READERS." + sp.field[strings.Index(sp.field, ".")+1:]
		register(&Rule{ID: rule, Floor: 1,
			Doc: "the limit field " + sp.field + " is read only by the accessor(s) that implement its zero/negative-value convention",
			Run: func(c *Ctx) []Obligation {
				fld := c.LookupField(sp.field)
				if fld == nil {
					return []Obligation{anchorMissing(rule, sp.field)}
				}
				var obs []Obligation
				reads := c.fieldReads(fld)
				for _, fn := range sortedKeys(reads) {
					o := Obligation{Rule: rule, Func: fn, Construct: "reads " + sp.field, Pos: c.Pos(reads[fn][0].Pos())}
					if why, ok := sp.permitted[fn]; ok {
						o.Verdict, o.Detail = Proved, fmt.Sprintf("permitted reader (%d reads): %s", len(reads[fn]), why)
					} else if via, ok := c.servesPermitted(fn, func(n string) bool { _, p := sp.permitted[n]; return p }); ok {
						o.Verdict, o.Detail = Proved, fmt.Sprintf("private helper of the permitted reader %s (%d reads)", via, len(reads[fn]))
					} else if c.hostObserver(fn) {
						o.Verdict, o.Detail = Proved, "a read-only accessor for the host: it makes no call, stores nothing, and no function of the interpreter calls it — nothing the evaluator decides depends on this read"
					} else {
						o.Verdict, o.Detail = Violated, "raw read of a limit field outside its accessor: the `zero means default` convention is bypassed here (a limit of 0 silently becomes `no limit`); permitted: "+strings.Join(sortedKeys(sp.permitted), ", ")
					}
					obs = append(obs, o)
				}
				return obs
			}})
	}

	register(&Rule{ID: "LIMIT.poll-shape", Floor: 4,
		Doc: "checkLimitsSlow charges a step on every path, returns the step-limit error when steps > maxSteps, and on every path to a nil return with ctx != nil it has called ctx.Err(); checkLimits takes the free path only on the edge `ctx == nil && maxSteps == 0`",
		Run: func(c *Ctx) []Obligation {
			var obs []Obligation
			fn, fd, pkg := c.LookupFunc("lisp.(*LEnv).checkLimitsSlow")
			steps := c.LookupField("lisp.Runtime.steps")
			maxSteps := c.LookupField("lisp.Runtime.maxSteps")
			if fn == nil || steps == nil || maxSteps == nil {
				return []Obligation{anchorMissing("LIMIT.poll-shape", "checkLimitsSlow/steps/maxSteps")}
			}
			u := FuncUnit{fn, fd, pkg}
			info := pkg.TypesInfo
			fc := c.cfgOf(u, nil)
			ctxObj := ctxParam(info, fd)
			// 1. steps++ on every path
			incr := fc.blocksWith(func(n ast.Node) bool {
				if s, ok := n.(*ast.IncDecStmt); ok && s.Tok == token.INC && FieldOfSelector(info, s.X) == steps {
					return true
				}
				if as, ok := n.(*ast.AssignStmt); ok && as.Tok == token.ADD_ASSIGN && len(as.Lhs) == 1 && FieldOfSelector(info, as.Lhs[0]) == steps {
					if k, okc := intConst(info, as.Rhs[0]); okc && k == 1 {
						return true
					}
				}
				return false
			})
			if len(incr) > 0 && !fc.exitReachableAvoiding(incr, nil) {
				obs = append(obs, mkOb(c, "LIMIT.poll-shape", u, "step charged on every path", fd, Proved, "every path through checkLimitsSlow increments Runtime.steps by one", true))
			} else {
				obs = append(obs, mkOb(c, "LIMIT.poll-shape", u, "step charged on every path", fd, Violated, "a path through checkLimitsSlow does not charge a step", true))
			}
			// 2. the step comparison
			okCmp := false
			for _, b := range fc.G.Blocks {
				cond := fc.CondOf(b)
				if cond == nil || !fc.Live(b) {
					continue
				}
				for k := 0; k < 2; k++ {
					for _, a := range impliedAtoms(cond, k == 0) {
						be, ok := ast.Unparen(a.E).(*ast.BinaryExpr)
						if !ok {
							continue
						}
						exceeds := false
						// a local defined once from the field (`budget := r.maxSteps`) reads as the field
						bx, by := resolveLocal(info, fd.Body, be.X), resolveLocal(info, fd.Body, be.Y)
						if FieldOfSelector(info, bx) == steps && FieldOfSelector(info, by) == maxSteps && ((be.Op == token.GTR && a.Positive) || (be.Op == token.LEQ && !a.Positive)) {
							exceeds = true
						}
						if FieldOfSelector(info, bx) == maxSteps && FieldOfSelector(info, by) == steps && ((be.Op == token.LSS && a.Positive) || (be.Op == token.GEQ && !a.Positive)) {
							exceeds = true
						}
						if exceeds && fc.edgeReturns(cfgEdge{b, k}, nil) {
							okCmp = true
						}
					}
				}
			}
			if okCmp {
				obs = append(obs, mkOb(c, "LIMIT.poll-shape", u, "steps > maxSteps refuses", fd, Proved, "the edge implying steps > maxSteps returns the limit error", true))
			} else {
				obs = append(obs, mkOb(c, "LIMIT.poll-shape", u, "steps > maxSteps refuses", fd, Violated, "no edge implying `steps > maxSteps` that returns an error (off-by-one or missing step test)", true))
			}
			// 3. ctx polled on every path to a nil return
			polls := fc.blocksWith(func(n ast.Node) bool {
				for _, ce := range callsIn(n, false) {
					if methodCalled(info, ce, "context", "Context", "Err") {
						if se, ok := ast.Unparen(ce.Fun).(*ast.SelectorExpr); ok && identObj(info, se.X) == ctxObj {
							return true
						}
					}
					// `contextErr(ctx)`: a helper that returns ctx.Err() unless ctx is nil
					if k := c.ctxErrWrapper(originOf(Callee(info, ce))); k >= 0 && k < len(ce.Args) && identObj(info, ce.Args[k]) == ctxObj {
						return true
					}
				}
				return false
			})
			nilCtx := fc.nilEdges(ctxObj, true)
			bad := false
			nret := 0
			for _, b := range fc.G.Blocks {
				if !fc.Live(b) {
					continue
				}
				for _, n := range b.Nodes {
					rs, ok := n.(*ast.ReturnStmt)
					if !ok || len(rs.Results) != 1 || !isNilIdent(info, rs.Results[0]) {
						continue
					}
					nret++
					if fc.reachableAvoidingBlocks(b, nilCtx, polls) {
						bad = true
					}
				}
			}
			if nret > 0 && !bad && len(polls) > 0 {
				obs = append(obs, mkOb(c, "LIMIT.poll-shape", u, "context polled at every step", fd, Proved, "every path to `return nil` passes ctx.Err() or the ctx == nil edge", true))
			} else {
				obs = append(obs, mkOb(c, "LIMIT.poll-shape", u, "context polled at every step", fd, Violated, "a step can succeed with a non-nil context without consulting ctx.Err(): cancellation is not observed at the next step", true))
			}
			// 4. checkLimits fast path
			if ffn, ffd, fpkg := c.LookupFunc("lisp.(*LEnv).checkLimits"); ffn != nil {
				fu := FuncUnit{ffn, ffd, fpkg}
				finfo := fpkg.TypesInfo
				ffc := c.cfgOf(fu, nil)
				fctx := ctxParam(finfo, ffd)
				cls := func(e ast.Expr) (string, bool) {
					if is, trueNonNil := isNilTest(finfo, e, fctx); is {
						return "ctxNil", trueNonNil
					}
					if be, ok := ast.Unparen(e).(*ast.BinaryExpr); ok && (be.Op == token.EQL || be.Op == token.NEQ) {
						var other ast.Expr
						if FieldOfSelector(finfo, be.X) == maxSteps {
							other = be.Y
						} else if FieldOfSelector(finfo, be.Y) == maxSteps {
							other = be.X
						}
						if other != nil {
							if k, okc := intConst(finfo, other); okc && k == 0 {
								return "noStepLimit", be.Op == token.NEQ
							}
						}
					}
					return "", false
				}
				free := ffc.edgesEntailing(cls, func(v map[string]bool) bool { return v["ctxNil"] && v["noStepLimit"] })
				badFree := false
				n := 0
				for _, b := range ffc.G.Blocks {
					if !ffc.Live(b) {
						continue
					}
					for _, nd := range b.Nodes {
						rs, ok := nd.(*ast.ReturnStmt)
						if !ok || len(rs.Results) != 1 || !isNilIdent(finfo, rs.Results[0]) {
							continue
						}
						n++
						if len(free) == 0 || ffc.reachableAvoiding(b, free) {
							badFree = true
						}
					}
				}
				if n > 0 && !badFree {
					obs = append(obs, mkOb(c, "LIMIT.poll-shape", fu, "free path only when unlimited", ffd, Proved, "checkLimits returns nil without counting only on an edge entailing ctx == nil && maxSteps == 0", true))
				} else {
					obs = append(obs, mkOb(c, "LIMIT.poll-shape", fu, "free path only when unlimited", ffd, Violated, "checkLimits can skip the slow path although a context or a step limit is configured", true))
				}
			}
			return obs
		}})

	register(&Rule{ID: "MACROEXP.bound", Floor: 2,
		Doc: "both macro re-expansion loops (eval's `goto eval` on an expansion marker, builtinMacroExpand) pass on every turn an edge that compares a per-loop counter with Runtime.MaxMacroExpansions() and returns an error when it is exceeded",
		Run: func(c *Ctx) []Obligation {
			mm := c.LookupMethod("lisp.Runtime.MaxMacroExpansions")
			if mm == nil {
				return []Obligation{anchorMissing("MACROEXP.bound", "Runtime.MaxMacroExpansions")}
			}
			var obs []Obligation
			type loopSpec struct{ fname, via string }
			specs := []loopSpec{{"lisp.(*LEnv).eval", "lisp.LEnv.evalSExpr"}}
			// the macroexpand builtin: whichever function calls macroExpand1 from inside a loop (the
			// loop may live in a helper shared with macroexpand-1)
			if exp1 := c.LookupPkgFunc("lisp.macroExpand1"); exp1 != nil {
				n := 0
				for _, name := range c.loopsThrough(exp1) {
					specs = append(specs, loopSpec{name, "lisp.macroExpand1"})
					n++
				}
				if n == 0 {
					specs = append(specs, loopSpec{"lisp.builtinMacroExpand", "lisp.macroExpand1"})
				}
			}
			for _, spec := range specs {
				fn, fd, pkg := c.LookupFunc(spec.fname)
				if fn == nil {
					obs = append(obs, anchorMissing("MACROEXP.bound", spec.fname))
					continue
				}
				u := FuncUnit{fn, fd, pkg}
				info := pkg.TypesInfo
				fc := c.cfgOf(u, nil)
				var via *types.Func
				if strings.Contains(spec.via, "LEnv.") {
					via = c.LookupMethod(spec.via)
				} else {
					via = c.LookupPkgFunc(spec.via)
				}
				// "limit" expressions: a direct call of MaxMacroExpansions or a variable defined once by it
				isLimit := func(e ast.Expr) bool {
					if ce, ok := ast.Unparen(e).(*ast.CallExpr); ok && originOf(Callee(info, ce)) == mm {
						return true
					}
					if o := identObj(info, e); o != nil {
						if dc, _, n := definingCall(info, fd.Body, o); dc != nil && n == 1 && originOf(Callee(info, dc)) == mm {
							return true
						}
					}
					return false
				}
				// edges on which the counter is known to exceed (want) / not to exceed (!want) the limit
				limitEdges := func(g *FCFG, isLim func(ast.Expr) bool, want bool) []cfgEdge {
					return g.edgesImplying(func(a LitAtom) bool {
						be, ok := ast.Unparen(a.E).(*ast.BinaryExpr)
						if !ok {
							return false
						}
						switch {
						case isLim(be.Y) && (be.Op == token.GTR || be.Op == token.GEQ):
							return a.Positive == want
						case isLim(be.X) && (be.Op == token.LSS || be.Op == token.LEQ):
							return a.Positive == want
						case isLim(be.Y) && (be.Op == token.LEQ || be.Op == token.LSS):
							return a.Positive != want
						case isLim(be.X) && (be.Op == token.GEQ || be.Op == token.GTR):
							return a.Positive != want
						}
						return false
					})
				}
				exceeded := limitEdges(fc, isLimit, true)
				// the test may live in a checker helper: `if lerr := env.checkDepth(n); lerr != nil { return lerr }`
				// bounds the loop as the comparison written out would, provided the helper hands back nil
				// only across an edge on which the limit is NOT exceeded
				seenLocal := map[types.Object]bool{}
				for _, b := range fc.G.Blocks {
					cond := fc.CondOf(b)
					if !fc.Live(b) || cond == nil {
						continue
					}
					ast.Inspect(cond, func(n ast.Node) bool {
						id, ok := n.(*ast.Ident)
						if !ok {
							return true
						}
						o, ok := info.Uses[id].(*types.Var)
						if !ok || seenLocal[o] || o.IsField() {
							return true
						}
						seenLocal[o] = true
						dc, idx, ndefs := definingCall(info, fd.Body, o)
						if dc == nil || ndefs != 1 {
							return true
						}
						h := originOf(Callee(info, dc))
						if h == nil || c.declOf[h] == nil {
							return true
						}
						hinfo := c.pkgOf[c.declOf[h]].TypesInfo
						hbody := c.declOf[h].Body
						hIsLimit := func(e ast.Expr) bool {
							if ce, ok := ast.Unparen(e).(*ast.CallExpr); ok && originOf(Callee(hinfo, ce)) == mm {
								return true
							}
							if ho := identObj(hinfo, e); ho != nil {
								if hdc, _, n := definingCall(hinfo, hbody, ho); hdc != nil && n == 1 && originOf(Callee(hinfo, hdc)) == mm {
									return true
								}
							}
							return false
						}
						if c.nilOnlyBehind(h, idx, func(hfc *FCFG) []cfgEdge { return limitEdges(hfc, hIsLimit, false) }) {
							exceeded = append(exceeded, fc.nilEdges(o, false)...)
						}
						return true
					})
				}
				testBlocks := map[*cfg.Block]bool{}
				okRet := len(exceeded) > 0
				for _, e := range exceeded {
					testBlocks[e.B] = true
					if !fc.edgeReturns(e, nil) {
						okRet = false
					}
				}
				// every cycle through the expansion call passes a test block
				hasVia := func(b *cfg.Block) bool {
					for _, n := range b.Nodes {
						if via != nil && c.nodeCallsVia(info, n, via) != nil {
							return true
						}
					}
					return false
				}
				rest := fc.cyclicSCCs(func(b *cfg.Block) bool { return testBlocks[b] })
				still := false
				for _, comp := range rest {
					for _, b := range comp {
						if hasVia(b) {
							still = true
						}
					}
				}
				anyCycle := false
				for _, comp := range fc.cyclicSCCs(nil) {
					for _, b := range comp {
						if hasVia(b) {
							anyCycle = true
						}
					}
				}
				switch {
				case !anyCycle:
					obs = append(obs, mkOb(c, "MACROEXP.bound", u, "re-expansion loop", fd, Undecided, "no cycle through "+spec.via+" found: the loop changed shape", false))
				case okRet && !still:
					obs = append(obs, mkOb(c, "MACROEXP.bound", u, "re-expansion loop", fd, Proved, "every turn compares the counter with MaxMacroExpansions() and the exceeded edge returns", true))
				default:
					obs = append(obs, mkOb(c, "MACROEXP.bound", u, "re-expansion loop", fd, Violated, "a macro re-expansion cycle is not bounded by Runtime.MaxMacroExpansions(): a macro expanding to itself never terminates", true))
				}
			}
			return obs
		}})
}

// ctxParam returns the parameter of type context.Context.
func ctxParam(info *types.Info, fd *ast.FuncDecl) types.Object {
	if fd.Type.Params == nil {
		return nil
	}
	for _, f := range fd.Type.Params.List {
		for _, n := range f.Names {
			o := info.Defs[n]
			if o != nil && o.Type().String() == "context.Context" {
				return o
			}
		}
	}
	return nil
}

// MACROEXP.count-agrees — C07: "evaluating a macro call is equivalent to
// evaluating the form macroexpand returns".  Both routes refuse a chain of
// successive expansions that is too long, against the same limit; they must
// also COUNT the same way, or a chain of exactly limit+1 expansions is an error
// on one route and a value on the other.  How many expansions a loop permits
// follows from the order of three things on one turn — the expansion, the
// increment, the test — and from the comparison operator.
func init() {
	register(&Rule{ID: "MACROEXP.count-agrees", Floor: 2,
		Doc: "eval's re-expansion loop and the macroexpand builtin's loop permit the same number of successive expansions relative to Runtime.MaxMacroExpansions(): for each loop the offset is derived from whether the limit test comes after the expansion and its increment (counter = expansions made: `>` permits limit, `>=` permits limit-1) or before the expansion (counter = expansions made so far: `>` permits limit+1, `>=` permits limit), and the two offsets are equal",
		Run: func(c *Ctx) []Obligation {
			const rid = "MACROEXP.count-agrees"
			mm := c.LookupMethod("lisp.Runtime.MaxMacroExpansions")
			exp1 := c.LookupPkgFunc("lisp.macroExpand1")
			evs := c.LookupMethod("lisp.LEnv.evalSExpr")
			if mm == nil || exp1 == nil || evs == nil {
				return []Obligation{anchorMissing(rid, "MaxMacroExpansions / macroExpand1 / evalSExpr")}
			}
			type site struct {
				fname string
				via   *types.Func
			}
			sites := []site{{"lisp.(*LEnv).eval", evs}}
			// the function whose loop calls macroExpand1
			for _, name := range c.loopsThrough(exp1) {
				sites = append(sites, site{name, exp1})
			}
			var obs []Obligation
			offsets := map[string]int{}
			var units []FuncUnit
			seen := map[string]bool{}
			for _, s := range sites {
				if seen[s.fname] {
					continue
				}
				seen[s.fname] = true
				fn, fd, pkg := c.LookupFunc(s.fname)
				if fn == nil {
					obs = append(obs, anchorMissing(rid, s.fname))
					continue
				}
				u := FuncUnit{fn, fd, pkg}
				units = append(units, u)
				info := pkg.TypesInfo
				fc := c.cfgOf(u, nil)
				isLimit := func(e ast.Expr) bool {
					if ce, ok := ast.Unparen(e).(*ast.CallExpr); ok && originOf(Callee(info, ce)) == mm {
						return true
					}
					if o := identObj(info, e); o != nil {
						if dc, _, n := definingCall(info, fd.Body, o); dc != nil && n == 1 && originOf(Callee(info, dc)) == mm {
							return true
						}
					}
					return false
				}
				// the test: counter OP limit
				var testLoc, expLoc, incLoc Loc
				var haveT, haveE, haveI bool
				var counter types.Object
				strict := false // true: `>` ; false: `>=`
				for _, b := range fc.G.Blocks {
					if !fc.Live(b) {
						continue
					}
					for i, n := range b.Nodes {
						if e, ok := n.(ast.Expr); ok {
							// comparisons are read with their polarity: `!(n <= limit)` is `n > limit`
							for _, be := range cmpAtomsOf(e) {
								switch {
								case isLimit(be.Y) && (be.Op == token.GTR || be.Op == token.GEQ):
									counter, strict = identObj(info, be.X), be.Op == token.GTR
								case isLimit(be.X) && (be.Op == token.LSS || be.Op == token.LEQ):
									counter, strict = identObj(info, be.Y), be.Op == token.LSS
								default:
									continue
								}
								testLoc, haveT = Loc{b, i}, true
							}
						}
						if c.nodeCallsVia(info, n, s.via) != nil && !haveE {
							expLoc, haveE = Loc{b, i}, true
						}
					}
				}
				if !haveT {
					// the comparison may be written in a checker helper that receives the counter:
					// `env.checkMacroReexpansion(macroDepth)` with `depth > MaxMacroExpansions()` inside
					for _, b := range fc.G.Blocks {
						if !fc.Live(b) || haveT {
							continue
						}
						for i, n := range b.Nodes {
							for _, ce := range callsIn(n, false) {
								h := originOf(Callee(info, ce))
								if h == nil || c.declOf[h] == nil || c.declOf[h].Body == nil || haveT {
									continue
								}
								hd := c.declOf[h]
								hinfo := c.pkgOf[hd].TypesInfo
								hIsLimit := func(e ast.Expr) bool {
									if hce, ok := ast.Unparen(e).(*ast.CallExpr); ok && originOf(Callee(hinfo, hce)) == mm {
										return true
									}
									if ho := identObj(hinfo, e); ho != nil {
										if hdc, _, n := definingCall(hinfo, hd.Body, ho); hdc != nil && n == 1 && originOf(Callee(hinfo, hdc)) == mm {
											return true
										}
									}
									return false
								}
								sig := h.Type().(*types.Signature)
								ast.Inspect(hd.Body, func(m ast.Node) bool {
									be, ok := m.(*ast.BinaryExpr)
									if !ok || haveT {
										return true
									}
									var po types.Object
									var st bool
									switch {
									case hIsLimit(be.Y) && (be.Op == token.GTR || be.Op == token.GEQ):
										po, st = identObj(hinfo, be.X), be.Op == token.GTR
									case hIsLimit(be.X) && (be.Op == token.LSS || be.Op == token.LEQ):
										po, st = identObj(hinfo, be.Y), be.Op == token.LSS
									default:
										return true
									}
									for k := 0; k < sig.Params().Len() && k < len(ce.Args); k++ {
										if sig.Params().At(k) == po {
											if ao := identObj(info, ce.Args[k]); ao != nil {
												counter, strict = ao, st
												testLoc, haveT = Loc{b, i}, true
											}
										}
									}
									return true
								})
							}
						}
					}
				}
				if haveT && counter != nil {
					for _, b := range fc.G.Blocks {
						if !fc.Live(b) {
							continue
						}
						for i, n := range b.Nodes {
							switch x := n.(type) {
							case *ast.IncDecStmt:
								if x.Tok == token.INC && identObj(info, x.X) == counter {
									incLoc, haveI = Loc{b, i}, true
								}
							case *ast.AssignStmt:
								if x.Tok == token.ADD_ASSIGN && len(x.Lhs) == 1 && identObj(info, x.Lhs[0]) == counter {
									if v, ok := intConst(info, x.Rhs[0]); ok && v == 1 {
										incLoc, haveI = Loc{b, i}, true
									}
								}
							}
						}
					}
				}
				construct := "expansions permitted"
				if !haveT || !haveE || !haveI || counter == nil {
					obs = append(obs, mkOb(c, rid, u, construct, fd, Undecided, "limit test, expansion call or counter increment not found", true))
					continue
				}
				off, how := 0, ""
				switch {
				case fc.Dominates(expLoc, incLoc) && fc.Dominates(incLoc, testLoc):
					how = "expansion, then increment, then test: the counter is the number of expansions made"
					if strict {
						off = 0
					} else {
						off = -1
					}
				case fc.Dominates(testLoc, expLoc) && fc.Dominates(expLoc, incLoc):
					how = "test, then expansion, then increment: the counter is the number of expansions made before this one"
					if strict {
						off = 1
					} else {
						off = 0
					}
				default:
					obs = append(obs, mkOb(c, rid, u, construct, fd, Undecided, "the order of expansion, increment and test on one turn of the loop is not one of the two recognised disciplines", true))
					continue
				}
				offsets[s.fname] = off
				obs = append(obs, mkOb(c, rid, u, construct, fc.Node(testLoc), Proved, fmt.Sprintf("limit%+d (%s; operator %s)", off, how, map[bool]string{true: ">", false: ">="}[strict]), true))
			}
			if len(offsets) >= 2 {
				first, firstName, same := 0, "", true
				i := 0
				for _, nm := range sortedKeys(offsets) {
					if i == 0 {
						first, firstName = offsets[nm], nm
					} else if offsets[nm] != first {
						same = false
						u := units[0]
						for _, uu := range units {
							if uu.Name() == nm {
								u = uu
							}
						}
						obs = append(obs, mkOb(c, rid, u, "agrees with "+firstName, u.Decl, Violated, fmt.Sprintf("%s permits limit%+d successive expansions but %s permits limit%+d: a macro chain of exactly that length is an error when the call is evaluated and a value when its macroexpand is evaluated (or the reverse)", firstName, first, nm, offsets[nm]), true))
					}
					i++
				}
				if same {
					obs = append(obs, Obligation{Rule: rid, Func: "lisp", Construct: "the two loops agree", Verdict: Proved, Detail: fmt.Sprintf("both permit limit%+d", first), Nontrivial: true})
				}
			}
			return obs
		}})
}

// loopsThrough: the functions of target's package whose control flow has a
// cycle through a node that calls target — directly or through a private
// helper (nodeCallsVia).  The evaluator funnels themselves are excluded.
func (c *Ctx) loopsThrough(target *types.Func) []string {
	pk := ""
	if target.Pkg() != nil {
		pk = target.Pkg().Path()
	}
	var out []string
	for _, u := range c.Funcs(func(p string) bool { return p == pk }) {
		if u.Decl == nil || u.Decl.Body == nil || c.evalLikeSet()[u.Obj] {
			continue
		}
		info := u.Pkg.TypesInfo
		mentions := false
		for _, ce := range callsIn(u.Decl.Body, false) {
			if c.nodeCallsVia(info, ce, target) != nil {
				mentions = true
			}
		}
		if !mentions {
			continue
		}
		fc := c.cfgOf(u, nil)
		on := false
		for _, comp := range fc.cyclicSCCs(nil) {
			for _, b := range comp {
				for _, nd := range b.Nodes {
					if c.nodeCallsVia(info, nd, target) != nil {
						on = true
					}
				}
			}
		}
		if on {
			out = append(out, u.Name())
		}
	}
	sort.Strings(out)
	return out
}

// ctxErrWrapper: h takes a context and returns its Err() on every path on which the context
// is not nil (`if ctx == nil { return nil }; return ctx.Err()`); the index of that parameter,
// or -1.  Polling through such a helper is polling.
func (c *Ctx) ctxErrWrapper(h *types.Func) int {
	hd := c.declOf[h]
	if h == nil || hd == nil || hd.Body == nil {
		return -1
	}
	hu := FuncUnit{h, hd, c.pkgOf[hd]}
	hinfo := hu.Pkg.TypesInfo
	sig, _ := h.Type().(*types.Signature)
	if sig == nil || sig.Results().Len() != 1 || sig.Results().At(0).Type().String() != "error" {
		return -1
	}
	hp := ctxParam(hinfo, hd)
	if hp == nil {
		return -1
	}
	idx := -1
	for i, p := range paramObjs(hu) {
		if p == hp {
			idx = i
		}
	}
	if idx < 0 {
		return -1
	}
	hfc := c.cfgOf(hu, nil)
	nilCtx := hfc.nilEdges(hp, true)
	nret := 0
	for _, b := range hfc.G.Blocks {
		if !hfc.Live(b) {
			continue
		}
		for _, n := range b.Nodes {
			rs, ok := n.(*ast.ReturnStmt)
			if !ok {
				continue
			}
			nret++
			if len(rs.Results) == 1 {
				if ce, ok := ast.Unparen(rs.Results[0]).(*ast.CallExpr); ok && methodCalled(hinfo, ce, "context", "Context", "Err") {
					if se, ok := ast.Unparen(ce.Fun).(*ast.SelectorExpr); ok && identObj(hinfo, se.X) == hp {
						continue
					}
				}
			}
			if hfc.reachableAvoidingBlocks(b, nilCtx, nil) {
				return -1
			}
		}
	}
	if nret == 0 {
		return -1
	}
	return idx
}


// hostObserver: fname is a declared function that only LOOKS — its body makes no call (builtins and
// conversions apart), assigns to no field or element, and no function of the interpreter kernel calls
// it or takes it as a value: an accessor added for embedders (`Runtime.MaxStepsLimit()`,
// `Runtime.StepsRemaining()`), which cannot give a limit another meaning inside the evaluator.
func (c *Ctx) hostObserver(fname string) bool { return c.hostObserverDepth(fname, 0) }

func (c *Ctx) hostObserverDepth(fname string, depth int) bool {
	if depth > 2 {
		return false
	}
	fn, fd, pkg := c.LookupFunc(fname)
	if fn == nil || fd == nil || fd.Body == nil || !callFree(c, fn) {
		return false
	}
	info := pkg.TypesInfo
	stores := false
	ast.Inspect(fd.Body, func(n ast.Node) bool {
		switch x := n.(type) {
		case *ast.AssignStmt:
			for _, l := range x.Lhs {
				switch ast.Unparen(l).(type) {
				case *ast.SelectorExpr, *ast.IndexExpr, *ast.StarExpr:
					stores = true
				}
			}
		case *ast.IncDecStmt:
			if _, isId := ast.Unparen(x.X).(*ast.Ident); !isId {
				stores = true
			}
		}
		return true
	})
	_ = info
	if stores {
		return false
	}
	sites, refs := c.CallsTo(isKernel, fn)
	if len(refs) != 0 {
		return false
	}
	for _, st := range sites {
		// an observer may serve another observer (StepsRemaining reads the limit through MaxStepsLimit)
		if st.Lit != nil || !c.hostObserverDepth(st.Unit.Name(), depth+1) {
			return false
		}
	}
	return true
}
