package main

import (
	"fmt"
	"go/ast"
	"go/token"
	"go/types"

	"golang.org/x/tools/go/cfg"
)

// Rules for C04 (execution limits) and the sleep clause of C15.

// soleBoolReturn: the statement list is a single `return <bool constant>`.
func soleBoolReturn(info *types.Info, list []ast.Stmt) (bool, bool) {
	if len(list) != 1 {
		return false, false
	}
	rs, ok := list[0].(*ast.ReturnStmt)
	if !ok || len(rs.Results) != 1 {
		return false, false
	}
	if isBoolConst(info, rs.Results[0], true) {
		return true, true
	}
	if isBoolConst(info, rs.Results[0], false) {
		return false, true
	}
	return false, false
}

func isBeginEvalDefer(info *types.Info, d *ast.DeferStmt, begin *types.Func) bool {
	// defer X.beginEval()()
	inner, ok := ast.Unparen(d.Call.Fun).(*ast.CallExpr)
	if !ok {
		return false
	}
	return originOf(Callee(info, inner)) == begin
}

// beginEvalClosedByDefer: `end := X.beginEval()` … `defer func() { …; end() }()`: the undo function is
// kept in a local and invoked, unconditionally, by a deferred literal registered in the same block with
// nothing between the two that can fail or panic.
func beginEvalClosedByDefer(info *types.Info, fc *FCFG, dloc Loc, d *ast.DeferStmt, begin *types.Func, body *ast.BlockStmt) bool {
	lit := deferredLit(d)
	if lit == nil {
		return false
	}
	for _, st := range lit.Body.List {
		es, ok := st.(*ast.ExprStmt)
		if !ok {
			continue
		}
		ce, ok := es.X.(*ast.CallExpr)
		if !ok || len(ce.Args) != 0 {
			continue
		}
		def := soleDef(info, body, ce.Fun)
		if def == nil {
			continue
		}
		bc, ok := ast.Unparen(def).(*ast.CallExpr)
		if !ok || originOf(Callee(info, bc)) != begin {
			continue
		}
		// the assignment sits earlier in the same block, and nothing risky lies between
		for j := 0; j < dloc.I; j++ {
			as, ok := dloc.B.Nodes[j].(*ast.AssignStmt)
			if !ok || len(as.Rhs) != 1 || ast.Unparen(as.Rhs[0]) != ast.Expr(bc) {
				continue
			}
			clean := true
			for k := j + 1; k < dloc.I; k++ {
				if riskyCall(info, dloc.B.Nodes[k]) != nil {
					clean = false
				}
			}
			if clean {
				return true
			}
		}
	}
	return false
}

func init() {
	register(&Rule{ID: "ENTRY.begin-eval", Floor: 8,
		Doc: "every function of package lisp that calls an internal evaluator funnel (eval, evalSExpr, funCall, macroCall, specialOpCall, call) from outside the funnels has `defer Runtime.beginEval()()` dominating the call: each top-level entry resets the step budget once and balances evalDepth on every exit",
		Run: func(c *Ctx) []Obligation {
			begin := c.LookupMethod("lisp.Runtime.beginEval")
			if begin == nil {
				return []Obligation{anchorMissing("ENTRY.begin-eval", "Runtime.beginEval")}
			}
			internal := map[*types.Func]bool{}
			for _, n := range []string{"eval", "evalSExpr", "evalSExprCells", "funCall", "macroCall", "specialOpCall", "call"} {
				// a funnel that was folded into another one is simply absent; eval and call are the core
				f := c.LookupMethod("lisp.LEnv." + n)
				if f == nil {
					if n == "eval" || n == "call" {
						return []Obligation{anchorMissing("ENTRY.begin-eval", "LEnv."+n)}
					}
					continue
				}
				internal[f] = true
			}
			var obs []Obligation
			// begun: the call node is dominated by `defer beginEval()()` in the body it sits in
			begun := func(u FuncUnit, lit *ast.FuncLit, body *ast.BlockStmt, call ast.Node) bool {
				info := u.Pkg.TypesInfo
				fc := c.cfgOf(u, lit)
				loc, ok := fc.Locate(call)
				if !ok {
					return false
				}
				for _, b2 := range fc.G.Blocks {
					for j, m := range b2.Nodes {
						if d, ok := m.(*ast.DeferStmt); ok && fc.Live(b2) && (isBeginEvalDefer(info, d, begin) || beginEvalClosedByDefer(info, fc, Loc{b2, j}, d, begin, body)) &&
							fc.Dominates(Loc{b2, j}, loc) && !(b2 == loc.B && j == loc.I) {
							return true
						}
					}
				}
				return false
			}
			// liftedToCallers: an unexported function that is never taken as a value and whose every
			// call site (all in package lisp) lies behind a begun evaluation — in the caller, or by the
			// same argument one level up — does not begin one itself: `Eval` keeps the
			// `defer beginEval()()` and hands the rest to `evalRestoringLocation`
			var liftedToCallers func(fn *types.Func, depth int) bool
			liftedToCallers = func(fn *types.Func, depth int) bool {
				if fn == nil || fn.Exported() || depth > 2 {
					return false
				}
				sites, refs := c.CallsTo(nil, fn)
				if len(refs) > 0 || len(sites) == 0 {
					return false
				}
				for _, s := range sites {
					if rel(s.Unit.Pkg.PkgPath) != "lisp" {
						return false
					}
					var body *ast.BlockStmt
					if s.Lit != nil {
						body = s.Lit.Body
					} else if s.Unit.Decl != nil {
						body = s.Unit.Decl.Body
					}
					if body == nil {
						return false
					}
					if begun(s.Unit, s.Lit, body, s.Call) {
						continue
					}
					if s.Lit == nil && liftedToCallers(s.Unit.Obj, depth+1) {
						continue
					}
					return false
				}
				return true
			}
			for _, u := range c.Funcs(func(p string) bool { return rel(p) == "lisp" }) {
				if internal[u.Obj] {
					continue
				}
				info := u.Pkg.TypesInfo
				for _, bu := range bodiesOf(u.Decl) {
					fc := c.cfgOf(u, bu.Lit)
					ord := &ordinal{}
					for _, b := range fc.G.Blocks {
						if !fc.Live(b) {
							continue
						}
						for i, n := range b.Nodes {
							for _, ce := range callsIn(n, false) {
								fn := originOf(Callee(info, ce))
								if fn == nil || !internal[fn] {
									continue
								}
								construct := ord.next("call " + shortName(fn))
								if bu.Lit != nil {
									construct = "literal: " + construct
								}
								dom := false
								for _, b2 := range fc.G.Blocks {
									for j, m := range b2.Nodes {
										if d, ok := m.(*ast.DeferStmt); ok && fc.Live(b2) && (isBeginEvalDefer(info, d, begin) || beginEvalClosedByDefer(info, fc, Loc{b2, j}, d, begin, bu.Body)) &&
											fc.Dominates(Loc{b2, j}, Loc{b, i}) && !(b2 == b && j == i) {
											dom = true
										}
									}
								}
								if dom {
									obs = append(obs, mkOb(c, "ENTRY.begin-eval", u, construct, ce, Proved, "dominated by `defer beginEval()()`", true))
								} else if bu.Lit == nil && liftedToCallers(u.Obj, 0) {
									obs = append(obs, mkOb(c, "ENTRY.begin-eval", u, construct, ce, Proved, "private helper: every call of it lies behind `defer beginEval()()` in its caller", true))
								} else {
									obs = append(obs, mkOb(c, "ENTRY.begin-eval", u, construct, ce, Violated,
										"entry into the evaluator without `defer Runtime.beginEval()()` before it: the step budget is not reset for this top-level evaluation and evalDepth is not balanced", true))
								}
							}
						}
					}
				}
			}
			return obs
		}})

	register(&Rule{ID: "LIMIT.result-returned", Floor: 5,
		Doc: "the result of every checkLimits call is tested against nil and returned unchanged on the non-nil edge (a limit or cancellation error stops the computation at that step)",
		Run: func(c *Ctx) []Obligation {
			cl := c.LookupMethod("lisp.LEnv.checkLimits")
			cls := c.LookupMethod("lisp.LEnv.checkLimitsSlow")
			if cl == nil || cls == nil {
				return []Obligation{anchorMissing("LIMIT.result-returned", "LEnv.checkLimits")}
			}
			sites, refs := c.CallsTo(nil, cl, cls)
			var obs []Obligation
			ord := map[string]*ordinal{}
			for _, r := range refs {
				obs = append(obs, mkOb(c, "LIMIT.result-returned", r.Unit, "checkLimits as value", r.Stack[len(r.Stack)-1], Undecided, "taken as a value", false))
			}
			for _, s := range sites {
				name := s.Unit.Name()
				if ord[name] == nil {
					ord[name] = &ordinal{}
				}
				construct := ord[name].next("call " + shortName(s.Callee))
				info := s.Unit.Pkg.TypesInfo
				// returned directly?
				parent := s.Stack[len(s.Stack)-2]
				if rs, ok := parent.(*ast.ReturnStmt); ok && len(rs.Results) == 1 {
					obs = append(obs, mkOb(c, "LIMIT.result-returned", s.Unit, construct, s.Call, Proved, "result returned directly", false))
					continue
				}
				as, ok := parent.(*ast.AssignStmt)
				var obj types.Object
				if ok && len(as.Lhs) == 1 {
					obj = identObj(info, as.Lhs[0])
				}
				if obj == nil {
					obs = append(obs, mkOb(c, "LIMIT.result-returned", s.Unit, construct, s.Call, Violated, "result of the limit check is not bound and tested (dropped)", true))
					continue
				}
				fc := c.cfgOf(s.Unit, s.Lit)
				good := false
				for _, e := range fc.nilEdges(obj, false) {
					if fc.edgeReturns(e, obj) {
						good = true
					}
				}
				if good {
					obs = append(obs, mkOb(c, "LIMIT.result-returned", s.Unit, construct, s.Call, Proved, "non-nil result is returned unchanged", true))
				} else {
					obs = append(obs, mkOb(c, "LIMIT.result-returned", s.Unit, construct, s.Call, Violated, "no `if r != nil { return r }` for the limit-check result", true))
				}
			}
			return obs
		}})

	register(&Rule{ID: "HEIGHT.push-check", Floor: 1,
		Doc: "in CallStack.PushFID the store to Frames is reachable only across an edge that establishes the physical height test passed — the comparison written in place, or the nil result of a checking helper (followed through helpers that hand the result on) — and a failed check's error is returned",
		Run: func(c *Ctx) []Obligation {
			fn, fd, pkg := c.LookupFunc("lisp.(*CallStack).PushFID")
			frames := c.LookupField("lisp.CallStack.Frames")
			maxF := c.LookupField("lisp.CallStack.MaxHeightPhysical")
			if fn == nil || frames == nil || maxF == nil {
				return []Obligation{anchorMissing("HEIGHT.push-check", "PushFID/Frames/MaxHeightPhysical")}
			}
			u := FuncUnit{fn, fd, pkg}
			info := pkg.TypesInfo
			fc := c.cfgOf(u, nil)
			var obs []Obligation
			cut := c.physicalPermitEdges(fc, maxF, frames, 0)
			// the error of a check used as guard is returned on its non-nil edge
			retOK := true
			nchk := 0
			for _, b := range fc.G.Blocks {
				cond := fc.CondOf(b)
				if !fc.Live(b) || cond == nil {
					continue
				}
				ast.Inspect(cond, func(n ast.Node) bool {
					id, ok := n.(*ast.Ident)
					if !ok {
						return true
					}
					o, ok := info.Uses[id].(*types.Var)
					if !ok || o.IsField() {
						return true
					}
					ce, _, nd := definingCall(info, fd.Body, o)
					if ce == nil || nd != 1 || !types.Identical(o.Type(), types.Universe.Lookup("error").Type()) {
						return true
					}
					nchk++
					ret := false
					for _, e := range fc.nilEdges(o, false) {
						if fc.edgeReturns(e, o) {
							ret = true
						}
					}
					if !ret {
						retOK = false
					}
					return true
				})
			}
			n := 0
			for _, w := range c.censusFor(nil).WritersOf(frames) {
				if w.Unit.Obj != fn || w.Kind == "through" {
					continue
				}
				n++
				loc, ok := fc.Locate(w.Node)
				if !ok {
					obs = append(obs, mkOb(c, "HEIGHT.push-check", u, "store Frames", w.Node, Undecided, "not locatable", false))
					continue
				}
				if len(cut) > 0 && !fc.reachableAvoiding(loc.B, cut) && retOK {
					obs = append(obs, mkOb(c, "HEIGHT.push-check", u, "store Frames", w.Node, Proved, "push reachable only when the height check passed; its error is returned otherwise", true))
				} else {
					obs = append(obs, mkOb(c, "HEIGHT.push-check", u, "store Frames", w.Node, Violated, "a frame can be appended without passing the height check (or the check's error is not returned)", true))
				}
			}
			if n == 0 {
				obs = append(obs, mkOb(c, "HEIGHT.push-check", u, "store Frames", fd, Undecided, "PushFID no longer stores to Frames", false))
			}
			return obs
		}})

	register(&Rule{ID: "HEIGHT.check-chain", Floor: 2,
		Doc: "the physical height test PushFID relies on (found in PushFID or in the checking helpers it calls) refuses when len(Frames) >= MaxHeightPhysical (inclusive, because it runs before the push): where the comparison is written, a nil result / the fall-through is reachable only when the limit is off or len(Frames) < MaxHeightPhysical",
		Run: func(c *Ctx) []Obligation {
			var obs []Obligation
			fn, fd, pkg := c.LookupFunc("lisp.(*CallStack).PushFID")
			maxF := c.LookupField("lisp.CallStack.MaxHeightPhysical")
			frames := c.LookupField("lisp.CallStack.Frames")
			if fn == nil || maxF == nil || frames == nil {
				return []Obligation{anchorMissing("HEIGHT.check-chain", "PushFID/MaxHeightPhysical/Frames")}
			}
			u := FuncUnit{fn, fd, pkg}
			// the function in which the comparison is written
			var pu FuncUnit
			found := false
			for _, hu := range c.withHelpers(u) {
				cls := heightCls(hu.Pkg.TypesInfo, hu.Decl, maxF, frames)
				ast.Inspect(hu.Decl.Body, func(n ast.Node) bool {
					if e, ok := n.(ast.Expr); ok {
						if nm, _ := cls(e); nm == "full" && !found {
							pu, found = hu, true
						}
					}
					return true
				})
			}
			if !found {
				obs = append(obs, mkOb(c, "HEIGHT.check-chain", u, "physical check", fd, Violated, "no comparison of MaxHeightPhysical with len(Frames) is made by PushFID or its checking helpers", true))
				return obs
			}
			// chained: PushFID's store is behind it (HEIGHT.push-check decides the store; here: the chain exists)
			if len(c.physicalPermitEdges(c.cfgOf(u, nil), maxF, frames, 0)) > 0 {
				obs = append(obs, mkOb(c, "HEIGHT.check-chain", u, "physical check", fd, Proved, "the physical test in "+pu.Name()+" reaches PushFID as a guard (its error is handed on by every helper in between)", true))
			} else {
				obs = append(obs, mkOb(c, "HEIGHT.check-chain", u, "physical check", fd, Violated, "the physical height test in "+pu.Name()+" does not guard PushFID: a helper in between drops its error", true))
			}
			pfd := pu.Decl
			pinfo := pu.Pkg.TypesInfo
			pfc := c.cfgOf(pu, nil)
			cls := heightCls(pinfo, pfd, maxF, frames)
			permitEdges := pfc.edgesEntailing(cls, func(v map[string]bool) bool {
				return v["$has:on"] && !v["on"] || v["$has:full"] && !v["full"]
			})
			bad := false
			var at ast.Node = pfd
			if pu.Obj == fn {
				// written in PushFID itself: the store is the thing permitted
				for _, w := range c.censusFor(nil).WritersOf(frames) {
					if w.Unit.Obj != fn || w.Kind == "through" {
						continue
					}
					if loc, ok := pfc.Locate(w.Node); ok {
						at = w.Node
						if pfc.reachableAvoiding(loc.B, permitEdges) {
							bad = true
						}
					}
				}
			} else {
				for _, b := range pfc.G.Blocks {
					if !pfc.Live(b) {
						continue
					}
					for _, n := range b.Nodes {
						rs, ok := n.(*ast.ReturnStmt)
						if !ok || len(rs.Results) != 1 || !isNilIdent(pinfo, rs.Results[0]) {
							continue
						}
						at = rs
						if pfc.reachableAvoiding(b, permitEdges) {
							bad = true
						}
					}
				}
			}
			if bad {
				obs = append(obs, mkOb(c, "HEIGHT.check-chain", pu, "inclusive comparison", at, Violated,
					"the pre-push physical height test can permit a push when the limit is on and len(Frames) >= MaxHeightPhysical: the stack can hold more frames than the configured maximum", true))
			} else {
				obs = append(obs, mkOb(c, "HEIGHT.check-chain", pu, "inclusive comparison", at, Proved, "a push is permitted only when the limit is off or len(Frames) < MaxHeightPhysical", true))
			}
			return obs
		}})

	register(&Rule{ID: "HEIGHT.nesting-check", Floor: 3,
		Doc: "in eval the evalNestingExceeded test dominates every call that can recurse into the evaluator, and its true edge returns an error; evalNestingExceeded compares evalNesting > limit",
		Run: func(c *Ctx) []Obligation {
			fn, fd, pkg := c.LookupFunc("lisp.(*LEnv).eval")
			exc := c.LookupMethod("lisp.Runtime.evalNestingExceeded")
			if fn == nil || exc == nil {
				return []Obligation{anchorMissing("HEIGHT.nesting-check", "eval/evalNestingExceeded")}
			}
			u := FuncUnit{fn, fd, pkg}
			info := pkg.TypesInfo
			fc := c.cfgOf(u, nil)
			isExc := func(a LitAtom) bool {
				ce, ok := ast.Unparen(a.E).(*ast.CallExpr)
				return ok && originOf(Callee(info, ce)) == exc
			}
			notExceeded := fc.edgesImplying(func(a LitAtom) bool { return isExc(a) && !a.Positive })
			exceeded := fc.edgesImplying(func(a LitAtom) bool { return isExc(a) && a.Positive })
			var obs []Obligation
			if len(notExceeded) == 0 || len(exceeded) == 0 {
				return []Obligation{mkOb(c, "HEIGHT.nesting-check", u, "nesting guard", fd, Violated, "eval no longer branches on evalNestingExceeded()", true)}
			}
			retOK := true
			for _, e := range exceeded {
				if !fc.edgeReturns(e, nil) {
					retOK = false
				}
			}
			if retOK {
				obs = append(obs, mkOb(c, "HEIGHT.nesting-check", u, "nesting guard returns", exceeded[0].B.Nodes[len(exceeded[0].B.Nodes)-1], Proved, "exceeded edge returns", true))
			} else {
				obs = append(obs, mkOb(c, "HEIGHT.nesting-check", u, "nesting guard returns", fd, Violated, "exceeded edge does not return an error", true))
			}
			// every call to a function that can statically reach eval must pass the false edge
			reach := c.staticReach(func(p string) bool { return rel(p) == "lisp" }, fn)
			reach[fn] = true
			ord := &ordinal{}
			for _, b := range fc.G.Blocks {
				if !fc.Live(b) {
					continue
				}
				for _, n := range b.Nodes {
					for _, ce := range callsIn(n, false) {
						callee := originOf(Callee(info, ce))
						if callee == nil || !reach[callee] {
							continue
						}
						construct := ord.next("call " + shortName(callee))
						if !fc.reachableAvoiding(b, notExceeded) {
							obs = append(obs, mkOb(c, "HEIGHT.nesting-check", u, construct, ce, Proved, "reachable only through the not-exceeded edge of the nesting guard", true))
						} else {
							obs = append(obs, mkOb(c, "HEIGHT.nesting-check", u, construct, ce, Violated, "recursion into the evaluator without passing the nesting guard", true))
						}
					}
				}
			}
			// comparison operator inside evalNestingExceeded
			efn, efd, epkg := c.LookupFunc("lisp.(*Runtime).evalNestingExceeded")
			nest := c.LookupField("lisp.Runtime.evalNesting")
			if efn != nil && nest != nil {
				eu := FuncUnit{efn, efd, epkg}
				// every comparison of evalNesting, read with its polarity (`!(n <= limit)` is `n > limit`),
				// must be the strict one
				okCmp, badCmp := false, false
				var walk func(e ast.Expr, neg bool)
				walk = func(e ast.Expr, neg bool) {
					switch x := ast.Unparen(e).(type) {
					case *ast.UnaryExpr:
						if x.Op == token.NOT {
							walk(x.X, !neg)
							return
						}
					case *ast.BinaryExpr:
						if x.Op == token.LAND || x.Op == token.LOR {
							walk(x.X, neg)
							walk(x.Y, neg)
							return
						}
						op := x.Op
						switch {
						case FieldOfSelector(epkg.TypesInfo, x.X) == nest:
						case FieldOfSelector(epkg.TypesInfo, x.Y) == nest:
							op = map[token.Token]token.Token{token.LSS: token.GTR, token.GTR: token.LSS, token.LEQ: token.GEQ, token.GEQ: token.LEQ}[op]
						default:
							return
						}
						if neg {
							op = map[token.Token]token.Token{token.LSS: token.GEQ, token.GTR: token.LEQ, token.LEQ: token.GTR, token.GEQ: token.LSS}[op]
						}
						if op == token.GTR {
							okCmp = true
						} else {
							badCmp = true
						}
					}
				}
				ast.Inspect(efd.Body, func(n ast.Node) bool {
					switch x := n.(type) {
					case *ast.ReturnStmt:
						for _, r := range x.Results {
							walk(r, false)
						}
						return false
					case *ast.IfStmt:
						// `if n <= limit { return false }` reads as the negated test
						if b, ok := soleBoolReturn(epkg.TypesInfo, x.Body.List); ok {
							walk(x.Cond, !b)
						}
					case *ast.CaseClause:
						if b, ok := soleBoolReturn(epkg.TypesInfo, x.Body); ok {
							for _, e := range x.List {
								walk(e, !b)
							}
						}
					case *ast.AssignStmt:
						for _, r := range x.Rhs {
							walk(r, false)
						}
						return false
					}
					return true
				})
				// `not exceeded` is answered only by the limit: every constant `return false` lies behind the limit
				// being off (limit < 0) or behind !(evalNesting > limit) with the limit derived from MaxEvalNesting —
				// never behind a comparison with something else (a high-water mark, a cached verdict), which lets a
				// depth the limit refuses through
				{
					einfo := epkg.TypesInfo
					maxFld := c.LookupField("lisp.Runtime.MaxEvalNesting")
					isLimit := func(e ast.Expr) bool {
						if maxFld != nil && FieldOfSelector(einfo, e) == maxFld {
							return true
						}
						o := identObj(einfo, e)
						if o == nil {
							return false
						}
						derived := false
						ast.Inspect(efd.Body, func(n ast.Node) bool {
							as, ok := n.(*ast.AssignStmt)
							if !ok || len(as.Lhs) != len(as.Rhs) {
								return true
							}
							for i, l := range as.Lhs {
								if identObj(einfo, l) == o && maxFld != nil && FieldOfSelector(einfo, as.Rhs[i]) == maxFld {
									derived = true
								}
							}
							return true
						})
						return derived
					}
					cls := func(e ast.Expr) (string, bool) {
						be, ok := ast.Unparen(e).(*ast.BinaryExpr)
						if !ok {
							return "", false
						}
						if isLimit(be.X) {
							if k, ok := intConst(einfo, be.Y); ok && k == 0 {
								switch be.Op {
								case token.LSS:
									return "neg", false
								case token.GEQ:
									return "neg", true
								}
							}
						}
						nx, ny := FieldOfSelector(einfo, be.X) == nest, FieldOfSelector(einfo, be.Y) == nest
						switch {
						case nx && isLimit(be.Y):
							switch be.Op {
							case token.GTR:
								return "gt", false
							case token.LEQ:
								return "gt", true
							}
						case ny && isLimit(be.X):
							switch be.Op {
							case token.LSS:
								return "gt", false
							case token.GEQ:
								return "gt", true
							}
						}
						return "", false
					}
					efc := c.cfgOf(eu, nil)
					cut := efc.edgesEntailing(cls, func(v map[string]bool) bool { return v["neg"] || (v["$has:gt"] && !v["gt"]) })
					okFalse := true
					var at ast.Node = efd
					for _, b := range efc.G.Blocks {
						if !efc.Live(b) {
							continue
						}
						for _, n := range b.Nodes {
							rs, isRet := n.(*ast.ReturnStmt)
							if !isRet || len(rs.Results) != 1 || !isBoolConst(einfo, rs.Results[0], false) {
								continue
							}
							if len(cut) == 0 || efc.reachableAvoiding(b, cut) {
								okFalse = false
								at = rs
							}
						}
					}
					if okFalse {
						obs = append(obs, mkOb(c, "HEIGHT.nesting-check", eu, "not exceeded only by the limit", efd, Proved, "every `return false` lies behind `limit < 0` or behind !(evalNesting > limit)", true))
					} else {
						obs = append(obs, mkOb(c, "HEIGHT.nesting-check", eu, "not exceeded only by the limit", at, Violated, "evalNestingExceeded can answer `not exceeded` on evidence other than the limit (a comparison with a recorded peak, a cached verdict): a depth the limit refuses is admitted — each refusal raises the effective limit by one", true))
					}
				}
				if okCmp && !badCmp {
					obs = append(obs, mkOb(c, "HEIGHT.nesting-check", eu, "evalNesting > limit", efd, Proved, "nesting (already incremented for this frame) is compared with `>`: depth never exceeds the limit", false))
				} else {
					obs = append(obs, mkOb(c, "HEIGHT.nesting-check", eu, "evalNesting > limit", efd, Violated, "evalNestingExceeded does not compare evalNesting > limit", true))
				}
			}
			return obs
		}})

	register(&Rule{ID: "POLL.eval-cycles", Floor: 1,
		Doc: "every control-flow cycle of eval (macro re-expansion and unquote `goto eval`) passes the checkLimits test",
		Run: func(c *Ctx) []Obligation {
			fn, fd, pkg := c.LookupFunc("lisp.(*LEnv).eval")
			cl := c.LookupMethod("lisp.LEnv.checkLimits")
			if fn == nil || cl == nil {
				return []Obligation{anchorMissing("POLL.eval-cycles", "eval/checkLimits")}
			}
			u := FuncUnit{fn, fd, pkg}
			fc := c.cfgOf(u, nil)
			all := fc.cyclicSCCs(nil)
			if len(all) == 0 {
				return []Obligation{mkOb(c, "POLL.eval-cycles", u, "cycles", fd, Proved, "eval has no control-flow cycle", false)}
			}
			rest := fc.cyclicSCCs(func(b *cfg.Block) bool {
				for _, n := range b.Nodes {
					if nodeCalls(pkg.TypesInfo, n, cl) != nil {
						return true
					}
				}
				return false
			})
			if len(rest) == 0 {
				return []Obligation{mkOb(c, "POLL.eval-cycles", u, "cycles", fd, Proved, fmt.Sprintf("%d cyclic region(s); removing the checkLimits block leaves none", len(all)), true)}
			}
			return []Obligation{mkOb(c, "POLL.eval-cycles", u, "cycles", rest[0][0].Nodes[0], Violated, "a cycle in eval does not pass checkLimits: unbounded re-evaluation escapes the step budget and cancellation", true)}
		}})
}

// heightCls classifies the atoms of the physical height test inside fd:
//   "on"   = MaxHeightPhysical > 0      "full" = len(Frames) >= MaxHeightPhysical
// Single-definition local aliases (`limit, height := s.MaxHeightPhysical, len(s.Frames)`) are expanded.
func heightCls(pinfo *types.Info, pfd *ast.FuncDecl, maxF, frames *types.Var) func(e ast.Expr) (string, bool) {
	resolve := func(e ast.Expr) ast.Expr {
		e = ast.Unparen(e)
		o := identObj(pinfo, e)
		if o == nil {
			return e
		}
		var def ast.Expr
		n := 0
		ast.Inspect(pfd.Body, func(m ast.Node) bool {
			if as, ok := m.(*ast.AssignStmt); ok && len(as.Lhs) == len(as.Rhs) {
				for i, l := range as.Lhs {
					if identObj(pinfo, l) == o {
						n++
						def = as.Rhs[i]
					}
				}
			}
			return true
		})
		if n == 1 && def != nil {
			return ast.Unparen(def)
		}
		return e
	}
	isMax := func(e ast.Expr) bool { return FieldOfSelector(pinfo, resolve(e)) == maxF }
	isLenFrames := func(e ast.Expr) bool {
		ce, ok := resolve(e).(*ast.CallExpr)
		if !ok || len(ce.Args) != 1 {
			return false
		}
		id, ok := ast.Unparen(ce.Fun).(*ast.Ident)
		return ok && id.Name == "len" && FieldOfSelector(pinfo, ce.Args[0]) == frames
	}
	isZero := func(e ast.Expr) bool { v, ok := intConst(pinfo, e); return ok && v == 0 }
	flip := func(o token.Token) token.Token {
		switch o {
		case token.LSS:
			return token.GTR
		case token.LEQ:
			return token.GEQ
		case token.GTR:
			return token.LSS
		case token.GEQ:
			return token.LEQ
		}
		return o
	}
	return func(e ast.Expr) (string, bool) {
		be, ok := ast.Unparen(e).(*ast.BinaryExpr)
		if !ok {
			return "", false
		}
		op := be.Op
		x, y := be.X, be.Y
		switch {
		case isMax(x) && isZero(y): // max OP 0
		case isZero(x) && isMax(y):
			x, y, op = y, x, flip(op)
		case isLenFrames(x) && isMax(y): // len OP max
			switch op {
			case token.GEQ:
				return "full", false
			case token.LSS:
				return "full", true
			}
			return "", false
		case isMax(x) && isLenFrames(y): // max OP len
			switch op {
			case token.LEQ:
				return "full", false
			case token.GTR:
				return "full", true
			}
			return "", false
		default:
			return "", false
		}
		_, _ = x, y
		switch op { // max OP 0
		case token.GTR:
			return "on", false
		case token.LEQ:
			return "on", true
		}
		return "", false
	}
}

// physicalPermitEdges: the edges of fc that establish `the physical height
// limit is off or len(Frames) < MaxHeightPhysical`: written in place, or the
// nil result of a helper that can return nil only across such an edge of its
// own (recursively, depth 3).
func (c *Ctx) physicalPermitEdges(fc *FCFG, maxF, frames *types.Var, depth int) []cfgEdge {
	var fd *ast.FuncDecl
	for d, p := range c.pkgOf {
		if d.Body == fc.Body && p != nil {
			fd = d
		}
	}
	var out []cfgEdge
	if fd != nil {
		cls := heightCls(fc.Info, fd, maxF, frames)
		full := false
		ast.Inspect(fd.Body, func(n ast.Node) bool {
			if e, ok := n.(ast.Expr); ok {
				if nm, _ := cls(e); nm == "full" {
					full = true
				}
			}
			return true
		})
		if full {
			out = append(out, fc.edgesEntailing(cls, func(v map[string]bool) bool {
				return v["$has:on"] && !v["on"] || v["$has:full"] && !v["full"]
			})...)
		}
	}
	if depth < 3 {
		out = append(out, c.nilResultGuardEdges(fc, func(h *FCFG) []cfgEdge { return c.physicalPermitEdges(h, maxF, frames, depth+1) })...)
	}
	return out
}
