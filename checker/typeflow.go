package main

import (
	"go/ast"
	"go/token"
	"go/types"

	"golang.org/x/tools/go/cfg"
)

// Type-assumption flow.  "Which LTypes does this function accept for value v"
// is decided by assuming `v.Type == K` and seeing what stays reachable: the flow
// graph is pruned three-valued (reachableUnder); comparisons of v.Type with a
// type constant are decided; calls of same-package helpers that receive v (or
// v.Type) are evaluated under the same assumption and summarised — a boolean
// helper by the constants it can return, a checking helper by whether it can
// return nil.  The tests may then be written as a switch, an if-chain, a
// predicate helper (`isNameKey(k)`), a checking helper (`if lerr := checkKey(k);
// lerr != nil`) or a named boolean; the answer is the same.
type typeFlow struct {
	c       *Ctx
	typeFld *types.Var
	k       string // assumed type constant name ("" = a type the code never mentions)
	consts  map[string]bool
	memo    map[string]flowSummary
}

type flowSummary struct {
	boolVal int // 1 / 0 / -1 unknown / -2 not a bool helper
	nilVal  int // 1 always nil / 0 never nil / -1 unknown
}

func (tf *typeFlow) ltypeConst(info *types.Info, e ast.Expr) (string, bool) {
	o, ok := identObjOrSel(info, e).(*types.Const)
	if !ok || o.Pkg() == nil || rel(o.Pkg().Path()) != "lisp" {
		return "", false
	}
	if n, ok := types.Unalias(o.Type()).(*types.Named); !ok || n.Obj().Name() != "LType" {
		return "", false
	}
	return o.Name(), true
}

// reach computes the blocks of u (or its literal) reachable under the
// assumption; lvalObj is the object holding the value (its .Type is the
// subject), typeObj an object holding the type itself (either may be nil).
func (tf *typeFlow) reach(u FuncUnit, lit *ast.FuncLit, lvalObj, typeObj types.Object, depth int) (*FCFG, map[*cfg.Block]bool, func(ast.Expr) int) {
	info := u.Pkg.TypesInfo
	fc := tf.c.cfgOf(u, lit)
	isSubject := func(e ast.Expr) bool {
		e = ast.Unparen(e)
		if typeObj != nil && identObj(info, e) == typeObj {
			return true
		}
		if se, ok := e.(*ast.SelectorExpr); ok && FieldOfSelector(info, se) == tf.typeFld && lvalObj != nil && identObj(info, se.X) == lvalObj {
			return true
		}
		// a local defined once as the subject (`t := v.Type`)
		if d := soleDef(info, u.Decl.Body, e); d != nil {
			if se, ok := ast.Unparen(d).(*ast.SelectorExpr); ok && FieldOfSelector(info, se) == tf.typeFld && lvalObj != nil && identObj(info, se.X) == lvalObj {
				return true
			}
		}
		return false
	}
	var body ast.Node = u.Decl.Body
	if lit != nil {
		body = lit.Body
	}
	atom := func(e ast.Expr) int {
		e = ast.Unparen(e)
		switch x := e.(type) {
		case *ast.BinaryExpr:
			if x.Op != token.EQL && x.Op != token.NEQ {
				return -1
			}
			for _, pr := range [][2]ast.Expr{{x.X, x.Y}, {x.Y, x.X}} {
				if isSubject(pr[0]) {
					if kk, ok := tf.ltypeConst(info, pr[1]); ok {
						tf.consts[kk] = true
						if (kk == tf.k) == (x.Op == token.EQL) {
							return 1
						}
						return 0
					}
				}
				// lerr != nil  with lerr := helper(subject…)
				if isNilIdent(info, pr[1]) {
					if s, ok := tf.callSummary(info, body, pr[0], lvalObj, typeObj, isSubject, depth); ok && s.nilVal >= 0 {
						isNil := s.nilVal == 1
						if isNil == (x.Op == token.EQL) {
							return 1
						}
						return 0
					}
				}
			}
		case *ast.CallExpr:
			if s, ok := tf.callSummary(info, body, x, lvalObj, typeObj, isSubject, depth); ok && s.boolVal >= 0 {
				return s.boolVal
			}
		case *ast.Ident:
			if s, ok := tf.callSummary(info, body, x, lvalObj, typeObj, isSubject, depth); ok && s.boolVal >= 0 {
				return s.boolVal
			}
		}
		return -1
	}
	return fc, fc.reachableUnder(atom), atom
}

// callSummary: e is (a local defined once by) a call of a same-module helper that
// receives the subject; the helper is evaluated under the same assumption.
func (tf *typeFlow) callSummary(info *types.Info, body ast.Node, e ast.Expr, lvalObj, typeObj types.Object, isSubject func(ast.Expr) bool, depth int) (flowSummary, bool) {
	if depth > 2 {
		return flowSummary{}, false
	}
	e = ast.Unparen(e)
	if d := soleDef(info, body, e); d != nil {
		e = ast.Unparen(d)
	} else if id, ok := e.(*ast.Ident); ok {
		// `if lerr := h(k); lerr != nil`: the definition sits in the if's init — soleDef covers it;
		// multi-result definitions are not followed
		_ = id
	}
	ce, ok := e.(*ast.CallExpr)
	if !ok {
		return flowSummary{}, false
	}
	h := originOf(Callee(info, ce))
	if h == nil {
		return flowSummary{}, false
	}
	hd := tf.c.declOf[h]
	if hd == nil || hd.Body == nil {
		return flowSummary{}, false
	}
	hu := FuncUnit{h, hd, tf.c.pkgOf[hd]}
	hps := paramObjs(hu)
	var hl, ht types.Object
	for i, a := range ce.Args {
		if i >= len(hps) {
			break
		}
		if lvalObj != nil && identObj(info, a) == lvalObj {
			hl = hps[i]
		} else if isSubject(a) {
			ht = hps[i]
		}
	}
	// a method called on the value itself: v.isX()
	if se, ok := ast.Unparen(ce.Fun).(*ast.SelectorExpr); ok && lvalObj != nil && identObj(info, se.X) == lvalObj && hd.Recv != nil && len(hd.Recv.List) == 1 && len(hd.Recv.List[0].Names) == 1 {
		hl = hu.Pkg.TypesInfo.Defs[hd.Recv.List[0].Names[0]]
	}
	if hl == nil && ht == nil {
		return flowSummary{}, false
	}
	key := FuncName(h) + "|" + tf.k
	if hl != nil {
		key += "|l:" + hl.Name()
	}
	if ht != nil {
		key += "|t:" + ht.Name()
	}
	if s, ok := tf.memo[key]; ok {
		return s, true
	}
	tf.memo[key] = flowSummary{-1, -1}
	hfc, reach, hatom := tf.reach(hu, nil, hl, ht, depth+1)
	heval := hfc.evaluatorUnder(hatom)
	hinfo := hu.Pkg.TypesInfo
	sig := h.Type().(*types.Signature)
	s := flowSummary{-2, -1}
	if sig.Results().Len() >= 1 {
		first := true
		bv, nv := -1, -1
		isBool := false
		if bt, ok := sig.Results().At(0).Type().Underlying().(*types.Basic); ok && bt.Kind() == types.Bool {
			isBool = true
		}
		for b := range reach {
			for _, n := range b.Nodes {
				rs, ok := n.(*ast.ReturnStmt)
				if !ok || len(rs.Results) == 0 {
					continue
				}
				r := rs.Results[0]
				cb, cn := -1, -1
				if isBoolConst(hinfo, r, true) {
					cb = 1
				} else if isBoolConst(hinfo, r, false) {
					cb = 0
				} else if isBool {
					cb = heval(r, 0) // `return key.Type == LString || key.Type == LSymbol`
				}
				if isNilIdent(hinfo, r) {
					cn = 1
				} else if _, isCall := ast.Unparen(r).(*ast.CallExpr); isCall {
					cn = 0 // constructors / error helpers hand back a value
				} else if ue, isU := ast.Unparen(r).(*ast.UnaryExpr); isU && ue.Op == token.AND {
					cn = 0
				}
				if first {
					bv, nv, first = cb, cn, false
				} else {
					if bv != cb {
						bv = -1
					}
					if nv != cn {
						nv = -1
					}
				}
			}
		}
		if isBool {
			s.boolVal = bv
		}
		s.nilVal = nv
	}
	tf.memo[key] = s
	return s, true
}

// acceptedTypes: the LType constants K for which, assuming lvalObj.Type == K, the
// function reaches code it does not reach for a type it never mentions, other than
// a rejecting return.  rejecting decides whether a block only refuses.
func (c *Ctx) acceptedTypes(u FuncUnit, lvalObj types.Object, rejecting func(info *types.Info, b *cfg.Block) bool) (map[string]bool, bool) {
	typeFld := c.LookupField("lisp.LVal.Type")
	if typeFld == nil || lvalObj == nil {
		return nil, false
	}
	consts := map[string]bool{}
	run := func(k string) map[*cfg.Block]bool {
		tf := &typeFlow{c: c, typeFld: typeFld, k: k, consts: consts, memo: map[string]flowSummary{}}
		_, r, _ := tf.reach(u, nil, lvalObj, nil, 0)
		return r
	}
	other := run("")
	// constants mentioned by helpers are discovered while running; iterate until stable
	out := map[string]bool{}
	done := map[string]bool{}
	for changed := true; changed; {
		changed = false
		for k := range consts {
			if done[k] {
				continue
			}
			done[k] = true
			changed = true
			for b := range run(k) {
				if !other[b] && len(b.Nodes) > 0 && !rejecting(u.Pkg.TypesInfo, b) {
					out[k] = true
				}
			}
		}
	}
	return out, len(consts) > 0
}

// isErrorValueCall: e is a call that builds an error value — an Error* constructor,
// or a same-module helper every return of which is such a call.
func (c *Ctx) isErrorValueCall(info *types.Info, e ast.Expr, depth int) bool {
	ce, ok := ast.Unparen(e).(*ast.CallExpr)
	if !ok || depth > 2 {
		return false
	}
	f := originOf(Callee(info, ce))
	if f == nil {
		return false
	}
	if n := f.Name(); len(n) >= 5 && n[:5] == "Error" {
		return true
	}
	fd := c.declOf[f]
	if fd == nil || fd.Body == nil {
		return false
	}
	finfo := c.pkgOf[fd].TypesInfo
	all, n := true, 0
	ast.Inspect(fd.Body, func(m ast.Node) bool {
		if _, isLit := m.(*ast.FuncLit); isLit {
			return false
		}
		if rs, ok := m.(*ast.ReturnStmt); ok && len(rs.Results) >= 1 {
			n++
			if !c.isErrorValueCall(finfo, rs.Results[0], depth+1) {
				all = false
			}
		}
		return true
	})
	return all && n > 0
}
