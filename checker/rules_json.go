package main

import (
	"fmt"
	"go/ast"
	"go/constant"
	"go/token"
	"go/types"
	"math/big"
	"sort"
	"strings"
)

// E9 — libjson sibling agreement (C13).

const jsonPkg = "lisp/lisplib/libjson"

func init() {
	register(&Rule{ID: "JSON.single-acceptance", Floor: 3,
		Doc: "the encoder's loadability check and the default and :string-numbers load paths call the one package-level jsonDecode; the :exact-integers path is decodeExactNumbers; LoadWith is the only caller of jsonDecodeOpts",
		Run: func(c *Ctx) []Obligation {
			jd := c.LookupPkgFunc(jsonPkg + ".jsonDecode")
			de := c.LookupPkgFunc(jsonPkg + ".decodeExactNumbers")
			if jd == nil || de == nil {
				return []Obligation{anchorMissing("JSON.single-acceptance", "libjson.jsonDecode / decodeExactNumbers")}
			}
			var obs []Obligation
			must := func(fname string, callee *types.Func, what string) {
				fn, fd, pkg := c.LookupFunc(fname)
				if fn == nil {
					obs = append(obs, anchorMissing("JSON.single-acceptance", fname))
					return
				}
				u := FuncUnit{fn, fd, pkg}
				// directly or through helpers of the package (a one-line forwarder may come and go)
				found := c.staticReach(func(p string) bool { return rel(p) == jsonPkg }, callee)[fn]
				if found {
					obs = append(obs, mkOb(c, "JSON.single-acceptance", u, what, fd, Proved, "calls "+FuncName(callee), false))
				} else {
					obs = append(obs, mkOb(c, "JSON.single-acceptance", u, what, fd, Violated, "does not go through "+FuncName(callee)+": dump could emit documents load refuses (or the reverse)", true))
				}
			}
			must(jsonPkg+".(*encoder).checkLoadable", jd, "encoder validates with the decoder's acceptance function")
			if sj := c.LookupMethod(jsonPkg + ".Serializer.jsonDecode"); sj != nil {
				must(jsonPkg+".(*Serializer).jsonDecode", jd, "serializer decode is the package function")
			}
			must(jsonPkg+".(*Serializer).jsonDecodeOpts", jd, "default / string-numbers paths")
			must(jsonPkg+".(*Serializer).jsonDecodeOpts", de, "exact-integers path")
			// no other json.Unmarshal / NewDecoder users in the package besides the two acceptance functions
			for _, u := range c.Funcs(func(p string) bool { return rel(p) == jsonPkg }) {
				info := u.Pkg.TypesInfo
				ord := &ordinal{}
				for _, ce := range callsIn(u.Decl.Body, true) {
					if !(stdFuncCalled(info, ce, "encoding/json", "Unmarshal") || stdFuncCalled(info, ce, "encoding/json", "NewDecoder")) {
						continue
					}
					construct := ord.next("call encoding/json." + Callee(info, ce).Name())
					switch u.Name() {
					case jsonPkg + ".jsonDecode", jsonPkg + ".decodeExactNumbers":
						obs = append(obs, mkOb(c, "JSON.single-acceptance", u, construct, ce, Proved, "inside an acceptance function", false))
					default:
						// the decoding loop an acceptance function is built on (`decodeExactNumbers` → `decodeDocuments(b, true, 1)`,
						// shared with a loader of several documents): still the one place that decides
						reach := c.staticReach(func(p string) bool { return rel(p) == jsonPkg }, u.Obj)
						if reach[jd] || reach[de] {
							obs = append(obs, mkOb(c, "JSON.single-acceptance", u, construct, ce, Proved, "the decoding helper an acceptance function is built on", true))
						} else {
							obs = append(obs, mkOb(c, "JSON.single-acceptance", u, construct, ce, Violated, "a second place decides what JSON text is accepted", true))
						}
					}
				}
			}
			return obs
		}})

	register(&Rule{ID: "JSON.trailing-data", Floor: 2,
		Doc: "each streaming decode path (json.NewDecoder + UseNumber) rejects content after the top-level value by a second Decode into the failing Unmarshaler whose error is compared with io.EOF; Decoder.More (false before a stray `]` or `}`) is not used",
		Run: func(c *Ctx) []Obligation {
			var obs []Obligation
			for _, fname := range []string{jsonPkg + ".jsonDecode", jsonPkg + ".decodeExactNumbers"} {
				fn, fd, pkg := c.LookupFunc(fname)
				if fn == nil {
					obs = append(obs, anchorMissing("JSON.trailing-data", fname))
					continue
				}
				u := FuncUnit{fn, fd, pkg}
				info := pkg.TypesInfo
				ndecode, usesMore, eofCmp := 0, false, false
				// the function itself and the same-package functions it calls directly (the decoding loop may be a
				// helper shared with a loader of several documents)
				bodies := []ast.Node{fd.Body}
				binfo := []*types.Info{info}
				for _, ce := range callsIn(fd.Body, true) {
					if h := originOf(Callee(info, ce)); h != nil && h.Pkg() == fn.Pkg() && h != fn {
						if hd := c.declOf[h]; hd != nil && hd.Body != nil {
							bodies = append(bodies, hd.Body)
							binfo = append(binfo, c.pkgOf[hd].TypesInfo)
						}
					}
				}
				for bi, body := range bodies {
					info := binfo[bi]
					ast.Inspect(body, func(n ast.Node) bool {
						switch x := n.(type) {
						case *ast.CallExpr:
							if methodCalled(info, x, "encoding/json", "Decoder", "Decode") {
								ndecode++
							}
							if methodCalled(info, x, "encoding/json", "Decoder", "More") {
								usesMore = true
							}
							if stdFuncCalled(info, x, "errors", "Is") && len(x.Args) == 2 {
								if se, ok := ast.Unparen(x.Args[1]).(*ast.SelectorExpr); ok && se.Sel.Name == "EOF" {
									eofCmp = true
								}
							}
						case *ast.BinaryExpr:
							if x.Op == token.NEQ || x.Op == token.EQL {
								for _, e := range []ast.Expr{x.X, x.Y} {
									if se, ok := ast.Unparen(e).(*ast.SelectorExpr); ok && se.Sel.Name == "EOF" {
										if id, ok := se.X.(*ast.Ident); ok && id.Name == "io" {
											eofCmp = true
										}
									}
								}
							}
						}
						return true
					})
				}
				switch {
				case usesMore:
					obs = append(obs, mkOb(c, "JSON.trailing-data", u, "trailing content check", fd, Violated, "uses Decoder.More, which reports false before a stray closing bracket: `1]` or `{}}` would be accepted", true))
				case ndecode >= 2 && eofCmp:
					obs = append(obs, mkOb(c, "JSON.trailing-data", u, "trailing content check", fd, Proved, "second Decode compared with io.EOF", true))
				default:
					obs = append(obs, mkOb(c, "JSON.trailing-data", u, "trailing content check", fd, Violated, "no second Decode compared with io.EOF: content after the top-level value is not rejected", true))
				}
			}
			return obs
		}})

	register(&Rule{ID: "JSON.syntax-mapped", Floor: 1,
		Doc: "LoadWith maps both encoding/json's *SyntaxError and the exact-integer path's syntaxError to the json:syntax-error condition",
		Run: func(c *Ctx) []Obligation {
			fn, fd, pkg := c.LookupFunc(jsonPkg + ".(*Serializer).LoadWith")
			if fn == nil {
				return []Obligation{anchorMissing("JSON.syntax-mapped", "Serializer.LoadWith")}
			}
			u := FuncUnit{fn, fd, pkg}
			targets := map[string]bool{}
			setsCond := false
			// LoadWith and the private helpers it is split into
			for _, hu := range c.withHelpers(u) {
				info := hu.Pkg.TypesInfo
				ast.Inspect(hu.Decl.Body, func(n ast.Node) bool {
					switch x := n.(type) {
					case *ast.CallExpr:
						if stdFuncCalled(info, x, "errors", "As") && len(x.Args) == 2 {
							if tv, ok := info.Types[x.Args[1]]; ok {
								targets[tv.Type.String()] = true
								// the package's own malformed-document error type, whatever it is called:
								// a named type declared here that implements error
								if pt, ok := tv.Type.Underlying().(*types.Pointer); ok {
									if nt, ok := types.Unalias(pt.Elem()).(*types.Named); ok && nt.Obj().Pkg() == hu.Pkg.Types {
										if errT, ok := types.Universe.Lookup("error").Type().Underlying().(*types.Interface); ok && (types.Implements(nt, errT) || types.Implements(types.NewPointer(nt), errT)) {
											targets["own:"+nt.Obj().Name()] = true
										}
									}
								}
							}
						}
					case *ast.AssignStmt:
						if len(x.Lhs) == 1 && len(x.Rhs) == 1 {
							if se, ok := ast.Unparen(x.Lhs[0]).(*ast.SelectorExpr); ok && se.Sel.Name == "Str" {
								if s, ok := constStringVal(info, x.Rhs[0]); ok && s == "json:syntax-error" {
									setsCond = true
								}
							}
						}
					}
					return true
				})
			}
			hasStd, hasOwn := false, false
			for t := range targets {
				if strings.Contains(t, "encoding/json.SyntaxError") {
					hasStd = true
				}
				if strings.HasPrefix(t, "own:") {
					hasOwn = true
				}
			}
			if hasStd && hasOwn && setsCond {
				return []Obligation{mkOb(c, "JSON.syntax-mapped", u, "syntax errors", fd, Proved, "errors.As for both error types, condition renamed to json:syntax-error", true)}
			}
			return []Obligation{mkOb(c, "JSON.syntax-mapped", u, "syntax errors", fd, Violated,
				fmt.Sprintf("LoadWith does not map both syntax error types to json:syntax-error (std=%v own=%v rename=%v)", hasStd, hasOwn, setsCond), true)}
		}})

	register(&Rule{ID: "JSON.opts-forwarded", Floor: 3,
		Doc: "every json load builtin hands BOTH keyword arguments it was given (:string-numbers, :exact-integers) to Serializer.loadOpts, directly or by forwarding them to another load builtin",
		Run: func(c *Ctx) []Obligation {
			lo := c.LookupMethod(jsonPkg + ".Serializer.loadOpts")
			keyArg := c.LookupMethod("lisp.LVal.KeyArg")
			if lo == nil || keyArg == nil {
				return []Obligation{anchorMissing("JSON.opts-forwarded", "Serializer.loadOpts / LVal.KeyArg")}
			}
			var obs []Obligation
			loaders := map[*types.Func]bool{}
			for _, e := range c.Registry() {
				if rel(e.Pkg.PkgPath) == jsonPkg && strings.HasPrefix(e.Name, "load-") && e.Fn != nil {
					loaders[e.Fn] = true
				}
			}
			for fn := range loaders {
				fd := c.declOf[fn]
				if fd == nil {
					continue
				}
				pkg := c.pkgOf[fd]
				u := FuncUnit{fn, fd, pkg}
				info := pkg.TypesInfo
				// objects bound from args.KeyArg(k)
				keyObjs := map[types.Object]int{}
				ast.Inspect(fd.Body, func(n ast.Node) bool {
					as, ok := n.(*ast.AssignStmt)
					if !ok || len(as.Lhs) != len(as.Rhs) {
						return true
					}
					for i, r := range as.Rhs {
						if ce, ok := ast.Unparen(r).(*ast.CallExpr); ok && originOf(Callee(info, ce)) == keyArg && len(ce.Args) == 1 {
							if k, okc := intConst(info, ce.Args[0]); okc {
								if o := identObj(info, as.Lhs[i]); o != nil {
									keyObjs[o] = k
								}
							}
						}
					}
					return true
				})
				forwarded := map[int]bool{}
				ast.Inspect(fd.Body, func(n ast.Node) bool {
					ce, ok := n.(*ast.CallExpr)
					if !ok {
						return true
					}
					callee := originOf(Callee(info, ce))
					if callee == lo && len(ce.Args) == 3 {
						for pos, a := range ce.Args[1:] {
							if k, ok := keyObjs[identObj(info, a)]; ok && k == pos+1 {
								forwarded[k] = true
							}
						}
					}
					if callee != nil && loaders[callee] && len(ce.Args) == 2 {
						// forwarded as SExpr([]*LVal{payload, a, b})
						ast.Inspect(ce.Args[1], func(m ast.Node) bool {
							cl, ok := m.(*ast.CompositeLit)
							if !ok {
								return true
							}
							for pos, el := range cl.Elts {
								if k, ok := keyObjs[identObj(info, el)]; ok && k == pos {
									forwarded[k] = true
								}
							}
							return true
						})
					}
					return true
				})
				for _, k := range []int{1, 2} {
					construct := fmt.Sprintf("keyword argument %d reaches loadOpts", k)
					has := false
					for _, kk := range keyObjs {
						if kk == k {
							has = true
						}
					}
					switch {
					case !has:
						obs = append(obs, mkOb(c, "JSON.opts-forwarded", u, construct, fd, Violated, "the builtin does not read this keyword argument at all", true))
					case forwarded[k]:
						obs = append(obs, mkOb(c, "JSON.opts-forwarded", u, construct, fd, Proved, "forwarded in the matching position", true))
					default:
						obs = append(obs, mkOb(c, "JSON.opts-forwarded", u, construct, fd, Violated, "the keyword argument is read but never reaches loadOpts: the explicit option silently falls back to the serializer default", true))
					}
				}
			}
			return obs
		}})

	register(&Rule{ID: "JSON.encoder-table", Floor: 8,
		Doc: "encodeValue refuses a type without a table entry; the LString entry only ever escapes (it never writes the raw text, which is how true/false/null would appear unquoted); the LSymbol entry writes raw text only under a comparison with the true/false constants; floats are rendered only by appendJSONFloat, the function loadNumber compares against",
		Run: func(c *Ctx) []Obligation {
			var obs []Obligation
			p := c.Pkg(jsonPkg)
			if p == nil {
				return []Obligation{anchorMissing("JSON.encoder-table", "libjson")}
			}
			info := p.TypesInfo
			// table entries from init(): encoderFuncs[lisp.LX] = (*encoder).encodeY
			entries := map[string]*types.Func{}
			for _, f := range p.Syntax {
				ast.Inspect(f, func(n ast.Node) bool {
					as, ok := n.(*ast.AssignStmt)
					if !ok || len(as.Lhs) != 1 || len(as.Rhs) != 1 {
						return true
					}
					ie, ok := ast.Unparen(as.Lhs[0]).(*ast.IndexExpr)
					if !ok {
						return true
					}
					if id, ok := ast.Unparen(ie.X).(*ast.Ident); !ok || id.Name != "encoderFuncs" {
						return true
					}
					tname := ""
					if se, ok := ast.Unparen(ie.Index).(*ast.SelectorExpr); ok {
						tname = se.Sel.Name
					}
					if se, ok := ast.Unparen(as.Rhs[0]).(*ast.SelectorExpr); ok {
						if fn, ok := info.Uses[se.Sel].(*types.Func); ok {
							entries[tname] = originOf(fn)
						}
					}
					return true
				})
			}
			for _, t := range []string{"LString", "LSymbol", "LInt", "LFloat", "LSExpr", "LArray", "LSortMap", "LBytes"} {
				if entries[t] == nil {
					obs = append(obs, Obligation{Rule: "JSON.encoder-table", Func: jsonPkg + ".init", Construct: "entry " + t, Verdict: Violated, Detail: "no encoder registered for " + t, Nontrivial: true})
				} else {
					obs = append(obs, Obligation{Rule: "JSON.encoder-table", Func: jsonPkg + ".init", Construct: "entry " + t, Verdict: Proved, Detail: FuncName(entries[t])})
				}
			}
			rawWrite := func(fn *types.Func) (bool, bool) { // (writes raw v.Str, under true/false comparison)
				fd := c.declOf[fn]
				if fd == nil {
					return false, false
				}
				raw, guarded := false, false
				ast.Inspect(fd.Body, func(n ast.Node) bool {
					switch x := n.(type) {
					case *ast.CallExpr:
						if se, ok := ast.Unparen(x.Fun).(*ast.SelectorExpr); ok && (se.Sel.Name == "WriteString" || se.Sel.Name == "Write") {
							raw = true
						}
					case *ast.BinaryExpr:
						for _, e := range []ast.Expr{x.X, x.Y} {
							if se, ok := ast.Unparen(e).(*ast.SelectorExpr); ok && (se.Sel.Name == "TrueSymbol" || se.Sel.Name == "FalseSymbol") {
								guarded = true
							}
						}
					}
					return true
				})
				return raw, guarded
			}
			if fn := entries["LString"]; fn != nil {
				fd := c.declOf[fn]
				u := FuncUnit{fn, fd, c.pkgOf[fd]}
				raw, _ := rawWrite(fn)
				es := c.LookupMethod(jsonPkg + ".encoder.encodeString")
				calls := false
				for _, ce := range callsIn(fd.Body, false) {
					if originOf(Callee(info, ce)) == es {
						calls = true
					}
				}
				if !raw && calls {
					obs = append(obs, mkOb(c, "JSON.encoder-table", u, "strings are always escaped", fd, Proved, "the LString entry only calls encodeString", true))
				} else {
					obs = append(obs, mkOb(c, "JSON.encoder-table", u, "strings are always escaped", fd, Violated, "the LString encoder can write its text unquoted: the string \"true\" would be dumped as the JSON boolean true", true))
				}
			}
			if fn := entries["LSymbol"]; fn != nil {
				fd := c.declOf[fn]
				u := FuncUnit{fn, fd, c.pkgOf[fd]}
				raw, _ := rawWrite(fn)
				// decided on the flow graph: assuming the symbol's text equals neither TrueSymbol nor
				// FalseSymbol, no raw write is reachable (an if-chain or a switch on the text alike)
				guarded := false
				if raw {
					sfc := c.cfgOf(u, nil)
					sinfo := u.Pkg.TypesInfo
					isTF := func(e ast.Expr) bool {
						o := identObjOrSel(sinfo, e)
						return o != nil && (o.Name() == "TrueSymbol" || o.Name() == "FalseSymbol")
					}
					reach := sfc.reachableUnder(func(e ast.Expr) int {
						be, ok := ast.Unparen(e).(*ast.BinaryExpr)
						if !ok || (be.Op != token.EQL && be.Op != token.NEQ) || !(isTF(be.X) || isTF(be.Y)) {
							return -1
						}
						if be.Op == token.EQL {
							return 0
						}
						return 1
					})
					guarded = true
					for b := range reach {
						for _, n := range b.Nodes {
							for _, ce := range callsIn(n, false) {
								if se, ok := ast.Unparen(ce.Fun).(*ast.SelectorExpr); ok && (se.Sel.Name == "WriteString" || se.Sel.Name == "Write") {
									guarded = false
								}
							}
						}
					}
				}
				if !raw || guarded {
					obs = append(obs, mkOb(c, "JSON.encoder-table", u, "bare symbols only for true/false", fd, Proved, "raw text is written only under a comparison with TrueSymbol/FalseSymbol", true))
				} else {
					obs = append(obs, mkOb(c, "JSON.encoder-table", u, "bare symbols only for true/false", fd, Violated, "a symbol can be written unquoted without being compared to true/false", true))
				}
			}
			// nil table entry refused
			if fn, fd, pkg := c.LookupFunc(jsonPkg + ".(*encoder).encodeValue"); fn != nil {
				u := FuncUnit{fn, fd, pkg}
				fc := c.cfgOf(u, nil)
				var fnObj types.Object
				ast.Inspect(fd.Body, func(n ast.Node) bool {
					if as, ok := n.(*ast.AssignStmt); ok && len(as.Lhs) == 1 && len(as.Rhs) == 1 {
						if ie, ok := ast.Unparen(as.Rhs[0]).(*ast.IndexExpr); ok {
							if id, ok := ast.Unparen(ie.X).(*ast.Ident); ok && id.Name == "encoderFuncs" {
								fnObj = identObj(info, as.Lhs[0])
							}
						}
					}
					return true
				})
				okNil := false
				if fnObj != nil {
					for _, e := range fc.nilEdges(fnObj, true) {
						if fc.edgeReturns(e, nil) {
							okNil = true
						}
					}
				}
				if okNil {
					obs = append(obs, mkOb(c, "JSON.encoder-table", u, "unknown type refused", fd, Proved, "a nil table entry returns an error", true))
				} else {
					obs = append(obs, mkOb(c, "JSON.encoder-table", u, "unknown type refused", fd, Violated, "encodeValue does not refuse a type without an encoder", true))
				}
			}
			// float renderer
			ajf := c.LookupPkgFunc(jsonPkg + ".appendJSONFloat")
			if ajf != nil {
				// reached (directly or through helpers of the package) from the loader's canonical-text
				// comparison and from the encoder's float case
				reach := c.staticReach(func(p string) bool { return rel(p) == jsonPkg }, ajf)
				users := map[string]bool{}
				for f := range reach {
					users[FuncName(f)] = true
				}
				if users[jsonPkg+".loadNumber"] && users[jsonPkg+".(*encoder).encodeFloat"] {
					obs = append(obs, Obligation{Rule: "JSON.encoder-table", Func: jsonPkg + ".appendJSONFloat", Construct: "single float renderer", Verdict: Proved,
						Detail: "used by the encoder (scratchFloat) and by loadNumber's canonical-text comparison", Nontrivial: true})
				} else {
					obs = append(obs, Obligation{Rule: "JSON.encoder-table", Func: jsonPkg + ".appendJSONFloat", Construct: "single float renderer", Verdict: Violated,
						Detail: "the encoder and loadNumber no longer share appendJSONFloat", Nontrivial: true})
				}
				// no other AppendFloat/FormatFloat on the dump path (functions statically reachable from Serializer.dump)
				onDump := map[*types.Func]bool{}
				if d := c.LookupMethod(jsonPkg + ".Serializer.dump"); d != nil {
					work := []*types.Func{d}
					for len(work) > 0 {
						f := work[len(work)-1]
						work = work[:len(work)-1]
						if onDump[f] {
							continue
						}
						onDump[f] = true
						if fd := c.declOf[f]; fd != nil && fd.Body != nil {
							pinfo := c.pkgOf[fd].TypesInfo
							ast.Inspect(fd.Body, func(n ast.Node) bool {
								switch x := n.(type) {
								case *ast.CallExpr:
									if g := originOf(Callee(pinfo, x)); g != nil {
										work = append(work, g)
									}
								case *ast.SelectorExpr:
									// method expressions in the encoder table
									if g, ok := pinfo.Uses[x.Sel].(*types.Func); ok {
										work = append(work, originOf(g))
									}
								}
								return true
							})
						}
					}
					// the table entries are reached dynamically from encodeValue
					for _, fn := range entries {
						work = append(work, fn)
					}
					for len(work) > 0 {
						f := work[len(work)-1]
						work = work[:len(work)-1]
						if onDump[f] {
							continue
						}
						onDump[f] = true
						if fd := c.declOf[f]; fd != nil && fd.Body != nil {
							pinfo := c.pkgOf[fd].TypesInfo
							for _, ce := range callsIn(fd.Body, true) {
								if g := originOf(Callee(pinfo, ce)); g != nil {
									work = append(work, g)
								}
							}
						}
					}
				}
				for _, u := range c.Funcs(func(p string) bool { return rel(p) == jsonPkg }) {
					if !onDump[u.Obj] {
						continue
					}
					for _, ce := range callsIn(u.Decl.Body, true) {
						if (stdFuncCalled(u.Pkg.TypesInfo, ce, "strconv", "AppendFloat") || stdFuncCalled(u.Pkg.TypesInfo, ce, "strconv", "FormatFloat")) && u.Name() != jsonPkg+".appendJSONFloat" {
							obs = append(obs, mkOb(c, "JSON.encoder-table", u, "second float renderer", ce, Violated, "floats are rendered outside appendJSONFloat", true))
						}
					}
				}
			}
			return obs
		}})
}

func init() {
	register(&Rule{ID: "JSON.raw-text-writes", Floor: 3,
		Doc: "in the JSON encoder the text of a lisp string or symbol (an LVal's Str, or a string parameter that received it) is written to the output only inside encodeString, the one function that escapes — the single exception is the symbol encoder writing the constants true/false under a comparison with them; object keys, like values, therefore never appear unescaped (raw control bytes, invalid UTF-8, U+2028/9)",
		Run: func(c *Ctx) []Obligation {
			p := c.Pkg(jsonPkg)
			strFld := c.LookupField("lisp.LVal.Str")
			if p == nil || strFld == nil {
				return []Obligation{anchorMissing("JSON.raw-text-writes", "libjson / LVal.Str")}
			}
			var obs []Obligation
			for _, u := range c.Funcs(func(pp string) bool { return rel(pp) == jsonPkg }) {
				sig := u.Obj.Type().(*types.Signature)
				if sig.Recv() == nil || !strings.HasSuffix(canonTypes(sig.Recv().Type().String()), "libjson.encoder") {
					continue
				}
				info := u.Pkg.TypesInfo
				fc := c.cfgOf(u, nil)
				ord := &ordinal{}
				isText := func(e ast.Expr) bool {
					hit := false
					ast.Inspect(e, func(n ast.Node) bool {
						if se, ok := n.(*ast.SelectorExpr); ok && FieldOfSelector(info, se) == strFld {
							hit = true
						}
						if id, ok := n.(*ast.Ident); ok {
							if v, ok := info.Uses[id].(*types.Var); ok && !v.IsField() {
								if bt, ok := v.Type().Underlying().(*types.Basic); ok && bt.Kind() == types.String {
									for _, pr := range paramObjs(u) {
										if pr == types.Object(v) {
											hit = true
										}
									}
								}
							}
						}
						return !hit
					})
					return hit
				}
				for _, b := range fc.G.Blocks {
					if !fc.Live(b) {
						continue
					}
					for _, n := range b.Nodes {
						for _, ce := range callsIn(n, false) {
							se, ok := ast.Unparen(ce.Fun).(*ast.SelectorExpr)
							if !ok || (se.Sel.Name != "WriteString" && se.Sel.Name != "Write") || len(ce.Args) != 1 {
								continue
							}
							if tv, ok := info.Types[se.X]; !ok || !strings.Contains(tv.Type.String(), "bytes.Buffer") {
								continue
							}
							if tv, ok := info.Types[ce.Args[0]]; ok && tv.Value != nil {
								continue // a constant
							}
							if !isText(ce.Args[0]) {
								continue
							}
							construct := ord.next("writes lisp text")
							switch {
							case shortName(u.Obj) == "encodeString":
								obs = append(obs, mkOb(c, "JSON.raw-text-writes", u, construct, ce, Proved, "inside encodeString: the pieces written are the runs it has checked need no escape", false))
							case func() bool {
								_, ok := c.privateHelperOf(u.Obj, func(n string) bool { return strings.HasSuffix(n, ".encodeString") }, 0)
								return ok
							}():
								obs = append(obs, mkOb(c, "JSON.raw-text-writes", u, construct, ce, Proved, "inside a helper that only encodeString calls: the pieces written are the runs it has checked need no escape", false))
							default:
								// allowed only under an edge entailing the text equals the true/false constants
								cls := func(e ast.Expr) (string, bool) {
									be, ok := ast.Unparen(e).(*ast.BinaryExpr)
									if !ok || (be.Op != token.EQL && be.Op != token.NEQ) || FieldOfSelector(info, be.X) != strFld {
										return "", false
									}
									if o, ok := identObjOrSel(info, be.Y).(*types.Const); ok && (o.Name() == "TrueSymbol" || o.Name() == "FalseSymbol") {
										return "is" + o.Name(), be.Op == token.NEQ
									}
									return "", false
								}
								cut := fc.edgesEntailing(cls, func(v map[string]bool) bool {
									return (v["$has:isTrueSymbol"] && v["isTrueSymbol"]) || (v["$has:isFalseSymbol"] && v["isFalseSymbol"])
								})
								if len(cut) > 0 && !fc.reachableAvoiding(b, cut) {
									obs = append(obs, mkOb(c, "JSON.raw-text-writes", u, construct, ce, Proved, "the text is one of the constants true/false on every path", true))
								} else {
									obs = append(obs, mkOb(c, "JSON.raw-text-writes", u, construct, ce, Violated, "`"+types.ExprString(ce)+"` writes lisp text to the document without going through encodeString: a key or value holding a control byte, a quote, invalid UTF-8 or U+2028/9 is emitted raw", true))
								}
							}
						}
					}
				}
			}
			return obs
		}})
}

// JSON.canonical-exception-total — C13: under :exact-integers an integer
// literal too large for a lisp int is refused UNLESS it is already the
// canonical rendering of the float it parses to (the form dump itself writes
// for floats between 2^63 and 1e21).  The structural half: no path reaches the
// refusal in loadNumber without having put the text through that comparison.
// A shortcut in front of it (a length test, a leading-character test) makes
// dump's own output unloadable for whichever values the shortcut misjudges.
func init() {
	register(&Rule{ID: "JSON.canonical-exception-total", Floor: 1,
		Doc: "in loadNumber every path to a refusal (a return that is not lisp.Int / lisp.Float / loadFloat) leaves through the failed canonical-float test — the false side of `string(appendJSONFloat(nil, f)) == text`, or ParseFloat's own error — so the exception for dump's plain-digit floats is applied to every oversize integer literal; the only shortcut accepted in front of it is `len(text) > K` with K at least the longest plain-digit text appendJSONFloat can write (sign + the digit count of its exponent cutoff)",
		Run: func(c *Ctx) []Obligation {
			const rid = "JSON.canonical-exception-total"
			fn, fd, pkg := c.LookupFunc(jsonPkg + ".loadNumber")
			app := c.LookupPkgFunc(jsonPkg + ".appendJSONFloat")
			_, appDecl, appPkg := c.LookupFunc(jsonPkg + ".appendJSONFloat")
			if fn == nil || app == nil || appDecl == nil || fd.Type.Params == nil || len(fd.Type.Params.List) == 0 {
				return []Obligation{anchorMissing(rid, "libjson.loadNumber / appendJSONFloat")}
			}
			textObj0 := pkg.TypesInfo.Defs[fd.Type.Params.List[0].Names[0]]
			// longest plain-digit text: cutoff `abs >= C` in appendJSONFloat
			maxLen := -1
			ast.Inspect(appDecl.Body, func(n ast.Node) bool {
				be, ok := n.(*ast.BinaryExpr)
				if !ok || be.Op != token.GEQ {
					return true
				}
				tv, ok := appPkg.TypesInfo.Types[be.Y]
				if !ok || tv.Value == nil {
					return true
				}
				f, _ := constantFloat(tv.Value)
				if f == nil || f.Sign() <= 0 {
					return true
				}
				iv, acc := f.Int(nil)
				if acc == 0 { // integral cutoff: the largest plain value is cutoff-1
					iv.Sub(iv, bigOne)
				}
				if l := len(iv.String()) + 1; l > maxLen {
					maxLen = l
				}
				return true
			})
			// analyse judges one function; when the comparison and the refusal live in a private helper that
			// loadNumber hands the literal to (`return loadOversizeInteger(text)`), the helper is judged with
			// its own parameter standing for the literal
			var analyse func(u FuncUnit, textObj types.Object, depth int) []Obligation
			analyse = func(u FuncUnit, textObj types.Object, depth int) []Obligation {
				fd := u.Decl
				info := u.Pkg.TypesInfo
				forwarded := map[*types.Func]types.Object{}
				if depth < 2 {
					ast.Inspect(fd.Body, func(n ast.Node) bool {
						rs, ok := n.(*ast.ReturnStmt)
						if !ok || len(rs.Results) != 1 {
							return true
						}
						ce, ok := ast.Unparen(rs.Results[0]).(*ast.CallExpr)
						if !ok {
							return true
						}
						h := originOf(Callee(info, ce))
						if h == nil || h.Exported() || h.Pkg() != u.Obj.Pkg() || c.declOf[h] == nil {
							return true
						}
						hs := h.Type().(*types.Signature)
						for i, a := range ce.Args {
							if identObj(info, a) == textObj && i < hs.Params().Len() {
								forwarded[h] = hs.Params().At(i)
							}
						}
						return true
					})
				}
				// error object of strconv.ParseFloat(text, ..)
				var ferr types.Object
				ast.Inspect(fd.Body, func(n ast.Node) bool {
					as, ok := n.(*ast.AssignStmt)
					if !ok || len(as.Rhs) != 1 || len(as.Lhs) != 2 {
						return true
					}
					ce, ok := ast.Unparen(as.Rhs[0]).(*ast.CallExpr)
					if ok && stdFuncCalled(info, ce, "strconv", "ParseFloat") && len(ce.Args) > 0 && identObj(info, ce.Args[0]) == textObj {
						ferr = identObj(info, as.Lhs[1])
					}
					return true
				})
				isCanonCmp := func(e ast.Expr) bool {
					be, ok := ast.Unparen(e).(*ast.BinaryExpr)
					if !ok || be.Op != token.EQL && be.Op != token.NEQ {
						return false
					}
					side := func(a, b ast.Expr) bool {
						if identObj(info, b) != textObj {
							return false
						}
						found := false
						for _, ce := range callsIn(a, false) {
							if originOf(Callee(info, ce)) == app {
								found = true
							}
						}
						return found
					}
					return side(be.X, be.Y) || side(be.Y, be.X)
				}
				isLenText := func(e ast.Expr) bool {
					ce, ok := ast.Unparen(e).(*ast.CallExpr)
					if !ok || len(ce.Args) != 1 {
						return false
					}
					id, ok := ast.Unparen(ce.Fun).(*ast.Ident)
					return ok && id.Name == "len" && identObj(info, ce.Args[0]) == textObj
				}
				// canonFlag: e is a boolean local that is a result of a same-package predicate helper handed the
				// literal — `f, ok := canonicalFloat(text)` — and every return of the helper gives, in that
				// position, the constant false or the canonical comparison itself (of ITS parameter): the flag
				// is false exactly when ParseFloat failed or the literal is not appendJSONFloat's rendering
				canonFlag := func(e ast.Expr) bool {
					o := identObj(info, e)
					if o == nil {
						return false
					}
					if bt, ok := o.Type().Underlying().(*types.Basic); !ok || bt.Kind() != types.Bool {
						return false
					}
					dc, idx, ndef := definingCall(info, fd.Body, o)
					if dc == nil || ndef != 1 {
						return false
					}
					h := originOf(Callee(info, dc))
					if h == nil || h.Pkg() != u.Obj.Pkg() {
						return false
					}
					hd := c.declOf[h]
					if hd == nil || hd.Body == nil {
						return false
					}
					hinfo := c.pkgOf[hd].TypesInfo
					hs := h.Type().(*types.Signature)
					var hText types.Object
					for i, a := range dc.Args {
						if identObj(info, a) == textObj && i < hs.Params().Len() {
							hText = hs.Params().At(i)
						}
					}
					if hText == nil {
						return false
					}
					good, ncanon := true, 0
					for _, rs := range returnsOf(hd.Body) {
						if idx >= len(rs.Results) {
							good = false
							continue
						}
						r := ast.Unparen(rs.Results[idx])
						if isBoolConst(hinfo, r, false) {
							continue
						}
						be, ok := r.(*ast.BinaryExpr)
						if !ok || be.Op != token.EQL {
							good = false
							continue
						}
						side := func(a, b ast.Expr) bool {
							if identObj(hinfo, b) != hText {
								return false
							}
							for _, ce := range callsIn(a, false) {
								if originOf(Callee(hinfo, ce)) == app {
									return true
								}
							}
							return false
						}
						if side(be.X, be.Y) || side(be.Y, be.X) {
							ncanon++
						} else {
							good = false
						}
					}
					return good && ncanon > 0
				}
				cls := func(e ast.Expr) (string, bool) {
					e = ast.Unparen(e)
					if isCanonCmp(e) {
						return "canon", e.(*ast.BinaryExpr).Op == token.NEQ
					}
					if canonFlag(e) {
						return "canon", false
					}
					be, ok := e.(*ast.BinaryExpr)
					if !ok {
						return "", false
					}
					if ferr != nil {
						if isT, nonNil := isNilTest(info, e, ferr); isT {
							return "ferr", !nonNil // atom "ferr" = ferr != nil
						}
					}
					// len(text) OP K
					var k int
					op := be.Op
					switch {
					case isLenText(be.X):
						v, ok := intConst(info, be.Y)
						if !ok {
							return "", false
						}
						k = v
					case isLenText(be.Y):
						v, ok := intConst(info, be.X)
						if !ok {
							return "", false
						}
						k = v
						switch op {
						case token.LSS:
							op = token.GTR
						case token.LEQ:
							op = token.GEQ
						case token.GTR:
							op = token.LSS
						case token.GEQ:
							op = token.LEQ
						}
					default:
						return "", false
					}
					if maxLen < 0 {
						return "", false
					}
					// atom "long" = len(text) > maxLen is implied
					switch op {
					case token.GTR: // len > k
						if k >= maxLen {
							return "long", false
						}
					case token.GEQ: // len >= k
						if k-1 >= maxLen {
							return "long", false
						}
					case token.LEQ: // !(len <= k) = len > k
						if k >= maxLen {
							return "long", true
						}
					case token.LSS:
						if k-1 >= maxLen {
							return "long", true
						}
					}
					return "", false
				}
				fc := c.cfgOf(u, nil)
				cut := fc.edgesEntailing(cls, func(v map[string]bool) bool {
					return v["$has:canon"] && !v["canon"] || v["$has:ferr"] && v["ferr"] || v["$has:long"] && v["long"]
				})
				lispInt := c.LookupPkgFunc("lisp.Int")
				lispFloat := c.LookupPkgFunc("lisp.Float")
				loadFloat := c.LookupPkgFunc(jsonPkg + ".loadFloat")
				var obs []Obligation
				ord := &ordinal{}
				sawCanon := false
				var viaHelper []Obligation
				for h, po := range forwarded {
					hd := c.declOf[h]
					mentions := false
					for _, ce := range callsIn(hd.Body, false) {
						if originOf(Callee(c.pkgOf[hd].TypesInfo, ce)) == app {
							mentions = true
						}
					}
					if mentions {
						viaHelper = append(viaHelper, analyse(FuncUnit{h, hd, c.pkgOf[hd]}, po, depth+1)...)
					}
				}
				ast.Inspect(fd.Body, func(n ast.Node) bool {
					if e, ok := n.(ast.Expr); ok && (isCanonCmp(e) || canonFlag(e)) {
						sawCanon = true
					}
					return true
				})
				if !sawCanon && len(viaHelper) > 0 {
					// this function only forwards: its own refusals (if any) are still judged below, with the
					// forwarding returns accepted
					sawCanon = true
				}
				if !sawCanon {
					return []Obligation{mkOb(c, rid, u, "canonical-float test", fd, Violated, "loadNumber no longer compares the literal with appendJSONFloat's rendering of the float it parses to: either every oversize integer is refused (dump's own 1e19 cannot be loaded) or every one is silently rounded", true)}
				}
				for _, b := range fc.G.Blocks {
					if !fc.Live(b) {
						continue
					}
					for _, n := range b.Nodes {
						rs, ok := n.(*ast.ReturnStmt)
						if !ok || len(rs.Results) != 1 {
							continue
						}
						if ce, ok := ast.Unparen(rs.Results[0]).(*ast.CallExpr); ok {
							if f := originOf(Callee(info, ce)); f != nil && (f == lispInt || f == lispFloat || f == loadFloat) {
								continue
							}
							if f := originOf(Callee(info, ce)); f != nil && forwarded[f] != nil && len(viaHelper) > 0 {
								continue
							}
						}
						construct := ord.next("refusal return")
						if fc.reachableAvoiding(b, cut) {
							obs = append(obs, mkOb(c, rid, u, construct, rs, Violated, "a path reaches this refusal without the literal having failed the canonical-float comparison: some integer literal that dump writes for a float (plain digits up to 1e21, with or without a sign) is refused with json:integer-range-error, so the package cannot read its own output", true))
						} else {
							obs = append(obs, mkOb(c, rid, u, construct, rs, Proved, fmt.Sprintf("reached only over the failed canonical test, a ParseFloat error, or len(text) > %d", maxLen), true))
						}
					}
				}
				return append(obs, viaHelper...)
			}
			return analyse(FuncUnit{fn, fd, pkg}, textObj0, 0)
		}})
}

var bigOne = big.NewInt(1)

func constantFloat(v constant.Value) (*big.Float, bool) {
	v = constant.ToFloat(v)
	if v.Kind() != constant.Float {
		return nil, false
	}
	switch x := constant.Val(v).(type) {
	case *big.Float:
		return new(big.Float).Copy(x), true
	case *big.Rat:
		return new(big.Float).SetRat(x), true
	case float64:
		return big.NewFloat(x), true
	}
	f, _ := constant.Float64Val(v)
	return big.NewFloat(f), true
}

// JSON.encoder-options-kept — C13 ("dump … consistent"): the encoder's option
// (string-numbers) is fixed when the encoder is made and must hold for the
// whole document.  encode() may start a deep document over; whatever it resets
// for the second pass, the option is not part of the pass's scratch state.
func init() {
	register(&Rule{ID: "JSON.encoder-options-kept", Floor: 1,
		Doc: "the fields of libjson.encoder that newEncoder fills from its parameters (the dump options) have no other writer: no assignment to such a field, and no whole-struct overwrite (`*enc = encoder{…}` / `enc = encoder{…}`) that does not carry the field over from the value being replaced — a document is written under one set of options from its first byte to its last, also when it is deep enough to be written twice",
		Run: func(c *Ctx) []Obligation {
			const rid = "JSON.encoder-options-kept"
			ctor, cd, pkg := c.LookupFunc(jsonPkg + ".newEncoder")
			if ctor == nil {
				return []Obligation{anchorMissing(rid, "libjson.newEncoder")}
			}
			info := pkg.TypesInfo
			encNamed := c.LookupType(jsonPkg + ".encoder")
			if encNamed == nil {
				return []Obligation{anchorMissing(rid, "libjson.encoder")}
			}
			var encT types.Type = encNamed
			params := map[types.Object]bool{}
			for _, f := range cd.Type.Params.List {
				for _, nm := range f.Names {
					params[info.Defs[nm]] = true
				}
			}
			options := map[string]bool{}
			ast.Inspect(cd.Body, func(n ast.Node) bool {
				switch x := n.(type) {
				case *ast.KeyValueExpr:
					if id, ok := x.Key.(*ast.Ident); ok && params[identObj(info, x.Value)] {
						options[id.Name] = true
					}
				case *ast.AssignStmt:
					for i, l := range x.Lhs {
						if se, ok := ast.Unparen(l).(*ast.SelectorExpr); ok && i < len(x.Rhs) && params[identObj(info, x.Rhs[i])] {
							options[se.Sel.Name] = true
						}
					}
				}
				return true
			})
			if len(options) == 0 {
				return []Obligation{mkOb(c, rid, FuncUnit{ctor, cd, pkg}, "option fields", cd, Undecided, "newEncoder fills no field from a parameter", true)}
			}
			var obs []Obligation
			obs = append(obs, mkOb(c, rid, FuncUnit{ctor, cd, pkg}, "option fields", cd, Proved, "set by the constructor: "+strings.Join(sortedKeys(options), ", "), false))
			isEnc := func(t types.Type) bool {
				if p, ok := t.(*types.Pointer); ok {
					t = p.Elem()
				}
				return types.Identical(t, encT)
			}
			for _, u := range c.Funcs(func(p string) bool { return rel(p) == jsonPkg }) {
				if u.Decl == nil || u.Decl.Body == nil || u.Obj == ctor {
					continue
				}
				ord := &ordinal{}
				ast.Inspect(u.Decl.Body, func(n ast.Node) bool {
					as, ok := n.(*ast.AssignStmt)
					if !ok {
						return true
					}
					for i, l := range as.Lhs {
						l = ast.Unparen(l)
						// field store
						if se, ok := l.(*ast.SelectorExpr); ok && options[se.Sel.Name] {
							if tv, ok := info.Types[se.X]; ok && isEnc(tv.Type) {
								obs = append(obs, mkOb(c, rid, u, ord.next("store to ."+se.Sel.Name), as, Violated, "an option of the encoder is changed after construction: part of the document is written under one option and part under another", true))
							}
							continue
						}
						// whole-struct overwrite
						target := l
						if st, ok := l.(*ast.StarExpr); ok {
							target = st.X
						}
						tv, ok := info.Types[target]
						if !ok || !isEnc(tv.Type) || i >= len(as.Rhs) {
							continue
						}
						if _, isStar := l.(*ast.StarExpr); !isStar {
							if _, isPtr := tv.Type.(*types.Pointer); isPtr {
								continue // re-pointing a pointer variable, not overwriting a value
							}
						}
						cl, ok := ast.Unparen(as.Rhs[i]).(*ast.CompositeLit)
						if !ok {
							continue
						}
						kept := map[string]bool{}
						for _, el := range cl.Elts {
							if kv, ok := el.(*ast.KeyValueExpr); ok {
								if id, ok := kv.Key.(*ast.Ident); ok {
									if se, ok := ast.Unparen(kv.Value).(*ast.SelectorExpr); ok && se.Sel.Name == id.Name && types.ExprString(se.X) == types.ExprString(target) {
										kept[id.Name] = true
									}
								}
							}
						}
						var lost []string
						for o := range options {
							if !kept[o] {
								lost = append(lost, o)
							}
						}
						sort.Strings(lost)
						construct := ord.next("overwrite of the whole encoder")
						if len(lost) > 0 {
							obs = append(obs, mkOb(c, rid, u, construct, as, Violated, "the encoder is replaced by a fresh value that does not carry over "+strings.Join(lost, ", ")+": after the restart for a deeply nested document the option is back to its zero value, so the same value dumps differently depending on its depth (\"7\" shallow, 7 deep under :string-numbers)", true))
						} else {
							obs = append(obs, mkOb(c, rid, u, construct, as, Proved, "carries the option fields over", true))
						}
					}
					return true
				})
			}
			return obs
		}})
}

// JSON.entry-bytes-unchanged — C13 ("the load entry points agree on
// acceptance"): load-string, load-bytes and load-message differ in where the
// text comes from, not in what text they accept.  Each hands the decoder the
// argument's bytes exactly; an entry point that trims, strips or rewrites them
// first (a byte-order mark, surrounding whitespace) accepts documents its
// siblings — and encoding/json — refuse.
func init() {
	register(&Rule{ID: "JSON.entry-bytes-unchanged", Floor: 2,
		Doc: "in every libjson function that calls Serializer.LoadWith (or Load) the document argument is, directly, a byte-slice parameter, <arg>.Bytes() or []byte(<arg>.Str) of a lisp argument — never the result of another call or a local computed from one: all load entry points decode the same bytes they were given",
		Run: func(c *Ctx) []Obligation {
			const rid = "JSON.entry-bytes-unchanged"
			lw := c.LookupMethod(jsonPkg + ".Serializer.LoadWith")
			ld := c.LookupMethod(jsonPkg + ".Serializer.Load")
			if lw == nil || ld == nil {
				return []Obligation{anchorMissing(rid, "Serializer.LoadWith / Load")}
			}
			var obs []Obligation
			for _, u := range c.Funcs(func(p string) bool { return rel(p) == jsonPkg }) {
				if u.Decl == nil || u.Decl.Body == nil {
					continue
				}
				info := u.Pkg.TypesInfo
				params := map[types.Object]bool{}
				if u.Decl.Type.Params != nil {
					for _, f := range u.Decl.Type.Params.List {
						for _, nm := range f.Names {
							params[info.Defs[nm]] = true
						}
					}
				}
				ord := &ordinal{}
				for _, ce := range callsIn(u.Decl.Body, true) {
					f := originOf(Callee(info, ce))
					if (f != lw && f != ld) || len(ce.Args) == 0 {
						continue
					}
					construct := ord.next("document handed to " + shortName(f))
					a := ast.Unparen(ce.Args[0])
					ok := false
					why := ""
					switch x := a.(type) {
					case *ast.Ident:
						if params[info.Uses[x]] {
							ok, why = true, "the function's own byte-slice parameter"
						}
					case *ast.CallExpr:
						if se, isSel := ast.Unparen(x.Fun).(*ast.SelectorExpr); isSel && se.Sel.Name == "Bytes" && len(x.Args) == 0 {
							ok, why = true, "the bytes of the lisp argument"
						} else if tv, isConv := info.Types[x.Fun]; isConv && tv.IsType() && len(x.Args) == 1 {
							if se, isSel := ast.Unparen(x.Args[0]).(*ast.SelectorExpr); isSel && se.Sel.Name == "Str" {
								ok, why = true, "the text of the lisp argument"
							}
						}
					}
					if ok {
						obs = append(obs, mkOb(c, rid, u, construct, ce, Proved, why, true))
					} else {
						obs = append(obs, mkOb(c, rid, u, construct, ce, Violated, "the document is `"+types.ExprString(a)+"`, not the argument's bytes as given: this entry point accepts (or refuses) text its siblings and encoding/json treat differently — e.g. a UTF-8 byte-order mark in front of a document loads through json:load-bytes and is a syntax error through json:load-string", true))
					}
				}
			}
			return obs
		}})
}
