package main

import (
	"fmt"
	"go/ast"
	"go/constant"
	"go/token"
	"go/types"
	"strings"

	"golang.org/x/tools/go/cfg"
)

// E2 rules over the extracted registry.

// guaranteedArgs: bind() hands a builtin exactly one cell per non-control
// formal (optional and key formals are filled with nil when absent); with
// &rest the remaining arguments follow, so only a lower bound is known.
func guaranteedArgs(e RegEntry) (n int, exact bool) {
	hasRest := false
	for i, f := range e.Formals {
		if f == "&rest" {
			hasRest = true
			_ = i
			continue
		}
		if strings.HasPrefix(f, "&") {
			continue
		}
		n++
	}
	if hasRest {
		n-- // the rest symbol itself binds zero or more cells
	}
	return n, !hasRest
}

// argsParam returns the object of the `args *LVal` parameter of an LBuiltin body.
func argsParam(info *types.Info, u FuncUnit, lit *ast.FuncLit) types.Object {
	var ft *ast.FuncType
	if lit != nil {
		ft = lit.Type
	} else {
		ft = u.Decl.Type
	}
	if ft.Params == nil {
		return nil
	}
	var idents []*ast.Ident
	for _, f := range ft.Params.List {
		idents = append(idents, f.Names...)
	}
	if len(idents) < 2 {
		return nil
	}
	return info.Defs[idents[len(idents)-1]]
}

// isArgsCells: expression is `<args>.Cells`.
func isArgsCells(info *types.Info, e ast.Expr, args types.Object, cellsFld *types.Var) bool {
	se, ok := ast.Unparen(e).(*ast.SelectorExpr)
	if !ok || FieldOfSelector(info, se) != cellsFld {
		return false
	}
	id, ok := ast.Unparen(se.X).(*ast.Ident)
	return ok && info.Uses[id] == args
}

func intConst(info *types.Info, e ast.Expr) (int, bool) {
	tv, ok := info.Types[e]
	if !ok || tv.Value == nil || tv.Value.Kind() != constant.Int {
		return 0, false
	}
	v, exact := constant.Int64Val(tv.Value)
	return int(v), exact
}

// lenLowerBound derives, from the branch conditions that dominate loc, a lower
// bound on len(args.Cells) (also through args.Len()).
func lenLowerBound(fc *FCFG, loc Loc, args types.Object, cellsFld *types.Var, lenMethod *types.Func, base int) int {
	info := fc.Info
	isLen := func(e ast.Expr) bool {
		ce, ok := ast.Unparen(e).(*ast.CallExpr)
		if !ok {
			return false
		}
		if id, ok := ast.Unparen(ce.Fun).(*ast.Ident); ok && id.Name == "len" && len(ce.Args) == 1 {
			if _, isB := info.Uses[id].(*types.Builtin); isB {
				return isArgsCells(info, ce.Args[0], args, cellsFld)
			}
		}
		if se, ok := ast.Unparen(ce.Fun).(*ast.SelectorExpr); ok && len(ce.Args) == 0 {
			if originOf(Callee(info, ce)) == lenMethod {
				id, ok := ast.Unparen(se.X).(*ast.Ident)
				return ok && info.Uses[id] == args
			}
		}
		return false
	}
	lb := base
	excluded := map[int]bool{}
	for _, b := range fc.G.Blocks {
		if !fc.Live(b) || loc.B == b {
			continue
		}
		cond := fc.CondOf(b)
		if cond == nil {
			continue
		}
		for edge := 0; edge < 2; edge++ {
			var facts []LitAtom
			for _, a := range impliedAtoms(cond, edge == 0) {
				be, ok := ast.Unparen(a.E).(*ast.BinaryExpr)
				if ok && (isLen(be.X) || isLen(be.Y)) {
					facts = append(facts, a)
				}
			}
			if len(facts) == 0 || !fc.edgeDominates(b, edge, loc.B) {
				continue
			}
			for _, a := range facts {
				be := ast.Unparen(a.E).(*ast.BinaryExpr)
				var op token.Token
				var k int
				if isLen(be.X) {
					v, ok := intConst(info, be.Y)
					if !ok {
						continue
					}
					op, k = be.Op, v
				} else {
					v, ok := intConst(info, be.X)
					if !ok {
						continue
					}
					k = v
					switch be.Op { // c OP len  ==>  len OP' c
					case token.LSS:
						op = token.GTR
					case token.LEQ:
						op = token.GEQ
					case token.GTR:
						op = token.LSS
					case token.GEQ:
						op = token.LEQ
					default:
						op = be.Op
					}
				}
				if !a.Positive {
					switch op {
					case token.LSS:
						op = token.GEQ
					case token.LEQ:
						op = token.GTR
					case token.GTR:
						op = token.LEQ
					case token.GEQ:
						op = token.LSS
					case token.EQL:
						op = token.NEQ
					case token.NEQ:
						op = token.EQL
					}
				}
				switch op {
				case token.GTR:
					if k+1 > lb {
						lb = k + 1
					}
				case token.GEQ, token.EQL:
					if k > lb {
						lb = k
					}
				case token.NEQ:
					excluded[k] = true
				}
			}
		}
	}
	for excluded[lb] {
		lb++
	}
	return lb
}

func init() {
	register(&Rule{ID: "REG.resolved", Floor: 240,
		Doc: "every element of every builtin/operator/macro table resolves to a constant name, constant formals and an implementing body",
		Run: func(c *Ctx) []Obligation {
			var obs []Obligation
			for _, e := range c.Registry() {
				_, u, _, ok := c.BodyOf(e)
				o := Obligation{Rule: "REG.resolved", Func: rel(e.Pkg.PkgPath) + "." + e.Table, Construct: "entry " + e.Name, Pos: c.Pos(e.Node.Pos())}
				switch {
				case e.Problem != "":
					o.Verdict, o.Detail = Undecided, e.Problem
				case !ok:
					o.Verdict, o.Detail = Undecided, "no implementing body found for "+types.ExprString(e.FnExpr)
				default:
					o.Verdict, o.Detail = Proved, fmt.Sprintf("%s %v -> %s", e.Kind, e.Formals, u.Name())
				}
				obs = append(obs, o)
			}
			return obs
		}})

	register(&Rule{ID: "REG.formals", Floor: 240,
		Doc: "every registered formals list satisfies the binder's grammar (&rest followed by exactly one plain symbol and last; &optional/&key not last; no control symbol after &key; no unknown & symbol)",
		Run: func(c *Ctx) []Obligation {
			var obs []Obligation
			for _, e := range c.Registry() {
				if e.Problem != "" {
					continue
				}
				bad := ""
				fs := e.Formals
				for i, f := range fs {
					switch f {
					case "&rest":
						if i != len(fs)-2 || strings.HasPrefix(fs[len(fs)-1], "&") {
							bad = "&rest must be followed by exactly one plain symbol at the end"
						}
					case "&optional":
						if i == len(fs)-1 {
							bad = "&optional is last"
						}
					case "&key":
						if i == len(fs)-1 {
							bad = "&key is last"
						}
						for _, g := range fs[i+1:] {
							if strings.HasPrefix(g, "&") {
								bad = "control symbol after &key"
							}
						}
					default:
						if strings.HasPrefix(f, "&") {
							bad = "unknown control symbol " + f
						}
					}
				}
				o := Obligation{Rule: "REG.formals", Func: rel(e.Pkg.PkgPath) + "." + e.Table, Construct: "entry " + e.Name, Pos: c.Pos(e.Node.Pos())}
				if bad != "" {
					o.Verdict, o.Detail = Violated, fmt.Sprintf("formals %v: %s (every call would fail binding)", fs, bad)
				} else {
					o.Verdict, o.Detail = Proved, fmt.Sprintf("formals %v well-formed", fs)
				}
				obs = append(obs, o)
			}
			return obs
		}})

	register(&Rule{ID: "REG.arity", Floor: 150,
		Doc: "in every registered builtin/operator/macro body each constant index args.Cells[k] (slice args.Cells[k:]) stays within the cells the binder guarantees for the registered formals, or is dominated by a len(args.Cells) test that implies it",
		Run: func(c *Ctx) []Obligation {
			cellsFld := c.LookupField("lisp.LVal.Cells")
			lenM := c.LookupMethod("lisp.LVal.Len")
			if cellsFld == nil || lenM == nil {
				return []Obligation{anchorMissing("REG.arity", "LVal.Cells / LVal.Len")}
			}
			// weakest guarantee per implementing body
			type impl struct {
				u     FuncUnit
				lit   *ast.FuncLit
				body  *ast.BlockStmt
				n     int
				names []string
			}
			impls := map[ast.Node]*impl{}
			var order []ast.Node
			for _, e := range c.Registry() {
				if e.Problem != "" {
					continue
				}
				body, u, lit, ok := c.BodyOf(e)
				if !ok {
					continue
				}
				n, _ := guaranteedArgs(e)
				im := impls[body]
				if im == nil {
					im = &impl{u: u, lit: lit, body: body, n: n}
					impls[body] = im
					order = append(order, body)
				}
				if n < im.n {
					im.n = n
				}
				im.names = append(im.names, e.Key())
			}
			var obs []Obligation
			for _, bn := range order {
				im := impls[bn]
				info := im.u.Pkg.TypesInfo
				args := argsParam(info, im.u, im.lit)
				if args == nil {
					obs = append(obs, mkOb(c, "REG.arity", im.u, "args parameter", im.body, Undecided, "cannot identify the args parameter", false))
					continue
				}
				fc := c.cfgOf(im.u, im.lit)
				// position of the first re-assignment of args.Cells (decap idiom)
				var decap token.Pos
				ast.Inspect(im.body, func(n ast.Node) bool {
					if as, ok := n.(*ast.AssignStmt); ok {
						for _, l := range as.Lhs {
							if isArgsCells(info, l, args, cellsFld) && (decap == 0 || as.Pos() < decap) {
								decap = as.Pos()
							}
						}
					}
					return true
				})
				ord := &ordinal{}
				nsites := 0
				ast.Inspect(im.body, func(n ast.Node) bool {
					if fl, ok := n.(*ast.FuncLit); ok && fl != im.lit {
						return false
					}
					var base ast.Expr
					var k int
					var isSlice, okc bool
					switch x := n.(type) {
					case *ast.IndexExpr:
						base = x.X
						k, okc = intConst(info, x.Index)
					case *ast.SliceExpr:
						base = x.X
						isSlice = true
						if x.Low == nil {
							return true
						}
						k, okc = intConst(info, x.Low)
					default:
						return true
					}
					if !okc || !isArgsCells(info, base, args, cellsFld) {
						return true
					}
					nsites++
					need := k + 1
					what := fmt.Sprintf("args.Cells[%d]", k)
					if isSlice {
						need = k
						what = fmt.Sprintf("args.Cells[%d:]", k)
					}
					construct := ord.next(what)
					if decap != 0 && n.Pos() > decap {
						obs = append(obs, mkOb(c, "REG.arity", im.u, construct, n, Proved, "after the decap `args.Cells = args.Cells[..]`: index refers to the shifted list (not compared)", false))
						return true
					}
					if need <= im.n {
						obs = append(obs, mkOb(c, "REG.arity", im.u, construct, n, Proved,
							fmt.Sprintf("binder guarantees %d cells for %v", im.n, im.names), false))
						return true
					}
					loc, found := fc.Locate(n)
					lb := 0
					if found {
						lb = lenLowerBound(fc, loc, args, cellsFld, lenM, im.n)
					}
					if need <= lb {
						obs = append(obs, mkOb(c, "REG.arity", im.u, construct, n, Proved,
							fmt.Sprintf("beyond the %d guaranteed cells but dominated by a test implying len(args.Cells) >= %d", im.n, lb), true))
					} else {
						obs = append(obs, mkOb(c, "REG.arity", im.u, construct, n, Violated,
							fmt.Sprintf("reads cell %d but the binder guarantees only %d cells for %v and no dominating len test implies more (derived bound %d): index out of range panic", k, im.n, im.names, lb), true))
					}
					return true
				})
				if nsites == 0 {
					obs = append(obs, mkOb(c, "REG.arity", im.u, "no constant args index", im.body, Proved, "body does not index args.Cells with constants", false))
				}
			}
			return obs
		}})
}

var _ = cfg.KindBody

// REG.rest-slice — the binder pads every absent &optional formal with () before
// the &rest cells.  A body that takes "the remaining arguments" as
// args.Cells[k:] with k inside the optional section therefore sees those
// padding cells as data.  For `error` that data is what handlers receive (C06:
// "the handler is called with the condition and the error's data"), so the
// registered formals and the slice must agree.
func init() {
	register(&Rule{ID: "REG.rest-slice", Floor: 20,
		Doc: "in every registered builtin/operator/macro whose formals have &rest, an open slice args.Cells[k:] with constant k starts at or after the rest position (required + optional formals) or inside the required section — never inside the &optional section, where the binder's () padding for absent optionals would be taken for caller data",
		Run: func(c *Ctx) []Obligation {
			const rid = "REG.rest-slice"
			cellsFld := c.LookupField("lisp.LVal.Cells")
			if cellsFld == nil {
				return []Obligation{anchorMissing(rid, "LVal.Cells")}
			}
			var obs []Obligation
			seen := map[ast.Node]bool{}
			for _, e := range c.Registry() {
				if e.Problem != "" {
					continue
				}
				req, restIdx, hasRest, inOpt := 0, 0, false, false
				for _, f := range e.Formals {
					switch {
					case f == "&rest":
						hasRest = true
					case f == "&optional":
						inOpt = true
					case strings.HasPrefix(f, "&"):
					default:
						if hasRest {
							continue
						}
						restIdx++
						if !inOpt {
							req++
						}
					}
				}
				if !hasRest {
					continue
				}
				body, u, lit, ok := c.BodyOf(e)
				if !ok || seen[body] {
					continue
				}
				seen[body] = true
				info := u.Pkg.TypesInfo
				args := argsParam(info, u, lit)
				if args == nil {
					continue
				}
				ord := &ordinal{}
				ast.Inspect(body, func(n ast.Node) bool {
					sl, ok := n.(*ast.SliceExpr)
					if !ok || sl.Low == nil || sl.High != nil || !isArgsCells(info, sl.X, args, cellsFld) {
						return true
					}
					k, okc := intConst(info, sl.Low)
					if !okc {
						return true
					}
					construct := ord.next(fmt.Sprintf("%s: args.Cells[%d:]", e.Name, k))
					if k >= req && k < restIdx {
						obs = append(obs, mkOb(c, rid, u, construct, sl, Violated, fmt.Sprintf("%s is registered with %d required and %d optional formals before &rest, and takes args.Cells[%d:] as the remaining arguments: when the optional is absent the binder pads it with (), which this slice hands on as data (for `error`: handlers receive one datum `()` for an error signalled with none)", e.Name, req, restIdx-req, k), true))
					} else {
						obs = append(obs, mkOb(c, rid, u, construct, sl, Proved, fmt.Sprintf("rest position %d, required %d", restIdx, req), false))
					}
					return true
				})
			}
			return obs
		}})
}

// REG.impl-unique — the registration tables are name → implementation maps
// written by hand, row after row of look-alike entries.  Two rows of one table
// naming the same Go function means one of the two names has the other's
// behaviour (s:is-true bound to the implementation of s:is-truthy accepts every
// truthy value).  No table does this on purpose today.
func init() {
	register(&Rule{ID: "REG.impl-unique", Floor: 200,
		Doc: "within each registration table of the interpreter and its standard library every declared implementation function is registered under exactly one name: no name silently has a sibling's behaviour",
		Run: func(c *Ctx) []Obligation {
			const rid = "REG.impl-unique"
			type key struct {
				table string
				fn    *types.Func
			}
			first := map[key]RegEntry{}
			var obs []Obligation
			for _, e := range c.Registry() {
				if e.Fn == nil || e.Problem != "" {
					continue
				}
				k := key{rel(e.Pkg.PkgPath) + "." + e.Table, originOf(e.Fn)}
				o := Obligation{Rule: rid, Func: k.table, Construct: "entry " + e.Name, Pos: c.Pos(e.Node.Pos()), Nontrivial: true}
				if prev, dup := first[k]; dup {
					o.Verdict = Violated
					o.Detail = "`" + e.Name + "` and `" + prev.Name + "` are both registered with " + FuncName(e.Fn) + ": one of the two names does what the other is documented to do"
				} else {
					first[k] = e
					o.Verdict, o.Detail, o.Nontrivial = Proved, "sole name of "+FuncName(e.Fn), false
				}
				obs = append(obs, o)
			}
			return obs
		}})
}
