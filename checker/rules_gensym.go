package main

import (
	"go/ast"
	"go/constant"
	"go/types"
	"regexp"
	"strings"
	"unicode"
)

// C07: gensym names.

func init() {
	register(&Rule{ID: "GENSYM.format", Floor: 3,
		Doc: "Runtime.GenSym returns fmt.Sprintf(constant format with exactly one integer verb and no precision/truncation, the atomic per-runtime counter): names are pairwise distinct; the format's literal prefix must contain a rune the lexer cannot read as part of a symbol, otherwise program text can spell a generated symbol",
		Run: func(c *Ctx) []Obligation {
			fn, fd, pkg := c.LookupFunc("lisp.(*Runtime).GenSym")
			ctr := c.LookupMethod("lisp.Runtime.gensym")
			if fn == nil || ctr == nil {
				return []Obligation{anchorMissing("GENSYM.format", "Runtime.GenSym / gensym")}
			}
			u := FuncUnit{fn, fd, pkg}
			info := pkg.TypesInfo
			var obs []Obligation
			// single return of Sprintf(const, r.gensym())
			var call *ast.CallExpr
			nret := 0
			ast.Inspect(fd.Body, func(n ast.Node) bool {
				if rs, ok := n.(*ast.ReturnStmt); ok {
					nret++
					if len(rs.Results) == 1 {
						call, _ = resolveLocal(info, fd.Body, rs.Results[0]).(*ast.CallExpr)
					}
				}
				return true
			})
			format := ""
			okShape := false
			if nret == 1 && call != nil && stdFuncCalled(info, call, "fmt", "Sprintf") && len(call.Args) == 2 {
				if tv, ok := info.Types[call.Args[0]]; ok && tv.Value != nil && tv.Value.Kind() == constant.String {
					format = constant.StringVal(tv.Value)
					if ce, ok := resolveLocal(info, fd.Body, call.Args[1]).(*ast.CallExpr); ok && originOf(Callee(info, ce)) == ctr {
						okShape = true
					}
				}
			}
			if !okShape {
				return []Obligation{mkOb(c, "GENSYM.format", u, "name construction", fd, Violated, "GenSym is not `return fmt.Sprintf(<constant>, r.gensym())`: distinctness of generated names is no longer evident (hand-rolled formatting can truncate or collide)", true)}
			}
			obs = append(obs, mkOb(c, "GENSYM.format", u, "name construction", call, Proved, "fmt.Sprintf(constant, per-runtime counter)", true))
			verbs := regexp.MustCompile(`%[-+# 0]*[0-9]*(\.[0-9]+)?[a-zA-Z]`).FindAllString(strings.ReplaceAll(format, "%%", ""), -1)
			if len(verbs) == 1 && !strings.Contains(verbs[0], ".") && strings.ContainsAny(verbs[0][len(verbs[0])-1:], "dxXob") {
				obs = append(obs, mkOb(c, "GENSYM.format", u, "injective verb", call, Proved, "exactly one integer verb without precision: distinct counters give distinct names", true))
			} else {
				obs = append(obs, mkOb(c, "GENSYM.format", u, "injective verb", call, Violated, "the format does not render the whole counter with exactly one integer verb", true))
			}
			// the counter itself: atomic Add on a per-Runtime field
			if cfn, cfd, cpkg := c.LookupFunc("lisp.(*Runtime).gensym"); cfn != nil {
				cu := FuncUnit{cfn, cfd, cpkg}
				okCtr := false
				ast.Inspect(cfd.Body, func(n ast.Node) bool {
					if ce, ok := n.(*ast.CallExpr); ok {
						if f := Callee(cpkg.TypesInfo, ce); f != nil && f.Name() == "Add" {
							if se, ok := ast.Unparen(ce.Fun).(*ast.SelectorExpr); ok {
								if fld := FieldOfSelector(cpkg.TypesInfo, se.X); fld != nil && fld == c.LookupField("lisp.Runtime.numsym") {
									if k, okc := intConst(cpkg.TypesInfo, ce.Args[0]); okc && k == 1 {
										okCtr = true
									}
								}
							}
						}
					}
					return true
				})
				if okCtr {
					obs = append(obs, mkOb(c, "GENSYM.format", cu, "counter", cfd, Proved, "per-runtime counter advanced by an atomic Add(1)", false))
				} else {
					obs = append(obs, mkOb(c, "GENSYM.format", cu, "counter", cfd, Violated, "gensym is not `numsym.Add(1)` on the runtime's own counter", true))
				}
			}
			// reader alphabet: the literal prefix of the format
			prefix := format
			if i := strings.Index(prefix, "%"); i >= 0 {
				prefix = prefix[:i]
			}
			misc := ""
			if lp := c.Pkg("parser/lexer"); lp != nil {
				if o, ok := c.LookupPkgObj("parser/lexer.miscWordRunes").(*types.Const); ok {
					misc = constant.StringVal(o.Val())
				}
			}
			if misc == "" {
				obs = append(obs, anchorMissing("GENSYM.format", "parser/lexer.miscWordRunes"))
				return obs
			}
			readable := prefix != ""
			for i, r := range prefix {
				okRune := unicode.IsLetter(r) || strings.ContainsRune(misc, r)
				if i == 0 && unicode.IsDigit(r) {
					okRune = false
				}
				if !okRune {
					readable = false
				}
			}
			if readable {
				obs = append(obs, mkOb(c, "GENSYM.format", u, "unreadable name", call, Violated,
					"generated names ("+format+") are ordinary symbols the reader accepts: a program that writes e.g. gen00000001 captures a generated symbol", true))
			} else {
				obs = append(obs, mkOb(c, "GENSYM.format", u, "unreadable name", call, Proved, "the name's prefix contains a rune outside the lexer's symbol alphabet", true))
			}
			return obs
		}})
}

// CTOR.funtype-siblings — C07 ("a macro call evaluates the expansion"): whether
// the evaluator treats an LFun as a function, a macro or a special operator is
// one field, FunType, set by the constructor.  Each kind has two constructors —
// X and XInPackage (the older one leaves the package empty) — and they must
// stamp the same FunType, or a host macro built through the older entry point
// receives its arguments unevaluated and its "expansion" is returned as a
// value, never evaluated.
func init() {
	register(&Rule{ID: "CTOR.funtype-siblings", Floor: 3,
		Doc: "for each pair of LFun constructors (Fun / FunInPackage, Macro / MacroInPackage, SpecialOp / SpecialOpInPackage) the FunType constant that reaches the constructed value — followed through forwarding calls and helper parameters — is the same for both members, and the three kinds are pairwise different",
		Run: func(c *Ctx) []Obligation {
			const rid = "CTOR.funtype-siblings"
			lp := c.Pkg("lisp")
			if lp == nil {
				return []Obligation{anchorMissing(rid, "package lisp")}
			}
			info := lp.TypesInfo
			decls := map[*types.Func]*ast.FuncDecl{}
			for _, u := range c.Funcs(func(p string) bool { return rel(p) == "lisp" }) {
				if u.Decl != nil {
					decls[u.Obj] = u.Decl
				}
			}
			// funTypeOf: the FunType constant name the function's result carries, given constant bindings for its parameters
			var funTypeOf func(f *types.Func, bind map[types.Object]string, depth int) (string, bool)
			funTypeOf = func(f *types.Func, bind map[types.Object]string, depth int) (string, bool) {
				d := decls[f]
				if d == nil || d.Body == nil || depth > 4 {
					return "", false
				}
				constOf := func(e ast.Expr) (string, bool) {
					if o := identObjOrSel(info, e); o != nil {
						if k, ok := o.(*types.Const); ok {
							return k.Name(), true
						}
						if v, ok := bind[o]; ok {
							return v, true
						}
					}
					return "", false
				}
				res, ok := "", false
				ast.Inspect(d.Body, func(n ast.Node) bool {
					rs, isRet := n.(*ast.ReturnStmt)
					if !isRet || len(rs.Results) != 1 {
						return true
					}
					r := ast.Unparen(rs.Results[0])
					if ue, isU := r.(*ast.UnaryExpr); isU {
						r = ast.Unparen(ue.X)
					}
					switch x := r.(type) {
					case *ast.CompositeLit:
						res, ok = "LFunNone", true // zero value when the key is absent
						for _, el := range x.Elts {
							if kv, isKV := el.(*ast.KeyValueExpr); isKV {
								if id, isID := kv.Key.(*ast.Ident); isID && id.Name == "FunType" {
									res, ok = constOf(kv.Value)
								}
							}
						}
					case *ast.CallExpr:
						g := originOf(Callee(info, x))
						gd := decls[g]
						if g == nil || gd == nil {
							return true
						}
						nb := map[types.Object]string{}
						i := 0
						if gd.Type.Params != nil {
							for _, fl := range gd.Type.Params.List {
								for _, nm := range fl.Names {
									if i < len(x.Args) {
										if v, isC := constOf(x.Args[i]); isC {
											nb[info.Defs[nm]] = v
										}
									}
									i++
								}
							}
						}
						res, ok = funTypeOf(g, nb, depth+1)
					}
					return true
				})
				return res, ok
			}
			var obs []Obligation
			kinds := map[string]string{}
			for _, pair := range [][2]string{{"Fun", "FunInPackage"}, {"Macro", "MacroInPackage"}, {"SpecialOp", "SpecialOpInPackage"}} {
				a, b := c.LookupPkgFunc("lisp."+pair[0]), c.LookupPkgFunc("lisp."+pair[1])
				if a == nil || b == nil {
					obs = append(obs, anchorMissing(rid, "lisp."+pair[0]+" / lisp."+pair[1]))
					continue
				}
				ta, oka := funTypeOf(a, nil, 0)
				tb, okb := funTypeOf(b, nil, 0)
				u := FuncUnit{a, decls[a], lp}
				construct := pair[0] + " = " + pair[1]
				switch {
				case !oka || !okb:
					obs = append(obs, mkOb(c, rid, u, construct, decls[a], Undecided, "the FunType constant of one of the constructors could not be followed", true))
				case ta != tb:
					obs = append(obs, mkOb(c, rid, u, construct, decls[a], Violated, "lisp."+pair[0]+" builds an LFun with FunType "+ta+" but lisp."+pair[1]+" builds one with "+tb+": a value made through the older constructor is evaluated as a different kind of operator (a macro's expansion is not evaluated, or a function's arguments are not)", true))
				default:
					if prev, dup := kinds[ta]; dup {
						obs = append(obs, mkOb(c, rid, u, construct, decls[a], Violated, "both "+prev+" and "+pair[0]+" constructors stamp "+ta, true))
					} else {
						kinds[ta] = pair[0]
						obs = append(obs, mkOb(c, rid, u, construct, decls[a], Proved, "both stamp "+ta, true))
					}
				}
			}
			return obs
		}})
}
