package main

import (
	"go/ast"
	"go/constant"
	"go/types"
	"regexp"
	"strings"
	"unicode"
)

// C07: gensym names.

func init() {
	register(&Rule{ID: "GENSYM.format", Floor: 3,
		Doc: "Runtime.GenSym returns fmt.Sprintf(constant format with exactly one integer verb and no precision/truncation, the atomic per-runtime counter): names are pairwise distinct; the format's literal prefix must contain a rune the lexer cannot read as part of a symbol, otherwise program text can spell a generated symbol",
		Run: func(c *Ctx) []Obligation {
			fn, fd, pkg := c.LookupFunc("lisp.(*Runtime).GenSym")
			ctr := c.LookupMethod("lisp.Runtime.gensym")
			if fn == nil || ctr == nil {
				return []Obligation{anchorMissing("GENSYM.format", "Runtime.GenSym / gensym")}
			}
			u := FuncUnit{fn, fd, pkg}
			info := pkg.TypesInfo
			var obs []Obligation
			// single return of Sprintf(const, r.gensym())
			var call *ast.CallExpr
			nret := 0
			ast.Inspect(fd.Body, func(n ast.Node) bool {
				if rs, ok := n.(*ast.ReturnStmt); ok {
					nret++
					if len(rs.Results) == 1 {
						call, _ = ast.Unparen(rs.Results[0]).(*ast.CallExpr)
					}
				}
				return true
			})
			format := ""
			okShape := false
			if nret == 1 && call != nil && stdFuncCalled(info, call, "fmt", "Sprintf") && len(call.Args) == 2 {
				if tv, ok := info.Types[call.Args[0]]; ok && tv.Value != nil && tv.Value.Kind() == constant.String {
					format = constant.StringVal(tv.Value)
					if ce, ok := ast.Unparen(call.Args[1]).(*ast.CallExpr); ok && originOf(Callee(info, ce)) == ctr {
						okShape = true
					}
				}
			}
			if !okShape {
				return []Obligation{mkOb(c, "GENSYM.format", u, "name construction", fd, Violated, "GenSym is not `return fmt.Sprintf(<constant>, r.gensym())`: distinctness of generated names is no longer evident (hand-rolled formatting can truncate or collide)", true)}
			}
			obs = append(obs, mkOb(c, "GENSYM.format", u, "name construction", call, Proved, "fmt.Sprintf(constant, per-runtime counter)", true))
			verbs := regexp.MustCompile(`%[-+# 0]*[0-9]*(\.[0-9]+)?[a-zA-Z]`).FindAllString(strings.ReplaceAll(format, "%%", ""), -1)
			if len(verbs) == 1 && !strings.Contains(verbs[0], ".") && strings.ContainsAny(verbs[0][len(verbs[0])-1:], "dxXob") {
				obs = append(obs, mkOb(c, "GENSYM.format", u, "injective verb", call, Proved, "exactly one integer verb without precision: distinct counters give distinct names", true))
			} else {
				obs = append(obs, mkOb(c, "GENSYM.format", u, "injective verb", call, Violated, "the format does not render the whole counter with exactly one integer verb", true))
			}
			// the counter itself: atomic Add on a per-Runtime field
			if cfn, cfd, cpkg := c.LookupFunc("lisp.(*Runtime).gensym"); cfn != nil {
				cu := FuncUnit{cfn, cfd, cpkg}
				okCtr := false
				ast.Inspect(cfd.Body, func(n ast.Node) bool {
					if ce, ok := n.(*ast.CallExpr); ok {
						if f := Callee(cpkg.TypesInfo, ce); f != nil && f.Name() == "Add" {
							if se, ok := ast.Unparen(ce.Fun).(*ast.SelectorExpr); ok {
								if fld := FieldOfSelector(cpkg.TypesInfo, se.X); fld != nil && fld.Name() == "numsym" {
									if k, okc := intConst(cpkg.TypesInfo, ce.Args[0]); okc && k == 1 {
										okCtr = true
									}
								}
							}
						}
					}
					return true
				})
				if okCtr {
					obs = append(obs, mkOb(c, "GENSYM.format", cu, "counter", cfd, Proved, "per-runtime counter advanced by an atomic Add(1)", false))
				} else {
					obs = append(obs, mkOb(c, "GENSYM.format", cu, "counter", cfd, Violated, "gensym is not `numsym.Add(1)` on the runtime's own counter", true))
				}
			}
			// reader alphabet: the literal prefix of the format
			prefix := format
			if i := strings.Index(prefix, "%"); i >= 0 {
				prefix = prefix[:i]
			}
			misc := ""
			if lp := c.Pkg("parser/lexer"); lp != nil {
				if o, ok := lp.Types.Scope().Lookup("miscWordRunes").(*types.Const); ok {
					misc = constant.StringVal(o.Val())
				}
			}
			if misc == "" {
				obs = append(obs, anchorMissing("GENSYM.format", "parser/lexer.miscWordRunes"))
				return obs
			}
			readable := prefix != ""
			for i, r := range prefix {
				okRune := unicode.IsLetter(r) || strings.ContainsRune(misc, r)
				if i == 0 && unicode.IsDigit(r) {
					okRune = false
				}
				if !okRune {
					readable = false
				}
			}
			if readable {
				obs = append(obs, mkOb(c, "GENSYM.format", u, "unreadable name", call, Violated,
					"generated names ("+format+") are ordinary symbols the reader accepts: a program that writes e.g. gen00000001 captures a generated symbol", true))
			} else {
				obs = append(obs, mkOb(c, "GENSYM.format", u, "unreadable name", call, Proved, "the name's prefix contains a rune outside the lexer's symbol alphabet", true))
			}
			return obs
		}})
}
