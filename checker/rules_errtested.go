package main

import (
	"go/ast"
	"go/token"
	"go/types"
	"golang.org/x/tools/go/cfg"
)

// ERR.eval-result-tested — C01 / C06 ("an error raised while evaluating a
// sub-form is the error the enclosing form returns"): the evaluator hands
// errors back as VALUES.  A function that evaluates something and then returns
// without having looked at whether the value is an error has replaced that
// error by whatever it returns instead — typically a second, misleading error
// ("handler not a function: error") or a normal value.  ERR.same decides what
// is returned on the error edge of a test; this rule decides that the test
// exists on every path that drops the value.
func init() {
	register(&Rule{ID: "ERR.eval-result-tested", Floor: 40,
		Doc: "in the kernel, a local that receives the result of an evaluator call (Eval, FunCall, call, Load…) is, on every path from that assignment to a return statement that does not hand the local on (return it, pass it to a call, store it), compared with LError — or with another type constant on the edge where it equals it: the result of evaluating a sub-form is never dropped unseen",
		Run: func(c *Ctx) []Obligation {
			const rid = "ERR.eval-result-tested"
			lerr, typeFld := c.lerrorConst()
			if lerr == nil || typeFld == nil {
				return []Obligation{anchorMissing(rid, "LError/LVal.Type")}
			}
			evalLike := c.evalLikeSet()
			var obs []Obligation
			for _, u := range c.Funcs(isKernel) {
				if u.Decl == nil || u.Decl.Body == nil {
					continue
				}
				info := u.Pkg.TypesInfo
				for _, bu := range bodiesOf(u.Decl) {
					var fc *FCFG
					ord := &ordinal{}
					var body ast.Node = u.Decl.Body
					if bu.Lit != nil {
						body = bu.Lit.Body
					}
					ast.Inspect(body, func(n ast.Node) bool {
						if lit, ok := n.(*ast.FuncLit); ok && lit != bu.Lit {
							return false
						}
						as, ok := n.(*ast.AssignStmt)
						if !ok || len(as.Lhs) != 1 || len(as.Rhs) != 1 {
							return true
						}
						ce, ok := ast.Unparen(as.Rhs[0]).(*ast.CallExpr)
						if !ok {
							return true
						}
						f := originOf(Callee(info, ce))
						if f == nil || !evalLike[f] {
							return true
						}
						v := identObj(info, as.Lhs[0])
						if v == nil || v.Name() == "_" {
							return true
						}
						if fc == nil {
							fc = c.cfgOf(u, bu.Lit)
						}
						loc, ok := fc.Locate(as)
						if !ok {
							return true
						}
						construct := ord.next("result of " + shortName(f))
						if bu.Lit != nil {
							construct = "literal: " + construct
						}
						// edges on which v's type is known to be / not to be LError
						cls := func(e ast.Expr) (string, bool) {
							be, ok := ast.Unparen(e).(*ast.BinaryExpr)
							if !ok || (be.Op != token.EQL && be.Op != token.NEQ) {
								return "", false
							}
							for _, pr := range [][2]ast.Expr{{be.X, be.Y}, {be.Y, be.X}} {
								se, ok := ast.Unparen(pr[0]).(*ast.SelectorExpr)
								if !ok || FieldOfSelector(info, se) != typeFld || identObj(info, se.X) != v {
									continue
								}
								k := identObjOrSel(info, pr[1])
								if k == nil {
									continue
								}
								if k == lerr {
									return "err", be.Op == token.NEQ
								}
								if _, isConst := k.(*types.Const); isConst {
									return "other", be.Op == token.NEQ
								}
							}
							return "", false
						}
						decided := fc.edgesEntailing(cls, func(m map[string]bool) bool {
							return m["$has:err"] || m["other"]
						})
						// on the edge where v is nil there is no error value to lose
						decided = append(decided, fc.nilEdges(v, true)...)
						// every edge of a condition that mentions `v.Type == LError` decides it one way or
						// the other; `v.Type == K` decides it on its true edge only
						isCut := func(b *cfg.Block, k int) bool {
							for _, e := range decided {
								if e.B == b && e.K == k {
									return true
								}
							}
							return false
						}
						mentions := func(n ast.Node) bool {
							found := false
							ast.Inspect(n, func(m ast.Node) bool {
								if id, ok := m.(*ast.Ident); ok && info.Uses[id] == v {
									found = true
								}
								return !found
							})
							return found
						}
						badLoc, bad := fc.ForwardSearch(loc,
							func(l Loc, m ast.Node) searchVerdict {
								switch x := m.(type) {
								case *ast.ReturnStmt:
									// the value itself is returned, or handed whole to what is returned
									whole := false
									for _, r := range x.Results {
										if identObj(info, r) == v {
											whole = true
										}
										ast.Inspect(r, func(k ast.Node) bool {
											if y, ok := k.(*ast.CallExpr); ok {
												for _, a := range y.Args {
													if identObj(info, a) == v {
														whole = true
													}
												}
											}
											return !whole
										})
									}
									if whole {
										return svStop
									}
									// a bare return of a function with named results, or a return of other values
									return svBad
								case *ast.AssignStmt:
									for _, lh := range x.Lhs {
										if identObj(info, lh) == v {
											// reassigned: the old value is gone — only fine if it was looked at or handed on
											for _, r := range x.Rhs {
												if mentions(r) {
													return svStop
												}
											}
											return svBad
										}
									}
								}
								// handed on: argument of a call, element of a composite, stored somewhere, sent
								handed := false
								ast.Inspect(m, func(k ast.Node) bool {
									switch y := k.(type) {
									case *ast.CallExpr:
										for _, a := range y.Args {
											if identObj(info, a) == v {
												handed = true
											}
										}
									case *ast.CompositeLit:
										for _, el := range y.Elts {
											if kv, ok := el.(*ast.KeyValueExpr); ok {
												el = kv.Value
											}
											if identObj(info, el) == v {
												handed = true
											}
										}
									case *ast.AssignStmt:
										for _, r := range y.Rhs {
											if identObj(info, r) == v {
												handed = true
											}
										}
									}
									return !handed
								})
								if handed {
									return svStop
								}
								return svContinue
							},
							func(b *cfg.Block, k int) bool { return !isCut(b, k) }, nil)
						if bad {
							var at ast.Node = as
							if badLoc.B != nil && badLoc.I >= 0 && badLoc.I < len(badLoc.B.Nodes) {
								at = badLoc.B.Nodes[badLoc.I]
							}
							obs = append(obs, mkOb(c, rid, u, construct, at, Undecided, "the value `"+v.Name()+"` returned by "+f.Name()+" can be dropped here without having been compared with LError: if evaluating the sub-form failed, that error is replaced by what this path returns", true))
						} else {
							obs = append(obs, mkOb(c, rid, u, construct, as, Proved, "tested for LError, returned or handed on along every path", false))
						}
						return true
					})
				}
			}
			return obs
		}})
}
