package main

import (
	"strings"
	"go/ast"
	"go/token"
	"go/types"
)

// OVERFLOW.guard-arith — a bound check must not be computed with arithmetic
// that can wrap around on a lisp-supplied integer: `len(s)*n > max` passes for
// huge n.  The repository's idiom is to divide the limit instead.

func init() {
	register(&Rule{ID: "OVERFLOW.guard-arith", Floor: 0,
		Doc: "no ordered comparison in the kernel has an operand computed by `*`, `+` or `<<` from a lisp integer (LVal.Int or a local assigned from it): such a bound check wraps around and passes for huge values",
		Run: func(c *Ctx) []Obligation {
			intF := c.LookupField("lisp.LVal.Int")
			if intF == nil {
				return []Obligation{anchorMissing("OVERFLOW.guard-arith", "LVal.Int")}
			}
			var obs []Obligation
			nchecked := 0
			for _, u := range c.Funcs(isKernel) {
				info := u.Pkg.TypesInfo
				fromLVal := map[types.Object]bool{}
				mentions := func(e ast.Expr) bool {
					found := false
					ast.Inspect(e, func(n ast.Node) bool {
						if ce, ok := n.(*ast.CallExpr); ok {
							if id, ok := ast.Unparen(ce.Fun).(*ast.Ident); ok {
								if _, isB := info.Uses[id].(*types.Builtin); isB && (id.Name == "len" || id.Name == "cap") {
									return false
								}
							}
						}
						if se, ok := n.(*ast.SelectorExpr); ok && FieldOfSelector(info, se) == intF {
							found = true
						}
						if id, ok := n.(*ast.Ident); ok && fromLVal[info.Uses[id]] {
							found = true
						}
						return !found
					})
					return found
				}
				for pass := 0; pass < 3; pass++ {
					ast.Inspect(u.Decl.Body, func(n ast.Node) bool {
						as, ok := n.(*ast.AssignStmt)
						if !ok || len(as.Lhs) != len(as.Rhs) {
							return true
						}
						for i, l := range as.Lhs {
							o := identObj(info, l)
							if o == nil {
								continue
							}
							if v, ok := o.(*types.Var); ok {
								if b, isBasic := v.Type().Underlying().(*types.Basic); isBasic && b.Info()&types.IsInteger != 0 && mentions(as.Rhs[i]) {
									fromLVal[o] = true
								}
							}
						}
						return true
					})
				}
				ord := &ordinal{}
				// the same arithmetic handed to a limit check of the module (`CheckAlloc(len(s) * n.Int)`): the
				// comparison with the limit happens inside the callee, on a number that already wrapped
				ast.Inspect(u.Decl.Body, func(n ast.Node) bool {
					ce, ok := n.(*ast.CallExpr)
					if !ok {
						return true
					}
					f := originOf(Callee(info, ce))
					if f == nil || f.Pkg() == nil || !strings.HasPrefix(f.Pkg().Path(), modPath) || !strings.HasPrefix(f.Name(), "Check") {
						return true
					}
					for _, a := range ce.Args {
						ar, ok := ast.Unparen(a).(*ast.BinaryExpr)
						if !ok || (ar.Op != token.MUL && ar.Op != token.SHL) {
							continue
						}
						tv, ok := info.Types[ar]
						if !ok || tv.Value != nil {
							continue
						}
						if b, isBasic := tv.Type.Underlying().(*types.Basic); !isBasic || b.Info()&types.IsInteger == 0 {
							continue
						}
						if mentions(ar.X) || mentions(ar.Y) {
							obs = append(obs, mkOb(c, "OVERFLOW.guard-arith", u, ord.next("limit check on "+types.ExprString(ar)), ce, Violated,
								"the size handed to "+f.Name()+" is computed with wrapping arithmetic on a lisp-supplied integer: for a huge count the product wraps to a small or negative number, the limit check passes, and the operation then panics in the Go runtime or allocates without bound", true))
						}
					}
					return true
				})
				ast.Inspect(u.Decl.Body, func(n ast.Node) bool {
					cmp, ok := n.(*ast.BinaryExpr)
					if !ok {
						return true
					}
					switch cmp.Op {
					case token.LSS, token.LEQ, token.GTR, token.GEQ:
					default:
						return true
					}
					nchecked++
					sides := []ast.Expr{cmp.X, cmp.Y}
					// a compared local that names the arithmetic (`size := int64(len(s)) * int64(n.Int); size > max`,
					// also through a conversion of the local)
					for _, side := range []ast.Expr{cmp.X, cmp.Y} {
						x := ast.Unparen(side)
						if ce, ok := x.(*ast.CallExpr); ok && len(ce.Args) == 1 {
							if tv, ok := info.Types[ce.Fun]; ok && tv.IsType() {
								x = ast.Unparen(ce.Args[0])
							}
						}
						if d := soleDef(info, u.Decl.Body, x); d != nil {
							sides = append(sides, d)
						}
					}
					for _, side := range sides {
						ast.Inspect(side, func(m ast.Node) bool {
							ar, ok := m.(*ast.BinaryExpr)
							if !ok {
								return true
							}
							switch ar.Op {
							case token.MUL, token.SHL:
							case token.ADD:
								// x+1 style offsets by constants are everywhere and only wrap at MaxInt; flag only var+var
								if _, isConst := intConst(info, ar.X); isConst {
									return true
								}
								if _, isConst := intConst(info, ar.Y); isConst {
									return true
								}
							default:
								return true
							}
							tv, ok := info.Types[ar]
							if !ok {
								return true
							}
							if b, isBasic := tv.Type.Underlying().(*types.Basic); !isBasic || b.Info()&types.IsInteger == 0 {
								return true
							}
							if tv.Value != nil {
								return true
							}
							if mentions(ar.X) || mentions(ar.Y) {
								obs = append(obs, mkOb(c, "OVERFLOW.guard-arith", u, ord.next("comparison on "+types.ExprString(ar)), cmp, Violated,
									"a bound check is computed with wrapping arithmetic on a lisp-supplied integer: for huge values the product/sum wraps and the check passes (the result is then a Go panic or an unbounded allocation)", true))
							}
							return true
						})
					}
					return true
				})
			}
			if len(obs) == 0 {
				obs = append(obs, Obligation{Rule: "OVERFLOW.guard-arith", Func: "-", Construct: "all ordered comparisons in the kernel", Verdict: Proved,
					Detail: "no ordered comparison with wrapping arithmetic on a lisp integer among those examined", Nontrivial: false})
			}
			_ = nchecked
			return obs
		}})
}
