package main

import (
	"go/ast"
	"go/constant"
	"go/token"
	"go/types"
	"strings"

	"golang.org/x/tools/go/cfg"
)

// C08 — packages: constants guard, keyword refusal, complete imports.

func constStringVal(info *types.Info, e ast.Expr) (string, bool) {
	tv, ok := info.Types[e]
	if !ok || tv.Value == nil || tv.Value.Kind() != constant.String {
		return "", false
	}
	return constant.StringVal(tv.Value), true
}

// constGuardEdges: edges that entail `key is neither "true" nor "false"`.
func constGuardEdges(c *Ctx, fc *FCFG) []cfgEdge { return constGuardEdgesFor(c, fc, "") }

// constGuardEdgesFor: edges that entail the key is not the named constant ("isTrue" / "isFalse"), or —
// with which == "" — neither of them at once.  A guard written as two tests in a row (`case k.Str ==
// TrueSymbol, k.Str == FalseSymbol:` in a tagless switch) has no single edge for the conjunction; the
// store is then shown unreachable without an edge of EACH kind.
func constGuardEdgesFor(c *Ctx, fc *FCFG, which string) []cfgEdge {
	strFld := c.LookupField("lisp.LVal.Str")
	info := fc.Info
	cls := func(e ast.Expr) (string, bool) {
		be, ok := ast.Unparen(e).(*ast.BinaryExpr)
		if !ok || (be.Op != token.EQL && be.Op != token.NEQ) {
			return "", false
		}
		for _, pair := range [][2]ast.Expr{{be.X, be.Y}, {be.Y, be.X}} {
			se, ok := ast.Unparen(pair[0]).(*ast.SelectorExpr)
			if !ok || FieldOfSelector(info, se) != strFld {
				continue
			}
			if s, ok := constStringVal(info, pair[1]); ok {
				switch s {
				case "true":
					return "isTrue", be.Op == token.NEQ
				case "false":
					return "isFalse", be.Op == token.NEQ
				}
			}
		}
		return "", false
	}
	return fc.edgesEntailing(cls, func(v map[string]bool) bool {
		nt := v["$has:isTrue"] && !v["isTrue"]
		nf := v["$has:isFalse"] && !v["isFalse"]
		switch which {
		case "isTrue":
			return nt
		case "isFalse":
			return nf
		}
		return nt && nf
	})
}

func init() {
	register(&Rule{ID: "CONST.guard", Floor: 4,
		Doc: "every store of a binding (LEnv.scope element, call of Package.put) is reachable only through an edge entailing `name != \"true\" and name != \"false\"`, in the writer or at every call site of the writer; copying an existing scope is exempt",
		Run: func(c *Ctx) []Obligation {
			scope := c.LookupField("lisp.LEnv.scope")
			put := c.LookupMethod("lisp.Package.put")
			if scope == nil || put == nil {
				return []Obligation{anchorMissing("CONST.guard", "LEnv.scope / Package.put")}
			}
			type site struct {
				u    FuncUnit
				node ast.Node
				what string
			}
			var sites []site
			for _, w := range c.censusFor(nil).WritersOf(scope) {
				if w.Kind == "elem" {
					sites = append(sites, site{w.Unit, w.Node, "store scope[name]"})
				}
			}
			ps, _ := c.CallsTo(nil, put)
			for _, s := range ps {
				sites = append(sites, site{s.Unit, s.Call, "call Package.put"})
			}
			guardedIn := func(u FuncUnit, n ast.Node) bool {
				fc := c.cfgOf(u, nil)
				loc, ok := fc.Locate(n)
				if !ok {
					return false
				}
				edges := constGuardEdges(c, fc)
				// ... or across the nil result of a key-checking helper that makes the comparison
				edges = append(edges, c.nilResultGuardEdges(fc, func(h *FCFG) []cfgEdge { return constGuardEdges(c, h) })...)
				if len(edges) > 0 && !fc.reachableAvoiding(loc.B, edges) {
					return true
				}
				// two tests in a row: every path passes an edge refusing `true` and an edge refusing `false`
				for _, which := range []string{"isTrue", "isFalse"} {
					w := which
					es := constGuardEdgesFor(c, fc, w)
					es = append(es, edges...)
					es = append(es, c.nilResultGuardEdges(fc, func(h *FCFG) []cfgEdge { return constGuardEdgesFor(c, h, w) })...)
					if len(es) == 0 || fc.reachableAvoiding(loc.B, es) {
						return false
					}
				}
				return true
			}
			var obs []Obligation
			ord := map[string]*ordinal{}
			for _, s := range sites {
				name := s.u.Name()
				if ord[name] == nil {
					ord[name] = &ordinal{}
				}
				construct := ord[name].next(s.what)
				if name == "lisp.(*LEnv).Copy" {
					obs = append(obs, mkOb(c, "CONST.guard", s.u, construct, s.node, Proved, "copies bindings that already passed the guard into a fresh scope map", false))
					continue
				}
				if guardedIn(s.u, s.node) {
					obs = append(obs, mkOb(c, "CONST.guard", s.u, construct, s.node, Proved, "reachable only on an edge entailing the name is neither true nor false", true))
					continue
				}
				// lift to callers
				callers, refs := c.CallsTo(nil, s.u.Obj)
				allOK := len(callers) > 0 && len(refs) == 0
				for _, cs := range callers {
					if !guardedIn(cs.Unit, cs.Call) {
						allOK = false
					}
				}
				if allOK {
					obs = append(obs, mkOb(c, "CONST.guard", s.u, construct, s.node, Proved, "every call site of this writer is behind the true/false guard", true))
				} else {
					obs = append(obs, mkOb(c, "CONST.guard", s.u, construct, s.node, Violated, "a binding can be stored without the name having been compared against the constants true/false (neither here nor at every caller): true or false could be rebound", true))
				}
			}
			return obs
		}})

	register(&Rule{ID: "PKG.keyword-refused", Floor: 1,
		Doc: "in PutGlobal the binding of a qualified name is reachable only when the namespace part is non-empty (a keyword `:name` is refused with an error before any Package.Put)",
		Run: func(c *Ctx) []Obligation {
			fn, fd, pkg := c.LookupFunc("lisp.(*LEnv).PutGlobal")
			pput := c.LookupMethod("lisp.Package.Put")
			if fn == nil || pput == nil {
				return []Obligation{anchorMissing("PKG.keyword-refused", "PutGlobal / Package.Put")}
			}
			u := FuncUnit{fn, fd, pkg}
			info := pkg.TypesInfo
			fc := c.cfgOf(u, nil)
			// edges implying <something> == "" / != ""
			empty := fc.edgesImplying(func(a LitAtom) bool {
				be, ok := ast.Unparen(a.E).(*ast.BinaryExpr)
				if !ok || (be.Op != token.EQL && be.Op != token.NEQ) {
					return false
				}
				s, ok := constStringVal(info, be.Y)
				if !ok || s != "" {
					return false
				}
				return (be.Op == token.EQL) == a.Positive
			})
			nonEmpty := fc.edgesImplying(func(a LitAtom) bool {
				be, ok := ast.Unparen(a.E).(*ast.BinaryExpr)
				if !ok || (be.Op != token.EQL && be.Op != token.NEQ) {
					return false
				}
				s, ok := constStringVal(info, be.Y)
				if !ok || s != "" {
					return false
				}
				return (be.Op == token.EQL) != a.Positive
			})
			var obs []Obligation
			okRefuse := len(empty) > 0
			for _, e := range empty {
				if !fc.edgeReturns(e, nil) {
					okRefuse = false
				}
			}
			// The split of the symbol, the keyword test and the package lookup may live in a RESOLVER that
			// PutGlobal shares with GetGlobal: `table, key, lerr := env.globalTarget(k)`.  The argument is
			// then made in two halves.  Inside the resolver: the edge `namespace == ""` returns no package
			// (nil in the package position), and every return that does hand back a package is either behind
			// `namespace != ""` or hands back the current package (the unqualified path).  In PutGlobal: the
			// edge `<package result> == nil` returns an error, and Package.Put on that result is reachable
			// only where it is not nil.
			if len(empty) == 0 {
				if ok, put := keywordRefusedViaResolver(c, u, fc, pput); ok {
					obs = append(obs, mkOb(c, "PKG.keyword-refused", u, "empty namespace refused", fd, Proved, "the resolver answers a keyword with no package, and PutGlobal refuses when it gets none", true))
					obs = append(obs, mkOb(c, "PKG.keyword-refused", u, "qualified binding", put, Proved, "Package.Put runs on the resolver's package only where it is not nil; the resolver hands back a looked-up package only behind namespace != \"\"", true))
					return obs
				}
			}
			if okRefuse {
				obs = append(obs, mkOb(c, "PKG.keyword-refused", u, "empty namespace refused", fd, Proved, "the edge `namespace == \"\"` returns an error", true))
			} else {
				obs = append(obs, mkOb(c, "PKG.keyword-refused", u, "empty namespace refused", fd, Violated, "PutGlobal no longer refuses a name whose namespace is empty (a keyword could be bound)", true))
			}
			// qualified Put: the call whose receiver is a local package variable looked up by namespace
			n := 0
			for _, lc := range fc.findCalls(pput) {
				se, ok := ast.Unparen(lc.Call.Fun).(*ast.SelectorExpr)
				if !ok {
					continue
				}
				if o := identObj(info, se.X); o == nil {
					continue // env.Runtime.Package.Put: the unqualified path
				}
				n++
				// one Put may serve the qualified and the unqualified path (`target, key := current, k; if
				// qualified { …target = looked-up… }; target.Put(key, v)`): what matters is that it cannot be
				// reached once the namespace was found empty
				afterEmpty := false
				for _, e := range empty {
					if fc.reachableFromAvoidingBlocks(e.B.Succs[e.K], lc.Loc.B, nil) {
						afterEmpty = true
					}
				}
				if len(nonEmpty) > 0 && !fc.reachableAvoiding(lc.Loc.B, nonEmpty) {
					obs = append(obs, mkOb(c, "PKG.keyword-refused", u, "qualified binding", lc.Call, Proved, "reachable only on an edge entailing namespace != \"\"", true))
				} else if len(empty) > 0 && !afterEmpty {
					obs = append(obs, mkOb(c, "PKG.keyword-refused", u, "qualified binding", lc.Call, Proved, "not reachable from the edge on which the namespace is empty (that edge returns)", true))
				} else {
					obs = append(obs, mkOb(c, "PKG.keyword-refused", u, "qualified binding", lc.Call, Violated, "the qualified binding is reachable with an empty namespace", true))
				}
			}
			if n == 0 {
				obs = append(obs, mkOb(c, "PKG.keyword-refused", u, "qualified binding", fd, Undecided, "no qualified Package.Put found", false))
			}
			return obs
		}})

	register(&Rule{ID: "PKG.use-all-exports", Floor: 1,
		Doc: "in UsePackage every turn of the loop over the package's export list either returns an error or binds that name with the value looked up for it: no export is skipped",
		Run: func(c *Ctx) []Obligation {
			fn, fd, pkg := c.LookupFunc("lisp.(*LEnv).UsePackage")
			pput := c.LookupMethod("lisp.Package.Put")
			ext := c.LookupField("lisp.Package.externals")
			if fn == nil || pput == nil || ext == nil {
				return []Obligation{anchorMissing("PKG.use-all-exports", "UsePackage / Package.Put / externals")}
			}
			u := FuncUnit{fn, fd, pkg}
			info := pkg.TypesInfo
			fc := c.cfgOf(u, nil)
			var loop *cfg.Block
			var rng ast.Stmt
			for _, sl := range fc.loopsOver(func(e ast.Expr) bool {
				// the export list itself or a local defined once as it (`exported := src.externals`)
				return FieldOfSelector(info, e) == ext || FieldOfSelector(info, resolveLocal(info, fd.Body, e)) == ext
			}) {
				// the binding loop: the one whose body stores (a look-up-only
				// loop in front of it is PKG.use-atomic's business)
				binds := false
				for _, ce := range callsIn(sl.Body, false) {
					if originOf(Callee(info, ce)) == pput {
						binds = true
					}
				}
				if binds || loop == nil {
					loop, rng = sl.Head, sl.Stmt
				}
			}
			if loop == nil {
				return []Obligation{mkOb(c, "PKG.use-all-exports", u, "export loop", fd, Violated, "UsePackage no longer ranges over the package's export list", true)}
			}
			puts := fc.blocksWith(func(n ast.Node) bool { return nodeCalls(info, n, pput) != nil })
			rest := fc.cyclicSCCs(func(b *cfg.Block) bool { return puts[b] })
			still := false
			for _, comp := range rest {
				for _, b := range comp {
					if b == loop {
						still = true
					}
				}
			}
			var obs []Obligation
			if len(puts) > 0 && !still {
				obs = append(obs, mkOb(c, "PKG.use-all-exports", u, "export loop", rng, Proved, "every cycle of the loop passes the Package.Put call (the only other exits return)", true))
			} else {
				obs = append(obs, mkOb(c, "PKG.use-all-exports", u, "export loop", rng, Violated, "an exported name can be skipped (a loop turn that neither binds it nor returns): use-package would not copy exactly the exported bindings", true))
			}
			// ... the value bound is one that was looked up DURING THIS CALL: `vals[i]` of a slice this call
			// allocated and filled (in place or through a helper that hands back only slices it made), or
			// the result of Package.Get itself — never a slice kept in a field between calls (a memo of
			// the language package's exports goes stale as soon as an exported name is rebound or the
			// export list is re-sorted)
			for _, lc := range fc.findCalls(pput) {
				if len(lc.Call.Args) != 2 {
					continue
				}
				val := ast.Unparen(lc.Call.Args[1])
				freshLookup := false
				why := ""
				if ie, ok := val.(*ast.IndexExpr); ok {
					oa := newOwnAnalysis(c, u)
					pv := oa.sliceProvOf(ie.X, 0)
					if pv.fresh && !pv.borrowed && !pv.unknown && !pv.otherField {
						freshLookup = true
						why = "`" + types.ExprString(ie.X) + "` is a slice allocated during this call"
					}
				} else if ce, ok := val.(*ast.CallExpr); ok {
					if f := originOf(Callee(info, ce)); f != nil && f.Name() == "Get" {
						freshLookup = true
						why = "the value is the result of the lookup itself"
					}
				} else if d := soleDef(info, fd.Body, val); d != nil {
					if ce, ok := ast.Unparen(d).(*ast.CallExpr); ok {
						if f := originOf(Callee(info, ce)); f != nil && f.Name() == "Get" {
							freshLookup = true
							why = "the value is the result of the lookup itself"
						}
					}
				}
				if freshLookup {
					obs = append(obs, mkOb(c, "PKG.use-all-exports", u, "bound value looked up in this call", lc.Call, Proved, why, true))
				} else {
					obs = append(obs, mkOb(c, "PKG.use-all-exports", u, "bound value looked up in this call", lc.Call, Violated, "the value bound for an exported name (`"+types.ExprString(val)+"`) may come from storage kept between calls instead of a lookup made by this use-package: after an exported name of the used package is rebound — or its export list re-sorted — new packages and later use-package calls receive the old values", true))
				}
			}
			// ... and no path answers `done` without having gone through the binding loop: use-package
			// copies the exporter's bindings as they are NOW, every time it is called — a shortcut in
			// front of the loop (a memo of what was imported before, a generation counter) leaves a name
			// the importing package rebound since, or a binding the exporter changed, as it was
			for _, b := range fc.G.Blocks {
				if !fc.Live(b) || b == loop {
					continue
				}
				for _, n := range b.Nodes {
					rs, ok := n.(*ast.ReturnStmt)
					if !ok || len(rs.Results) != 1 || c.isErrorValueCall(info, rs.Results[0], 0) {
						continue
					}
					if ro := identObj(info, rs.Results[0]); ro != nil {
						// `return v` behind `v.Type == LError`: an error handed on
						tf := c.LookupField("lisp.LVal.Type")
						lerr := c.Pkg("lisp").Types.Scope().Lookup("LError")
						cut := fc.edgesEntailing(func(e ast.Expr) (string, bool) {
							be, ok := ast.Unparen(e).(*ast.BinaryExpr)
							if !ok || (be.Op != token.EQL && be.Op != token.NEQ) {
								return "", false
							}
							se, ok := ast.Unparen(be.X).(*ast.SelectorExpr)
							if !ok || FieldOfSelector(info, se) != tf || identObj(info, se.X) != ro || identObj(info, be.Y) != lerr {
								return "", false
							}
							return "iserr", be.Op == token.NEQ
						}, func(v map[string]bool) bool { return v["$has:iserr"] && v["iserr"] })
						if len(cut) > 0 && !fc.reachableAvoiding(b, cut) {
							continue
						}
					}
					if fc.reachableFromAvoidingBlocks(fc.G.Blocks[0], b, map[*cfg.Block]bool{loop: true}) {
						obs = append(obs, mkOb(c, "PKG.use-all-exports", u, "success only through the export loop", rs, Violated, "UsePackage can answer without an error on a path that never reaches the loop binding the exported names: whatever decides to skip it (a record of an earlier import) cannot know what the importing package rebound in between, so a second (use-package 'a) no longer restores a's bindings", true))
					} else {
						obs = append(obs, mkOb(c, "PKG.use-all-exports", u, "success only through the export loop", rs, Proved, "every path to this return passes the head of the loop over the export list", true))
					}
				}
			}
			return obs
		}})

	register(&Rule{ID: "PKG.new-uses-lang", Floor: 1,
		Doc: "in the in-package builtin, once a new package has been created, no return is reachable before the language package has been imported into it (unless no language package is configured): a created package is never left empty",
		Run: func(c *Ctx) []Obligation {
			fn, fd, pkg := c.LookupFunc("lisp.builtinInPackage")
			def := c.LookupMethod("lisp.PackageRegistry.DefinePackage")
			use := c.LookupMethod("lisp.LEnv.UsePackage")
			if fn == nil || def == nil || use == nil {
				return []Obligation{anchorMissing("PKG.new-uses-lang", "builtinInPackage / DefinePackage / UsePackage")}
			}
			u := FuncUnit{fn, fd, pkg}
			info := pkg.TypesInfo
			fc := c.cfgOf(u, nil)
			defs := fc.findCalls(def)
			uses := fc.blocksWith(func(n ast.Node) bool { return nodeCalls(info, n, use) != nil })
			if len(defs) == 0 || len(uses) == 0 {
				return []Obligation{mkOb(c, "PKG.new-uses-lang", u, "create then import", fd, Violated, "in-package no longer creates the package and imports the language package", true)}
			}
			// from the DefinePackage block, a return must not be reachable without passing a UsePackage block,
			// except over edges implying the "not new" / "no language package" conditions
			langFld := c.LookupField("lisp.PackageRegistry.Lang")
			// the flag set to true where the package is created
			var newFlag types.Object
			for _, d := range defs {
				for _, n := range d.Loc.B.Nodes {
					// `newpkg = true`, also as one half of a tuple assignment (`pkg, created = Define(name), true`)
					if as, ok := n.(*ast.AssignStmt); ok && len(as.Lhs) == len(as.Rhs) {
						for i := range as.Rhs {
							if isBoolConst(info, as.Rhs[i], true) {
								if o := identObj(info, as.Lhs[i]); o != nil {
									newFlag = o
								}
							}
						}
					}
				}
			}
			// or a boolean local on whose true edge alone the package is created:
			// `newpkg := pkg == nil; if newpkg { pkg = DefinePackage(name) }`
			if newFlag == nil {
				for _, d := range defs {
					for _, b := range fc.G.Blocks {
						cond := fc.CondOf(b)
						if !fc.Live(b) || cond == nil {
							continue
						}
						o, isVar := identObj(info, cond).(*types.Var)
						if !isVar || o.IsField() {
							continue
						}
						if bt, ok := o.Type().Underlying().(*types.Basic); !ok || bt.Kind() != types.Bool {
							continue
						}
						if soleDef(info, fd.Body, cond) == nil {
							continue
						}
						if t := b.Succs[0]; t != b.Succs[1] && fc.BlockDominates(t, d.Loc.B) && !fc.BlockDominates(b.Succs[1], d.Loc.B) {
							newFlag = o
						}
					}
				}
			}
			cls := func(e ast.Expr) (string, bool) {
				if newFlag != nil && identObj(info, e) == newFlag {
					return "isNew", false
				}
				be, ok := ast.Unparen(e).(*ast.BinaryExpr)
				if ok && (be.Op == token.EQL || be.Op == token.NEQ) && FieldOfSelector(info, be.X) == langFld {
					if s, ok := constStringVal(info, be.Y); ok && s == "" {
						return "hasLang", be.Op == token.EQL
					}
				}
				return "", false
			}
			// on a path where the package was just created (isNew holds), an edge entailing
			// (!isNew || !hasLang) means no language package is configured
			skip := fc.edgesEntailing(cls, func(v map[string]bool) bool { return (v["$has:isNew"] && !v["isNew"]) || (v["$has:hasLang"] && !v["hasLang"]) })
			bad := false
			for _, d := range defs {
				seen := map[*cfg.Block]bool{}
				var dfs func(b *cfg.Block, from int) bool
				dfs = func(b *cfg.Block, from int) bool {
					if uses[b] && b != d.Loc.B {
						return false
					}
					for i := from; i < len(b.Nodes); i++ {
						if _, isRet := b.Nodes[i].(*ast.ReturnStmt); isRet {
							return true
						}
					}
					seen[b] = true
					for k, s := range b.Succs {
						cut := false
						for _, e := range skip {
							if e.B == b && e.K == k {
								cut = true
							}
						}
						if cut || seen[s] {
							continue
						}
						if dfs(s, 0) {
							return true
						}
					}
					return false
				}
				// UsePackage in the same block after the define is fine
				if uses[d.Loc.B] {
					continue
				}
				if dfs(d.Loc.B, d.Loc.I+1) {
					bad = true
				}
			}
			var out []Obligation
			if !bad {
				out = append(out, mkOb(c, "PKG.new-uses-lang", u, "create then import", defs[0].Call, Proved, "after DefinePackage every path imports the language package before any return (or Registry.Lang is empty)", true))
			} else {
				out = append(out, mkOb(c, "PKG.new-uses-lang", u, "create then import", defs[0].Call, Violated, "a return is reachable after the new package was registered and before the language package was imported: a later in-package finds it existing and never imports the language", true))
			}
			// ... and when that import FAILS (the language package exports an unbound name), the
			// registration is undone before the error is returned: the package is removed from the
			// registry and the current package put back.  Otherwise the program is left inside an
			// empty package where nothing resolves, and a later in-package of the same name finds it
			// `existing` and never imports the language (a created package is never left empty —
			// also on the error path).
			pkgsFld := c.LookupField("lisp.PackageRegistry.packages")
			curFld := c.LookupField("lisp.Runtime.Package")
			typeFld := c.LookupField("lisp.LVal.Type")
			lerrT := c.Pkg("lisp").Types.Scope().Lookup("LError")
			for _, uc := range fc.findCalls(use) {
				// the local that receives the result
				var res types.Object
				for _, n := range uc.Loc.B.Nodes {
					if as, ok := n.(*ast.AssignStmt); ok && len(as.Lhs) == 1 && len(as.Rhs) == 1 && ast.Unparen(as.Rhs[0]) == ast.Expr(uc.Call) {
						res = identObj(info, as.Lhs[0])
					}
				}
				if res == nil || pkgsFld == nil || curFld == nil {
					continue
				}
				errEdges := fc.edgesEntailing(func(e ast.Expr) (string, bool) {
					be, ok := ast.Unparen(e).(*ast.BinaryExpr)
					if !ok || (be.Op != token.EQL && be.Op != token.NEQ) {
						return "", false
					}
					se, ok := ast.Unparen(be.X).(*ast.SelectorExpr)
					if !ok || FieldOfSelector(info, se) != typeFld || identObj(info, se.X) != res || identObj(info, be.Y) != lerrT {
						return "", false
					}
					return "failed", be.Op == token.NEQ
				}, func(v map[string]bool) bool { return v["$has:failed"] && v["failed"] })
				undone := fc.blocksWith(func(n ast.Node) bool {
					for _, ce := range callsIn(n, false) {
						if id, ok := ast.Unparen(ce.Fun).(*ast.Ident); ok && id.Name == "delete" && len(ce.Args) == 2 && FieldOfSelector(info, ce.Args[0]) == pkgsFld {
							return true
						}
					}
					return false
				})
				restored := fc.blocksWith(func(n ast.Node) bool {
					as, ok := n.(*ast.AssignStmt)
					if !ok {
						return false
					}
					for _, l := range as.Lhs {
						if FieldOfSelector(info, l) == curFld {
							return true
						}
					}
					return false
				})
				leaks := ""
				for _, e := range errEdges {
					succ := e.B.Succs[e.K]
					for _, b := range fc.G.Blocks {
						if !fc.Live(b) {
							continue
						}
						isRet := false
						for _, n := range b.Nodes {
							if _, ok := n.(*ast.ReturnStmt); ok {
								isRet = true
							}
						}
						if !isRet {
							continue
						}
						if !undone[b] && fc.reachableFromAvoidingBlocks(succ, b, undone) {
							leaks = "the package stays in the registry"
						}
						if !restored[b] && fc.reachableFromAvoidingBlocks(succ, b, restored) {
							if leaks == "" {
								leaks = "the current package stays switched to it"
							}
						}
					}
				}
				if len(errEdges) == 0 {
					continue
				}
				if leaks == "" {
					out = append(out, mkOb(c, "PKG.new-uses-lang", u, "failed import undone", uc.Call, Proved, "on the edge where the language import failed the package is deleted from the registry and the current package restored before the error is returned", true))
				} else {
					out = append(out, mkOb(c, "PKG.new-uses-lang", u, "failed import undone", uc.Call, Violated, "when importing the language package into the NEW package fails, the error is returned while "+leaks+": after (in-package 'lisp) (export 'ghost), a failing (in-package 'fresh) leaves the program in an empty package where not even lambda or in-package resolves, and once ghost is bound (in-package 'fresh) still finds the package `existing` and never imports the language", true))
				}
			}
			return out
		}})
}

func init() {
	register(&Rule{ID: "BIND.fresh-scope", Floor: 1,
		Doc: "in the binder every parameter is bound (Put) in an environment that is, on every path, the result of Copy() of the callee's defining environment made during this call: each activation has a private parameter scope, the defining environment itself is never written",
		Run: func(c *Ctx) []Obligation {
			fn, fd, pkg := c.LookupFunc("lisp.(*LEnv).bind")
			put := c.LookupMethod("lisp.LEnv.Put")
			cp := c.LookupMethod("lisp.LEnv.Copy")
			fenv := c.LookupMethod("lisp.LVal.funEnv")
			if fn == nil || put == nil || cp == nil || fenv == nil {
				return []Obligation{anchorMissing("BIND.fresh-scope", "bind / LEnv.Put / LEnv.Copy / funEnv")}
			}
			u := FuncUnit{fn, fd, pkg}
			info := pkg.TypesInfo
			var obs []Obligation
			ord := &ordinal{}
			for _, bu := range bodiesOf(fd) {
				for _, ce := range callsIn(bu.Body, false) {
					if originOf(Callee(info, ce)) != put {
						continue
					}
					se, ok := ast.Unparen(ce.Fun).(*ast.SelectorExpr)
					if !ok {
						continue
					}
					construct := ord.next("bind parameter via Put")
					o := identObj(info, se.X)
					good := false
					if o != nil {
						// every assignment to the receiver variable is X.funEnv().Copy()
						n, okn := 0, 0
						ast.Inspect(fd.Body, func(m ast.Node) bool {
							as, isAs := m.(*ast.AssignStmt)
							if !isAs || len(as.Lhs) != len(as.Rhs) {
								return true
							}
							for i, l := range as.Lhs {
								if identObj(info, l) != o {
									continue
								}
								n++
								if cc, ok := ast.Unparen(as.Rhs[i]).(*ast.CallExpr); ok && originOf(Callee(info, cc)) == cp {
									if s2, ok := ast.Unparen(cc.Fun).(*ast.SelectorExpr); ok {
										if inner, ok := ast.Unparen(s2.X).(*ast.CallExpr); ok && originOf(Callee(info, inner)) == fenv {
											okn++
										}
									}
								}
							}
							return true
						})
						good = n > 0 && n == okn
					}
					if good {
						obs = append(obs, mkOb(c, "BIND.fresh-scope", u, construct, ce, Proved, "receiver is fun.funEnv().Copy() on every assignment", true))
					} else {
						obs = append(obs, mkOb(c, "BIND.fresh-scope", u, construct, ce, Violated, "a parameter is bound in an environment that is not a per-call copy of the function's defining environment: activations (or closures captured in them) would share parameter bindings", true))
					}
				}
			}
			return obs
		}})
}

func init() {
	register(&Rule{ID: "PKG.keyword-lexical", Floor: 2,
		Doc: "every store of a lexical binding (an element of LEnv.scope) is reached only over an edge entailing that the name is not a keyword (`!strings.HasPrefix(name, \":\")`), or over the found-edge of a lookup of that same name in that same scope (an update of a binding that already passed the test); copying a scope is exempt — with PKG.keyword-refused for the global side, a keyword can never be bound",
		Run: func(c *Ctx) []Obligation {
			scope := c.LookupField("lisp.LEnv.scope")
			if scope == nil {
				return []Obligation{anchorMissing("PKG.keyword-lexical", "LEnv.scope")}
			}
			var obs []Obligation
			ord := map[string]*ordinal{}
			for _, w := range c.censusFor(nil).WritersOf(scope) {
				if w.Kind != "elem" {
					continue
				}
				u := w.Unit
				name := u.Name()
				if ord[name] == nil {
					ord[name] = &ordinal{}
				}
				construct := ord[name].next("store scope[name]")
				if name == "lisp.(*LEnv).Copy" {
					obs = append(obs, mkOb(c, "PKG.keyword-lexical", u, construct, w.Node, Proved, "copies bindings that already passed the test into a fresh scope map", false))
					continue
				}
				info := u.Pkg.TypesInfo
				fc := c.cfgOf(u, nil)
				loc, ok := fc.Locate(w.Node)
				if !ok {
					obs = append(obs, mkOb(c, "PKG.keyword-lexical", u, construct, w.Node, Undecided, "store not located in the CFG", false))
					continue
				}
				// the key expression of the store
				var keyStr string
				if as, ok := w.Node.(*ast.AssignStmt); ok {
					for _, l := range as.Lhs {
						if ie, ok := ast.Unparen(l).(*ast.IndexExpr); ok && FieldOfSelector(info, ie.X) == scope {
							keyStr = types.ExprString(ie.Index)
						}
					}
				}
				cls := func(e ast.Expr) (string, bool) {
					e = ast.Unparen(e)
					if ce, ok := e.(*ast.CallExpr); ok && stdFuncCalled(info, ce, "strings", "HasPrefix") && len(ce.Args) == 2 {
						if s, ok := constStringVal(info, ce.Args[1]); ok && s == ":" && types.ExprString(ce.Args[0]) == keyStr {
							return "keyword", false
						}
					}
					// ok from `_, ok := <recv>.scope[key]`
					if o := identObj(info, e); o != nil {
						found := false
						ast.Inspect(u.Decl.Body, func(n ast.Node) bool {
							as, ok := n.(*ast.AssignStmt)
							if !ok || len(as.Lhs) != 2 || len(as.Rhs) != 1 || identObj(info, as.Lhs[1]) != o {
								return true
							}
							if ie, ok := ast.Unparen(as.Rhs[0]).(*ast.IndexExpr); ok && FieldOfSelector(info, ie.X) == scope && types.ExprString(ie.Index) == keyStr {
								found = true
							}
							return true
						})
						if found {
							return "exists", false
						}
					}
					return "", false
				}
				cut := fc.edgesEntailing(cls, func(v map[string]bool) bool {
					return (v["$has:keyword"] && !v["keyword"]) || (v["$has:exists"] && v["exists"])
				})
				if keyStr != "" && len(cut) > 0 && !fc.reachableAvoiding(loc.B, cut) {
					obs = append(obs, mkOb(c, "PKG.keyword-lexical", u, construct, w.Node, Proved, "reached only after `!strings.HasPrefix("+keyStr+", \":\")` or after the name was found in this scope", true))
				} else {
					obs = append(obs, mkOb(c, "PKG.keyword-lexical", u, construct, w.Node, Violated, "a lexical binding can be stored for a keyword: (let ([:x 1]) (set! :x 2) :x) is accepted and creates a binding that can never be read", true))
				}
			}
			return obs
		}})
}

// MACRO.qualified-heads — C08 ("a symbol resolves in lexical scope, then the
// current package, then its imports … packages isolate"): the forms that the
// core macros and operators BUILD in Go are evaluated where the macro is used.
// A head written as the bare symbol `set` or `lambda` is then looked up in the
// user's lexical scope and current package first, so a parameter, a local or a
// package-level definition of that name silently replaces the core operator
// the expansion meant.  Every operator head in a Go-built form is spelled with
// the language package.
func init() {
	register(&Rule{ID: "MACRO.qualified-heads", Floor: 12,
		Doc: "in the interpreter packages every []*LVal literal whose first element is Symbol(<constant>) naming a core builtin, operator or macro spells it with the language package (\"lisp:set\", not \"set\"): the form is evaluated in the user's scope and package, where the bare name may be rebound",
		Run: func(c *Ctx) []Obligation {
			const rid = "MACRO.qualified-heads"
			symFn := c.LookupPkgFunc("lisp.Symbol")
			if symFn == nil {
				return []Obligation{anchorMissing(rid, "lisp.Symbol")}
			}
			core := map[string]bool{}
			for _, e := range c.Registry() {
				if rel(e.Pkg.PkgPath) == "lisp" {
					core[e.Name] = true
				}
			}
			if len(core) < 100 {
				return []Obligation{anchorMissing(rid, "core registry (fewer than 100 names)")}
			}
			var obs []Obligation
			for _, u := range c.Funcs(func(p string) bool { return rel(p) == "lisp" || hasPrefix(rel(p), "lisp/") }) {
				if u.Decl == nil || u.Decl.Body == nil {
					continue
				}
				info := u.Pkg.TypesInfo
				ord := &ordinal{}
				ast.Inspect(u.Decl.Body, func(n ast.Node) bool {
					cl, ok := n.(*ast.CompositeLit)
					if !ok || len(cl.Elts) == 0 {
						return true
					}
					if _, ok := info.TypeOf(cl).Underlying().(*types.Slice); !ok {
						return true
					}
					ce, ok := ast.Unparen(cl.Elts[0]).(*ast.CallExpr)
					if !ok || originOf(Callee(info, ce)) != symFn || len(ce.Args) != 1 {
						return true
					}
					s, ok := constStringVal(info, ce.Args[0])
					if !ok || s == "" || s[0] == '&' || s[0] == ':' {
						return true
					}
					if i := strings.Index(s, ":"); i > 0 {
						if core[s[i+1:]] && s[:i] == "lisp" {
							obs = append(obs, mkOb(c, rid, u, ord.next("head "+s), ce, Proved, "qualified with the language package", false))
						}
						return true
					}
					if !core[s] {
						return true
					}
					obs = append(obs, mkOb(c, rid, u, ord.next("head "+s), ce, Violated, "the Go-built form calls `"+s+"` by its bare name: it is evaluated where the macro is used, so a lexical binding or a package-level definition of `"+s+"` there (a parameter named "+s+", a package with its own "+s+") replaces the core operator the expansion meant", true))
					return true
				})
			}
			return obs
		}})
}

// PKG.export-all-args — C08: `export` takes any number of symbols, strings and
// (nested) lists of those and exports every one; use-package then binds
// exactly the exported names.  A return of a non-error value from inside the
// argument loop drops every argument after it.
func init() {
	register(&Rule{ID: "PKG.export-all-args", Floor: 2,
		Doc: "in builtinExport every return inside the loop over the arguments is an error return — an Errorf construction, or a value returned only over an edge that entails its Type == LError: the loop runs to the last argument unless one is invalid",
		Run: func(c *Ctx) []Obligation {
			const rid = "PKG.export-all-args"
			fn, fd, pkg := c.LookupFunc("lisp.builtinExport")
			if fn == nil {
				return []Obligation{anchorMissing(rid, "lisp.builtinExport")}
			}
			u := FuncUnit{fn, fd, pkg}
			info := pkg.TypesInfo
			args := argsParam(info, u, nil)
			var loop *ast.RangeStmt
			ast.Inspect(fd.Body, func(n ast.Node) bool {
				if rs, ok := n.(*ast.RangeStmt); ok && loop == nil {
					if se, ok := ast.Unparen(rs.X).(*ast.SelectorExpr); ok && se.Sel.Name == "Cells" && identObj(info, se.X) == args {
						loop = rs
					}
				}
				return true
			})
			if loop == nil {
				return []Obligation{mkOb(c, rid, u, "argument loop", fd, Violated, "export no longer ranges over all its arguments", true)}
			}
			fc := c.cfgOf(u, nil)
			var obs []Obligation
			ord := &ordinal{}
			ast.Inspect(loop.Body, func(n ast.Node) bool {
				if _, ok := n.(*ast.FuncLit); ok {
					return false
				}
				rs, ok := n.(*ast.ReturnStmt)
				if !ok || len(rs.Results) != 1 {
					return true
				}
				construct := ord.next("return inside the argument loop")
				r := ast.Unparen(rs.Results[0])
				if ce, ok := r.(*ast.CallExpr); ok {
					if f := Callee(info, ce); f != nil && strings.HasSuffix(f.Name(), "Errorf") {
						obs = append(obs, mkOb(c, rid, u, construct, rs, Proved, "constructs an error", true))
					} else {
						obs = append(obs, mkOb(c, rid, u, construct, rs, Violated, "returns the value of `"+types.ExprString(r)+"` from inside the argument loop whether or not it is an error: every argument after this one is silently dropped — (export '(a b) 'c) exports a and b only, and use-package then binds a strict subset", true))
					}
					return true
				}
				X := identObj(info, r)
				if X == nil {
					obs = append(obs, mkOb(c, rid, u, construct, rs, Undecided, "returned expression not recognised", true))
					return true
				}
				cls := func(e ast.Expr) (string, bool) {
					be, ok := ast.Unparen(e).(*ast.BinaryExpr)
					if !ok || be.Op != token.EQL && be.Op != token.NEQ {
						return "", false
					}
					isT := func(a ast.Expr) bool {
						se, ok := ast.Unparen(a).(*ast.SelectorExpr)
						return ok && se.Sel.Name == "Type" && identObj(info, se.X) == X
					}
					isE := func(a ast.Expr) bool {
						o := identObjOrSel(info, a)
						return o != nil && o.Name() == "LError"
					}
					if isT(be.X) && isE(be.Y) || isT(be.Y) && isE(be.X) {
						return "iserr", be.Op == token.NEQ
					}
					return "", false
				}
				cut := fc.edgesEntailing(cls, func(v map[string]bool) bool { return v["$has:iserr"] && v["iserr"] })
				loc, ok := fc.Locate(rs)
				switch {
				case !ok:
					obs = append(obs, mkOb(c, rid, u, construct, rs, Undecided, "return not located in the CFG", true))
				case fc.reachableAvoiding(loc.B, cut):
					obs = append(obs, mkOb(c, rid, u, construct, rs, Violated, "returns `"+X.Name()+"` from inside the argument loop without having tested it for LError: a successful nested export ends the whole call and drops the remaining arguments", true))
				default:
					obs = append(obs, mkOb(c, rid, u, construct, rs, Proved, "only when "+X.Name()+".Type == LError", true))
				}
				return true
			})
			return obs
		}})
}

// CALL.package-restored — C08: "a function body always runs with its defining
// package current".  The callee's package is installed by call(); what keeps
// the CALLER's body in the caller's package after the callee returns is the
// restore call() registers.  If that restore is registered only when the
// callee lives in a different package, a same-package callee that runs
// in-package hands its caller — and everything up to top level — a different
// current package.
func init() {
	register(&Rule{ID: "CALL.package-restored", Floor: 2,
		Doc: "in LEnv.call every evaluation of a body form of a user-defined function (every eval call outside the builtin branch) is dominated by a `defer` that stores back to Runtime.Package a value read from Runtime.Package before: the package current at the call is restored on every return and panic, whichever package the callee is defined in",
		Run: func(c *Ctx) []Obligation {
			const rid = "CALL.package-restored"
			fn, fd, pkg := c.LookupFunc("lisp.(*LEnv).call")
			evalM := c.LookupMethod("lisp.LEnv.eval")
			builtinM := c.LookupMethod("lisp.LVal.Builtin")
			pkgFld := c.LookupField("lisp.Runtime.Package")
			if fn == nil || evalM == nil || builtinM == nil || pkgFld == nil {
				return []Obligation{anchorMissing(rid, "LEnv.call / LEnv.eval / LVal.Builtin / Runtime.Package")}
			}
			u := FuncUnit{fn, fd, pkg}
			info := pkg.TypesInfo
			fc := c.cfgOf(u, nil)
			// the builtin branch
			var builtinVar types.Object
			ast.Inspect(fd.Body, func(n ast.Node) bool {
				if as, ok := n.(*ast.AssignStmt); ok && len(as.Lhs) == 1 && len(as.Rhs) == 1 {
					if ce, ok := ast.Unparen(as.Rhs[0]).(*ast.CallExpr); ok && originOf(Callee(info, ce)) == builtinM {
						builtinVar = identObj(info, as.Lhs[0])
					}
				}
				return true
			})
			var builtinBranch *ast.BlockStmt
			ast.Inspect(fd.Body, func(n ast.Node) bool {
				if is, ok := n.(*ast.IfStmt); ok && builtinVar != nil {
					if isT, nonNil := isNilTest(info, is.Cond, builtinVar); isT && nonNil {
						builtinBranch = is.Body
					}
				}
				return true
			})
			// restoring defers
			var defers []Loc
			for _, b := range fc.G.Blocks {
				if !fc.Live(b) {
					continue
				}
				for i, n := range b.Nodes {
					ds, ok := n.(*ast.DeferStmt)
					if !ok {
						continue
					}
					if c.deferRestoresField(info, ds, pkgFld) {
						defers = append(defers, Loc{b, i})
						continue
					}
					lit, ok := ds.Call.Fun.(*ast.FuncLit)
					if !ok {
						continue
					}
					restores := false
					ast.Inspect(lit.Body, func(m ast.Node) bool {
						as, ok := m.(*ast.AssignStmt)
						if !ok || len(as.Lhs) != 1 || len(as.Rhs) != 1 {
							return true
						}
						if FieldOfSelector(info, as.Lhs[0]) != pkgFld {
							return true
						}
						// the stored value: a local defined from a read of Runtime.Package before the defer
						if o := identObj(info, as.Rhs[0]); o != nil {
							ast.Inspect(fd.Body, func(k ast.Node) bool {
								if ds2, ok := k.(*ast.AssignStmt); ok && ds2.Pos() < ds.Pos() {
									for j, l := range ds2.Lhs {
										if identObj(info, l) == o && j < len(ds2.Rhs) && FieldOfSelector(info, ds2.Rhs[j]) == pkgFld {
											restores = true
										}
									}
								}
								return true
							})
						}
						return true
					})
					if restores {
						defers = append(defers, Loc{b, i})
					}
				}
			}
			var obs []Obligation
			ord := &ordinal{}
			for _, b := range fc.G.Blocks {
				if !fc.Live(b) {
					continue
				}
				for i, n := range b.Nodes {
					for _, ce := range callsIn(n, false) {
						if originOf(Callee(info, ce)) != evalM {
							continue
						}
						if builtinBranch != nil && ce.Pos() >= builtinBranch.Pos() && ce.End() <= builtinBranch.End() {
							continue
						}
						construct := ord.next("evaluation of a body form")
						dom := false
						for _, d := range defers {
							if fc.Dominates(d, Loc{b, i}) {
								dom = true
							}
						}
						if dom {
							obs = append(obs, mkOb(c, rid, u, construct, ce, Proved, "after the unconditional deferred restore of Runtime.Package", true))
						} else {
							obs = append(obs, mkOb(c, rid, u, construct, ce, Violated, "a body form is evaluated on a path where no restore of Runtime.Package has been registered (the restore is conditional on the callee's package differing from the current one): a callee defined in the current package that runs in-package leaves its caller's remaining body — defined in another package — running in the package it switched to, and the switch survives to top level", true))
						}
					}
				}
			}
			return obs
		}})
}

// PKG.use-atomic — C08: "use-package copies EXACTLY the exported bindings of
// the named package".  When one exported name has no binding use-package
// reports an error; by then it must not have copied the names that sort
// before it, or the using package is left with a strict, arbitrary subset.
func init() {
	register(&Rule{ID: "PKG.use-atomic", Floor: 1,
		Doc: "in UsePackage no error return is reachable after a Package.Put: every exported name is looked up before the first one is bound, so a failing use-package binds nothing",
		Run: func(c *Ctx) []Obligation {
			const rid = "PKG.use-atomic"
			fn, fd, pkg := c.LookupFunc("lisp.(*LEnv).UsePackage")
			pput := c.LookupMethod("lisp.Package.Put")
			if fn == nil || pput == nil {
				return []Obligation{anchorMissing(rid, "UsePackage / Package.Put")}
			}
			u := FuncUnit{fn, fd, pkg}
			info := pkg.TypesInfo
			fc := c.cfgOf(u, nil)
			puts := fc.blocksWith(func(n ast.Node) bool { return nodeCalls(info, n, pput) != nil })
			var obs []Obligation
			ord := &ordinal{}
			for _, b := range fc.G.Blocks {
				if !fc.Live(b) {
					continue
				}
				for _, n := range b.Nodes {
					rs, ok := n.(*ast.ReturnStmt)
					if !ok || len(rs.Results) != 1 {
						continue
					}
					ce, ok := ast.Unparen(rs.Results[0]).(*ast.CallExpr)
					if !ok {
						continue
					}
					f := Callee(info, ce)
					if f == nil || !strings.HasSuffix(f.Name(), "Errorf") {
						continue
					}
					construct := ord.next("error return")
					after := false
					for pb := range puts {
						if pb == b || fc.reachableFromAvoiding(pb, b, nil) {
							after = true
						}
					}
					if after {
						obs = append(obs, mkOb(c, rid, u, construct, rs, Violated, "this error can be returned after some exported names have already been bound in the using package: (export 'aa 'mm 'zz) with mm never defined makes (use-package 'a) fail AND leaves aa imported but not zz", true))
					} else {
						obs = append(obs, mkOb(c, rid, u, construct, rs, Proved, "not reachable from a Package.Put", true))
					}
				}
			}
			return obs
		}})
}


// keywordRefusedViaResolver: see PKG.keyword-refused.
func keywordRefusedViaResolver(c *Ctx, u FuncUnit, fc *FCFG, pput *types.Func) (bool, ast.Node) {
	info := u.Pkg.TypesInfo
	body := u.Decl.Body
	// the Put whose receiver is a local that is a result of a same-package helper
	for _, lc := range fc.findCalls(pput) {
		se, ok := ast.Unparen(lc.Call.Fun).(*ast.SelectorExpr)
		if !ok {
			continue
		}
		table := identObj(info, se.X)
		if table == nil {
			continue
		}
		dc, idx, ndef := definingCall(info, body, table)
		if dc == nil || ndef != 1 {
			continue
		}
		h := originOf(Callee(info, dc))
		hd := c.declOf[h]
		if h == nil || hd == nil || hd.Body == nil || h.Pkg() != u.Obj.Pkg() {
			continue
		}
		// caller half: table == nil returns an error; Put only where table != nil
		nilEdges := fc.nilEdges(table, true) // edges on which table == nil
		if len(nilEdges) == 0 {
			continue
		}
		callerOK := true
		for _, e := range nilEdges {
			succ := e.B.Succs[e.K]
			if len(succ.Nodes) == 0 {
				callerOK = false
				continue
			}
			rs, isRet := succ.Nodes[0].(*ast.ReturnStmt)
			if !isRet || len(rs.Results) != 1 || !c.isErrorValueCall(info, rs.Results[0], 0) {
				callerOK = false
			}
		}
		nonNil := fc.nilEdges(table, false)
		if !callerOK || len(nonNil) == 0 || fc.reachableAvoiding(lc.Loc.B, nonNil) {
			continue
		}
		// resolver half
		hu := FuncUnit{h, hd, c.pkgOf[hd]}
		hinfo := hu.Pkg.TypesInfo
		hfc := c.cfgOf(hu, nil)
		isEmptyCmp := func(a LitAtom, wantEmpty bool) bool {
			be, ok := ast.Unparen(a.E).(*ast.BinaryExpr)
			if !ok || (be.Op != token.EQL && be.Op != token.NEQ) {
				return false
			}
			sv, ok := constStringVal(hinfo, be.Y)
			if !ok || sv != "" {
				return false
			}
			return ((be.Op == token.EQL) == a.Positive) == wantEmpty
		}
		hEmpty := hfc.edgesImplying(func(a LitAtom) bool { return isEmptyCmp(a, true) })
		hNonEmpty := hfc.edgesImplying(func(a LitAtom) bool { return isEmptyCmp(a, false) })
		if len(hEmpty) == 0 || len(hNonEmpty) == 0 {
			continue
		}
		resolverOK := true
		for _, e := range hEmpty {
			succ := e.B.Succs[e.K]
			if len(succ.Nodes) == 0 {
				resolverOK = false
				continue
			}
			rs, isRet := succ.Nodes[0].(*ast.ReturnStmt)
			if !isRet || idx >= len(rs.Results) || !isNilIdent(hinfo, rs.Results[idx]) {
				resolverOK = false
			}
		}
		// named results assigned before a bare return are not followed
		for _, b := range hfc.G.Blocks {
			if !hfc.Live(b) {
				continue
			}
			for _, nd := range b.Nodes {
				rs, isRet := nd.(*ast.ReturnStmt)
				if !isRet {
					continue
				}
				if idx >= len(rs.Results) {
					resolverOK = false
					continue
				}
				r := ast.Unparen(rs.Results[idx])
				if isNilIdent(hinfo, r) {
					continue
				}
				// the current package: the unqualified path
				if f := FieldOfSelector(hinfo, r); f != nil && f.Name() == "Package" {
					continue
				}
				if hfc.reachableAvoiding(b, hNonEmpty) {
					resolverOK = false
				}
			}
		}
		if resolverOK {
			return true, lc.Call
		}
	}
	return false, nil
}
