package main

import (
	"fmt"
	"go/types"
)

func debugCFG(c *Ctx, name string) {
	fn, fd, pkg := c.LookupFunc(name)
	if fn == nil {
		fmt.Println("no such func")
		return
	}
	fc := c.cfgOf(FuncUnit{fn, fd, pkg}, nil)
	for _, b := range fc.G.Blocks {
		fmt.Printf("block %d kind=%v live=%v succs=", b.Index, b.Kind, fc.Live(b))
		for _, s := range b.Succs {
			fmt.Printf("%d ", s.Index)
		}
		fmt.Println()
		for _, n := range b.Nodes {
			s := ""
			if e, ok := n.(interface{ Pos() }); ok {
				_ = e
			}
			switch x := n.(type) {
			default:
				_ = x
				s = fmt.Sprintf("%T", n)
			}
			if e, ok := n.(interface{}); ok {
				_ = e
			}
			fmt.Printf("    %s @%s", s, c.Pos(n.Pos()))
			if ex, ok := n.(interface{ End() }); ok {
				_ = ex
			}
			if e, ok := n.(types.Object); ok {
				_ = e
			}
			fmt.Println()
		}
	}
}
