package main

import (
	"go/ast"
	"go/types"
	"sort"
	"strings"
)

// JSON.opts-independent — C13 ("under every combination of :string-numbers and
// :exact-integers"): the two number modes of a load are two independent
// switches, each with its own keyword and its own serializer-wide default; how
// they combine is decided in ONE place, the decoder (string-numbers wins).  The
// resolution step that turns keywords and defaults into LoadOpts must therefore
// keep them apart: if the value of one switch is made to depend on the other's
// keyword, some of the combinations the property quantifies over silently
// become another combination.
func init() {
	register(&Rule{ID: "JSON.opts-independent", Floor: 1,
		Doc: "in Serializer.loadOpts every store to a boolean field of the LoadOpts being built is guarded only by conditions over that switch's own inputs — the objects its stored values are computed from (its keyword parameter, its serializer default) — never by the other switch's keyword or field: each of :string-numbers and :exact-integers is resolved from its own keyword and default alone",
		Run: func(c *Ctx) []Obligation {
			const rid = "JSON.opts-independent"
			fn, fd, pkg := c.LookupFunc(jsonPkg + ".(*Serializer).loadOpts")
			optsT := c.LookupType(jsonPkg + ".LoadOpts")
			if fn == nil || optsT == nil {
				return []Obligation{anchorMissing(rid, "Serializer.loadOpts / LoadOpts")}
			}
			u := FuncUnit{fn, fd, pkg}
			info := pkg.TypesInfo
			st, _ := optsT.Underlying().(*types.Struct)
			boolFields := map[*types.Var]bool{}
			for i := 0; i < st.NumFields(); i++ {
				if bt, ok := st.Field(i).Type().Underlying().(*types.Basic); ok && bt.Kind() == types.Bool {
					boolFields[st.Field(i)] = true
				}
			}
			// objects mentioned by an expression: locals/params and fields
			mentioned := func(e ast.Node) map[types.Object]bool {
				out := map[types.Object]bool{}
				ast.Inspect(e, func(n ast.Node) bool {
					switch x := n.(type) {
					case *ast.Ident:
						if v, ok := info.Uses[x].(*types.Var); ok {
							out[v] = true
						}
					}
					return true
				})
				return out
			}
			// own inputs of each switch: what its stored values (and its initial value) mention
			own := map[*types.Var]map[types.Object]bool{}
			note := func(f *types.Var, e ast.Expr) {
				if own[f] == nil {
					own[f] = map[types.Object]bool{f: true}
				}
				for o := range mentioned(e) {
					own[f][o] = true
				}
			}
			type store struct {
				f    *types.Var
				node *ast.AssignStmt
			}
			var stores []store
			var optsObj types.Object
			ast.Inspect(fd.Body, func(n ast.Node) bool {
				switch x := n.(type) {
				case *ast.CompositeLit:
					if tv, ok := info.Types[x]; ok && types.Identical(tv.Type, optsT) {
						for _, el := range x.Elts {
							if kv, ok := el.(*ast.KeyValueExpr); ok {
								if id, ok := kv.Key.(*ast.Ident); ok {
									if f, ok := info.Uses[id].(*types.Var); ok && boolFields[f] {
										note(f, kv.Value)
									}
								}
							}
						}
					}
				case *ast.AssignStmt:
					if len(x.Lhs) == 1 && len(x.Rhs) == 1 {
						if f := FieldOfSelector(info, x.Lhs[0]); f != nil && boolFields[f] {
							note(f, x.Rhs[0])
							stores = append(stores, store{f, x})
							if se, ok := ast.Unparen(x.Lhs[0]).(*ast.SelectorExpr); ok {
								optsObj = identObj(info, se.X)
							}
						}
					}
				}
				return true
			})
			// the receiver, the env parameter and the LoadOpts local are shared plumbing, not inputs of a switch
			shared := map[types.Object]bool{}
			if optsObj != nil {
				shared[optsObj] = true
			}
			for _, p := range paramObjs(u) {
				if !strings.HasSuffix(p.Type().String(), "lisp.LVal") {
					shared[p] = true
				}
			}
			var obs []Obligation
			ord := &ordinal{}
			if len(stores) == 0 {
				obs = append(obs, mkOb(c, rid, u, "conditional stores", fd, Proved, "no boolean LoadOpts field is stored conditionally: each is resolved where the value is built", false))
			}
			for _, s := range stores {
				// guarding conditions: enclosing if conditions and case expressions
				var guards []ast.Expr
				var stack []ast.Node
				ast.Inspect(fd.Body, func(n ast.Node) bool {
					if n == nil {
						stack = stack[:len(stack)-1]
						return true
					}
					stack = append(stack, n)
					if n == ast.Node(s.node) {
						for _, anc := range stack {
							switch a := anc.(type) {
							case *ast.IfStmt:
								guards = append(guards, a.Cond)
							case *ast.CaseClause:
								guards = append(guards, a.List...)
							case *ast.SwitchStmt:
								if a.Tag != nil {
									guards = append(guards, a.Tag)
								}
								// earlier clauses of a tagless switch guard this one by their negation
								for _, cl := range a.Body.List {
									cc := cl.(*ast.CaseClause)
									if cc.Pos() >= s.node.Pos() {
										break
									}
									guards = append(guards, cc.List...)
								}
							}
						}
					}
					return true
				})
				var foreign []string
				for _, g := range guards {
					for o := range mentioned(g) {
						if shared[o] || own[s.f][o] {
							continue
						}
						// another switch's field or keyword
						foreign = append(foreign, o.Name())
					}
				}
				sort.Strings(foreign)
				construct := ord.next("store LoadOpts." + s.f.Name())
				if len(foreign) == 0 {
					obs = append(obs, mkOb(c, rid, u, construct, s.node, Proved, "guarded by its own keyword / default only", true))
				} else {
					obs = append(obs, mkOb(c, rid, u, construct, s.node, Violated, "the value of "+s.f.Name()+" depends on "+strings.Join(foreign, ", ")+", an input of the other number mode: a combination of :string-numbers and :exact-integers (keyword or serializer default) is silently turned into another one", true))
				}
			}
			return obs
		}})
}
