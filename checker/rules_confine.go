package main

import (
	"fmt"
	"go/ast"
	"go/constant"
	"go/token"
	"go/types"
	"strings"

	"golang.org/x/tools/go/ssa"
)

// E8.CONFINE (C20) on SSA: the value-flow recipe of the confined loader.

func (c *Ctx) ssaFunc(fn *types.Func) *ssa.Function {
	if fn == nil {
		return nil
	}
	return c.SSA().FuncValue(fn)
}

func staticCalleeIs(call *ssa.CallCommon, pkg, name string) bool {
	f := call.StaticCallee()
	return f != nil && f.Pkg != nil && f.Pkg.Pkg.Path() == pkg && f.Name() == name
}

func asCall(v ssa.Value) *ssa.Call {
	c, _ := v.(*ssa.Call)
	return c
}

// extractOf: v is Extract #idx of a call to pkg.name; returns the call.
func extractOf(v ssa.Value, idx int, pkg, name string) *ssa.Call {
	ex, ok := v.(*ssa.Extract)
	if !ok || ex.Index != idx {
		return nil
	}
	call := asCall(ex.Tuple)
	if call == nil || !staticCalleeIs(&call.Call, pkg, name) {
		return nil
	}
	return call
}

// derivesFrom: does value v depend (through calls, phis, binops, conversions,
// loads) on a value satisfying pred?  Bounded depth.
// ssaBind: parameters of module helpers bound to the arguments of the calls that derivesFrom followed
// into them (a may-binding: every call site seen contributes).
var ssaBind = map[*ssa.Parameter][]ssa.Value{}

func derivesFrom(v ssa.Value, pred func(ssa.Value) bool, depth int, seen map[ssa.Value]bool) bool {
	if v == nil || depth < 0 || seen[v] {
		return false
	}
	seen[v] = true
	if pred(v) {
		return true
	}
	switch x := v.(type) {
	case *ssa.Parameter:
		// inside a helper the walk entered through a call: the parameter is what the caller passed
		for _, a := range ssaBind[x] {
			if derivesFrom(a, pred, depth-1, seen) {
				return true
			}
		}
	case *ssa.Call:
		for _, a := range x.Call.Args {
			if derivesFrom(a, pred, depth-1, seen) {
				return true
			}
		}
		// a helper of the module: the value is what the helper returns, computed from its parameters
		if f := x.Call.StaticCallee(); f != nil && len(f.Blocks) > 0 && f.Pkg != nil && strings.HasPrefix(f.Pkg.Pkg.Path(), modPath) && depth > 1 {
			for i, p := range f.Params {
				if i < len(x.Call.Args) {
					dup := false
					for _, b := range ssaBind[p] {
						if b == x.Call.Args[i] {
							dup = true
						}
					}
					if !dup {
						ssaBind[p] = append(ssaBind[p], x.Call.Args[i])
					}
				}
			}
			for _, b := range f.Blocks {
				for _, in := range b.Instrs {
					if r, ok := in.(*ssa.Return); ok {
						for _, rv := range r.Results {
							if derivesFrom(rv, pred, depth-1, seen) {
								return true
							}
						}
					}
				}
			}
		}
	case *ssa.Phi:
		for _, e := range x.Edges {
			if derivesFrom(e, pred, depth-1, seen) {
				return true
			}
		}
	case *ssa.BinOp:
		return derivesFrom(x.X, pred, depth-1, seen) || derivesFrom(x.Y, pred, depth-1, seen)
	case *ssa.UnOp:
		return derivesFrom(x.X, pred, depth-1, seen)
	case *ssa.Convert:
		return derivesFrom(x.X, pred, depth-1, seen)
	case *ssa.ChangeType:
		return derivesFrom(x.X, pred, depth-1, seen)
	case *ssa.Extract:
		return derivesFrom(x.Tuple, pred, depth-1, seen)
	case *ssa.Slice:
		return derivesFrom(x.X, pred, depth-1, seen)
	case *ssa.Alloc:
		// variadic argument packs: values stored into the elements of a fresh array
		if x.Referrers() != nil {
			for _, r := range *x.Referrers() {
				switch ia := r.(type) {
				case *ssa.IndexAddr:
					if ia.Referrers() == nil {
						continue
					}
					for _, r2 := range *ia.Referrers() {
						if st, ok := r2.(*ssa.Store); ok && derivesFrom(st.Val, pred, depth-1, seen) {
							return true
						}
					}
				case *ssa.Store:
					if ia.Addr == ssa.Value(x) && derivesFrom(ia.Val, pred, depth-1, seen) {
						return true
					}
				}
			}
		}
	}
	return false
}

func isFieldLoad(v ssa.Value, field string) bool {
	u, ok := v.(*ssa.UnOp)
	if !ok || u.Op != token.MUL {
		return false
	}
	fa, ok := u.X.(*ssa.FieldAddr)
	if !ok {
		return false
	}
	pt, ok := fa.X.Type().Underlying().(*types.Pointer)
	if !ok {
		return false
	}
	st, ok := pt.Elem().Underlying().(*types.Struct)
	return ok && st.Field(fa.Field).Name() == field
}

type ssaEdge struct {
	From *ssa.BasicBlock
	K    int
}

func ssaReachableAvoiding(fn *ssa.Function, target *ssa.BasicBlock, cut []ssaEdge) bool {
	isCut := func(b *ssa.BasicBlock, k int) bool {
		for _, e := range cut {
			if e.From == b && e.K == k {
				return true
			}
		}
		return false
	}
	seen := map[*ssa.BasicBlock]bool{}
	var dfs func(b *ssa.BasicBlock) bool
	dfs = func(b *ssa.BasicBlock) bool {
		if b == target {
			return true
		}
		seen[b] = true
		for k, s := range b.Succs {
			if isCut(b, k) {
				continue
			}
			if !seen[s] && dfs(s) {
				return true
			}
		}
		return false
	}
	return dfs(fn.Blocks[0])
}

// condOfBlock returns the If condition of a block, peeling negations; neg
// reports whether the true edge (Succs[0]) corresponds to the condition being
// false.
func condOfBlock(b *ssa.BasicBlock) (ssa.Value, bool) {
	if len(b.Instrs) == 0 {
		return nil, false
	}
	ifi, ok := b.Instrs[len(b.Instrs)-1].(*ssa.If)
	if !ok {
		return nil, false
	}
	v := ifi.Cond
	neg := false
	for {
		u, ok := v.(*ssa.UnOp)
		if !ok || u.Op != token.NOT {
			break
		}
		v = u.X
		neg = !neg
	}
	return v, neg
}

// fsNormalised: v = TrimPrefix(ToSlash(Clean(x)), "/"), directly or as the
// single result of a module-internal helper applied to x (followed to the
// given depth) whose every return has that shape over its parameter.
func fsNormalised(v ssa.Value, depth int) bool {
	tp := asCall(v)
	if tp == nil {
		return false
	}
	if staticCalleeIs(&tp.Call, "strings", "TrimPrefix") && isConstString(tp.Call.Args[1], "/") {
		ts := asCall(tp.Call.Args[0])
		if ts == nil || !staticCalleeIs(&ts.Call, "path/filepath", "ToSlash") {
			return false
		}
		cl := asCall(ts.Call.Args[0])
		return cl != nil && staticCalleeIs(&cl.Call, "path/filepath", "Clean")
	}
	f := tp.Call.StaticCallee()
	if depth <= 0 || f == nil || len(f.Blocks) == 0 || f.Pkg == nil || !strings.HasPrefix(f.Pkg.Pkg.Path(), modPath) || len(f.Params) < 1 {
		return false
	}
	nret := 0
	for _, b := range f.Blocks {
		for _, in := range b.Instrs {
			r, ok := in.(*ssa.Return)
			if !ok {
				continue
			}
			nret++
			if len(r.Results) != 1 || !fsNormalised(r.Results[0], depth-1) {
				return false
			}
			// the cleaned operand must come from one of the helper's parameters
			if !derivesFrom(r.Results[0], func(x ssa.Value) bool {
				for _, fp := range f.Params {
					if x == ssa.Value(fp) {
						return true
					}
				}
				return false
			}, 8, map[ssa.Value]bool{}) {
				return false
			}
		}
	}
	return nret > 0
}

func isConstString(v ssa.Value, want string) bool {
	k, ok := v.(*ssa.Const)
	return ok && k.Value != nil && k.Value.Kind() == constant.String && constant.StringVal(k.Value) == want
}

func blockReturns(b *ssa.BasicBlock) bool {
	if len(b.Instrs) == 0 {
		return false
	}
	_, ok := b.Instrs[len(b.Instrs)-1].(*ssa.Return)
	return ok
}

// confCore is what the containment conditions of one function establish: the
// edges that pass the test, and the two values compared.
type confCore struct {
	fn                        *ssa.Function
	cut                       []ssaEdge
	vChecked, rChecked        ssa.Value
	rootCall, locCall         *ssa.Call
	havePrefix, haveRootEmpty bool
}

type confNote struct {
	construct, verdict, detail string
	pos                        token.Pos
}

func sepOperand(y ssa.Value) bool {
	if cv, ok := y.(*ssa.Convert); ok {
		if k, ok := cv.X.(*ssa.Const); ok && k.Value != nil {
			if iv, exact := constant.Int64Val(k.Value); exact && (iv == '/' || iv == '\\') {
				return true
			}
		}
	}
	if k, ok := y.(*ssa.Const); ok && k.Value != nil && k.Value.Kind() == constant.String {
		s := constant.StringVal(k.Value)
		return s == "/" || s == "\\"
	}
	return false
}

// containmentPredicate: f is a helper of this module `func(dir, path string) bool`
// (in either order) that returns true only when path == dir or
// strings.HasPrefix(path, dir+separator).  It reports the parameter indices.
func containmentPredicate(f *ssa.Function) (dirIdx, pathIdx int, ok bool) {
	if f == nil || len(f.Blocks) == 0 || f.Pkg == nil || !strings.HasPrefix(f.Pkg.Pkg.Path(), modPath) {
		return 0, 0, false
	}
	if f.Signature.Results().Len() != 1 {
		return 0, 0, false
	}
	if bt, isB := f.Signature.Results().At(0).Type().Underlying().(*types.Basic); !isB || bt.Kind() != types.Bool {
		return 0, 0, false
	}
	paramIdx := func(v ssa.Value) int {
		for i, p := range f.Params {
			if ssa.Value(p) == v {
				return i
			}
		}
		return -1
	}
	dirIdx, pathIdx = -1, -1
	// the HasPrefix call fixes the roles
	for _, b := range f.Blocks {
		for _, in := range b.Instrs {
			call, isCall := in.(*ssa.Call)
			if !isCall || !staticCalleeIs(&call.Call, "strings", "HasPrefix") || len(call.Call.Args) != 2 {
				continue
			}
			add2, isAdd := call.Call.Args[1].(*ssa.BinOp)
			if !isAdd || add2.Op != token.ADD || !sepOperand(add2.Y) {
				return 0, 0, false
			}
			pi, di := paramIdx(call.Call.Args[0]), paramIdx(add2.X)
			if pi < 0 || di < 0 || (pathIdx >= 0 && (pi != pathIdx || di != dirIdx)) {
				return 0, 0, false
			}
			pathIdx, dirIdx = pi, di
		}
	}
	if pathIdx < 0 {
		return 0, 0, false
	}
	isTest := func(v ssa.Value) bool {
		switch x := v.(type) {
		case *ssa.Call:
			return staticCalleeIs(&x.Call, "strings", "HasPrefix")
		case *ssa.BinOp:
			if x.Op == token.EQL {
				a, b := paramIdx(x.X), paramIdx(x.Y)
				return (a == pathIdx && b == dirIdx) || (a == dirIdx && b == pathIdx)
			}
		}
		return false
	}
	var cut []ssaEdge
	for _, b := range f.Blocks {
		cond, neg := condOfBlock(b)
		if cond == nil || !isTest(cond) {
			continue
		}
		if neg {
			cut = append(cut, ssaEdge{b, 1})
		} else {
			cut = append(cut, ssaEdge{b, 0})
		}
	}
	var implies func(v ssa.Value, at *ssa.BasicBlock, depth int) bool
	implies = func(v ssa.Value, at *ssa.BasicBlock, depth int) bool {
		if depth > 4 {
			return false
		}
		if k, isK := v.(*ssa.Const); isK && k.Value != nil && k.Value.Kind() == constant.Bool {
			if !constant.BoolVal(k.Value) {
				return true
			}
			return !ssaReachableAvoiding(f, at, cut)
		}
		if isTest(v) {
			return true
		}
		if phi, isPhi := v.(*ssa.Phi); isPhi {
			for i, e := range phi.Edges {
				pred := phi.Block().Preds[i]
				if k, isK := e.(*ssa.Const); isK && k.Value != nil && k.Value.Kind() == constant.Bool && constant.BoolVal(k.Value) {
					// `true` arriving from pred: the edge pred -> phi block must be a passing edge,
					// or pred itself reachable only across one
					okEdge := !ssaReachableAvoiding(f, pred, cut)
					for _, ce := range cut {
						if ce.From == pred && pred.Succs[ce.K] == phi.Block() {
							// pred's other edge must not also lead here
							other := pred.Succs[1-ce.K]
							if other != phi.Block() {
								okEdge = true
							}
						}
					}
					if !okEdge {
						return false
					}
					continue
				}
				if !implies(e, pred, depth+1) {
					return false
				}
			}
			return true
		}
		return false
	}
	nret := 0
	for _, b := range f.Blocks {
		for _, in := range b.Instrs {
			if r, isRet := in.(*ssa.Return); isRet {
				nret++
				if len(r.Results) != 1 || !implies(r.Results[0], b, 0) {
					return 0, 0, false
				}
			}
		}
	}
	return dirIdx, pathIdx, nret > 0
}

// confineCoreOf scans the conditions of fn for the containment test — written
// in place (HasPrefix / ==) or through a containment predicate helper — and
// for the RootDir == "" switch.
func confineCoreOf(fn *ssa.Function) (*confCore, []confNote) {
	core := &confCore{fn: fn}
	var notes []confNote
	for _, b := range fn.Blocks {
		cond, neg := condOfBlock(b)
		if cond == nil {
			continue
		}
		tEdge, fEdge := 0, 1
		if neg {
			tEdge, fEdge = 1, 0
		}
		switch x := cond.(type) {
		case *ssa.Call:
			var v, root ssa.Value
			switch {
			case staticCalleeIs(&x.Call, "strings", "HasPrefix") && len(x.Call.Args) == 2:
				add2, ok := x.Call.Args[1].(*ssa.BinOp)
				if !ok || add2.Op != token.ADD || !sepOperand(add2.Y) {
					notes = append(notes, confNote{"prefix test operands", Violated, "the prefix is not `EvalSymlinks(root) result + path separator` (a bare prefix lets /root-evil pass for /root)", x.Pos()})
					continue
				}
				v, root = x.Call.Args[0], add2.X
			default:
				di, pi, ok := containmentPredicate(x.Call.StaticCallee())
				if !ok || di >= len(x.Call.Args) || pi >= len(x.Call.Args) {
					continue
				}
				v, root = x.Call.Args[pi], x.Call.Args[di]
			}
			lc := extractOf(v, 0, "path/filepath", "EvalSymlinks")
			rc := extractOf(root, 0, "path/filepath", "EvalSymlinks")
			if lc == nil || rc == nil {
				notes = append(notes, confNote{"prefix test operands", Violated, "the containment test is not applied to (EvalSymlinks(loc) result, EvalSymlinks(root) result + separator)", x.Pos()})
				continue
			}
			core.havePrefix = true
			core.vChecked, core.rChecked, core.rootCall, core.locCall = v, root, rc, lc
			core.cut = append(core.cut, ssaEdge{b, tEdge})
		case *ssa.BinOp:
			if x.Op != token.EQL && x.Op != token.NEQ {
				continue
			}
			// RootDir == "" / != ""
			if (isFieldLoad(x.X, "RootDir") && isConstString(x.Y, "")) || (isFieldLoad(x.Y, "RootDir") && isConstString(x.X, "")) {
				core.haveRootEmpty = true
				if x.Op == token.EQL {
					core.cut = append(core.cut, ssaEdge{b, tEdge})
				} else {
					core.cut = append(core.cut, ssaEdge{b, fEdge})
				}
				continue
			}
			lx := extractOf(x.X, 0, "path/filepath", "EvalSymlinks")
			ly := extractOf(x.Y, 0, "path/filepath", "EvalSymlinks")
			if lx != nil && ly != nil && x.X.Type().String() == "string" {
				if x.Op == token.EQL {
					core.cut = append(core.cut, ssaEdge{b, tEdge})
				} else {
					core.cut = append(core.cut, ssaEdge{b, fEdge})
				}
				// must relate the same two values as the prefix test
				if core.vChecked != nil && !((x.X == core.vChecked && x.Y == core.rChecked) || (x.Y == core.vChecked && x.X == core.rChecked)) {
					notes = append(notes, confNote{"equality test operands", Violated, "the `resolved == root` test compares other values than the prefix test", x.Pos()})
				}
			}
		}
	}
	return core, notes
}

// rootEmptyEdges: the edges of fn on which lib.RootDir is known to be "".
func rootEmptyEdges(fn *ssa.Function) []ssaEdge {
	var out []ssaEdge
	for _, b := range fn.Blocks {
		cond, neg := condOfBlock(b)
		bo, ok := cond.(*ssa.BinOp)
		if !ok || !((isFieldLoad(bo.X, "RootDir") && isConstString(bo.Y, "")) || (isFieldLoad(bo.Y, "RootDir") && isConstString(bo.X, ""))) {
			continue
		}
		tEdge, fEdge := 0, 1
		if neg {
			tEdge, fEdge = 1, 0
		}
		if bo.Op == token.EQL {
			out = append(out, ssaEdge{b, tEdge})
		} else if bo.Op == token.NEQ {
			out = append(out, ssaEdge{b, fEdge})
		}
	}
	return out
}

// errReturnedIn: in fn, the error (result #1) of call is tested and the error
// edge returns.
func errReturnedIn(fn *ssa.Function, call *ssa.Call) bool {
	for _, b := range fn.Blocks {
		cond, neg := condOfBlock(b)
		bo, ok := cond.(*ssa.BinOp)
		if !ok || (bo.Op != token.NEQ && bo.Op != token.EQL) {
			continue
		}
		ex, ok := bo.X.(*ssa.Extract)
		if !ok || ex.Tuple != ssa.Value(call) || ex.Index != 1 {
			continue
		}
		errEdge := 0
		if bo.Op == token.EQL {
			errEdge = 1
		}
		if neg {
			errEdge = 1 - errEdge
		}
		if blockReturns(b.Succs[errEdge]) {
			return true
		}
	}
	return false
}

// errNilEdges: the edges of fn on which the error (result #1) of call is nil.
func errNilEdges(fn *ssa.Function, call *ssa.Call) []ssaEdge {
	var out []ssaEdge
	for _, b := range fn.Blocks {
		cond, neg := condOfBlock(b)
		bo, ok := cond.(*ssa.BinOp)
		if !ok || (bo.Op != token.NEQ && bo.Op != token.EQL) {
			continue
		}
		ex, ok := bo.X.(*ssa.Extract)
		if !ok || ex.Tuple != ssa.Value(call) || ex.Index != 1 {
			continue
		}
		if k, ok := bo.Y.(*ssa.Const); !ok || !k.IsNil() {
			continue
		}
		nilEdge := 1
		if bo.Op == token.EQL {
			nilEdge = 0
		}
		if neg {
			nilEdge = 1 - nilEdge
		}
		out = append(out, ssaEdge{b, nilEdge})
	}
	return out
}

func init() {
	register(&Rule{ID: "CONFINE.relative", Floor: 6,
		Doc: "RelativeFileSystemLibrary.LoadSource: with RootDir set, os.ReadFile is reachable only through `HasPrefix(resolved, resolvedRoot+Separator)` true or `resolved == resolvedRoot` (written in place, through a containment predicate, or inside a confining helper whose error is returned); resolved = EvalSymlinks(Abs(Clean(join(dir(ctx), loc)))), resolvedRoot = EvalSymlinks(Abs(RootDir)) with its error returned; the bytes read are those of `resolved`",
		Run: func(c *Ctx) []Obligation {
			fnT, fd, pkg := c.LookupFunc("lisp.(*RelativeFileSystemLibrary).LoadSource")
			if fnT == nil {
				return []Obligation{anchorMissing("CONFINE.relative", "RelativeFileSystemLibrary.LoadSource")}
			}
			u := FuncUnit{fnT, fd, pkg}
			fn := c.ssaFunc(fnT)
			if fn == nil || len(fn.Blocks) == 0 {
				return []Obligation{anchorMissing("CONFINE.relative", "SSA of LoadSource")}
			}
			var obs []Obligation
			add := func(construct, verdict, detail string, pos token.Pos) {
				p := fd.Pos()
				if pos.IsValid() {
					p = pos
				}
				obs = append(obs, Obligation{Rule: "CONFINE.relative", Func: u.Name(), Construct: construct, Pos: c.Pos(p), Verdict: verdict, Detail: detail, Nontrivial: true})
			}
			// all file reads in the function
			var reads []*ssa.Call
			for _, b := range fn.Blocks {
				for _, in := range b.Instrs {
					if call, ok := in.(*ssa.Call); ok {
						if f := call.Call.StaticCallee(); f != nil && f.Pkg != nil && f.Pkg.Pkg.Path() == "os" {
							switch f.Name() {
							case "ReadFile", "Open", "OpenFile":
								reads = append(reads, call)
							}
						}
					}
				}
			}
			// a read that is reachable only over the `RootDir == ""` edge belongs to the unconfined
			// configuration (an early `if lib.RootDir == "" { read; return }` arm): the confinement
			// obligations are about the read(s) that can run with a root set
			if len(reads) > 1 {
				var confined []*ssa.Call
				for _, r := range reads {
					if re := rootEmptyEdges(fn); len(re) > 0 && !ssaReachableAvoiding(fn, r.Block(), re) {
						continue
					}
					confined = append(confined, r)
				}
				if len(confined) >= 1 {
					reads = confined
				}
			}
			if len(reads) != 1 {
				add("file read", Violated, fmt.Sprintf("expected exactly one os file read that can run with a root set, found %d", len(reads)), token.NoPos)
				return obs
			}
			rd := reads[0]
			core, notes := confineCoreOf(fn)
			// the function in which the test is written, the value the read must use, the edges
			// that pass, and the argument (of this function) that is confined
			testFn := fn
			var helperCall *ssa.Call
			helperParam := -1
			vRead := core.vChecked
			cut := core.cut
			if !core.havePrefix {
				// a confining helper: (string, error) results, the string flows to the read
				for _, b := range fn.Blocks {
					for _, in := range b.Instrs {
						call, ok := in.(*ssa.Call)
						if !ok {
							continue
						}
						h := call.Call.StaticCallee()
						if h == nil || len(h.Blocks) == 0 || h.Pkg == nil || !strings.HasPrefix(h.Pkg.Pkg.Path(), modPath) || h.Signature.Results().Len() != 2 {
							continue
						}
						hcore, hnotes := confineCoreOf(h)
						if !hcore.havePrefix {
							continue
						}
						// every success return of the helper gives the checked value, behind the test
						okRet, nret := true, 0
						hRootEmpty := false
						for _, hb := range h.Blocks {
							for _, hin := range hb.Instrs {
								r, isRet := hin.(*ssa.Return)
								if !isRet || len(r.Results) != 2 {
									continue
								}
								if k, isK := r.Results[1].(*ssa.Const); !isK || !k.IsNil() {
									continue // an error return
								}
								// a success return reachable only over the helper's own `RootDir == ""` edge is the
								// unconfined configuration (`if lib.RootDir == "" { return loc, nil }`)
								if re := rootEmptyEdges(h); len(re) > 0 && !ssaReachableAvoiding(h, hb, re) {
									hRootEmpty = true
									continue
								}
								nret++
								if r.Results[0] != hcore.vChecked || ssaReachableAvoiding(h, hb, hcore.cut) {
									okRet = false
								}
							}
						}
						if !okRet || nret == 0 {
							add("confining helper", Violated, "the helper "+h.Name()+" can return a path without an error that is not the resolved path that passed the containment test", call.Pos())
							return obs
						}
						core, notes = hcore, hnotes
						testFn, helperCall = h, call
						for _, ex := range *call.Referrers() {
							if e, ok := ex.(*ssa.Extract); ok && e.Index == 0 {
								vRead = e
							}
						}
						cut = append(rootEmptyEdges(fn), errNilEdges(fn, call)...)
						core.haveRootEmpty = len(rootEmptyEdges(fn)) > 0 || hRootEmpty
					}
				}
			}
			for _, n := range notes {
				add(n.construct, n.verdict, n.detail, n.pos)
			}
			if !core.havePrefix {
				add("prefix test", Violated, "no `strings.HasPrefix(resolved, root+separator)` guard found", token.NoPos)
				return obs
			}
			add("prefix test operands", Proved, "HasPrefix(EvalSymlinks(loc)#0, EvalSymlinks(root)#0 + separator)", core.vChecked.Pos())
			if !core.haveRootEmpty {
				add("RootDir switch", Undecided, "no `RootDir == \"\"` test found", token.NoPos)
			}
			if helperCall != nil {
				if errReturnedIn(fn, helperCall) {
					add("confining helper error", Proved, "a refusal by "+testFn.Name()+" is returned as the error", helperCall.Pos())
				} else {
					add("confining helper error", Violated, "the error of the confining helper "+testFn.Name()+" is not returned: a refused path is read anyway", helperCall.Pos())
				}
			}
			// 1. must-pass-through
			if ssaReachableAvoiding(fn, rd.Block(), cut) {
				add("read guarded", Violated, "os.ReadFile is reachable with RootDir set without passing the containment test", rd.Pos())
			} else {
				add("read guarded", Proved, "deleting the pass edges (RootDir==\"\", HasPrefix true, resolved==root) makes the read unreachable", rd.Pos())
			}
			// 2. the path read is the checked value on every confined edge
			arg := rd.Call.Args[0]
			okArg := false
			switch a := arg.(type) {
			case *ssa.Phi:
				okArg = true
				nchecked := 0
				for _, e := range a.Edges {
					if e == vRead {
						nchecked++
						continue
					}
					// any other incoming value must come from the unconfined side
					if derivesFrom(e, func(v ssa.Value) bool { return v == vRead }, 6, map[ssa.Value]bool{}) {
						okArg = false
					}
				}
				if nchecked == 0 {
					okArg = false
				}
				// the edges that do not carry the checked value must come from predecessors reachable only via RootDir==""
				cutEmpty := rootEmptyEdges(fn)
				for i, e := range a.Edges {
					if e == vRead {
						continue
					}
					pred := a.Block().Preds[i]
					if pred != a.Block() && ssaReachableAvoiding(fn, pred, cutEmpty) && pred != fn.Blocks[0] {
						// reachable with RootDir set: then pred must be the RootDir test block itself
						if c0, _ := condOfBlock(pred); c0 == nil {
							okArg = false
						}
					}
				}
			default:
				okArg = arg == vRead
			}
			if okArg {
				add("read path", Proved, "the path handed to os.ReadFile on the confined path is the very value that was checked (resolved path), not the unresolved location", rd.Pos())
			} else {
				add("read path", Violated, "the path handed to os.ReadFile is not the resolved, checked value on every confined path (check/read mismatch: TOCTOU or bypass)", rd.Pos())
			}
			// 3. root operand derives from RootDir; its error is returned
			rootCall, locCall := core.rootCall, core.locCall
			if rootCall != nil && derivesFrom(rootCall.Call.Args[0], func(v ssa.Value) bool { return isFieldLoad(v, "RootDir") }, 6, map[ssa.Value]bool{}) {
				add("root operand", Proved, "resolved root = EvalSymlinks(... lib.RootDir ...)", rootCall.Pos())
			} else {
				add("root operand", Violated, "the root compared against is not derived from lib.RootDir", token.NoPos)
			}
			if rootCall != nil && errReturnedIn(testFn, rootCall) {
				add("root resolve error", Proved, "a failed EvalSymlinks(root) returns an error (an empty root would make every absolute path pass the prefix test)", rootCall.Pos())
			} else {
				add("root resolve error", Violated, "the error of EvalSymlinks(root) is not returned", token.NoPos)
			}
			if locCall != nil && errReturnedIn(testFn, locCall) {
				add("loc resolve error", Proved, "a failed EvalSymlinks(loc) returns an error", locCall.Pos())
			} else {
				add("loc resolve error", Violated, "the error of EvalSymlinks(loc) is not returned", token.NoPos)
			}
			// 4. loc operand: Clean(join(dir(ctx.Location()), loc)) for relative locations
			if locCall != nil {
				a := locCall.Call.Args[0]
				// both operands of the containment test must be ABSOLUTE before they are resolved:
				// EvalSymlinks keeps a relative path relative, and two relative spellings can share a
				// textual prefix ("../" and "../../x") without one containing the other
				absOf := func(v ssa.Value) (ssa.Value, bool) {
					if ac := extractOf(v, 0, "path/filepath", "Abs"); ac != nil {
						return ac.Call.Args[0], true
					}
					return v, false
				}
				inner, locAbs := absOf(a)
				_, rootAbs := ssa.Value(nil), false
				if rootCall != nil {
					_, rootAbs = absOf(rootCall.Call.Args[0])
				}
				if locAbs && rootAbs {
					add("absolute operands", Proved, "EvalSymlinks is applied to filepath.Abs results for the root and for the location", locCall.Pos())
				} else {
					add("absolute operands", Violated, "the root or the location is resolved without being made absolute first: with a relative RootDir such as \"..\" the prefix test compares relative spellings and \"../../secret.lisp\" passes", locCall.Pos())
				}
				a = inner
				if helperCall != nil {
					// inside the helper the location is its parameter; the caller passes the cleaned location
					for i, pv := range testFn.Params {
						if ssa.Value(pv) == a {
							helperParam = i
						}
					}
					if helperParam < 0 || helperParam >= len(helperCall.Call.Args) {
						add("loc operand", Violated, "the path the helper "+testFn.Name()+" resolves is not the location it was given", locCall.Pos())
						return obs
					}
					a = helperCall.Call.Args[helperParam]
				}
				// the cleaned location: Clean(x), or Join(…) (Join cleans its result), on every path — written in
				// place, joined by a phi, or returned by a helper of the module (`loc = locateFrom(ctx, loc)`)
				var cleanRoots func(v ssa.Value, depth int, seen map[ssa.Value]bool) ([]ssa.Value, bool)
				cleanRoots = func(v ssa.Value, depth int, seen map[ssa.Value]bool) ([]ssa.Value, bool) {
					if v == nil || depth > 4 {
						return nil, false
					}
					if seen[v] {
						return nil, true
					}
					seen[v] = true
					switch x := v.(type) {
					case *ssa.Phi:
						var all []ssa.Value
						for _, e := range x.Edges {
							r, ok := cleanRoots(e, depth, seen)
							if !ok {
								return nil, false
							}
							all = append(all, r...)
						}
						return all, true
					case *ssa.Call:
						if staticCalleeIs(&x.Call, "path/filepath", "Clean") {
							return []ssa.Value{x.Call.Args[0]}, true
						}
						if staticCalleeIs(&x.Call, "path/filepath", "Join") {
							return []ssa.Value{x}, true
						}
						f := x.Call.StaticCallee()
						if f == nil || len(f.Blocks) == 0 || f.Pkg == nil || !strings.HasPrefix(f.Pkg.Pkg.Path(), modPath) || f.Signature.Results().Len() != 1 {
							return nil, false
						}
						for i, p := range f.Params {
							if i < len(x.Call.Args) {
								ssaBind[p] = append(ssaBind[p], x.Call.Args[i])
							}
						}
						var all []ssa.Value
						nret := 0
						for _, b := range f.Blocks {
							for _, in := range b.Instrs {
								if r, ok := in.(*ssa.Return); ok && len(r.Results) == 1 {
									nret++
									rr, ok := cleanRoots(r.Results[0], depth+1, seen)
									if !ok {
										return nil, false
									}
									all = append(all, rr...)
								}
							}
						}
						return all, nret > 0
					}
					return nil, false
				}
				cl := asCall(a)
				if roots, ok := cleanRoots(a, 0, map[ssa.Value]bool{}); ok && len(roots) > 0 {
					isLocParam := func(v ssa.Value) bool {
						p, ok := v.(*ssa.Parameter)
						return ok && p.Type().String() == "string" && p.Parent() != nil && len(p.Parent().Params) > 0 && p == p.Parent().Params[len(p.Parent().Params)-1]
					}
					isJoinDir := func(v ssa.Value) bool {
						jc := asCall(v)
						if jc == nil || !staticCalleeIs(&jc.Call, "path/filepath", "Join") {
							return false
						}
						return derivesFrom(jc, func(w ssa.Value) bool {
							dc := asCall(w)
							return dc != nil && staticCalleeIs(&dc.Call, "path/filepath", "Dir")
						}, 4, map[ssa.Value]bool{})
					}
					hasParam, hasJoin := false, false
					for _, r := range roots {
						if derivesFrom(r, isLocParam, 6, map[ssa.Value]bool{}) {
							hasParam = true
						}
						if derivesFrom(r, isJoinDir, 6, map[ssa.Value]bool{}) {
							hasJoin = true
						}
					}
					pos := locCall.Pos()
					if cl != nil {
						pos = cl.Pos()
					}
					if hasParam && hasJoin {
						add("loc operand", Proved, "resolved = EvalSymlinks(Clean(phi[loc, Join(Dir(ctx.Location()), loc)]))", pos)
					} else {
						add("loc operand", Violated, "the location resolved is not Clean(loc | Join(Dir(loading file), loc))", pos)
					}
				} else {
					add("loc operand", Violated, "EvalSymlinks is not applied to the cleaned location", locCall.Pos())
				}
			}
			return obs
		}})

	register(&Rule{ID: "CONFINE.fs", Floor: 2,
		Doc: "FSLibrary.LoadSource reads only through fs.ReadFile(lib.FS, name) with name = TrimPrefix(ToSlash(Clean(...)), \"/\")",
		Run: func(c *Ctx) []Obligation {
			fnT, fd, pkg := c.LookupFunc("lisp.(*FSLibrary).LoadSource")
			if fnT == nil {
				return []Obligation{anchorMissing("CONFINE.fs", "FSLibrary.LoadSource")}
			}
			u := FuncUnit{fnT, fd, pkg}
			fn := c.ssaFunc(fnT)
			var obs []Obligation
			add := func(construct, verdict, detail string, pos token.Pos) {
				p := fd.Pos()
				if pos.IsValid() {
					p = pos
				}
				obs = append(obs, Obligation{Rule: "CONFINE.fs", Func: u.Name(), Construct: construct, Pos: c.Pos(p), Verdict: verdict, Detail: detail, Nontrivial: true})
			}
			nreads := 0
			for _, b := range fn.Blocks {
				for _, in := range b.Instrs {
					call, ok := in.(*ssa.Call)
					if !ok {
						continue
					}
					f := call.Call.StaticCallee()
					if f == nil || f.Pkg == nil {
						continue
					}
					pp := f.Pkg.Pkg.Path()
					if pp == "os" && (strings.HasPrefix(f.Name(), "Read") || strings.HasPrefix(f.Name(), "Open")) {
						add("os read", Violated, "FSLibrary reads through the os package, bypassing its fs.FS", call.Pos())
					}
					if pp == "io/fs" && f.Name() == "ReadFile" {
						nreads++
						if !isFieldLoad(call.Call.Args[0], "FS") {
							add("fs operand", Violated, "fs.ReadFile is not applied to lib.FS", call.Pos())
						} else {
							add("fs operand", Proved, "reads go through lib.FS", call.Pos())
						}
						ok := fsNormalised(call.Call.Args[1], 2)
						if ok {
							add("name normalised", Proved, "name = TrimPrefix(ToSlash(Clean(..)), \"/\")", call.Pos())
						} else {
							add("name normalised", Violated, "the name passed to fs.ReadFile is not TrimPrefix(ToSlash(Clean(..)), \"/\")", call.Pos())
						}
					}
				}
			}
			if nreads != 1 {
				add("fs read", Violated, fmt.Sprintf("expected exactly one fs.ReadFile, found %d", nreads), token.NoPos)
			}
			return obs
		}})

	register(&Rule{ID: "CONFINE.true-location", Floor: 4,
		Doc: "each SourceLibrary.LoadSource returns, as the loaded file's location (2nd result), the very path value it passed to the file read, and that path is joined with the directory of the loading file's location when one is given: a file loaded from a subdirectory resolves its own relative loads against that subdirectory",
		Run: func(c *Ctx) []Obligation {
			var obs []Obligation
			for _, name := range []string{"lisp.(*RelativeFileSystemLibrary).LoadSource", "lisp.(*FSLibrary).LoadSource"} {
				fnT, fd, pkg := c.LookupFunc(name)
				if fnT == nil {
					obs = append(obs, anchorMissing("CONFINE.true-location", name))
					continue
				}
				u := FuncUnit{fnT, fd, pkg}
				fn := c.ssaFunc(fnT)
				add := func(construct, verdict, detail string, pos token.Pos) {
					p := fd.Pos()
					if pos.IsValid() {
						p = pos
					}
					obs = append(obs, Obligation{Rule: "CONFINE.true-location", Func: u.Name(), Construct: construct, Pos: c.Pos(p), Verdict: verdict, Detail: detail, Nontrivial: true})
				}
				type readSite struct {
					path ssa.Value
					call *ssa.Call
				}
				var reads []readSite
				for _, b := range fn.Blocks {
					for _, in := range b.Instrs {
						call, ok := in.(*ssa.Call)
						if !ok {
							continue
						}
						if staticCalleeIs(&call.Call, "os", "ReadFile") {
							reads = append(reads, readSite{call.Call.Args[0], call})
						}
						if staticCalleeIs(&call.Call, "io/fs", "ReadFile") {
							reads = append(reads, readSite{call.Call.Args[1], call})
						}
					}
				}
				if len(reads) == 0 {
					add("single read", Violated, "no file read found", token.NoPos)
					continue
				}
				// each read (one per configuration arm, usually one in all) is judged on its own
				nret := 0
				for ri, rdSite := range reads {
					readPath, readCall := rdSite.path, rdSite.call
					suffix := ""
					if ri > 0 {
						suffix = fmt.Sprintf(" (read %d)", ri+1)
					}
					// every return that hands back data (3rd result derived from the read) reports readPath as location
					nthis := 0
					for _, b := range fn.Blocks {
						for _, in := range b.Instrs {
							r, ok := in.(*ssa.Return)
							if !ok || len(r.Results) != 4 {
								continue
							}
							if !derivesFrom(r.Results[2], func(x ssa.Value) bool { return x == ssa.Value(readCall) }, 4, map[ssa.Value]bool{}) {
								continue // error return without data, or the data of another read
							}
							nret++
							nthis++
							if r.Results[1] == readPath {
								add(fmt.Sprintf("location returned#%d", nret), Proved, "the reported location is the value passed to the read", r.Pos())
							} else {
								add(fmt.Sprintf("location returned#%d", nret), Violated, "the location reported for the loaded file is not the path that was read: nested relative loads from that file resolve against the wrong directory", r.Pos())
							}
						}
					}
					if nthis == 0 {
						add("location returned"+suffix, Undecided, "no return carrying the read data found", token.NoPos)
					}
					// the read path derives from Join(Dir(ctx.Location()), loc)
					isJoin := func(x ssa.Value) bool {
						j := asCall(x)
						if j == nil || !staticCalleeIs(&j.Call, "path/filepath", "Join") {
							return false
						}
						hasDir, hasLoc := false, false
						check := func(a ssa.Value) {
							if derivesFrom(a, func(y ssa.Value) bool {
								d := asCall(y)
								if d == nil || !staticCalleeIs(&d.Call, "path/filepath", "Dir") {
									return false
								}
								return derivesFrom(d.Call.Args[0], func(z ssa.Value) bool {
									zc := asCall(z)
									return zc != nil && zc.Call.IsInvoke() && zc.Call.Method.Name() == "Location"
								}, 3, map[ssa.Value]bool{})
							}, 4, map[ssa.Value]bool{}) {
								hasDir = true
							}
							if len(fn.Params) >= 3 && derivesFrom(a, func(y ssa.Value) bool { return y == ssa.Value(fn.Params[2]) }, 3, map[ssa.Value]bool{}) {
								hasLoc = true
							}
						}
						for _, a := range j.Call.Args {
							check(a)
						}
						return hasDir && hasLoc
					}
					if derivesFrom(readPath, isJoin, 12, map[ssa.Value]bool{}) {
						add("joined with loader's directory"+suffix, Proved, "the read path derives from filepath.Join(filepath.Dir(ctx.Location()), loc)", readCall.Pos())
					} else {
						add("joined with loader's directory"+suffix, Violated, "the read path does not derive from Join(Dir(ctx.Location()), loc): relative locations no longer resolve against the loading file's directory", readCall.Pos())
					}
				}
			}
			return obs
		}})

	register(&Rule{ID: "CONFINE.root-fs", Floor: 3,
		Doc: "wherever the module itself confines loading to a root directory through the fs.FS library (the run, debug and repl commands' --root-dir), the file system is (*os.Root).FS() — which refuses every path that resolves outside the directory — and never os.DirFS, which checks names only and follows a symbolic link inside the directory wherever it points",
		Run: func(c *Ctx) []Obligation {
			fsl := c.LookupType("lisp.FSLibrary")
			if fsl == nil {
				return []Obligation{anchorMissing("CONFINE.root-fs", "lisp.FSLibrary")}
			}
			var obs []Obligation
			for _, p := range c.Pkgs {
				if !strings.HasPrefix(p.PkgPath, modPath) {
					continue
				}
				info := p.TypesInfo
				for _, f := range p.Syntax {
					if strings.HasSuffix(c.Fset.Position(f.Pos()).Filename, "_test.go") {
						continue
					}
					for _, d := range f.Decls {
						// the enclosing top-level declaration names the site (functions and
						// package-level command variables whose Run field is a literal)
						owner := rel(p.PkgPath) + ".?"
						switch dd := d.(type) {
						case *ast.FuncDecl:
							if o, ok := info.Defs[dd.Name].(*types.Func); ok {
								owner = FuncName(o)
							}
						case *ast.GenDecl:
							for _, sp := range dd.Specs {
								if vs, ok := sp.(*ast.ValueSpec); ok && len(vs.Names) > 0 {
									owner = rel(p.PkgPath) + "." + vs.Names[0].Name
								}
							}
						}
						ord := &ordinal{}
						add := func(construct string, n ast.Node, verdict, detail string, nt bool) {
							obs = append(obs, Obligation{Rule: "CONFINE.root-fs", Func: owner, Construct: ord.next(construct), Pos: c.Pos(n.Pos()), Verdict: verdict, Detail: detail, Nontrivial: nt})
						}
						ast.Inspect(d, func(n ast.Node) bool {
							switch x := n.(type) {
							case *ast.CallExpr:
								if stdFuncCalled(info, x, "os", "DirFS") {
									add("call os.DirFS", x, Violated, "os.DirFS follows symbolic links out of the directory: a link inside the root that points outside is read and evaluated", true)
								}
							case *ast.CompositeLit:
								tv, ok := info.Types[x]
								if !ok {
									return true
								}
								t := tv.Type
								if pt, ok := t.(*types.Pointer); ok {
									t = pt.Elem()
								}
								if types.Unalias(t) != types.Type(fsl) {
									return true
								}
								var val ast.Expr
								for _, el := range x.Elts {
									if kv, ok := el.(*ast.KeyValueExpr); ok {
										if id, ok := kv.Key.(*ast.Ident); ok && id.Name == "FS" {
											val = kv.Value
										}
									} else if val == nil {
										val = el
									}
								}
								if val == nil {
									add("FSLibrary literal", x, Proved, "no file system set here", false)
									return true
								}
								if ce, ok := ast.Unparen(val).(*ast.CallExpr); ok {
									if fn := Callee(info, ce); fn != nil && fn.Pkg() != nil && fn.Pkg().Path() == "os" && fn.Name() == "FS" {
										add("FSLibrary literal", x, Proved, "FS: (*os.Root).FS() — resolves every path inside the root or fails", true)
										return true
									}
									if stdFuncCalled(info, ce, "os", "DirFS") {
										add("FSLibrary literal", x, Violated, "FS: os.DirFS(...) — confinement by name only; symbolic links are followed out of the root", true)
										return true
									}
								}
								add("FSLibrary literal", x, Proved, "FS: `"+types.ExprString(val)+"` supplied by the caller (an embedder's own fs.FS)", false)
							}
							return true
						})
					}
				}
			}
			return obs
		}})

	register(&Rule{ID: "CONFINE.readers", Floor: 2,
		Doc: "file-system reads in the kernel (os.ReadFile/Open*/ReadDir/Stat, io/fs.ReadFile/ReadDir, io/ioutil, filepath.Walk/Glob) occur only in the two SourceLibrary.LoadSource methods",
		Run: func(c *Ctx) []Obligation {
			permitted := map[string]bool{
				"lisp.(*RelativeFileSystemLibrary).LoadSource": true,
				"lisp.(*FSLibrary).LoadSource":                 true,
			}
			var obs []Obligation
			for _, u := range c.Funcs(isKernel) {
				info := u.Pkg.TypesInfo
				ord := &ordinal{}
				for _, ce := range callsIn(u.Decl.Body, true) {
					fn := Callee(info, ce)
					if fn == nil || fn.Pkg() == nil {
						continue
					}
					pp, n := fn.Pkg().Path(), fn.Name()
					isRead := false
					switch pp {
					case "os":
						switch n {
						case "ReadFile", "Open", "OpenFile", "ReadDir", "Stat", "Lstat", "Readlink", "DirFS", "Create", "WriteFile", "Remove", "RemoveAll", "Mkdir", "MkdirAll", "Rename":
							isRead = true
						}
					case "io/fs":
						switch n {
						case "ReadFile", "ReadDir", "Stat", "Glob", "WalkDir", "Sub":
							isRead = true
						}
					case "io/ioutil":
						isRead = true
					case "path/filepath":
						switch n {
						case "Walk", "WalkDir", "Glob":
							isRead = true
						}
					}
					if !isRead {
						continue
					}
					construct := ord.next("call " + pp + "." + n)
					if permitted[u.Name()] {
						obs = append(obs, mkOb(c, "CONFINE.readers", u, construct, ce, Proved, "inside a SourceLibrary.LoadSource implementation (path checked by CONFINE.relative / CONFINE.fs)", false))
					} else if via, ok := c.privateHelperOf(u.Obj, func(n string) bool { return permitted[n] }, 0); ok {
						obs = append(obs, mkOb(c, "CONFINE.readers", u, construct, ce, Proved, "private helper of "+via+", a SourceLibrary.LoadSource implementation", false))
					} else {
						obs = append(obs, mkOb(c, "CONFINE.readers", u, construct, ce, Violated, "file-system access in the interpreter kernel outside the SourceLibrary implementations: not subject to root confinement", false))
					}
				}
			}
			return obs
		}})

	register(&Rule{ID: "CONFINE.load-funnel", Floor: 1,
		Doc: "every call of SourceLibrary.LoadSource in the kernel passes the context obtained from Runtime.sourceContext() (relative locations resolve against the loading file) and happens in LoadFile/LoadFileContext",
		Run: func(c *Ctx) []Obligation {
			sc := c.LookupMethod("lisp.Runtime.sourceContext")
			if sc == nil {
				return []Obligation{anchorMissing("CONFINE.load-funnel", "Runtime.sourceContext")}
			}
			var obs []Obligation
			for _, u := range c.Funcs(isKernel) {
				info := u.Pkg.TypesInfo
				ord := &ordinal{}
				for _, ce := range callsIn(u.Decl.Body, true) {
					fn := Callee(info, ce)
					if fn == nil || fn.Name() != "LoadSource" || fn.Pkg() == nil || rel(fn.Pkg().Path()) != "lisp" {
						continue
					}
					construct := ord.next("call LoadSource")
					if len(ce.Args) != 2 {
						continue
					}
					obj := identObj(info, ce.Args[0])
					okCtx := false
					if dc, ok := ast.Unparen(ce.Args[0]).(*ast.CallExpr); ok && originOf(Callee(info, dc)) == sc {
						okCtx = true // written in place
					}
					if obj != nil {
						if dc, _, n := definingCall(info, u.Decl.Body, obj); dc != nil && n == 1 && originOf(Callee(info, dc)) == sc {
							okCtx = true
						}
					}
					if okCtx {
						obs = append(obs, mkOb(c, "CONFINE.load-funnel", u, construct, ce, Proved, "context argument is the result of Runtime.sourceContext()", true))
					} else {
						obs = append(obs, mkOb(c, "CONFINE.load-funnel", u, construct, ce, Violated, "LoadSource called with a context that is not Runtime.sourceContext(): relative locations no longer resolve against the loading file", true))
					}
				}
			}
			return obs
		}})
}

// ARGS.same-name-same-slot — C20 ("relative locations resolve against the
// directory of the file doing the loading"): which directory that is comes from
// the location string stamped on the loading file's forms, and that string
// travels through a chain of functions that each take `name` and `loc` — two
// strings, side by side.  Passing them in the other order type-checks and
// changes nothing when both are equal, which is what every test passes.
func init() {
	register(&Rule{ID: "ARGS.same-name-same-slot", Floor: 5,
		Doc: "wherever a function of the interpreter passes two of its own identically-typed variables to a callee whose parameters carry the same two names, each goes to the parameter of its own name: `name` is never passed as `loc` and `loc` as `name` (the loading file's location, and with it the directory relative loads resolve against, reaches the parser under the right label)",
		Run: func(c *Ctx) []Obligation {
			const rid = "ARGS.same-name-same-slot"
			var obs []Obligation
			for _, u := range c.Funcs(func(p string) bool { return rel(p) == "lisp" || rel(p) == "repl" || rel(p) == "cmd" || rel(p) == "elpsutil" || rel(p) == "parser" }) {
				if u.Decl == nil || u.Decl.Body == nil {
					continue
				}
				info := u.Pkg.TypesInfo
				ord := &ordinal{}
				for _, ce := range callsIn(u.Decl.Body, true) {
					f := originOf(Callee(info, ce))
					if f == nil {
						continue
					}
					sig, ok := f.Type().(*types.Signature)
					if !ok || sig.Params().Len() < 2 {
						continue
					}
					pos := map[string]int{}
					for i := 0; i < sig.Params().Len(); i++ {
						if nm := sig.Params().At(i).Name(); nm != "" && nm != "_" {
							pos[nm] = i
						}
					}
					// argument identifiers that bear a parameter name of the callee
					type slot struct {
						arg  int
						name string
					}
					var named []slot
					for i, a := range ce.Args {
						if id, ok := ast.Unparen(a).(*ast.Ident); ok {
							if _, has := pos[id.Name]; has && i < sig.Params().Len() {
								named = append(named, slot{i, id.Name})
							}
						}
					}
					if len(named) < 2 {
						continue
					}
					swapped := ""
					for _, s1 := range named {
						for _, s2 := range named {
							if s1.arg < s2.arg && pos[s1.name] == s2.arg && pos[s2.name] == s1.arg &&
								types.Identical(sig.Params().At(s1.arg).Type(), sig.Params().At(s2.arg).Type()) {
								swapped = s1.name + " / " + s2.name
							}
						}
					}
					construct := ord.next("call " + shortName(f))
					if swapped != "" {
						obs = append(obs, mkOb(c, rid, u, construct, ce, Violated, "the caller's variables "+swapped+" are passed to "+FuncName(f)+" in each other's place (same type, so it compiles): forms are stamped with the wrong location string, so a relative load-file issued from a program parsed this way resolves against the wrong directory — outside what the library would otherwise allow, or to a different file of the same name", true))
					} else {
						inPlace := true
						for _, s := range named {
							if pos[s.name] != s.arg {
								inPlace = false
							}
						}
						if inPlace {
							obs = append(obs, mkOb(c, rid, u, construct, ce, Proved, "each like-named variable is passed in its own slot", false))
						}
					}
				}
			}
			return obs
		}})
}

// CONFINE.rootdir-defaulted — C20: RelativeFileSystemLibrary confines only when
// its RootDir is non-empty; with the zero value it reads any path it is given.
// The command-line entry points promise a root ("default: the working
// directory"), so wherever they build this library the RootDir must be the
// DEFAULTED directory, not the raw option the user may have left empty.
func init() {
	register(&Rule{ID: "CONFINE.rootdir-defaulted", Floor: 0,
		Doc: "in the command-line packages (cmd, repl) every lisp.RelativeFileSystemLibrary literal sets RootDir to a local variable that an `if v == \"\" { v = … }` in front of it has defaulted: an entry point that documents a root directory never builds an unconfined library when the option is omitted.  (Zero sites today — the CLI confines through os.Root, see CONFINE.root-fs; the seeded change C20-r3m2 is the standing positive example re-checked by selftest.)",
		Run: func(c *Ctx) []Obligation {
			const rid = "CONFINE.rootdir-defaulted"
			lp := c.Pkg("lisp")
			if lp == nil {
				return []Obligation{anchorMissing(rid, "package lisp")}
			}
			libT := lp.Types.Scope().Lookup("RelativeFileSystemLibrary")
			if libT == nil {
				return []Obligation{anchorMissing(rid, "lisp.RelativeFileSystemLibrary")}
			}
			var obs []Obligation
			for _, u := range c.Funcs(func(p string) bool { return rel(p) == "cmd" || rel(p) == "repl" }) {
				if u.Decl == nil || u.Decl.Body == nil {
					continue
				}
				info := u.Pkg.TypesInfo
				ord := &ordinal{}
				ast.Inspect(u.Decl.Body, func(n ast.Node) bool {
					cl, ok := n.(*ast.CompositeLit)
					if !ok || !types.Identical(info.TypeOf(cl), libT.Type()) {
						return true
					}
					construct := ord.next("RelativeFileSystemLibrary literal")
					var val ast.Expr
					for _, el := range cl.Elts {
						if kv, ok := el.(*ast.KeyValueExpr); ok {
							if id, ok := kv.Key.(*ast.Ident); ok && id.Name == "RootDir" {
								val = kv.Value
							}
						}
					}
					if val == nil {
						obs = append(obs, mkOb(c, rid, u, construct, cl, Violated, "no RootDir: the library reads any path, absolute or through `..`, that a program names", true))
						return true
					}
					v := identObj(info, val)
					defaulted := false
					if v != nil {
						ast.Inspect(u.Decl.Body, func(m ast.Node) bool {
							is, ok := m.(*ast.IfStmt)
							if !ok || is.Pos() > cl.Pos() {
								return true
							}
							be, ok := ast.Unparen(is.Cond).(*ast.BinaryExpr)
							if !ok || be.Op != token.EQL || identObj(info, be.X) != v {
								return true
							}
							if s, ok := constStringVal(info, be.Y); !ok || s != "" {
								return true
							}
							for _, st := range is.Body.List {
								if as, ok := st.(*ast.AssignStmt); ok {
									for _, l := range as.Lhs {
										if identObj(info, l) == v {
											defaulted = true
										}
									}
								}
							}
							return true
						})
					}
					if defaulted {
						obs = append(obs, mkOb(c, rid, u, construct, cl, Proved, "RootDir is the defaulted directory", true))
					} else {
						obs = append(obs, mkOb(c, rid, u, construct, cl, Violated, "RootDir is `"+types.ExprString(val)+"`, which nothing in front of the literal makes non-empty: when the option is omitted (documented default: the working directory) the library is unconfined and load-file reads absolute paths, `..` paths and symbolic links to anywhere", true))
					}
					return true
				})
			}
			return obs
		}})
}
