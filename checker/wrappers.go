package main

import (
	"fmt"
	"go/ast"
	"go/token"
	"go/types"

	"golang.org/x/tools/go/cfg"
)

// Setter wrappers.  A refactoring that replaces ten open-coded
// `stack.Top().Terminal = true` statements with calls of a one-line method
// `markTopTerminal()` moves every store of the field into one function.  Rules
// that reason about a store IN ITS CONTEXT (what it dominates, what follows it,
// who makes it) would all look at the one-liner and see nothing.  Such a
// function is treated as the primitive it wraps (Min et al.: "treat a wrapper as
// acquires-the-lock when all its paths return with the lock held"): the store
// is re-seated at every call site of the wrapper, with the wrapper's constant
// (or the caller's argument, when the wrapper stores a parameter) as the value.

// isSetterWrapper: u is a declared function whose body consists only of plain
// assignments to struct fields with constant or parameter right sides (and an
// optional bare return): calling it is executing those stores, nothing else.
func (c *Ctx) isSetterWrapper(u FuncUnit) bool {
	if u.Decl == nil || u.Decl.Body == nil || len(u.Decl.Body.List) == 0 || len(u.Decl.Body.List) > 4 {
		return false
	}
	info := u.Pkg.TypesInfo
	params := map[types.Object]bool{}
	if u.Decl.Type.Params != nil {
		for _, f := range u.Decl.Type.Params.List {
			for _, nm := range f.Names {
				params[info.Defs[nm]] = true
			}
		}
	}
	if u.Decl.Type.Results != nil && len(u.Decl.Type.Results.List) > 0 {
		return false
	}
	nstores := 0
	for _, st := range u.Decl.Body.List {
		switch x := st.(type) {
		case *ast.ReturnStmt:
			if len(x.Results) != 0 {
				return false
			}
		case *ast.AssignStmt:
			if x.Tok != token.ASSIGN || len(x.Lhs) != len(x.Rhs) {
				return false
			}
			for i, l := range x.Lhs {
				if FieldOfSelector(info, l) == nil {
					return false
				}
				r := ast.Unparen(x.Rhs[i])
				if tv, ok := info.Types[r]; ok && tv.Value != nil {
					continue
				}
				if id, ok := r.(*ast.Ident); ok && (params[info.Uses[id]] || id.Name == "nil" || id.Name == "true" || id.Name == "false") {
					continue
				}
				return false
			}
			nstores++
		default:
			return false
		}
	}
	return nstores > 0
}

// expandSetterWrites re-seats the writes found in setter wrappers at the call
// sites of those wrappers (same package only; a wrapper whose value is taken,
// or that has no static caller, is left as it is).
func (c *Ctx) expandSetterWrites(ws []FieldWrite, depth int) []FieldWrite {
	var out []FieldWrite
	for _, w := range ws {
		if depth > 2 || w.Lit != nil || w.Kind != "assign" || !c.isSetterWrapper(w.Unit) {
			out = append(out, w)
			continue
		}
		pkg := w.Unit.Pkg.PkgPath
		sites, refs := c.CallsTo(func(string) bool { return true }, w.Unit.Obj)
		ok := len(sites) > 0 && len(refs) == 0
		for _, s := range sites {
			if s.Unit.Pkg.PkgPath != pkg {
				ok = false
			}
		}
		if !ok {
			out = append(out, w)
			continue
		}
		// which parameter (if any) is stored
		pidx := -1
		if id, isID := ast.Unparen(w.RHS).(*ast.Ident); isID && w.Unit.Decl.Type.Params != nil {
			k := 0
			for _, f := range w.Unit.Decl.Type.Params.List {
				for _, nm := range f.Names {
					if w.Unit.Pkg.TypesInfo.Defs[nm] == w.Unit.Pkg.TypesInfo.Uses[id] {
						pidx = k
					}
					k++
				}
			}
		}
		var seated []FieldWrite
		for _, s := range sites {
			var node ast.Node = s.Call
			for i := len(s.Stack) - 1; i >= 0; i-- {
				if st, isStmt := s.Stack[i].(ast.Stmt); isStmt {
					node = st
					break
				}
			}
			rhs := w.RHS
			if pidx >= 0 && pidx < len(s.Call.Args) {
				rhs = s.Call.Args[pidx]
			}
			seated = append(seated, FieldWrite{Field: w.Field, Kind: "assign", Node: node, LHS: w.LHS, RHS: rhs, Unit: s.Unit, Lit: s.Lit})
		}
		out = append(out, c.expandSetterWrites(seated, depth+1)...)
	}
	return out
}

// storeNodeOf: does statement n store to fld — by a plain assignment, or by
// calling a setter wrapper of fld?  Returns the stored expression (the caller's
// argument when the wrapper stores a parameter).
func (c *Ctx) storeNodeOf(info *types.Info, n ast.Node, fld *types.Var) (ast.Expr, *types.Info, bool) {
	switch x := n.(type) {
	case *ast.AssignStmt:
		if x.Tok == token.ASSIGN && len(x.Lhs) == len(x.Rhs) {
			for i, l := range x.Lhs {
				if FieldOfSelector(info, l) == fld {
					return x.Rhs[i], info, true
				}
			}
		}
	case *ast.ExprStmt:
		ce, ok := ast.Unparen(x.X).(*ast.CallExpr)
		if !ok {
			return nil, nil, false
		}
		fn := originOf(Callee(info, ce))
		if fn == nil {
			return nil, nil, false
		}
		for _, w := range c.setterWrapperWrites(fld) {
			if w.Unit.Obj != fn {
				continue
			}
			winfo := w.Unit.Pkg.TypesInfo
			if id, isID := ast.Unparen(w.RHS).(*ast.Ident); isID && w.Unit.Decl.Type.Params != nil {
				k := 0
				for _, f := range w.Unit.Decl.Type.Params.List {
					for _, nm := range f.Names {
						if winfo.Defs[nm] == winfo.Uses[id] && k < len(ce.Args) {
							return ce.Args[k], info, true
						}
						k++
					}
				}
			}
			return w.RHS, winfo, true
		}
	}
	return nil, nil, false
}

// setterWrapperWrites: the plain stores of fld that sit in setter wrappers.
func (c *Ctx) setterWrapperWrites(fld *types.Var) []FieldWrite {
	var out []FieldWrite
	for _, w := range c.censusFor(nil).WritersOf(fld) {
		if w.Kind == "assign" && w.Lit == nil && c.isSetterWrapper(w.Unit) {
			out = append(out, w)
		}
	}
	return out
}

// soleDef: e is an identifier naming a local variable that is defined exactly
// once (`x := expr` / `var x = expr`), never reassigned, incremented, ranged
// over or address-taken; the defining expression is returned (nil otherwise).
func soleDef(info *types.Info, body ast.Node, e ast.Expr) ast.Expr {
	id, ok := ast.Unparen(e).(*ast.Ident)
	if !ok || body == nil {
		return nil
	}
	v, ok := info.Uses[id].(*types.Var)
	if !ok || v.IsField() || v.Pkg() == nil || v.Parent() == v.Pkg().Scope() {
		return nil
	}
	var def ast.Expr
	n := 0
	ast.Inspect(body, func(m ast.Node) bool {
		switch x := m.(type) {
		case *ast.AssignStmt:
			for i, l := range x.Lhs {
				if lid, ok := l.(*ast.Ident); ok && (info.Defs[lid] == v || info.Uses[lid] == v) {
					n++
					if len(x.Lhs) == len(x.Rhs) && (x.Tok == token.DEFINE || x.Tok == token.ASSIGN) {
						def = x.Rhs[i]
					} else {
						n++
					}
				}
			}
		case *ast.ValueSpec:
			for i, nm := range x.Names {
				if info.Defs[nm] == v {
					n++
					if len(x.Values) == len(x.Names) {
						def = x.Values[i]
					} else {
						n++
					}
				}
			}
		case *ast.IncDecStmt:
			if lid, ok := ast.Unparen(x.X).(*ast.Ident); ok && info.Uses[lid] == v {
				n += 2
			}
		case *ast.RangeStmt:
			for _, l := range []ast.Expr{x.Key, x.Value} {
				if lid, ok := l.(*ast.Ident); ok && (info.Defs[lid] == v || info.Uses[lid] == v) {
					n += 2
				}
			}
		case *ast.UnaryExpr:
			if x.Op == token.AND {
				if lid, ok := ast.Unparen(x.X).(*ast.Ident); ok && info.Uses[lid] == v {
					n += 2
				}
			}
		}
		return true
	})
	if n != 1 {
		return nil
	}
	return def
}

// resolveLocal follows soleDef until the expression is no longer a
// single-definition local (at most four steps).
func resolveLocal(info *types.Info, body ast.Node, e ast.Expr) ast.Expr {
	for i := 0; i < 4; i++ {
		d := soleDef(info, body, e)
		if d == nil {
			break
		}
		e = d
	}
	return ast.Unparen(e)
}

// cmpAtom is one ordering comparison read with its polarity: `!(a <= b)` is
// reported as a > b.
type cmpAtom struct {
	X, Y ast.Expr
	Op   token.Token
}

// cmpAtomsOf lists the comparisons (<, <=, >, >=, ==, !=) inside a boolean
// expression, each normalised for the negations above it (through !, &&, ||
// and parentheses).
func cmpAtomsOf(e ast.Expr) []cmpAtom {
	var out []cmpAtom
	flip := map[token.Token]token.Token{token.LSS: token.GEQ, token.GEQ: token.LSS, token.GTR: token.LEQ, token.LEQ: token.GTR, token.EQL: token.NEQ, token.NEQ: token.EQL}
	depth := 0
	var walk func(e ast.Expr, neg bool)
	walk = func(e ast.Expr, neg bool) {
		switch x := ast.Unparen(e).(type) {
		case *ast.Ident:
			// a boolean local that abbreviates a condition, a predicate helper that returns one
			if d, ok := boolLocalUse[x]; ok && depth < 4 {
				depth++
				walk(d, neg)
				depth--
			}
		case *ast.CallExpr:
			if d, ok := predInline[x]; ok && depth < 4 {
				depth++
				walk(d, neg)
				depth--
			}
		case *ast.UnaryExpr:
			if x.Op == token.NOT {
				walk(x.X, !neg)
			}
		case *ast.BinaryExpr:
			switch x.Op {
			case token.LAND, token.LOR:
				walk(x.X, neg)
				walk(x.Y, neg)
			case token.LSS, token.LEQ, token.GTR, token.GEQ, token.EQL, token.NEQ:
				op := x.Op
				if neg {
					op = flip[op]
				}
				out = append(out, cmpAtom{x.X, x.Y, op})
			}
		}
	}
	walk(e, false)
	return out
}

// sliceLoop is a loop that visits every element of a slice, front to back:
// `for … := range X` or `for i := 0; i < len(X); i++` (the bound may be a
// local defined once as len(X); the index is not written in the body).
type sliceLoop struct {
	Head *cfg.Block // KindRangeLoop / KindForLoop block
	Stmt ast.Stmt
	Body *ast.BlockStmt
	X    ast.Expr
}

func (f *FCFG) loopsOver(isTarget func(ast.Expr) bool) []sliceLoop {
	info := f.Info
	var out []sliceLoop
	isLenOf := func(e ast.Expr) (ast.Expr, bool) {
		e = resolveLocal(info, f.Body, e)
		ce, ok := e.(*ast.CallExpr)
		if !ok || len(ce.Args) != 1 {
			return nil, false
		}
		if id, ok := ast.Unparen(ce.Fun).(*ast.Ident); !ok || id.Name != "len" {
			return nil, false
		}
		if _, isB := info.Uses[ast.Unparen(ce.Fun).(*ast.Ident)].(*types.Builtin); !isB {
			return nil, false
		}
		if isTarget(ce.Args[0]) {
			return ce.Args[0], true
		}
		return nil, false
	}
	for _, b := range f.G.Blocks {
		if !f.Live(b) {
			continue
		}
		switch st := b.Stmt.(type) {
		case *ast.RangeStmt:
			if b.Kind == cfg.KindRangeLoop && isTarget(st.X) {
				out = append(out, sliceLoop{b, st, st.Body, st.X})
			}
		case *ast.ForStmt:
			if b.Kind != cfg.KindForLoop || st.Init == nil || st.Cond == nil || st.Post == nil {
				continue
			}
			as, ok := st.Init.(*ast.AssignStmt)
			if !ok || len(as.Lhs) != 1 || len(as.Rhs) != 1 {
				continue
			}
			iv := identObj(info, as.Lhs[0])
			if z, ok := intConst(info, as.Rhs[0]); iv == nil || !ok || z != 0 {
				continue
			}
			var x ast.Expr
			for _, a := range cmpAtomsOf(st.Cond) {
				switch {
				case identObj(info, a.X) == iv && (a.Op == token.LSS || a.Op == token.NEQ):
					if t, ok := isLenOf(a.Y); ok {
						x = t
					}
				case identObj(info, a.Y) == iv && (a.Op == token.GTR || a.Op == token.NEQ):
					if t, ok := isLenOf(a.X); ok {
						x = t
					}
				}
			}
			if x == nil {
				continue
			}
			// a conjunct besides the bound may end the loop early: only the plain bound is accepted
			if _, isBin := ast.Unparen(st.Cond).(*ast.BinaryExpr); !isBin || len(cmpAtomsOf(st.Cond)) != 1 {
				continue
			}
			step := false
			switch p := st.Post.(type) {
			case *ast.IncDecStmt:
				step = p.Tok == token.INC && identObj(info, p.X) == iv
			case *ast.AssignStmt:
				if p.Tok == token.ADD_ASSIGN && len(p.Lhs) == 1 && identObj(info, p.Lhs[0]) == iv {
					if k, ok := intConst(info, p.Rhs[0]); ok && k == 1 {
						step = true
					}
				}
			}
			if !step {
				continue
			}
			written := false
			ast.Inspect(st.Body, func(n ast.Node) bool {
				switch y := n.(type) {
				case *ast.AssignStmt:
					for _, l := range y.Lhs {
						if identObj(info, l) == iv {
							written = true
						}
					}
				case *ast.IncDecStmt:
					if identObj(info, y.X) == iv {
						written = true
					}
				case *ast.UnaryExpr:
					if y.Op == token.AND && identObj(info, y.X) == iv {
						written = true
					}
				}
				return true
			})
			if !written {
				out = append(out, sliceLoop{b, st, st.Body, x})
			}
		}
	}
	return out
}

// reachableUnder computes the blocks reachable from the entry when the branch
// conditions are evaluated three-valued under an assumption: atom gives 1
// (true), 0 (false) or -1 (unknown) for an atomic boolean expression; !, &&, ||
// and single-definition boolean locals are evaluated structurally; an edge is
// pruned only when its condition is decided against it.  CondOf supplies
// `tag == case` for the cases of a tagged switch.
func (f *FCFG) reachableUnder(atom func(e ast.Expr) int) map[*cfg.Block]bool {
	eval := f.evaluatorUnder(atom)
	out := map[*cfg.Block]bool{}
	if len(f.G.Blocks) == 0 {
		return out
	}
	work := []*cfg.Block{f.G.Blocks[0]}
	for len(work) > 0 {
		b := work[len(work)-1]
		work = work[:len(work)-1]
		if out[b] {
			continue
		}
		out[b] = true
		v := -1
		if cond := f.CondOf(b); cond != nil {
			v = eval(cond, 0)
		}
		for k, s := range b.Succs {
			if len(b.Succs) == 2 && ((v == 1 && k == 1) || (v == 0 && k == 0)) {
				continue
			}
			work = append(work, s)
		}
	}
	return out
}

// evaluatorUnder: the three-valued evaluator of boolean expressions used by
// reachableUnder (1 true, 0 false, -1 unknown).
func (f *FCFG) evaluatorUnder(atom func(e ast.Expr) int) func(e ast.Expr, depth int) int {
	var eval func(e ast.Expr, depth int) int
	eval = func(e ast.Expr, depth int) int {
		e = ast.Unparen(e)
		switch x := e.(type) {
		case *ast.UnaryExpr:
			if x.Op == token.NOT {
				v := eval(x.X, depth)
				if v < 0 {
					return -1
				}
				return 1 - v
			}
		case *ast.BinaryExpr:
			switch x.Op {
			case token.LAND:
				a, b := eval(x.X, depth), eval(x.Y, depth)
				if a == 0 || b == 0 {
					return 0
				}
				if a == 1 && b == 1 {
					return 1
				}
				return -1
			case token.LOR:
				a, b := eval(x.X, depth), eval(x.Y, depth)
				if a == 1 || b == 1 {
					return 1
				}
				if a == 0 && b == 0 {
					return 0
				}
				return -1
			}
		case *ast.Ident:
			if depth < 3 {
				if d := f.boolDef(x); d != nil {
					return eval(d, depth+1)
				}
			}
		case *ast.CallExpr:
			if v := atom(e); v >= 0 {
				return v
			}
			if d, ok := predInline[x]; ok && depth < 3 {
				return eval(d, depth+1)
			}
			return -1
		}
		return atom(e)
	}
	return eval
}

// boolLocalUse: use site of a boolean local -> the expression it abbreviates.
// `clampSuffices := !seq.sealed && len(vals) > 0; if clampSuffices {…}` tests
// what `if !seq.sealed && len(vals) > 0 {…}` tests: the local is defined once,
// never written again, and none of the variables its definition reads is
// assigned between the definition and this use.  impliedAtoms (and through it
// every edge-fact computation) reads such a local as its definition.
var boolLocalUse = map[*ast.Ident]ast.Expr{}

func (c *Ctx) indexBoolLocals() {
	boolLocalUse = map[*ast.Ident]ast.Expr{}
	for _, p := range c.Pkgs {
		info := p.TypesInfo
		for _, file := range p.Syntax {
			for _, d := range file.Decls {
				fd, ok := d.(*ast.FuncDecl)
				if !ok || fd.Body == nil {
					continue
				}
				defs := map[*types.Var]ast.Expr{}
				defEnd := map[*types.Var]token.Pos{}
				count := map[*types.Var]int{}
				type asg struct {
					o   types.Object
					pos token.Pos
				}
				var assigns []asg
				ast.Inspect(fd.Body, func(n ast.Node) bool {
					switch x := n.(type) {
					case *ast.AssignStmt:
						for i, l := range x.Lhs {
							id, ok := l.(*ast.Ident)
							if !ok {
								continue
							}
							o := info.Defs[id]
							if o == nil {
								o = info.Uses[id]
							}
							if o == nil {
								continue
							}
							assigns = append(assigns, asg{o, x.Pos()})
							v, isVar := o.(*types.Var)
							if !isVar {
								continue
							}
							if bt, ok := v.Type().Underlying().(*types.Basic); !ok || bt.Kind() != types.Bool {
								continue
							}
							if x.Tok == token.DEFINE && len(x.Lhs) == len(x.Rhs) && info.Defs[id] == v {
								defs[v] = x.Rhs[i]
								defEnd[v] = x.End()
								count[v]++
							} else {
								count[v] += 2
							}
						}
					case *ast.IncDecStmt:
						if o := identObj(info, x.X); o != nil {
							assigns = append(assigns, asg{o, x.Pos()})
						}
					case *ast.RangeStmt:
						for _, l := range []ast.Expr{x.Key, x.Value} {
							if l == nil {
								continue
							}
							if o := identObj(info, l); o != nil {
								assigns = append(assigns, asg{o, x.Pos()})
							} else if id, ok := l.(*ast.Ident); ok && info.Defs[id] != nil {
								assigns = append(assigns, asg{info.Defs[id], x.Pos()})
							}
						}
					case *ast.UnaryExpr:
						if x.Op == token.AND {
							if v, ok := identObj(info, x.X).(*types.Var); ok {
								count[v] += 2
							}
						}
					}
					return true
				})
				if len(defs) == 0 {
					continue
				}
				ast.Inspect(fd.Body, func(n ast.Node) bool {
					id, ok := n.(*ast.Ident)
					if !ok {
						return true
					}
					v, ok := info.Uses[id].(*types.Var)
					if !ok || count[v] != 1 || defs[v] == nil || id.Pos() < defEnd[v] {
						return true
					}
					// no call in the definition (its result could differ) and stable operands
					stable := true
					ast.Inspect(defs[v], func(m ast.Node) bool {
						switch y := m.(type) {
						case *ast.Ident:
							if o, ok := info.Uses[y].(*types.Var); ok && !o.IsField() {
								for _, a := range assigns {
									if a.o == o && a.pos >= defEnd[v] && a.pos < id.Pos() {
										stable = false
									}
								}
							}
						}
						return stable
					})
					if stable {
						boolLocalUse[id] = defs[v]
					}
					return true
				})
			}
		}
	}
}

// funcFieldValues: the functions a function-typed struct field can hold — every
// value the module ever gives it (keyed or positional composite-literal
// elements, assignments) is a reference to a declared function or method
// (`(*Parser).SExpr`, `pkg.Fn`, `recv.Method`).  nil when some value is
// anything else (a literal, a variable, a call result): the call through the
// field is then unresolved.  This is how a table-driven refactoring
// (`syn.newNode(p, nil)` with newNode set in two table entries) keeps the facts
// its two spelled-out originals had.
func (c *Ctx) funcFieldValues(fld *types.Var) []*types.Func {
	key := "funcFieldValues:" + fld.Pkg().Path() + "." + fld.Name() + fmt.Sprint(fld.Pos())
	if v, ok := c.memo[key]; ok {
		fs, _ := v.([]*types.Func)
		return fs
	}
	c.memo[key] = []*types.Func(nil)
	var out []*types.Func
	bad := false
	note := func(info *types.Info, e ast.Expr) {
		e = ast.Unparen(e)
		if tv, ok := info.Types[e]; ok && tv.IsNil() {
			return
		}
		var o types.Object
		switch x := e.(type) {
		case *ast.Ident:
			o = info.Uses[x]
		case *ast.SelectorExpr:
			if sel := info.Selections[x]; sel != nil {
				o = sel.Obj()
			} else {
				o = info.Uses[x.Sel]
			}
		}
		if f, ok := o.(*types.Func); ok {
			out = append(out, originOf(f))
			return
		}
		bad = true
	}
	for _, p := range c.Pkgs {
		info := p.TypesInfo
		for _, file := range p.Syntax {
			ast.Inspect(file, func(n ast.Node) bool {
				switch x := n.(type) {
				case *ast.CompositeLit:
					tv, ok := info.Types[x]
					if !ok {
						return true
					}
					t := tv.Type
					if pt, ok := t.Underlying().(*types.Pointer); ok {
						t = pt.Elem()
					}
					st, ok := t.Underlying().(*types.Struct)
					if !ok {
						return true
					}
					for i, el := range x.Elts {
						if kv, ok := el.(*ast.KeyValueExpr); ok {
							if id, ok := kv.Key.(*ast.Ident); ok && info.Uses[id] == fld {
								note(info, kv.Value)
							}
						} else if i < st.NumFields() && st.Field(i) == fld {
							note(info, el)
						}
					}
				case *ast.AssignStmt:
					for i, l := range x.Lhs {
						if FieldOfSelector(info, l) == fld {
							if len(x.Lhs) == len(x.Rhs) {
								note(info, x.Rhs[i])
							} else {
								bad = true
							}
						}
					}
				case *ast.UnaryExpr:
					if x.Op == token.AND && FieldOfSelector(info, x.X) == fld {
						bad = true
					}
				}
				return true
			})
		}
	}
	if bad || len(out) == 0 {
		return nil
	}
	c.memo[key] = out
	return out
}

// elemShape renders an argument so that the element of a slice reads the same
// whether the loop is written `for _, child := range v.Cells` (the argument is
// `child`) or `for i := range v.Cells` (the argument is `v.Cells[i]`): a range
// value becomes <shape of the ranged expression>[…]; a single-definition local
// becomes the shape of its definition; anything else its own name-free shape.
func elemShape(info *types.Info, body ast.Node, e ast.Expr) string {
	if id, ok := ast.Unparen(e).(*ast.Ident); ok && body != nil {
		o := info.Uses[id]
		var ranged ast.Expr
		ast.Inspect(body, func(n ast.Node) bool {
			if rs, ok := n.(*ast.RangeStmt); ok && rs.Value != nil {
				if vid, ok := rs.Value.(*ast.Ident); ok && (info.Defs[vid] == o || info.Uses[vid] == o) && o != nil {
					ranged = rs.X
				}
			}
			return true
		})
		if ranged != nil {
			return exprShape(info, ranged) + "[…]"
		}
		if d := soleDef(info, body, e); d != nil {
			return exprShape(info, d)
		}
	}
	return exprShape(info, e)
}

// predInline: call of a predicate helper -> the helper's condition, written over the call's
// own operands.  `func (e *LEnv) hasEvalContext() bool { return e.evalCtx != nil }` makes
// `if !env.hasEvalContext()` test what `if env.evalCtx == nil` tests: the helper's body is
// one return of a boolean expression over its receiver and parameters, the operands at the
// call are side-effect free, so the call reads as that expression.  The copy is typed (its
// nodes are entered in the caller's types.Info while the index is built, before any rule
// runs), so every classifier sees an ordinary condition.
var predInline = map[*ast.CallExpr]ast.Expr{}

func (c *Ctx) indexPredCalls() {
	predInline = map[*ast.CallExpr]ast.Expr{}
	// eligible helpers
	type helper struct {
		decl *ast.FuncDecl
		info *types.Info
		ret  ast.Expr
		objs []types.Object // receiver (or nil) followed by parameters
		locals map[types.Object]ast.Expr
	}
	helpers := map[*types.Func]*helper{}
	for _, p := range c.Pkgs {
		info := p.TypesInfo
		for _, file := range p.Syntax {
			for _, d := range file.Decls {
				fd, ok := d.(*ast.FuncDecl)
				if !ok || fd.Body == nil || len(fd.Body.List) == 0 || len(fd.Body.List) > 4 || fd.Type.Results == nil || len(fd.Type.Results.List) != 1 {
					continue
				}
				// `m := fmtraw.Meta(v); return m != nil && m.BracketType == '['`: locals defined
				// once, in front of the single return, read as their definitions
				locals := map[types.Object]ast.Expr{}
				shape := true
				for _, st := range fd.Body.List[:len(fd.Body.List)-1] {
					as, isAs := st.(*ast.AssignStmt)
					if !isAs || as.Tok != token.DEFINE || len(as.Lhs) != 1 || len(as.Rhs) != 1 {
						shape = false
						break
					}
					id, isId := as.Lhs[0].(*ast.Ident)
					if !isId || info.Defs[id] == nil {
						shape = false
						break
					}
					locals[info.Defs[id]] = as.Rhs[0]
				}
				if !shape {
					continue
				}
				rs, ok := fd.Body.List[len(fd.Body.List)-1].(*ast.ReturnStmt)
				if !ok || len(rs.Results) != 1 {
					continue
				}
				if bt, ok := info.TypeOf(rs.Results[0]).Underlying().(*types.Basic); !ok || bt.Info()&types.IsBoolean == 0 {
					continue
				}
				if tv, ok := info.Types[rs.Results[0]]; ok && tv.Value != nil {
					continue
				}
				fn, _ := info.Defs[fd.Name].(*types.Func)
				if fn == nil {
					continue
				}
				h := &helper{decl: fd, info: info, ret: rs.Results[0], locals: locals}
				var recv types.Object
				if fd.Recv != nil && len(fd.Recv.List) == 1 && len(fd.Recv.List[0].Names) == 1 {
					recv = info.Defs[fd.Recv.List[0].Names[0]]
				}
				h.objs = append(h.objs, recv)
				okp := true
				if fd.Type.Params != nil {
					for _, f := range fd.Type.Params.List {
						if len(f.Names) == 0 {
							okp = false
						}
						for _, nm := range f.Names {
							h.objs = append(h.objs, info.Defs[nm])
						}
					}
				}
				if sig, ok := fn.Type().(*types.Signature); ok && sig.Variadic() {
					okp = false
				}
				if okp {
					helpers[fn] = h
				}
			}
		}
	}
	pure := func(info *types.Info, e ast.Expr) bool {
		ok := true
		ast.Inspect(e, func(n ast.Node) bool {
			switch x := n.(type) {
			case *ast.CallExpr:
				// len/cap and conversions only
				if tv, isT := info.Types[x.Fun]; isT && tv.IsType() {
					return true
				}
				if id, isId := ast.Unparen(x.Fun).(*ast.Ident); isId {
					if _, isB := info.Uses[id].(*types.Builtin); isB && (id.Name == "len" || id.Name == "cap") {
						return true
					}
				}
				ok = false
			case *ast.FuncLit, *ast.CompositeLit:
				ok = false
			case *ast.UnaryExpr:
				if x.Op == token.ARROW {
					ok = false
				}
			}
			return ok
		})
		return ok
	}
	var inline func(info *types.Info, ce *ast.CallExpr, depth int, at token.Pos) ast.Expr
	inline = func(info *types.Info, ce *ast.CallExpr, depth int, at token.Pos) ast.Expr {
		fn := originOf(Callee(info, ce))
		h := helpers[fn]
		if h == nil || depth > 3 {
			return nil
		}
		bind := map[types.Object]ast.Expr{}
		if h.objs[0] != nil {
			se, ok := ast.Unparen(ce.Fun).(*ast.SelectorExpr)
			if !ok || !pure(info, se.X) {
				return nil
			}
			if sel := info.Selections[se]; sel == nil || sel.Kind() != types.MethodVal || len(sel.Index()) != 1 {
				return nil // promoted through an embedded field: the receiver is not se.X itself
			}
			bind[h.objs[0]] = se.X
		} else if len(h.objs) > 0 && h.decl.Recv != nil {
			// unnamed receiver: nothing to bind
		}
		if len(ce.Args) != len(h.objs)-1 {
			return nil
		}
		for i, a := range ce.Args {
			if !pure(info, a) {
				return nil
			}
			if h.objs[i+1] != nil {
				bind[h.objs[i+1]] = a
			}
		}
		failed := false
		nest := 0
		var cp func(e ast.Expr) ast.Expr
		reg := func(old, nw ast.Expr) ast.Expr {
			if tv, ok := h.info.Types[old]; ok {
				info.Types[nw] = tv
			}
			return nw
		}
		cp = func(e ast.Expr) ast.Expr {
			if e == nil || failed {
				return nil
			}
			switch x := e.(type) {
			case *ast.Ident:
				if o := h.info.Uses[x]; o != nil {
					if b, ok := bind[o]; ok {
						return b
					}
					if d, isLocal := h.locals[o]; isLocal && nest < 6 {
						nest++
						r := cp(d)
						nest--
						return r
					}
					if v, isVar := o.(*types.Var); isVar && !v.IsField() && v.Pkg() != nil && v.Parent() != v.Pkg().Scope() {
						failed = true // a local that is not a parameter
						return nil
					}
					nw := &ast.Ident{NamePos: at, Name: x.Name}
					info.Uses[nw] = o
					return reg(x, nw)
				}
				nw := &ast.Ident{NamePos: at, Name: x.Name}
				return reg(x, nw)
			case *ast.BasicLit:
				nw := &ast.BasicLit{ValuePos: at, Kind: x.Kind, Value: x.Value}
				return reg(x, nw)
			case *ast.ParenExpr:
				return reg(x, &ast.ParenExpr{Lparen: at, X: cp(x.X), Rparen: at})
			case *ast.UnaryExpr:
				return reg(x, &ast.UnaryExpr{OpPos: at, Op: x.Op, X: cp(x.X)})
			case *ast.StarExpr:
				return reg(x, &ast.StarExpr{Star: at, X: cp(x.X)})
			case *ast.BinaryExpr:
				return reg(x, &ast.BinaryExpr{X: cp(x.X), OpPos: at, Op: x.Op, Y: cp(x.Y)})
			case *ast.IndexExpr:
				return reg(x, &ast.IndexExpr{X: cp(x.X), Lbrack: at, Index: cp(x.Index), Rbrack: at})
			case *ast.SelectorExpr:
				sel := &ast.Ident{NamePos: at, Name: x.Sel.Name}
				if o := h.info.Uses[x.Sel]; o != nil {
					info.Uses[sel] = o
				}
				var base ast.Expr
				if _, isSel := h.info.Selections[x]; isSel {
					base = cp(x.X)
				} else {
					// qualified identifier pkg.Name
					id, ok := x.X.(*ast.Ident)
					if !ok {
						failed = true
						return nil
					}
					nid := &ast.Ident{NamePos: at, Name: id.Name}
					if o := h.info.Uses[id]; o != nil {
						info.Uses[nid] = o
					}
					base = nid
				}
				nw := &ast.SelectorExpr{X: base, Sel: sel}
				if s, ok := h.info.Selections[x]; ok {
					info.Selections[nw] = s
				}
				return reg(x, nw)
			case *ast.CallExpr:
				nw := &ast.CallExpr{Fun: cp(x.Fun), Lparen: at, Rparen: at, Ellipsis: token.NoPos}
				for _, a := range x.Args {
					nw.Args = append(nw.Args, cp(a))
				}
				reg(x, nw)
				if !failed {
					if in := inline(info, nw, depth+1, at); in != nil {
						predInline[nw] = in
					}
				}
				return nw
			}
			failed = true
			return nil
		}
		out := cp(h.ret)
		if failed || out == nil {
			return nil
		}
		return out
	}
	for _, p := range c.Pkgs {
		info := p.TypesInfo
		for _, file := range p.Syntax {
			var calls []*ast.CallExpr
			ast.Inspect(file, func(n ast.Node) bool {
				if ce, ok := n.(*ast.CallExpr); ok {
					calls = append(calls, ce)
				}
				return true
			})
			for _, ce := range calls {
				if helpers[originOf(Callee(info, ce))] == nil {
					continue
				}
				if in := inline(info, ce, 0, ce.Pos()); in != nil {
					predInline[ce] = in
				}
			}
		}
	}
}

// pureScalarFn: a plain function of the module over numbers, strings and booleans that
// computes its results from its operands and nothing else — no receiver, no pointer, slice,
// map or interface operand, no store outside its locals, no call except builtins,
// conversions and other such functions.  Calling it has no effect on any state.
func (c *Ctx) pureScalarFn(fn *types.Func, depth int) bool {
	fd := c.declOf[fn]
	if fn == nil || fd == nil || fd.Body == nil || fd.Recv != nil || depth > 2 {
		return false
	}
	sig := fn.Type().(*types.Signature)
	basic := func(t *types.Tuple) bool {
		for i := 0; i < t.Len(); i++ {
			if _, ok := t.At(i).Type().Underlying().(*types.Basic); !ok {
				return false
			}
		}
		return true
	}
	if !basic(sig.Params()) || !basic(sig.Results()) || sig.Results().Len() == 0 {
		return false
	}
	info := c.pkgOf[fd].TypesInfo
	ok := true
	ast.Inspect(fd.Body, func(n ast.Node) bool {
		switch x := n.(type) {
		case *ast.AssignStmt:
			for _, l := range x.Lhs {
				id, isId := ast.Unparen(l).(*ast.Ident)
				if !isId {
					ok = false
					continue
				}
				o := info.Defs[id]
				if o == nil {
					o = info.Uses[id]
				}
				if v, isVar := o.(*types.Var); id.Name != "_" && (!isVar || v.Pkg() == nil || v.Parent() == v.Pkg().Scope()) {
					ok = false
				}
			}
		case *ast.IncDecStmt:
			if v, isVar := identObj(info, x.X).(*types.Var); !isVar || v.Pkg() == nil || v.Parent() == v.Pkg().Scope() {
				ok = false
			}
		case *ast.CallExpr:
			if tv, isT := info.Types[x.Fun]; isT && tv.IsType() {
				return true
			}
			if id, isId := ast.Unparen(x.Fun).(*ast.Ident); isId {
				if b, isB := info.Uses[id].(*types.Builtin); isB && b.Name() != "panic" && b.Name() != "print" && b.Name() != "println" {
					return true
				}
			}
			if g := originOf(Callee(info, x)); g != nil && g != fn && c.pureScalarFn(g, depth+1) {
				return true
			}
			ok = false
		case *ast.GoStmt, *ast.DeferStmt, *ast.SendStmt, *ast.FuncLit:
			ok = false
		case *ast.Ident:
			// reading a package-level variable makes the result depend on state
			if v, isVar := info.Uses[x].(*types.Var); isVar && v.Pkg() != nil && v.Parent() == v.Pkg().Scope() {
				ok = false
			}
		}
		return ok
	})
	return ok
}

// callsWithinHelpers: u calls target in its own body, or in an unexported function of its
// package that it calls (the part of the body that made the call moved into a helper),
// to depth 2.
func (c *Ctx) callsWithinHelpers(u FuncUnit, target *types.Func, depth int) bool {
	if u.Decl == nil || u.Decl.Body == nil || target == nil {
		return false
	}
	info := u.Pkg.TypesInfo
	for _, ce := range callsIn(u.Decl.Body, true) {
		h := originOf(Callee(info, ce))
		if h == nil {
			continue
		}
		if h == target {
			return true
		}
		if depth < 2 && !h.Exported() && h.Pkg() == u.Obj.Pkg() && h != u.Obj {
			if hd := c.declOf[h]; hd != nil && hd.Body != nil {
				if c.callsWithinHelpers(FuncUnit{h, hd, c.pkgOf[hd]}, target, depth+1) {
					return true
				}
			}
		}
	}
	return false
}

// quoteOperandSite: at block b, e is the operand of a quote node —
//
//	X.Cells[0] on a path that established X.Type == LQuote, or
//	a local stepped by `for L.Type == LQuote { …; L = L.Cells[0] }` (whatever it started as:
//	when the loop is not entered the local is still the value it started as, and the site
//	is then judged as a site on that value by the other obligations of the function's callers).
func (c *Ctx) quoteOperandSite(fc *FCFG, b *cfg.Block, e ast.Expr) bool {
	info := fc.Info
	lq := c.LookupConst("lisp.LQuote")
	typeFld := c.LookupField("lisp.LVal.Type")
	if lq == nil || typeFld == nil || info == nil {
		return false
	}
	isQuoteTest := func(x ast.Expr, of types.Object) (bool, bool) {
		be, ok := ast.Unparen(x).(*ast.BinaryExpr)
		if !ok || (be.Op != token.EQL && be.Op != token.NEQ) {
			return false, false
		}
		l, r := be.X, be.Y
		if identObjOrSel(info, l) == lq {
			l, r = r, l
		}
		se, ok := ast.Unparen(l).(*ast.SelectorExpr)
		if !ok || FieldOfSelector(info, se) != typeFld || identObj(info, se.X) != of || identObjOrSel(info, r) != lq {
			return false, false
		}
		return true, be.Op == token.NEQ
	}
	cellsZero := func(x ast.Expr) types.Object {
		ie, ok := ast.Unparen(x).(*ast.IndexExpr)
		if !ok {
			return nil
		}
		if k, ok := intConst(info, ie.Index); !ok || k != 0 {
			return nil
		}
		se, ok := ast.Unparen(ie.X).(*ast.SelectorExpr)
		if !ok || se.Sel.Name != "Cells" {
			return nil
		}
		return identObj(info, se.X)
	}
	// form A
	if x := cellsZero(e); x != nil {
		cut := fc.edgesEntailing(func(a ast.Expr) (string, bool) {
			if is, neg := isQuoteTest(a, x); is {
				return "isQuote", neg
			}
			return "", false
		}, func(v map[string]bool) bool { return v["$has:isQuote"] && v["isQuote"] })
		return len(cut) > 0 && !fc.reachableAvoiding(b, cut)
	}
	// form B
	l := identObj(info, e)
	if l == nil || fc.Body == nil {
		return false
	}
	stepped := false
	ok := true
	ast.Inspect(fc.Body, func(n ast.Node) bool {
		fs, isFor := n.(*ast.ForStmt)
		if isFor && fs.Init == nil && fs.Post == nil && fs.Cond != nil {
			if is, neg := isQuoteTest(fs.Cond, l); is && !neg {
				for _, st := range fs.Body.List {
					if as, isAs := st.(*ast.AssignStmt); isAs && as.Tok == token.ASSIGN && len(as.Lhs) == 1 && len(as.Rhs) == 1 && identObj(info, as.Lhs[0]) == l && cellsZero(as.Rhs[0]) == l {
						stepped = true
					}
				}
			}
		}
		return true
	})
	if !stepped {
		return false
	}
	// no other assignment to the local than its definition and the step
	nother := 0
	ast.Inspect(fc.Body, func(n ast.Node) bool {
		if as, isAs := n.(*ast.AssignStmt); isAs {
			for i, lh := range as.Lhs {
				if identObj(info, lh) == l {
					if as.Tok == token.DEFINE {
						continue
					}
					if i < len(as.Rhs) && cellsZero(as.Rhs[i]) == l {
						continue
					}
					nother++
				}
			}
		}
		return true
	})
	return ok && nother == 0
}

// callbackDriver: node lies inside a function literal of u that is passed, as an argument, to a
// declared function of the same package which calls that parameter only inside a loop over one of
// its slice parameters (an internal iterator: `forEachTopLevelForm(exprs, func(expr, head, pkg) { … })`).
// Returns the driver, the loop inside it, the call in u and the slice argument the literal is driven over.
func (c *Ctx) callbackDriver(u FuncUnit, node ast.Node) (drv FuncUnit, loop ast.Stmt, call *ast.CallExpr, over ast.Expr, ok bool) {
	info := u.Pkg.TypesInfo
	var best *ast.CallExpr
	var bestLit *ast.FuncLit
	bestIdx := -1
	ast.Inspect(u.Decl.Body, func(n ast.Node) bool {
		ce, isCall := n.(*ast.CallExpr)
		if !isCall {
			return true
		}
		for i, a := range ce.Args {
			if fl, isLit := ast.Unparen(a).(*ast.FuncLit); isLit && fl.Pos() <= node.Pos() && node.End() <= fl.End() {
				// innermost such literal wins
				if bestLit == nil || (bestLit.Pos() <= fl.Pos() && fl.End() <= bestLit.End()) {
					best, bestLit, bestIdx = ce, fl, i
				}
			}
		}
		return true
	})
	if best == nil {
		return
	}
	h := originOf(Callee(info, best))
	if h == nil || u.Obj == nil || h.Pkg() != u.Obj.Pkg() {
		return
	}
	hd := c.declOf[h]
	if hd == nil || hd.Body == nil {
		return
	}
	hu := FuncUnit{h, hd, c.pkgOf[hd]}
	hinfo := hu.Pkg.TypesInfo
	ps := paramObjs(hu)
	if bestIdx >= len(ps) {
		return
	}
	fnParam := ps[bestIdx]
	// every call of the parameter is inside one loop over a slice parameter
	var theLoop ast.Stmt
	var sliceParam types.Object
	good, ncalls := true, 0
	var walk func(n ast.Node, enclosing ast.Stmt, overObj types.Object)
	walk = func(n ast.Node, enclosing ast.Stmt, overObj types.Object) {
		ast.Inspect(n, func(m ast.Node) bool {
			if m == nil || m == n {
				return true
			}
			switch x := m.(type) {
			case *ast.RangeStmt:
				if o := identObj(hinfo, x.X); o != nil {
					for _, p := range ps {
						if p == o {
							walk(x.Body, x, o)
							return false
						}
					}
				}
			case *ast.CallExpr:
				if identObj(hinfo, x.Fun) == fnParam {
					ncalls++
					if enclosing == nil {
						good = false
					} else if theLoop == nil {
						theLoop, sliceParam = enclosing, overObj
					} else if theLoop != enclosing {
						good = false
					}
				}
			}
			return true
		})
	}
	walk(hd.Body, nil, nil)
	if !good || ncalls == 0 || theLoop == nil {
		return
	}
	for i, p := range ps {
		if p == sliceParam && i < len(best.Args) {
			over = best.Args[i]
		}
	}
	return hu, theLoop, best, over, over != nil
}
