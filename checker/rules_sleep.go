package main

import (
	"go/ast"
	"go/token"
	"go/types"
)

// E8.SLEEPCAP (C15, C04): time:sleep refuses above the cap and is bounded by
// the context.

func init() {
	register(&Rule{ID: "SLEEP.cap", Floor: 3,
		Doc: "BuiltinSleep reaches sleepContext(d) only on edges that entail `limit <= 0 or d <= limit`, where limit is sleepCap's result (its error returned) and d is the duration that is slept; sleepCap refuses a :max above the host ceiling",
		Run: func(c *Ctx) []Obligation {
			fn, fd, pkg := c.LookupFunc("lisp/lisplib/libtime.BuiltinSleep")
			capFn := c.LookupPkgFunc("lisp/lisplib/libtime.sleepCap")
			slpFn := c.LookupPkgFunc("lisp/lisplib/libtime.sleepContext")
			if fn == nil || capFn == nil || slpFn == nil {
				return []Obligation{anchorMissing("SLEEP.cap", "libtime.BuiltinSleep/sleepCap/sleepContext")}
			}
			u := FuncUnit{fn, fd, pkg}
			info := pkg.TypesInfo
			fc := c.cfgOf(u, nil)
			var obs []Obligation
			caps := fc.findCalls(capFn)
			sleeps := fc.findCalls(slpFn)
			if len(sleeps) == 0 {
				return []Obligation{mkOb(c, "SLEEP.cap", u, "cap lookup", fd, Violated, "BuiltinSleep must call sleepCap exactly once and sleepContext at least once", true)}
			}
			// capGuard: in the function of graph g, whose sleepCap call binds (limit, lerr), the
			// edges that entail `limit <= 0 or d <= limit` for the duration object d — or nil
			// with a reason when the cap is not looked up exactly once / its error not returned
			type capFacts struct {
				pass  []cfgEdge
				capAt Loc
				call  *ast.CallExpr
				errOK bool
				why   string
			}
			capGuard := func(g *FCFG, dObj types.Object) capFacts {
				ginfo := g.Info
				cs := g.findCalls(capFn)
				if len(cs) != 1 {
					return capFacts{why: "sleepCap is not called exactly once"}
				}
				as, _ := g.Node(cs[0].Loc).(*ast.AssignStmt)
				var limitObj, lerrObj types.Object
				if as != nil && len(as.Lhs) == 2 {
					limitObj, lerrObj = identObj(ginfo, as.Lhs[0]), identObj(ginfo, as.Lhs[1])
				}
				if limitObj == nil || lerrObj == nil {
					return capFacts{why: "sleepCap's results are not both bound", call: cs[0].Call}
				}
				out := capFacts{capAt: cs[0].Loc, call: cs[0].Call}
				for _, e := range g.nilEdges(lerrObj, false) {
					if g.edgeReturns(e, lerrObj) {
						out.errOK = true
					}
				}
				cls := func(e ast.Expr) (string, bool) {
					if gt, _, ok := orderedCompare(ginfo, e, dObj, limitObj); ok {
						// name "dExceeds": true when d > limit (non-strict variants treated as exceed too)
						return "dExceeds", !gt
					}
					be, ok := ast.Unparen(e).(*ast.BinaryExpr)
					if ok && identObj(ginfo, be.X) == limitObj {
						if k, okc := intConst(ginfo, be.Y); okc && k == 0 {
							switch be.Op {
							case token.GTR, token.NEQ:
								return "limitPos", false
							case token.LEQ, token.EQL:
								return "limitPos", true
							}
						}
					}
					return "", false
				}
				out.pass = g.edgesEntailing(cls, func(v map[string]bool) bool {
					return (v["$has:limitPos"] && !v["limitPos"]) || (v["$has:dExceeds"] && !v["dExceeds"])
				})
				return out
			}
			errReported := false
			for _, s := range sleeps {
				if len(s.Call.Args) != 2 {
					continue
				}
				dObj := identObj(info, s.Call.Args[1])
				if dObj == nil {
					obs = append(obs, mkOb(c, "SLEEP.cap", u, "slept duration", s.Call, Undecided, "the duration passed to sleepContext is not a variable", false))
					continue
				}
				guarded := false
				var capCall ast.Node = fd
				errOK := false
				if len(caps) == 1 {
					// the comparison is written here
					f := capGuard(fc, dObj)
					errOK = f.errOK
					if f.call != nil {
						capCall = f.call
					}
					guarded = len(f.pass) > 0 && !fc.reachableFromAvoiding(f.capAt.B, s.Loc.B, f.pass) && fc.Dominates(f.capAt, s.Loc)
				} else if len(caps) == 0 {
					// ... or in a checking helper whose nil result stands for `within the cap`
					helperErrOK := false
					edges := c.nilResultGuardEdgesAt(fc, func(hfc *FCFG, h *types.Func, call *ast.CallExpr) []cfgEdge {
						po := boundParam(info, call, h, dObj)
						if po == nil {
							return nil
						}
						f := capGuard(hfc, po)
						// inside the helper every nil return must lie behind the comparison AND after the lookup
						if len(f.pass) == 0 || !f.errOK {
							return nil
						}
						helperErrOK = true
						capCall = call
						return f.pass
					})
					// the helper's error is returned by BuiltinSleep: the nil edges found are of a
					// local whose non-nil edge returns it
					if helperErrOK {
						for _, b := range fc.G.Blocks {
							cond := fc.CondOf(b)
							if !fc.Live(b) || cond == nil {
								continue
							}
							ast.Inspect(cond, func(n ast.Node) bool {
								if id, ok := n.(*ast.Ident); ok {
									if o, ok := info.Uses[id].(*types.Var); ok {
										if ce, _, nd := definingCall(info, fd.Body, o); ce != nil && nd == 1 && ce == capCall {
											for _, e := range fc.nilEdges(o, false) {
												if fc.edgeReturns(e, o) {
													errOK = true
												}
											}
										}
									}
								}
								return true
							})
						}
					}
					guarded = len(edges) > 0 && !fc.reachableAvoiding(s.Loc.B, edges)
				}
				if !errReported {
					errReported = true
					if errOK {
						obs = append(obs, mkOb(c, "SLEEP.cap", u, "cap error returned", capCall, Proved, "an unusable :max (or one above the ceiling) is returned as the error", true))
					} else {
						obs = append(obs, mkOb(c, "SLEEP.cap", u, "cap error returned", capCall, Violated, "sleepCap's error is not returned", true))
					}
				}
				if guarded {
					obs = append(obs, mkOb(c, "SLEEP.cap", u, "sleep guarded by cap", s.Call, Proved, "every path from sleepCap to sleepContext(d) passes an edge entailing limit<=0 or d<=limit, for the same d", true))
				} else {
					obs = append(obs, mkOb(c, "SLEEP.cap", u, "sleep guarded by cap", s.Call, Violated, "sleepContext(d) is reachable without d having been compared against the cap", true))
				}
			}
			// sleepCap: :max above ceiling refused
			if cfn, cfd, cpkg := c.LookupFunc("lisp/lisplib/libtime.sleepCap"); cfn != nil {
				cu := FuncUnit{cfn, cfd, cpkg}
				cinfo := cpkg.TypesInfo
				ceilM := c.LookupMethod("lisp.Runtime.MaxSleepCeiling")
				var ceilObj types.Object
				ast.Inspect(cfd.Body, func(n ast.Node) bool {
					if as, ok := n.(*ast.AssignStmt); ok && len(as.Lhs) == 1 && len(as.Rhs) == 1 {
						if ce, ok := ast.Unparen(as.Rhs[0]).(*ast.CallExpr); ok && originOf(Callee(cinfo, ce)) == ceilM {
							ceilObj = identObj(cinfo, as.Lhs[0])
						}
					}
					return true
				})
				// every `return X, nil` where X is not the zero constant must be reached only via edges entailing X <= ceiling or ceiling <= 0
				ord := &ordinal{}
				var capReturns func(cu FuncUnit, ceilObj types.Object, nres, depth int)
				capReturns = func(cu FuncUnit, ceilObj types.Object, nres, depth int) {
					cinfo := cu.Pkg.TypesInfo
					cfc := c.cfgOf(cu, nil)
					for _, b := range cfc.G.Blocks {
						if !cfc.Live(b) {
							continue
						}
						for _, n := range b.Nodes {
							rs, ok := n.(*ast.ReturnStmt)
							if !ok || len(rs.Results) != nres || (nres == 2 && !isNilIdent(cinfo, rs.Results[1])) {
								continue
							}
							// the cap is computed by a helper of the package from the ceiling
							if ce, ok := ast.Unparen(rs.Results[0]).(*ast.CallExpr); ok && depth < 2 {
								if h := originOf(Callee(cinfo, ce)); h != nil && h != ceilM && h.Type().(*types.Signature).Results().Len() == 1 {
									if hd := c.declOf[h]; hd != nil && hd.Body != nil {
										if ceilObj != nil {
											if po := boundParam(cinfo, ce, h, ceilObj); po != nil {
												capReturns(FuncUnit{h, hd, c.pkgOf[hd]}, po, 1, depth+1)
												continue
											}
										}
										// … or reads the ceiling itself (Runtime.DefaultSleepCap)
										var hceil types.Object
										hinfo := c.pkgOf[hd].TypesInfo
										ast.Inspect(hd.Body, func(n ast.Node) bool {
											if as, ok := n.(*ast.AssignStmt); ok && len(as.Lhs) == 1 && len(as.Rhs) == 1 {
												if hc, ok := ast.Unparen(as.Rhs[0]).(*ast.CallExpr); ok && originOf(Callee(hinfo, hc)) == ceilM {
													hceil = identObj(hinfo, as.Lhs[0])
												}
											}
											return true
										})
										if hceil != nil {
											capReturns(FuncUnit{h, hd, c.pkgOf[hd]}, hceil, 1, depth+1)
											continue
										}
									}
								}
							}
							// min(…, ceiling, …): not above the ceiling by construction
							if mc, ok := ast.Unparen(rs.Results[0]).(*ast.CallExpr); ok && ceilObj != nil {
								if id, ok := ast.Unparen(mc.Fun).(*ast.Ident); ok && id.Name == "min" {
									if _, isB := cinfo.Uses[id].(*types.Builtin); isB {
										has := false
										for _, a := range mc.Args {
											if identObjOrSel(cinfo, a) == ceilObj {
												has = true
											}
										}
										if has {
											obs = append(obs, mkOb(c, "SLEEP.cap", cu, ord.next("return "+types.ExprString(rs.Results[0])+", nil"), rs, Proved, "the cap returned is the minimum of the ceiling and something else", true))
											continue
										}
									}
								}
							}
							xObj := identObjOrSel(cinfo, rs.Results[0])
							construct := ord.next("return " + types.ExprString(rs.Results[0]) + ", nil")
							if xObj == nil || ceilObj == nil {
								obs = append(obs, mkOb(c, "SLEEP.cap", cu, construct, rs, Undecided, "cap result is not a variable / ceiling not bound", false))
								continue
							}
							if xObj == ceilObj {
								obs = append(obs, mkOb(c, "SLEEP.cap", cu, construct, rs, Proved, "the cap returned is the ceiling itself", true))
								continue
							}
							cls := func(e ast.Expr) (string, bool) {
								if be, ok := ast.Unparen(e).(*ast.BinaryExpr); ok {
									x, y := identObjOrSel(cinfo, be.X), identObjOrSel(cinfo, be.Y)
									if (x == xObj && y == ceilObj) || (x == ceilObj && y == xObj) {
										gt := false
										switch be.Op {
										case token.GTR, token.GEQ:
											gt = true
										case token.LSS, token.LEQ:
										default:
											return "", false
										}
										if x == ceilObj {
											gt = !gt
										}
										return "xExceeds", !gt
									}
								}
								be, ok := ast.Unparen(e).(*ast.BinaryExpr)
								if ok && identObj(cinfo, be.X) == ceilObj {
									if k, okc := intConst(cinfo, be.Y); okc && k == 0 {
										switch be.Op {
										case token.GTR, token.NEQ:
											return "ceilPos", false
										case token.LEQ, token.EQL:
											return "ceilPos", true
										}
									}
								}
								return "", false
							}
							pass := cfc.edgesEntailing(cls, func(v map[string]bool) bool {
								return (v["$has:ceilPos"] && !v["ceilPos"]) || (v["$has:xExceeds"] && !v["xExceeds"])
							})
							// an assignment `x = ceiling` on the path also establishes x <= ceiling
							assignBlocks := cfc.blocksWith(func(n ast.Node) bool {
								as, ok := n.(*ast.AssignStmt)
								return ok && len(as.Lhs) == 1 && len(as.Rhs) == 1 && identObj(cinfo, as.Lhs[0]) == xObj && identObj(cinfo, as.Rhs[0]) == ceilObj
							})
							if len(pass) > 0 && !cfc.reachableAvoidingBlocks(b, pass, assignBlocks) {
								obs = append(obs, mkOb(c, "SLEEP.cap", cu, construct, rs, Proved, "the cap returned has passed an edge entailing ceiling<=0 or cap<=ceiling", true))
							} else {
								obs = append(obs, mkOb(c, "SLEEP.cap", cu, construct, rs, Violated, "a cap can be returned without having been compared against the host ceiling", true))
							}
						}
					}
				}
				capReturns(cu, ceilObj, 2, 0)
			}
			return obs
		}})

	register(&Rule{ID: "SLEEP.context", Floor: 3,
		Doc: "sleepContext: time.Sleep only on the edge `done == nil && !hasDeadline`; the blocking wait is a select with a ctx.Done() arm and a timer of exactly d; a deadline nearer than d refuses before the timer is created",
		Run: func(c *Ctx) []Obligation {
			fn, fd, pkg := c.LookupFunc("lisp/lisplib/libtime.sleepContext")
			if fn == nil {
				return []Obligation{anchorMissing("SLEEP.context", "libtime.sleepContext")}
			}
			u := FuncUnit{fn, fd, pkg}
			info := pkg.TypesInfo
			fc := c.cfgOf(u, nil)
			var obs []Obligation
			dObj := argsParam(info, u, nil)
			// objects: done := ctx.Done(); deadline, hasDeadline := ctx.Deadline()
			var doneObj, hasDlObj, dlObj types.Object
			ast.Inspect(fd.Body, func(n ast.Node) bool {
				as, ok := n.(*ast.AssignStmt)
				if !ok || len(as.Rhs) != 1 {
					return true
				}
				ce, ok := ast.Unparen(as.Rhs[0]).(*ast.CallExpr)
				if !ok {
					return true
				}
				if methodCalled(info, ce, "context", "Context", "Done") && len(as.Lhs) == 1 {
					doneObj = identObj(info, as.Lhs[0])
				}
				if methodCalled(info, ce, "context", "Context", "Deadline") && len(as.Lhs) == 2 {
					dlObj, hasDlObj = identObj(info, as.Lhs[0]), identObj(info, as.Lhs[1])
				}
				return true
			})
			if doneObj == nil || hasDlObj == nil || dObj == nil {
				return []Obligation{mkOb(c, "SLEEP.context", u, "context probes", fd, Violated, "sleepContext no longer binds ctx.Done() and ctx.Deadline()", true)}
			}
			cls := func(e ast.Expr) (string, bool) {
				if is, trueNonNil := isNilTest(info, e, doneObj); is {
					return "doneNil", trueNonNil
				}
				if identObj(info, e) == hasDlObj {
					return "hasDeadline", false
				}
				return "", false
			}
			unbounded := fc.edgesEntailing(cls, func(v map[string]bool) bool { return v["doneNil"] && v["$has:hasDeadline"] && !v["hasDeadline"] })
			n := 0
			for _, b := range fc.G.Blocks {
				if !fc.Live(b) {
					continue
				}
				for _, nd := range b.Nodes {
					for _, ce := range callsIn(nd, false) {
						if !stdFuncCalled(info, ce, "time", "Sleep") {
							continue
						}
						n++
						argOK := len(ce.Args) == 1 && identObj(info, ce.Args[0]) == dObj
						if len(unbounded) > 0 && !fc.reachableAvoiding(b, unbounded) && argOK {
							obs = append(obs, mkOb(c, "SLEEP.context", u, "plain sleep", ce, Proved, "time.Sleep(d) only when the context has neither Done channel nor deadline", true))
						} else {
							obs = append(obs, mkOb(c, "SLEEP.context", u, "plain sleep", ce, Violated, "an uninterruptible time.Sleep is reachable although the context can be cancelled or has a deadline", true))
						}
					}
				}
			}
			// select with done arm and timer(d): written in sleepContext, or in a helper only
			// sleepContext calls (`waitForTimerOrDone(d, done)`), read with its parameters
			// bound to the operands of that call
			var sel *ast.SelectStmt
			var timerObj types.Object
			timerArgOK := false
			var timerCall *ast.CallExpr
			selInfo, selD, selDone := info, dObj, doneObj
			findWait := func(body *ast.BlockStmt, winfo *types.Info, wd types.Object) {
				ast.Inspect(body, func(n ast.Node) bool {
					if s, ok := n.(*ast.SelectStmt); ok {
						sel = s
					}
					as, ok := n.(*ast.AssignStmt)
					if !ok || len(as.Lhs) != 1 || len(as.Rhs) != 1 {
						return true
					}
					if ce, ok := ast.Unparen(as.Rhs[0]).(*ast.CallExpr); ok && stdFuncCalled(winfo, ce, "time", "NewTimer") {
						timerObj = identObj(winfo, as.Lhs[0])
						timerCall = ce
						timerArgOK = len(ce.Args) == 1 && identObj(winfo, ce.Args[0]) == wd
					}
					return true
				})
			}
			findWait(fd.Body, info, dObj)
			if sel == nil && timerObj == nil {
				for _, ce := range callsIn(fd.Body, false) {
					h := originOf(Callee(info, ce))
					hd := c.declOf[h]
					if h == nil || hd == nil || hd.Body == nil || h.Pkg() != fn.Pkg() {
						continue
					}
					if _, private := c.privateHelperOf(h, func(n string) bool { return n == u.Name() }, 0); !private {
						continue
					}
					hasSel := false
					ast.Inspect(hd.Body, func(n ast.Node) bool {
						if _, ok := n.(*ast.SelectStmt); ok {
							hasSel = true
						}
						return true
					})
					if !hasSel {
						continue
					}
					hinfo := c.pkgOf[hd].TypesInfo
					pd, pdone := boundParam(info, ce, h, dObj), boundParam(info, ce, h, doneObj)
					if pd == nil || pdone == nil {
						continue
					}
					findWait(hd.Body, hinfo, pd)
					selInfo, selD, selDone = hinfo, pd, pdone
					// the deadline refusal below is judged where the helper is called
					if timerCall != nil {
						timerCall = ce
					}
				}
			}
			_ = selD
			if sel == nil || timerObj == nil {
				obs = append(obs, mkOb(c, "SLEEP.context", u, "interruptible wait", fd, Violated, "no select over a timer found", true))
			} else {
				hasDone, hasTimer, hasDefault := false, false, false
				for _, cl := range sel.Body.List {
					cc := cl.(*ast.CommClause)
					if cc.Comm == nil {
						hasDefault = true
						continue
					}
					var recv ast.Expr
					switch s := cc.Comm.(type) {
					case *ast.ExprStmt:
						recv = s.X
					case *ast.AssignStmt:
						if len(s.Rhs) == 1 {
							recv = s.Rhs[0]
						}
					}
					ue, ok := ast.Unparen(recv).(*ast.UnaryExpr)
					if !ok || ue.Op != token.ARROW {
						continue
					}
					if identObj(selInfo, ue.X) == selDone {
						hasDone = true
					}
					if se, ok := ast.Unparen(ue.X).(*ast.SelectorExpr); ok && identObj(selInfo, se.X) == timerObj && se.Sel.Name == "C" {
						hasTimer = true
					}
				}
				if hasDone && hasTimer && !hasDefault && timerArgOK {
					obs = append(obs, mkOb(c, "SLEEP.context", u, "interruptible wait", sel, Proved, "blocking select has a <-ctx.Done() arm and a timer of exactly d, no default", true))
				} else {
					obs = append(obs, mkOb(c, "SLEEP.context", u, "interruptible wait", sel, Violated, "the blocking wait is not `select { <-timer(d).C ; <-ctx.Done() }`", true))
				}
			}
			// deadline refusal before the timer
			if timerCall != nil && dlObj != nil {
				tloc, _ := fc.Locate(timerCall)
				// remaining := time.Until(deadline)
				var remObj types.Object
				ast.Inspect(fd.Body, func(n ast.Node) bool {
					as, ok := n.(*ast.AssignStmt)
					if ok && len(as.Lhs) == 1 && len(as.Rhs) == 1 {
						if ce, ok := ast.Unparen(as.Rhs[0]).(*ast.CallExpr); ok && stdFuncCalled(info, ce, "time", "Until") && len(ce.Args) == 1 && identObj(info, ce.Args[0]) == dlObj {
							remObj = identObj(info, as.Lhs[0])
						}
					}
					return true
				})
				// "remaining": the local bound to time.Until(deadline), or that call written in place
				isRem := func(e ast.Expr) bool {
					if remObj != nil && identObj(info, e) == remObj {
						return true
					}
					ce, ok := ast.Unparen(e).(*ast.CallExpr)
					return ok && stdFuncCalled(info, ce, "time", "Until") && len(ce.Args) == 1 && identObj(info, ce.Args[0]) == dlObj
				}
				haveRem := remObj != nil
				cls2 := func(e ast.Expr) (string, bool) {
					if identObj(info, e) == hasDlObj {
						return "hasDeadline", false
					}
					if be, ok := ast.Unparen(e).(*ast.BinaryExpr); ok {
						dLeft := identObj(info, be.X) == dObj && isRem(be.Y)
						dRight := identObj(info, be.Y) == dObj && isRem(be.X)
						if dLeft || dRight {
							gt := false
							switch be.Op {
							case token.GTR, token.GEQ:
								gt = true
							case token.LSS, token.LEQ:
							default:
								return "", false
							}
							if dRight {
								gt = !gt
							}
							haveRem = true
							return "dExceedsRemaining", !gt
						}
					}
					return "", false
				}
				pass := fc.edgesEntailing(cls2, func(v map[string]bool) bool { return (v["$has:hasDeadline"] && !v["hasDeadline"]) || (v["$has:dExceedsRemaining"] && !v["dExceedsRemaining"]) })
				if haveRem && len(pass) > 0 && !fc.reachableAvoiding(tloc.B, pass) {
					obs = append(obs, mkOb(c, "SLEEP.context", u, "deadline refusal", timerCall, Proved, "the timer is created only on edges entailing no deadline or d <= time.Until(deadline)", true))
				} else {
					obs = append(obs, mkOb(c, "SLEEP.context", u, "deadline refusal", timerCall, Violated, "a sleep that cannot finish before the deadline is started instead of refused", true))
				}
			}
			if n == 0 {
				obs = append(obs, mkOb(c, "SLEEP.context", u, "plain sleep", fd, Proved, "no uninterruptible time.Sleep at all", false))
			}
			return obs
		}})

	register(&Rule{ID: "SLEEP.only-here", Floor: 1,
		Doc: "time.Sleep / time.After / time.NewTimer / time.Tick in the kernel occur only in libtime.sleepContext",
		Run: func(c *Ctx) []Obligation {
			var obs []Obligation
			for _, u := range c.Funcs(isKernel) {
				info := u.Pkg.TypesInfo
				ord := &ordinal{}
				for _, ce := range callsIn(u.Decl.Body, true) {
					fn := Callee(info, ce)
					if fn == nil || fn.Pkg() == nil || fn.Pkg().Path() != "time" {
						continue
					}
					if sig, ok := fn.Type().(*types.Signature); ok && sig.Recv() != nil {
						continue // methods such as Time.After are comparisons, not waits
					}
					switch fn.Name() {
					case "Sleep", "After", "NewTimer", "Tick", "NewTicker", "AfterFunc":
					default:
						continue
					}
					construct := ord.next("call time." + fn.Name())
					if u.Name() == "lisp/lisplib/libtime.sleepContext" {
						obs = append(obs, mkOb(c, "SLEEP.only-here", u, construct, ce, Proved, "inside sleepContext (shape checked by SLEEP.context)", false))
					} else if via, ok := c.privateHelperOf(u.Obj, func(n string) bool { return n == "lisp/lisplib/libtime.sleepContext" }, 0); ok && fn.Name() == "NewTimer" {
						obs = append(obs, mkOb(c, "SLEEP.only-here", u, construct, ce, Proved, "inside a helper only "+via+" calls (shape checked by SLEEP.context)", false))
					} else {
						obs = append(obs, mkOb(c, "SLEEP.only-here", u, construct, ce, Violated, "blocking time call in the kernel outside sleepContext: not bounded by cap, deadline or cancellation", false))
					}
				}
			}
			return obs
		}})
}
