package main

import (
	"go/ast"
	"go/types"
)

// MAP.entries-buffer — C09 / C11 / C13: lisp.Map.Entries(buf) is documented to
// FILL AND SORT the buffer its caller hands it.  That is a write into a cell
// slice the implementation did not allocate, and is only harmless because of a
// contract: the buffer is the caller's own, freshly allocated scratch space —
// never the cells of a lisp value.  The contract is decided at the call sites;
// the implementations are then entitled to treat the parameter as theirs
// (sliceProvOf reads entriesBufferContract), however they spell the writes
// (indexed stores, append onto buf[:0], sort over a reslice).
func (c *Ctx) mapEntriesMethods() map[*types.Func]bool {
	if m, ok := c.memo["mapEntriesMethods"].(map[*types.Func]bool); ok {
		return m
	}
	out := map[*types.Func]bool{}
	c.memo["mapEntriesMethods"] = out
	mapT := c.LookupType("lisp.Map")
	if mapT == nil {
		return out
	}
	iface, _ := mapT.Underlying().(*types.Interface)
	if iface == nil {
		return out
	}
	var ifaceM *types.Func
	for i := 0; i < iface.NumMethods(); i++ {
		if iface.Method(i).Name() == "Entries" {
			ifaceM = iface.Method(i)
		}
	}
	if ifaceM == nil {
		return out
	}
	out[ifaceM] = true
	for _, u := range c.Funcs(nil) {
		sig := u.Obj.Type().(*types.Signature)
		if sig.Recv() == nil || u.Obj.Name() != "Entries" {
			continue
		}
		rt := sig.Recv().Type()
		if types.Implements(rt, iface) || types.Implements(types.NewPointer(rt), iface) {
			out[originOf(u.Obj)] = true
		}
	}
	return out
}

type entriesSite struct {
	u     FuncUnit
	call  *ast.CallExpr
	fresh bool
}

func (c *Ctx) entriesBufferSites() []entriesSite {
	if v, ok := c.memo["entriesBufferSites"].([]entriesSite); ok {
		return v
	}
	c.memo["entriesBufferSites"] = []entriesSite(nil) // recursion guard: sites are judged without the contract
	ms := c.mapEntriesMethods()
	var out []entriesSite
	for _, u := range c.Funcs(nil) {
		if u.Decl == nil || u.Decl.Body == nil {
			continue
		}
		info := u.Pkg.TypesInfo
		var a *ownAnalysis
		for _, ce := range callsIn(u.Decl.Body, true) {
			fn := originOf(Callee(info, ce))
			if fn == nil || !ms[fn] || len(ce.Args) != 1 {
				continue
			}
			if a == nil {
				a = newOwnAnalysis(c, u)
			}
			p := a.sliceProvOf(ce.Args[0], 0)
			out = append(out, entriesSite{u, ce, p.fresh && !p.borrowed && !p.unknown && !p.otherField})
		}
	}
	c.memo["entriesBufferSites"] = out
	return out
}

// entriesBufferContract: every call of a Map.Entries implementation in the
// module passes a buffer allocated by the caller.
func (c *Ctx) entriesBufferContract() bool {
	sites := c.entriesBufferSites()
	if len(sites) == 0 {
		return false
	}
	for _, s := range sites {
		if !s.fresh {
			return false
		}
	}
	return true
}

func init() {
	register(&Rule{ID: "MAP.entries-buffer", Floor: 2,
		Doc: "every call of lisp.Map.Entries (the interface method or an implementation) passes a buffer the calling function allocated itself (make / a composite literal): the implementations fill and sort that buffer in place, which is harmless only as long as it is never the cell slice of a lisp value",
		Run: func(c *Ctx) []Obligation {
			const rid = "MAP.entries-buffer"
			if len(c.mapEntriesMethods()) == 0 {
				return []Obligation{anchorMissing(rid, "lisp.Map.Entries")}
			}
			var obs []Obligation
			ord := map[string]*ordinal{}
			for _, s := range c.entriesBufferSites() {
				n := s.u.Name()
				if ord[n] == nil {
					ord[n] = &ordinal{}
				}
				construct := ord[n].next("buffer passed to Entries")
				if s.fresh {
					obs = append(obs, mkOb(c, rid, s.u, construct, s.call, Proved, "the buffer is allocated by this function", true))
				} else {
					obs = append(obs, mkOb(c, rid, s.u, construct, s.call, Undecided, "Map.Entries writes and sorts its argument in place, and this call passes a slice that is not provably this function's own allocation: if it is the cell slice of a lisp value (a literal of the program, another value's elements) that value is overwritten", true))
				}
			}
			return obs
		}})
}
