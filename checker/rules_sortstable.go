package main

import (
	"go/ast"
	"strings"
)

// SORT.stable-routine — C01 ("loading a program yields the value the language
// reference prescribes"; stable-sort: "elements that compare equal keep their
// relative order"): stability is not something the builtin's own code computes,
// it is a property of the library routine that permutes the cells.  sort.Sort,
// sort.Slice and slices.SortFunc are documented as NOT stable (and are stable
// by accident on short inputs, which is what tests use).
func init() {
	register(&Rule{ID: "SORT.stable-routine", Floor: 1,
		Doc: "every sorting routine of the Go library reachable from the implementation of a builtin whose registered name promises stability (stable-sort, and any other name containing `stable`) is one of the stable ones — sort.Stable, sort.SliceStable, slices.SortStableFunc: the unstable routines (sort.Sort, sort.Slice, slices.Sort, slices.SortFunc) keep equal elements in order only on short inputs",
		Run: func(c *Ctx) []Obligation {
			const rid = "SORT.stable-routine"
			var obs []Obligation
			n := 0
			for _, e := range c.Registry() {
				if !strings.Contains(e.Name, "stable") || e.Problem != "" {
					continue
				}
				_, u, _, ok := c.BodyOf(e)
				if !ok || u.Decl == nil {
					continue
				}
				n++
				ord := &ordinal{}
				found := 0
				for _, hu := range c.withHelpers(u) {
					info := hu.Pkg.TypesInfo
					for _, ce := range callsIn(hu.Decl.Body, true) {
						f := Callee(info, ce)
						if f == nil || f.Pkg() == nil || (f.Pkg().Path() != "sort" && f.Pkg().Path() != "slices") {
							continue
						}
						name := f.Pkg().Name() + "." + f.Name()
						switch name {
						case "sort.Stable", "sort.SliceStable", "slices.SortStableFunc":
							found++
							obs = append(obs, mkOb(c, rid, u, ord.next(e.Name+": "+name), ce, Proved, "a stable routine", true))
						case "sort.Sort", "sort.Slice", "slices.Sort", "slices.SortFunc", "sort.Strings", "sort.Ints", "sort.Float64s":
							found++
							obs = append(obs, mkOb(c, rid, u, ord.next(e.Name+": "+name), ce, Violated, name+" is not a stable sort: elements the predicate ranks equal can change places (Go's pdqsort is insertion sort — stable — only up to 12 elements, so short test inputs do not show it)", true))
						}
					}
				}
				if found == 0 {
					obs = append(obs, mkOb(c, rid, u, e.Name+": sorting routine", u.Decl, Undecided, "no call to a sort/slices routine found in the implementation of "+e.Name+" or its private helpers", true))
				}
			}
			if n == 0 {
				obs = append(obs, anchorMissing(rid, "a registered builtin whose name contains `stable`"))
			}
			return obs
		}})
}

var _ = ast.Inspect
