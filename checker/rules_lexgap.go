package main

import (
	"go/ast"
	"go/token"

	"golang.org/x/tools/go/cfg"
)

// LEX.newlines-accumulate — C16 ("every comment … before the same expression",
// "formatting its own output changes nothing"): the only thing that tells the
// format-preserving parser that an expression started a new line is the
// lexer's count of line breaks in the whitespace in front of it.  The lexer
// skips whitespace a scanner window at a time, so a run of whitespace longer
// than the window is counted in several turns of the loop; each turn must ADD
// what it saw.  A turn that assigns its own count forgets the line break that
// ended a `;` comment in an earlier window, and the printer then writes the
// next token on the comment's line — inside the comment.
func init() {
	register(&Rule{ID: "LEX.newlines-accumulate", Floor: 1,
		Doc: "in the lexer every store to the preceding-newlines counter that lies inside a loop is additive (`+=`, `++`, or `x = x + …` on the same field): line breaks counted in an earlier scanner window of one whitespace run are never overwritten by a later window's count; plain assignments occur only outside loops (state reset between tokens)",
		Run: func(c *Ctx) []Obligation {
			const rid = "LEX.newlines-accumulate"
			fld := c.LookupField("parser/lexer.Lexer.precedingNewlines")
			if fld == nil {
				return []Obligation{anchorMissing(rid, "lexer.Lexer.precedingNewlines")}
			}
			var obs []Obligation
			for _, u := range c.Funcs(func(p string) bool { return rel(p) == "parser/lexer" }) {
				if u.Decl == nil || u.Decl.Body == nil {
					continue
				}
				info := u.Pkg.TypesInfo
				var fc *FCFG
				inLoop := map[*cfg.Block]bool{}
				ord := &ordinal{}
				ast.Inspect(u.Decl.Body, func(n ast.Node) bool {
					if _, isLit := n.(*ast.FuncLit); isLit {
						return false
					}
					var lhs, rhs ast.Expr
					tok := token.ILLEGAL
					switch x := n.(type) {
					case *ast.AssignStmt:
						for i, l := range x.Lhs {
							if FieldOfSelector(info, l) == fld {
								lhs, tok = l, x.Tok
								if len(x.Lhs) == len(x.Rhs) {
									rhs = x.Rhs[i]
								}
							}
						}
					case *ast.IncDecStmt:
						if FieldOfSelector(info, x.X) == fld {
							lhs, tok = x.X, x.Tok
						}
					}
					if lhs == nil {
						return true
					}
					if fc == nil {
						fc = c.cfgOf(u, nil)
						for _, comp := range fc.cyclicSCCs(nil) {
							for _, b := range comp {
								inLoop[b] = true
							}
						}
					}
					loc, ok := fc.Locate(n)
					construct := ord.next("store preceding-newlines")
					if !ok || !inLoop[loc.B] {
						obs = append(obs, mkOb(c, rid, u, construct, n, Proved, "not inside a loop (state reset between tokens)", false))
						return true
					}
					additive := tok == token.ADD_ASSIGN || tok == token.INC
					if tok == token.ASSIGN && rhs != nil {
						if be, ok := ast.Unparen(rhs).(*ast.BinaryExpr); ok && be.Op == token.ADD && (FieldOfSelector(info, be.X) == fld || FieldOfSelector(info, be.Y) == fld) {
							additive = true
						}
					}
					if additive {
						obs = append(obs, mkOb(c, rid, u, construct, n, Proved, "additive store inside the window loop", true))
					} else {
						obs = append(obs, mkOb(c, rid, u, construct, n, Violated, "inside the loop that skips whitespace one scanner window at a time the newline count is ASSIGNED, not added to: when a whitespace run is longer than the window, the line break that ends a `;` comment is counted in an earlier turn and overwritten here, and the formatter writes the next token on the comment's own line", true))
					}
					return true
				})
			}
			return obs
		}})
}
