package main

import (
	"go/ast"
	"go/constant"
	"go/token"
	"go/types"
	"golang.org/x/tools/go/cfg"
	"strings"
)

// C19 — lint arity table vs. the binder (structural agreement only).

func init() {
	register(&Rule{ID: "ARITY.table-shape", Floor: 6,
		Doc: "lint's arity table is derived from the registered formals only (DefaultBuiltins/SpecialOps/Macros, Name and Formals), switches on exactly the binder's control symbols, counts a required argument only outside &optional/&key, treats &rest and &key signatures as unbounded, and every name it removes from the table has a dedicated analyzer in DefaultAnalyzers",
		Run: func(c *Ctx) []Obligation {
			fn, fd, pkg := c.LookupFunc("lint.buildArityTable")
			if fn == nil {
				return []Obligation{anchorMissing("ARITY.table-shape", "lint.buildArityTable")}
			}
			u := FuncUnit{fn, fd, pkg}
			info := pkg.TypesInfo
			var obs []Obligation
			// 1. sources
			wantSrc := map[string]bool{"DefaultBuiltins": false, "DefaultSpecialOps": false, "DefaultMacros": false}
			otherLisp := []string{}
			// the table builder and the private helpers it is split into
			family := c.withHelpers(u)
			var famCalls []*ast.CallExpr
			for _, hu := range family {
				famCalls = append(famCalls, callsIn(hu.Decl.Body, true)...)
			}
			for _, ce := range famCalls {
				f := Callee(info, ce)
				if f == nil || f.Pkg() == nil || rel(f.Pkg().Path()) != "lisp" {
					continue
				}
				if _, ok := wantSrc[f.Name()]; ok {
					wantSrc[f.Name()] = true
					continue
				}
				switch f.Name() {
				case "Name", "Formals":
				default:
					otherLisp = append(otherLisp, f.Name())
				}
			}
			all := true
			for _, v := range wantSrc {
				all = all && v
			}
			if all && len(otherLisp) == 0 {
				obs = append(obs, mkOb(c, "ARITY.table-shape", u, "signature source", fd, Proved, "iterates DefaultBuiltins, DefaultSpecialOps and DefaultMacros and reads only Name() and Formals()", false))
			} else {
				obs = append(obs, mkOb(c, "ARITY.table-shape", u, "signature source", fd, Violated, "the table is not built from exactly the three default registries' Name()/Formals() (other calls: "+strings.Join(otherLisp, ",")+")", true))
			}
			// 2. control symbols
			lp := c.Pkg("lisp").Types.Scope()
			want := map[string]string{}
			for _, n := range []string{"VarArgSymbol", "OptArgSymbol", "KeyArgSymbol"} {
				if k, ok := lp.Lookup(n).(*types.Const); ok {
					want[constant.StringVal(k.Val())] = n
				}
			}
			got := map[string]bool{}
			// the counting unit: the function (or literal) of the family whose switch names the control
			// symbols; the flag each symbol sets
			var cntUnit FuncUnit
			var cntSwitch *ast.SwitchStmt
			flagOf := map[string]types.Object{}
			for _, hu := range family {
				hu := hu
				ast.Inspect(hu.Decl.Body, func(n ast.Node) bool {
					sw, ok := n.(*ast.SwitchStmt)
					if !ok {
						return true
					}
					for _, cl := range sw.Body.List {
						cc := cl.(*ast.CaseClause)
						for _, e := range cc.List {
							if s, ok := constStringVal(info, e); ok && strings.HasPrefix(s, "&") {
								got[s] = true
								cntUnit, cntSwitch = hu, sw
								for _, st := range cc.Body {
									if as, ok := st.(*ast.AssignStmt); ok && len(as.Lhs) == 1 && len(as.Rhs) == 1 {
										if id, ok := ast.Unparen(as.Rhs[0]).(*ast.Ident); ok && id.Name == "true" {
											if role, ok := want[s]; ok && len(cc.List) == 1 {
												flagOf[role] = identObj(info, as.Lhs[0])
											}
										}
									}
								}
							}
						}
					}
					return true
				})
			}
			// ... or an if / else-if chain comparing the symbol's text with each control symbol
			type ifCmp struct {
				hu   FuncUnit
				stmt *ast.IfStmt
				sym  string
			}
			var chain []ifCmp
			if cntSwitch == nil {
				for _, hu := range family {
					hu := hu
					ast.Inspect(hu.Decl.Body, func(n ast.Node) bool {
						is, ok := n.(*ast.IfStmt)
						if !ok {
							return true
						}
						be, ok := ast.Unparen(is.Cond).(*ast.BinaryExpr)
						if !ok || be.Op != token.EQL {
							return true
						}
						for _, e := range []ast.Expr{be.X, be.Y} {
							if sv, ok := constStringVal(info, e); ok && strings.HasPrefix(sv, "&") {
								got[sv] = true
								chain = append(chain, ifCmp{hu, is, sv})
								if len(is.Body.List) == 1 {
									if as, ok := is.Body.List[0].(*ast.AssignStmt); ok && len(as.Lhs) == 1 && len(as.Rhs) == 1 && isBoolConst(info, as.Rhs[0], true) {
										if role, ok := want[sv]; ok {
											flagOf[role] = identObj(info, as.Lhs[0])
										}
									}
								}
							}
						}
						return true
					})
				}
			}
			okSyms := len(got) == len(want)
			for s := range want {
				if !got[s] {
					okSyms = false
				}
			}
			if okSyms {
				obs = append(obs, mkOb(c, "ARITY.table-shape", u, "control symbols", fd, Proved, "switch cases equal lisp.VarArgSymbol, OptArgSymbol, KeyArgSymbol", true))
			} else {
				obs = append(obs, mkOb(c, "ARITY.table-shape", u, "control symbols", fd, Violated, "the control symbols lint switches on differ from the binder's", true))
			}
			// 3. counting rule: in the counting unit, the flags are the variables the control-symbol
			// cases set; the counters are the integers the default case increments — the one
			// incremented under a test of the optional/key flags counts required arguments
			if cntSwitch == nil && len(chain) == 0 {
				obs = append(obs, mkOb(c, "ARITY.table-shape", u, "counting rule", fd, Undecided, "no switch over the control symbols found in the table builder", false))
				return obs
			}
			var anchorPos, anchorEnd token.Pos
			if cntSwitch != nil {
				anchorPos, anchorEnd = cntSwitch.Pos(), cntSwitch.End()
			} else {
				cntUnit = chain[0].hu
				anchorPos, anchorEnd = chain[0].stmt.Pos(), chain[0].stmt.End()
			}
			var lit *ast.FuncLit
			ast.Inspect(cntUnit.Decl.Body, func(n ast.Node) bool {
				if l, ok := n.(*ast.FuncLit); ok && l.Pos() <= anchorPos && anchorEnd <= l.End() {
					lit = l
				}
				return true
			})
			fc := c.cfgOf(cntUnit, lit)
			var litNode ast.Node = cntUnit.Decl
			if lit != nil {
				litNode = lit
			}
			var maxFld types.Object = c.LookupField("lint.aritySpec.max")
			optO, keyO, varO := flagOf["OptArgSymbol"], flagOf["KeyArgSymbol"], flagOf["VarArgSymbol"]
			var minO, maxO types.Object
			byReach := func() {
				// the "default case" of a chain: what runs when the text equals none of the control
				// symbols; the counter incremented only behind the optional/key flags is the minimum
				reach := fc.reachableUnder(func(e ast.Expr) int {
					be, ok := ast.Unparen(e).(*ast.BinaryExpr)
					if !ok || (be.Op != token.EQL && be.Op != token.NEQ) {
						return -1
					}
					for _, x := range []ast.Expr{be.X, be.Y} {
						if sv, ok := constStringVal(info, x); ok && strings.HasPrefix(sv, "&") {
							if be.Op == token.EQL {
								return 0
							}
							return 1
						}
					}
					return -1
				})
				flagCls := func(e ast.Expr) (string, bool) {
					switch identObj(info, e) {
					case optO:
						return "opt", false
					case keyO:
						return "key", false
					}
					return "", false
				}
				reqEdges := fc.edgesEntailing(flagCls, func(v map[string]bool) bool { return (v["$has:opt"] && !v["opt"]) && (v["$has:key"] && !v["key"]) })
				incBlocks := map[types.Object][]*cfg.Block{}
				for b := range reach {
					for _, n := range b.Nodes {
						if inc, ok := n.(*ast.IncDecStmt); ok && inc.Tok == token.INC {
							// a local counter, or a field of the result being built (`spec.max++`)
							if o := identObjOrSel(info, inc.X); o != nil {
								incBlocks[o] = append(incBlocks[o], b)
							}
						}
					}
				}
				for o, bs := range incBlocks {
					guarded := len(reqEdges) > 0
					for _, b := range bs {
						if fc.reachableAvoiding(b, reqEdges) {
							guarded = false
						}
					}
					if guarded {
						minO = o
					} else {
						maxO = o
					}
				}
			}
			if cntSwitch == nil {
				byReach()
			}
			var swClauses []ast.Stmt
			if cntSwitch != nil {
				swClauses = cntSwitch.Body.List
			}
			for _, cl := range swClauses {
				cc := cl.(*ast.CaseClause)
				if cc.List != nil {
					continue
				}
				var walk func(n ast.Node, underFlag bool)
				walk = func(n ast.Node, underFlag bool) {
					ast.Inspect(n, func(m ast.Node) bool {
						switch x := m.(type) {
						case *ast.IfStmt:
							mentions := false
							ast.Inspect(x.Cond, func(k ast.Node) bool {
								if id, ok := k.(*ast.Ident); ok {
									if o := info.Uses[id]; o != nil && (o == optO || o == keyO) {
										mentions = true
									}
								}
								return true
							})
							walk(x.Body, underFlag || mentions)
							if x.Else != nil {
								walk(x.Else, underFlag || mentions)
							}
							return false
						case *ast.IncDecStmt:
							if x.Tok == token.INC {
								if o := identObjOrSel(info, x.X); o != nil {
									if underFlag {
										minO = o
									} else {
										maxO = o
									}
								}
							}
						}
						return true
					})
				}
				for _, st := range cc.Body {
					walk(st, false)
				}
			}
			if cntSwitch != nil && (minO == nil || maxO == nil) {
				// a switch whose control cases `continue` and whose counting follows the switch
				// instead of sitting in a default clause: what runs when the text equals none of
				// the control symbols (the synthesised `tag == case` conditions decide it)
				byReach()
			}
			if minO == nil || maxO == nil || optO == nil || keyO == nil || varO == nil {
				obs = append(obs, mkOb(c, "ARITY.table-shape", u, "counting rule", litNode, Undecided, "expected two counters incremented by the default case and one flag set by each control-symbol case", false))
				return obs
			}
			cls := func(e ast.Expr) (string, bool) {
				switch identObj(info, e) {
				case optO:
					return "opt", false
				case keyO:
					return "key", false
				case varO:
					return "var", false
				}
				return "", false
			}
			required := fc.edgesEntailing(cls, func(v map[string]bool) bool { return (v["$has:opt"] && !v["opt"]) && (v["$has:key"] && !v["key"]) })
			minBlocks := fc.blocksWith(func(n ast.Node) bool {
				s, ok := n.(*ast.IncDecStmt)
				return ok && s.Tok == token.INC && identObjOrSel(info, s.X) == minO
			})
			okMin := len(minBlocks) > 0 && len(required) > 0
			for b := range minBlocks {
				if fc.reachableAvoiding(b, required) {
					okMin = false
				}
			}
			if okMin {
				obs = append(obs, mkOb(c, "ARITY.table-shape", u, "required count", litNode, Proved, "minArity++ only on an edge entailing !inOptional && !inKey", true))
			} else {
				obs = append(obs, mkOb(c, "ARITY.table-shape", u, "required count", litNode, Violated, "an optional or keyword formal can be counted as required (lint would demand arguments the binder does not)", true))
			}
			// max unbounded when variadic || inKey: the composite with max: -1 is on an edge entailing var||key
			unb := fc.edgesEntailing(cls, func(v map[string]bool) bool { return v["var"] || v["key"] })
			bounded := fc.edgesEntailing(cls, func(v map[string]bool) bool { return (v["$has:var"] && !v["var"]) && (v["$has:key"] && !v["key"]) })
			negOne := fc.blocksWith(func(n ast.Node) bool {
				found := false
				ast.Inspect(n, func(m ast.Node) bool {
					if kv, ok := m.(*ast.KeyValueExpr); ok {
						if id, ok := kv.Key.(*ast.Ident); ok && info.Uses[id] == maxFld {
							if k, okc := intConst(info, kv.Value); okc && k == -1 {
								found = true
							}
						}
					}
					return true
				})
				return found
			})
			finite := fc.blocksWith(func(n ast.Node) bool {
				found := false
				ast.Inspect(n, func(m ast.Node) bool {
					if kv, ok := m.(*ast.KeyValueExpr); ok {
						if id, ok := kv.Key.(*ast.Ident); ok && info.Uses[id] == maxFld && identObj(info, kv.Value) == maxO {
							found = true
						}
					}
					return true
				})
				return found
			})
			okMax := len(negOne) > 0 && len(finite) > 0 && len(unb) > 0 && len(bounded) > 0
			for b := range finite {
				if fc.reachableAvoiding(b, bounded) {
					okMax = false
				}
			}
			if !okMax && len(bounded) > 0 {
				// one composite with `max: upper`, where upper starts as the finite count and is
				// overwritten with -1 under variadic || inKey: the finite value reaches the table only
				// past the overwrite's block or over an edge entailing !variadic && !inKey
				var upper types.Object
				var comp map[*cfg.Block]bool
				comp = fc.blocksWith(func(n ast.Node) bool {
					found := false
					ast.Inspect(n, func(m ast.Node) bool {
						if kv, ok := m.(*ast.KeyValueExpr); ok {
							if id, ok := kv.Key.(*ast.Ident); ok && info.Uses[id] == maxFld {
								if o := identObj(info, kv.Value); o != nil && o != maxO {
									upper, found = o, true
								}
							}
						}
						return true
					})
					return found
				})
				if upper != nil {
					defFinite := false
					over := fc.blocksWith(func(n ast.Node) bool {
						as, ok := n.(*ast.AssignStmt)
						if !ok || len(as.Lhs) != len(as.Rhs) {
							return false
						}
						for i, l := range as.Lhs {
							if identObj(info, l) != upper {
								continue
							}
							if identObj(info, as.Rhs[i]) == maxO {
								defFinite = true
							}
							if k, okc := intConst(info, as.Rhs[i]); okc && k == -1 {
								return true
							}
						}
						return false
					})
					if defFinite && len(over) > 0 {
						okMax = true
						for b := range comp {
							if fc.reachableAvoidingBlocks(b, bounded, over) {
								okMax = false
							}
						}
						// the overwrite itself happens only under variadic || inKey
						for b := range over {
							if fc.reachableAvoiding(b, unb) {
								okMax = false
							}
						}
					}
				}
			}
			mv, isFld := maxO.(*types.Var)
			countersAreFields := isFld && mv.IsField() && maxO == maxFld
			if !okMax && len(bounded) > 0 && (countersAreFields || len(finite) > 0) {
				// the counters ARE the fields of the result (`var spec aritySpec; spec.max++ …;
				// if sawRest || sawKey { spec.max = unbounded }; return spec`): the counted value
				// leaves the function only past the overwrite or over an edge entailing
				// !variadic && !inKey
				over := fc.blocksWith(func(n ast.Node) bool {
					as, ok := n.(*ast.AssignStmt)
					if !ok || len(as.Lhs) != len(as.Rhs) {
						return false
					}
					for i, l := range as.Lhs {
						// ... or one composite `spec := aritySpec{min: required, max: named}` whose max
						// field is overwritten (`spec.max = -1`) before the value is stored in the table
						if o := identObjOrSel(info, l); o == maxO || o == types.Object(maxFld) {
							if k, okc := intConst(info, as.Rhs[i]); okc && k == -1 {
								return true
							}
						}
					}
					return false
				})
				rets := fc.blocksWith(func(n ast.Node) bool {
					if as, ok := n.(*ast.AssignStmt); ok {
						// the store of the finished value into the table
						for _, l := range as.Lhs {
							if ie, ok := ast.Unparen(l).(*ast.IndexExpr); ok {
								if tv, ok := info.Types[ie.X]; ok {
									if _, isMap := tv.Type.Underlying().(*types.Map); isMap {
										return true
									}
								}
							}
						}
						return false
					}
					rs, ok := n.(*ast.ReturnStmt)
					if !ok || len(rs.Results) == 0 {
						return false
					}
					_, isId := ast.Unparen(rs.Results[0]).(*ast.Ident)
					return isId
				})
				if len(over) > 0 && len(rets) > 0 {
					okMax = true
					for b := range rets {
						if fc.reachableAvoidingBlocks(b, bounded, over) {
							okMax = false
						}
					}
					for b := range over {
						if fc.reachableAvoiding(b, unb) {
							okMax = false
						}
					}
				}
			}
			if okMax {
				obs = append(obs, mkOb(c, "ARITY.table-shape", u, "upper bound", litNode, Proved, "a finite maximum is recorded only on an edge entailing !variadic && !inKey", true))
			} else {
				obs = append(obs, mkOb(c, "ARITY.table-shape", u, "upper bound", litNode, Violated, "a &rest or &key signature can be given a finite maximum (lint would reject calls the binder accepts)", true))
			}
			// 4. deleted names have analyzers
			var deleted []string
			for _, ce := range famCalls {
				if id, ok := ast.Unparen(ce.Fun).(*ast.Ident); ok && id.Name == "delete" && len(ce.Args) == 2 {
					if s, ok := constStringVal(info, ce.Args[1]); ok {
						deleted = append(deleted, s)
					}
				}
			}
			analyzerNames := map[string]bool{}
			if _, dfd, dpkg := c.LookupFunc("lint.DefaultAnalyzers"); dfd != nil {
				ast.Inspect(dfd.Body, func(n ast.Node) bool {
					if id, ok := n.(*ast.Ident); ok {
						if v, ok := dpkg.TypesInfo.Uses[id].(*types.Var); ok && strings.HasPrefix(v.Name(), "Analyzer") {
							analyzerNames[strings.ToLower(strings.TrimPrefix(v.Name(), "Analyzer"))] = true
						}
					}
					return true
				})
			}
			for _, d := range deleted {
				covered := false
				for an := range analyzerNames {
					if strings.HasPrefix(an, strings.ToLower(d)) {
						covered = true
					}
				}
				if covered {
					obs = append(obs, mkOb(c, "ARITY.table-shape", u, "removed entry "+d, fd, Proved, "a dedicated analyzer for "+d+" is registered in DefaultAnalyzers", false))
				} else {
					obs = append(obs, mkOb(c, "ARITY.table-shape", u, "removed entry "+d, fd, Violated, "the arity entry for "+d+" is removed but no dedicated analyzer is registered: wrong-arity calls of "+d+" go unreported", true))
				}
			}
			return obs
		}})

	register(&Rule{ID: "ARITY.report-shape", Floor: 2,
		Doc: "the builtin-arity analyzer reports exactly when argc < min or (max >= 0 and argc > max), looks the head up in the table built above, and skips heads the program defines itself",
		Run: func(c *Ctx) []Obligation {
			p := c.Pkg("lint")
			if p == nil {
				return []Obligation{anchorMissing("ARITY.report-shape", "lint")}
			}
			info := p.TypesInfo
			// find the Run literal of AnalyzerBuiltinArity
			var lit *ast.FuncLit
			for _, f := range p.Syntax {
				ast.Inspect(f, func(n ast.Node) bool {
					vs, ok := n.(*ast.ValueSpec)
					if !ok || len(vs.Names) != 1 || vs.Names[0].Name != "AnalyzerBuiltinArity" {
						return true
					}
					ast.Inspect(vs, func(m ast.Node) bool {
						if kv, ok := m.(*ast.KeyValueExpr); ok {
							if id, ok := kv.Key.(*ast.Ident); ok && id.Name == "Run" {
								lit, _ = kv.Value.(*ast.FuncLit)
							}
						}
						return true
					})
					return false
				})
			}
			if lit == nil {
				return []Obligation{anchorMissing("ARITY.report-shape", "AnalyzerBuiltinArity.Run")}
			}
			pos := c.Pos(lit.Pos())
			var obs []Obligation
			hasMin, hasMax, usesTable, usesUserDefs := false, false, false, false
			minF := c.LookupField("lint.aritySpec.min")
			maxF := c.LookupField("lint.aritySpec.max")
			tableVar := c.LookupPkgObj("lint.builtinArityTable")
			var userDefsObj types.Object
			ast.Inspect(lit.Body, func(n ast.Node) bool {
				if as, ok := n.(*ast.AssignStmt); ok && len(as.Lhs) == 1 && len(as.Rhs) == 1 {
					// the file-wide exemption set: a string-keyed bool map built by a call
					// over the pass's expressions (which names it may hold is
					// ARITY.params-scoped's question, not this rule's)
					if _, ok := ast.Unparen(as.Rhs[0]).(*ast.CallExpr); ok {
						if o := identObj(info, as.Lhs[0]); o != nil {
							if mt, ok := o.Type().Underlying().(*types.Map); ok {
								if b, ok := mt.Key().Underlying().(*types.Basic); ok && b.Kind() == types.String {
									userDefsObj = o
								}
							}
						}
					}
				}
				return true
			})
			// the comparisons may be written in the literal or in a reporting helper of the package it
			// calls (shared with user-arity); each is read with its polarity (`!(argc >= spec.min)`)
			scanBodies := []ast.Node{lit.Body}
			{
				seenH := map[*types.Func]bool{}
				var addHelpers func(n ast.Node, depth int)
				addHelpers = func(n ast.Node, depth int) {
					for _, ce := range callsIn(n, true) {
						h := originOf(Callee(info, ce))
						if h == nil || seenH[h] || depth > 1 || h.Pkg() != p.Types || h.Exported() {
							continue
						}
						if hd := c.declOf[h]; hd != nil && hd.Body != nil {
							seenH[h] = true
							scanBodies = append(scanBodies, hd.Body)
							addHelpers(hd.Body, depth+1)
						}
					}
				}
				addHelpers(lit.Body, 0)
			}
			for _, sb := range scanBodies {
				ast.Inspect(sb, func(n ast.Node) bool {
					var conds []ast.Expr
					switch x := n.(type) {
					case *ast.IfStmt:
						conds = append(conds, x.Cond)
					case *ast.CaseClause:
						conds = append(conds, x.List...)
					case *ast.AssignStmt:
						conds = append(conds, x.Rhs...)
					}
					for _, cnd := range conds {
						for _, a := range cmpAtomsOf(cnd) {
							if minF != nil && ((a.Op == token.LSS && FieldOfSelector(info, a.Y) == minF) || (a.Op == token.GTR && FieldOfSelector(info, a.X) == minF)) {
								hasMin = true
							}
							if maxF != nil && ((a.Op == token.GTR && FieldOfSelector(info, a.Y) == maxF) || (a.Op == token.LSS && FieldOfSelector(info, a.X) == maxF)) {
								hasMax = true
							}
						}
					}
					return true
				})
			}
			ast.Inspect(lit.Body, func(n ast.Node) bool {
				switch x := n.(type) {
				case *ast.IndexExpr:
					if o := identObj(info, x.X); o != nil && o == tableVar {
						usesTable = true
					}
					if o := identObj(info, x.X); o != nil && o == userDefsObj {
						usesUserDefs = true
					}
				case *ast.CallExpr:
					// the exemption set handed to a helper of the package that indexes it
					// (`checkedCoreName(sexpr, fileDefs)`)
					h := originOf(Callee(info, x))
					hd := c.declOf[h]
					if h == nil || hd == nil || hd.Body == nil || h.Pkg() != p.Types || userDefsObj == nil {
						return true
					}
					hps := paramObjs(FuncUnit{h, hd, c.pkgOf[hd]})
					for i, a := range x.Args {
						if identObj(info, a) != userDefsObj || i >= len(hps) {
							continue
						}
						ast.Inspect(hd.Body, func(m ast.Node) bool {
							if ie, ok := m.(*ast.IndexExpr); ok && identObj(info, ie.X) == hps[i] {
								usesUserDefs = true
							}
							return true
						})
					}
				}
				return true
			})
			_ = info
			add := func(construct string, ok bool, good, bad string) {
				o := Obligation{Rule: "ARITY.report-shape", Func: "lint.AnalyzerBuiltinArity", Construct: construct, Pos: pos, Nontrivial: true}
				if ok {
					o.Verdict, o.Detail = Proved, good
				} else {
					o.Verdict, o.Detail = Violated, bad
				}
				obs = append(obs, o)
			}
			add("too few", hasMin, "reports when argc < spec.min", "no `argc < spec.min` test")
			add("too many", hasMax, "reports when argc > spec.max (and max >= 0)", "no `argc > spec.max` test")
			add("table lookup", usesTable, "looks the head up in builtinArityTable", "does not consult builtinArityTable")
			add("shadowing", usesUserDefs, "skips heads the program defines (userDefs)", "does not skip user-defined heads")
			return obs
		}})
}
