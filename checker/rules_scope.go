package main

import (
	"go/constant"
	"fmt"
	"go/ast"
	"go/token"
	"go/types"
	"sort"
	"strings"
)

// SCOPE.agree — sibling cross-check between the evaluator's binding forms
// (lisp/op.go) and the static scope analysis the minifier, the linter and the
// language server rely on (analysis/analyzer.go).  For every binding form both
// sides implement, the environment in which the *binding value forms* are
// evaluated (evaluator) must be the scope in which they are resolved
// (analyzer): either the enclosing one ("outer") or the one that receives the
// form's bindings ("inner").  A rename computed under a different scope than the
// evaluator uses captures or misses a reference.

type scopeClass struct {
	classes map[string]bool // outer | inner | unknown(...)
	sites   []string
	node    ast.Node
	// byPos: for evaluated forms found at a constant position of the operator's arguments
	// ("0.1" = args.Cells[0].Cells[1]), the classes seen at that position; unpositioned counts
	// the sites whose form is not at a constant position (loop variables over a binding list)
	byPos        map[string]map[string]bool
	unpositioned int
}

// knownIntParams: int parameters of helper functions whose value is fixed by the call being followed
// (`analyzeLetForm(node, 1, …)` makes bindingsIdx read as 1 inside analyzeLetForm); set by scopeSide.walk
// while it follows that call.
var knownIntParams = map[types.Object]int{}

// intConstOrKnown: a constant, or an int parameter fixed by the call under analysis, possibly plus a constant.
func intConstOrKnown(info *types.Info, e ast.Expr) (int, bool) {
	if k, ok := intConst(info, e); ok {
		return k, true
	}
	if o := identObj(info, e); o != nil {
		if k, ok := knownIntParams[o]; ok {
			return k, true
		}
	}
	if be, ok := ast.Unparen(e).(*ast.BinaryExpr); ok && be.Op == token.ADD {
		a, oka := intConstOrKnown(info, be.X)
		b, okb := intConstOrKnown(info, be.Y)
		if oka && okb {
			return a + b, true
		}
	}
	return 0, false
}

// constPathsOf: the constant-index access paths (lists of indexes through .Cells) by which
// e reaches root, following every definition of the locals involved.
func constPathsOf(info *types.Info, body ast.Node, e ast.Expr, root types.Object, depth int) [][]int {
	if depth > 5 || root == nil {
		return nil
	}
	e = ast.Unparen(e)
	switch x := e.(type) {
	case *ast.Ident:
		o := identObj(info, x)
		if o == nil {
			return nil
		}
		if o == root {
			return [][]int{{}}
		}
		var out [][]int
		ast.Inspect(body, func(n ast.Node) bool {
			if as, ok := n.(*ast.AssignStmt); ok && len(as.Lhs) == len(as.Rhs) {
				for i, l := range as.Lhs {
					if identObj(info, l) == o {
						out = append(out, constPathsOf(info, body, as.Rhs[i], root, depth+1)...)
					}
				}
			}
			return true
		})
		return out
	case *ast.IndexExpr:
		se, ok := ast.Unparen(x.X).(*ast.SelectorExpr)
		if !ok || se.Sel.Name != "Cells" {
			return nil
		}
		k, isC := intConstOrKnown(info, x.Index)
		if !isC {
			return nil
		}
		var out [][]int
		for _, p := range constPathsOf(info, body, se.X, root, depth+1) {
			out = append(out, append(append([]int(nil), p...), k))
		}
		return out
	}
	return nil
}

func (sc scopeClass) String() string {
	var ks []string
	for k := range sc.classes {
		ks = append(ks, k)
	}
	sort.Strings(ks)
	if len(ks) == 0 {
		return "none"
	}
	return strings.Join(ks, "+")
}

// derivedFrom computes the set of local objects derived from seed expressions
// (textually `<root>.Cells[k]`), through := / = / range statements.
func derivedFrom(info *types.Info, body *ast.BlockStmt, isSeed func(e ast.Expr) bool, skip func(n ast.Node) bool) map[types.Object]bool {
	T := map[types.Object]bool{}
	mentions := func(e ast.Expr) bool {
		found := false
		ast.Inspect(e, func(n ast.Node) bool {
			if found {
				return false
			}
			if ex, ok := n.(ast.Expr); ok && isSeed(ex) {
				found = true
				return false
			}
			if id, ok := n.(*ast.Ident); ok {
				if o := info.Uses[id]; o != nil && T[o] {
					found = true
				}
			}
			return true
		})
		return found
	}
	for changed := true; changed; {
		changed = false
		ast.Inspect(body, func(n ast.Node) bool {
			if skip != nil && skip(n) {
				return false
			}
			switch x := n.(type) {
			case *ast.AssignStmt:
				if len(x.Lhs) == len(x.Rhs) {
					for i, l := range x.Lhs {
						if o := identObj(info, l); o != nil && !T[o] && mentions(x.Rhs[i]) {
							T[o] = true
							changed = true
						}
					}
				}
			case *ast.RangeStmt:
				if mentions(x.X) {
					for _, e := range []ast.Expr{x.Key, x.Value} {
						if e == nil {
							continue
						}
						if o := identObj(info, e); o != nil && !T[o] {
							// the index of a range over binding cells is not a form
							if b, ok := o.Type().Underlying().(*types.Basic); ok && b.Info()&types.IsInteger != 0 {
								continue
							}
							T[o] = true
							changed = true
						}
					}
				}
			}
			return true
		})
	}
	return T
}

func isCellsIndex(e ast.Expr, root types.Object, info *types.Info, k int) bool {
	ie, ok := ast.Unparen(e).(*ast.IndexExpr)
	if !ok {
		return false
	}
	se, ok := ast.Unparen(ie.X).(*ast.SelectorExpr)
	if !ok || se.Sel.Name != "Cells" || identObj(info, se.X) != root {
		return false
	}
	v, ok := intConstOrKnown(info, ie.Index)
	return ok && v == k
}

// scopeSide describes one of the two sibling implementations.
type scopeSide struct {
	c *Ctx
	// site recognises a call that evaluates/resolves forms: the forms and the env/scope expression
	site func(info *types.Info, ce *ast.CallExpr) (forms []ast.Expr, env ast.Expr, label string, ok bool)
	// ctor recognises a constructor of a child env/scope: parent expression, transparent (function scope)
	ctor func(info *types.Info, ce *ast.CallExpr) (parent ast.Expr, transparent bool, ok bool)
	// bindsCall recognises a call that stores a binding of the form into its receiver
	bindsCall func(info *types.Info, ce *ast.CallExpr) (recv ast.Expr, ok bool)
	envType   string // suffix of the env/scope type
}

type scopeFrame struct {
	u        FuncUnit
	skip     func(ast.Node) bool
	tainted  map[types.Object]bool   // params that carry binding forms
	envClass map[types.Object]string // params that carry an env/scope, already classified by the caller
	seed     func(e ast.Expr) bool
	root     types.Object // the parameter whose .Cells[rootIdx] is the binding list (forwarded whole to a helper)
	rootIdx  int
	vals     map[types.Object]bool // bool parameters whose value the dispatch fixed
}

func (sd *scopeSide) helperOf(info *types.Info, ce *ast.CallExpr, from FuncUnit) (FuncUnit, bool) {
	fn := originOf(Callee(info, ce))
	if fn == nil || fn.Pkg() == nil || fn.Pkg() != from.Obj.Pkg() {
		return FuncUnit{}, false
	}
	fd := sd.c.declOf[fn]
	if fd == nil || fd.Body == nil {
		return FuncUnit{}, false
	}
	return FuncUnit{fn, fd, sd.c.pkgOf[fd]}, true
}

func paramObjs(u FuncUnit) []types.Object {
	sig := u.Obj.Type().(*types.Signature)
	var out []types.Object
	for i := 0; i < sig.Params().Len(); i++ {
		out = append(out, sig.Params().At(i))
	}
	return out
}

// binds: does the function (or a same-package helper it hands o to) store a binding into o?
func (sd *scopeSide) binds(fr scopeFrame, o types.Object, depth int) bool {
	if depth > 3 {
		return false
	}
	info := fr.u.Pkg.TypesInfo
	found := false
	ast.Inspect(fr.u.Decl.Body, func(n ast.Node) bool {
		if found || (fr.skip != nil && fr.skip(n)) {
			return false
		}
		ce, ok := n.(*ast.CallExpr)
		if !ok {
			return true
		}
		if recv, ok := sd.bindsCall(info, ce); ok && identObj(info, recv) == o {
			found = true
			return false
		}
		if h, ok := sd.helperOf(info, ce, fr.u); ok && h.Obj != fr.u.Obj {
			ps := paramObjs(h)
			for i, a := range ce.Args {
				if i < len(ps) && identObj(info, a) == o {
					if sd.binds(scopeFrame{u: h}, ps[i], depth+1) {
						found = true
					}
				}
			}
		}
		return true
	})
	return found
}

func (sd *scopeSide) classify(fr scopeFrame, e ast.Expr, depth int) string {
	if depth > 5 {
		return "unknown(depth)"
	}
	info := fr.u.Pkg.TypesInfo
	o := identObj(info, e)
	if o == nil {
		return "unknown(" + types.ExprString(e) + ")"
	}
	if cl, ok := fr.envClass[o]; ok {
		return cl
	}
	var def *ast.CallExpr
	var alias ast.Expr
	ndefs := 0
	var stack []ast.Node
	ast.Inspect(fr.u.Decl.Body, func(n ast.Node) bool {
		if n == nil {
			stack = stack[:len(stack)-1]
			return true
		}
		if fr.skip != nil && fr.skip(n) {
			return false // cannot run under the flag values of this dispatch
		}
		stack = append(stack, n)
		as, ok := n.(*ast.AssignStmt)
		if !ok || len(as.Lhs) != len(as.Rhs) {
			return true
		}
		for i, l := range as.Lhs {
			if identObj(info, l) != o {
				continue
			}
			// `valueScope := outer; if sequential { valueScope = letScope }`: with the flag known true the
			// second assignment always runs, and replaces the first
			if ndefs > 0 && !sd.alwaysRuns(fr, stack) {
				ndefs++
				continue
			}
			ndefs = 1
			def, _ = ast.Unparen(as.Rhs[i]).(*ast.CallExpr)
			alias = nil
			if def == nil {
				if _, isID := ast.Unparen(as.Rhs[i]).(*ast.Ident); isID {
					alias = as.Rhs[i]
				}
			}
		}
		return true
	})
	if ndefs == 1 && def == nil && alias != nil {
		return sd.classify(fr, alias, depth+1)
	}
	if ndefs != 1 || def == nil {
		return "unknown(" + o.Name() + " has no single constructor definition)"
	}
	parent, transparent, ok := sd.ctor(info, def)
	if !ok {
		return "unknown(" + o.Name() + " := " + types.ExprString(def.Fun) + ")"
	}
	if !transparent && sd.binds(fr, o, 0) {
		return "inner"
	}
	return sd.classify(fr, parent, depth+1)
}

// alwaysRuns: every enclosing `if` of the innermost node of stack (up to the function body) has a
// condition that is true under the frame's known flag values, the node sitting in its body.
func (sd *scopeSide) alwaysRuns(fr scopeFrame, stack []ast.Node) bool {
	info := fr.u.Pkg.TypesInfo
	var eval func(e ast.Expr) int
	eval = func(e ast.Expr) int {
		switch x := ast.Unparen(e).(type) {
		case *ast.Ident:
			if v, ok := fr.vals[identObj(info, x)]; ok {
				if v {
					return 1
				}
				return 0
			}
		case *ast.UnaryExpr:
			if x.Op == token.NOT {
				if v := eval(x.X); v >= 0 {
					return 1 - v
				}
			}
		}
		return -1
	}
	for i := len(stack) - 2; i >= 0; i-- {
		switch x := stack[i].(type) {
		case *ast.IfStmt:
			if i+1 < len(stack) && stack[i+1] == ast.Node(x.Body) {
				if eval(x.Cond) != 1 {
					return false
				}
				continue
			}
			return false
		case *ast.BlockStmt:
			continue
		case *ast.ForStmt, *ast.RangeStmt, *ast.SwitchStmt, *ast.TypeSwitchStmt, *ast.CaseClause, *ast.FuncLit, *ast.SelectStmt:
			return false
		}
	}
	return true
}

func (sd *scopeSide) walk(fr scopeFrame, out *scopeClass, ord *ordinal, depth int) {
	if depth > 3 {
		out.classes["unknown(helper depth)"] = true
		return
	}
	info := fr.u.Pkg.TypesInfo
	seed := func(e ast.Expr) bool {
		if fr.seed != nil && fr.seed(e) {
			return true
		}
		if o := identObj(info, e); o != nil && fr.tainted[o] {
			return true
		}
		return false
	}
	T := derivedFrom(info, fr.u.Decl.Body, seed, fr.skip)
	for o := range fr.tainted {
		T[o] = true
	}
	mentionsT := func(e ast.Expr) bool {
		hit := false
		ast.Inspect(e, func(m ast.Node) bool {
			if id, ok := m.(*ast.Ident); ok {
				if o := info.Uses[id]; o != nil && T[o] {
					hit = true
				}
			}
			return !hit
		})
		return hit
	}
	ast.Inspect(fr.u.Decl.Body, func(n ast.Node) bool {
		if fr.skip != nil && fr.skip(n) {
			return false
		}
		ce, ok := n.(*ast.CallExpr)
		if !ok {
			return true
		}
		if forms, env, label, ok := sd.site(info, ce); ok {
			on := false
			for _, f := range forms {
				if mentionsT(f) {
					on = true
				}
			}
			if on {
				cl := sd.classify(fr, env, 0)
				out.classes[cl] = true
				positioned := false
				for _, f := range forms {
					for _, p := range constPathsOf(info, fr.u.Decl.Body, f, fr.root, 0) {
						if len(p) >= 2 {
							q := append([]int(nil), p...)
							q[0] -= fr.rootIdx
							var ks []string
							for _, k := range q {
								ks = append(ks, fmt.Sprint(k))
							}
							key := strings.Join(ks, ".")
							if out.byPos == nil {
								out.byPos = map[string]map[string]bool{}
							}
							if out.byPos[key] == nil {
								out.byPos[key] = map[string]bool{}
							}
							out.byPos[key][cl] = true
							positioned = true
						}
					}
				}
				if !positioned {
					out.unpositioned++
				}
				out.sites = append(out.sites, ord.next(label)+"="+cl)
				if out.node == nil {
					out.node = ce
				}
			}
			return true
		}
		if h, ok := sd.helperOf(info, ce, fr.u); ok && h.Obj != fr.u.Obj {
			ps := paramObjs(h)
			sub := scopeFrame{u: h, tainted: map[types.Object]bool{}, envClass: map[types.Object]string{}}
			anyT := false
			var skips []func(ast.Node) bool
			for i, a := range ce.Args {
				if i >= len(ps) {
					break
				}
				if tv, ok := info.Types[a]; ok && strings.HasSuffix(tv.Type.String(), sd.envType) {
					sub.envClass[ps[i]] = sd.classify(fr, a, 0)
					continue
				}
				// the whole argument list / node forwarded: the helper takes it apart itself
				if fr.root != nil && identObj(info, a) == fr.root {
					hinfo := h.Pkg.TypesInfo
					rp, ri := ps[i], fr.rootIdx
					sub.root, sub.rootIdx = rp, ri
					sub.seed = func(e ast.Expr) bool { return isCellsIndex(e, rp, hinfo, ri) }
					anyT = true
					continue
				}
				// a constant flag selects a branch of the helper
				if tv, ok := info.Types[a]; ok && tv.Value != nil {
					if b, ok := tv.Type.Underlying().(*types.Basic); ok && (b.Kind() == types.Bool || b.Kind() == types.UntypedBool) {
						skips = append(skips, flagPruner(h.Pkg.TypesInfo, h.Decl.Body, ps[i], tv.Value.String() == "true"))
						if sub.vals == nil {
							sub.vals = map[types.Object]bool{}
						}
						sub.vals[ps[i]] = tv.Value.String() == "true"
						continue
					}
					// a constant position (`analyzeLetForm(node, 1, …)`): the helper's index parameter reads as it
					if k, ok := intConst(info, a); ok {
						knownIntParams[ps[i]] = k
						continue
					}
				}
				// … and so does a flag this function received with a value the dispatch fixed
				if v, ok := fr.vals[identObj(info, a)]; ok {
					skips = append(skips, flagPruner(h.Pkg.TypesInfo, h.Decl.Body, ps[i], v))
					if sub.vals == nil {
						sub.vals = map[types.Object]bool{}
					}
					sub.vals[ps[i]] = v
					continue
				}
				if mentionsT(a) {
					sub.tainted[ps[i]] = true
					anyT = true
				}
			}
			if len(skips) > 0 {
				sub.skip = func(n ast.Node) bool {
					for _, sk := range skips {
						if sk(n) {
							return true
						}
					}
					return false
				}
			}
			if anyT && len(sub.envClass) > 0 {
				sd.walk(sub, out, ord, depth+1)
			}
		}
		return true
	})
}

// flagPruner returns a skip predicate that removes what cannot run when the
// bool parameter has the given value (see condPruner).
func flagPruner(info *types.Info, body *ast.BlockStmt, flag types.Object, val bool) func(n ast.Node) bool {
	if flag == nil {
		return func(n ast.Node) bool { return false }
	}
	return condPruner(info, body, map[types.Object]bool{flag: val})
}

// condPruner returns a skip predicate for the statements of body that cannot
// run when the given bool variables have the given values: conditions are
// evaluated three-valued over !, &&, || and the known variables; the branch of
// an `if` (or the clauses of a tagless switch) that is not taken is dead, and
// so is whatever follows, in the same block, an `if` whose taken branch always
// ends in return / continue / break.  The variables must not be assigned in
// body (checked: otherwise nothing is pruned).
func condPruner(info *types.Info, body *ast.BlockStmt, vals map[types.Object]bool) func(n ast.Node) bool {
	dead := map[ast.Node]bool{}
	assigned := false
	ast.Inspect(body, func(n ast.Node) bool {
		switch x := n.(type) {
		case *ast.AssignStmt:
			for _, l := range x.Lhs {
				if _, ok := vals[identObj(info, l)]; ok && identObj(info, l) != nil {
					assigned = true
				}
			}
		case *ast.UnaryExpr:
			if x.Op == token.AND {
				if _, ok := vals[identObj(info, x.X)]; ok && identObj(info, x.X) != nil {
					assigned = true
				}
			}
		}
		return true
	})
	if assigned {
		return func(n ast.Node) bool { return false }
	}
	// 1 true, 0 false, -1 unknown
	var eval func(e ast.Expr) int
	eval = func(e ast.Expr) int {
		e = ast.Unparen(e)
		switch x := e.(type) {
		case *ast.Ident:
			if o := identObj(info, x); o != nil {
				if v, ok := vals[o]; ok {
					if v {
						return 1
					}
					return 0
				}
			}
			if tv, ok := info.Types[x]; ok && tv.Value != nil && tv.Value.Kind() == constant.Bool {
				if constant.BoolVal(tv.Value) {
					return 1
				}
				return 0
			}
		case *ast.UnaryExpr:
			if x.Op == token.NOT {
				switch eval(x.X) {
				case 1:
					return 0
				case 0:
					return 1
				}
			}
		case *ast.BinaryExpr:
			l, r := eval(x.X), eval(x.Y)
			switch x.Op {
			case token.LAND:
				if l == 0 || r == 0 {
					return 0
				}
				if l == 1 && r == 1 {
					return 1
				}
			case token.LOR:
				if l == 1 || r == 1 {
					return 1
				}
				if l == 0 && r == 0 {
					return 0
				}
			}
		}
		return -1
	}
	// does the block always leave the enclosing statement list?
	var leaves func(b *ast.BlockStmt) bool
	leaves = func(b *ast.BlockStmt) bool {
		if b == nil || len(b.List) == 0 {
			return false
		}
		switch x := b.List[len(b.List)-1].(type) {
		case *ast.ReturnStmt:
			return true
		case *ast.BranchStmt:
			return x.Tok == token.CONTINUE || x.Tok == token.BREAK || x.Tok == token.GOTO
		}
		return false
	}
	var walkList func(list []ast.Stmt)
	var walkStmt func(st ast.Stmt) (leavesAlways bool)
	walkStmt = func(st ast.Stmt) bool {
		switch x := st.(type) {
		case *ast.IfStmt:
			switch eval(x.Cond) {
			case 1:
				if x.Else != nil {
					dead[x.Else] = true
				}
				walkList(x.Body.List)
				return leaves(x.Body)
			case 0:
				dead[x.Body] = true
				if x.Else != nil {
					return walkStmt(x.Else)
				}
				return false
			default:
				walkList(x.Body.List)
				if x.Else != nil {
					walkStmt(x.Else)
				}
			}
		case *ast.BlockStmt:
			walkList(x.List)
			return leaves(x)
		case *ast.SwitchStmt:
			if x.Tag == nil && x.Init == nil {
				decided := false
				for _, cl := range x.Body.List {
					cc := cl.(*ast.CaseClause)
					if decided {
						dead[cc] = true
						continue
					}
					if cc.List == nil {
						walkList(cc.Body)
						continue
					}
					all0, any1 := true, false
					for _, e := range cc.List {
						switch eval(e) {
						case 1:
							any1, all0 = true, false
						case -1:
							all0 = false
						}
					}
					switch {
					case all0:
						dead[cc] = true
					case any1:
						decided = true
						walkList(cc.Body)
					default:
						walkList(cc.Body)
					}
				}
				// a default clause after a decided case is dead too (handled by `decided`)
				return false
			}
			for _, cl := range x.Body.List {
				walkList(cl.(*ast.CaseClause).Body)
			}
		case *ast.ForStmt:
			walkList(x.Body.List)
		case *ast.RangeStmt:
			walkList(x.Body.List)
		case *ast.LabeledStmt:
			return walkStmt(x.Stmt)
		case *ast.TypeSwitchStmt:
			for _, cl := range x.Body.List {
				walkList(cl.(*ast.CaseClause).Body)
			}
		case *ast.SelectStmt:
			for _, cl := range x.Body.List {
				walkList(cl.(*ast.CommClause).Body)
			}
		}
		return false
	}
	walkList = func(list []ast.Stmt) {
		gone := false
		for _, st := range list {
			if gone {
				dead[st] = true
				continue
			}
			if walkStmt(st) {
				gone = true
			}
		}
	}
	walkList(body.List)
	// function literals bound in body are walked too (closures are part of the function's flow)
	ast.Inspect(body, func(n ast.Node) bool {
		if lit, ok := n.(*ast.FuncLit); ok {
			walkList(lit.Body.List)
		}
		return true
	})
	return func(n ast.Node) bool { return n != nil && dead[n] }
}

func (c *Ctx) evaluatorSide() *scopeSide {
	return &scopeSide{c: c, envType: "lisp.LEnv",
		site: func(info *types.Info, ce *ast.CallExpr) ([]ast.Expr, ast.Expr, string, bool) {
			se, ok := ast.Unparen(ce.Fun).(*ast.SelectorExpr)
			if !ok || (se.Sel.Name != "Eval" && se.Sel.Name != "Lambda" && se.Sel.Name != "Terminal") {
				return nil, nil, "", false
			}
			if tv, ok := info.Types[se.X]; !ok || !strings.HasSuffix(tv.Type.String(), "lisp.LEnv") {
				return nil, nil, "", false
			}
			return ce.Args, se.X, types.ExprString(se.X) + "." + se.Sel.Name, true
		},
		ctor: func(info *types.Info, ce *ast.CallExpr) (ast.Expr, bool, bool) {
			fn := Callee(info, ce)
			if fn == nil || (fn.Name() != "NewEnv" && fn.Name() != "newEnvN") || len(ce.Args) < 1 {
				return nil, false, false
			}
			return ce.Args[0], false, true
		},
		bindsCall: func(info *types.Info, ce *ast.CallExpr) (ast.Expr, bool) {
			se, ok := ast.Unparen(ce.Fun).(*ast.SelectorExpr)
			if !ok || (se.Sel.Name != "Put" && se.Sel.Name != "PutGlobal" && se.Sel.Name != "bind") {
				return nil, false
			}
			return se.X, true
		},
	}
}

func (c *Ctx) evaluatorValueScope(form string) (scopeClass, FuncUnit, string) {
	out := scopeClass{classes: map[string]bool{}}
	ent := c.RegistryByName("lisp", form)
	if ent == nil {
		return out, FuncUnit{}, "operator " + form + " is not in the registry"
	}
	_, u, _, ok := c.BodyOf(*ent)
	if !ok || u.Decl == nil {
		return out, u, "no body for operator " + form
	}
	info := u.Pkg.TypesInfo
	ps := paramObjs(u)
	if len(ps) != 2 {
		return out, u, "operator implementation does not have (env, args) parameters"
	}
	envP, argsP := ps[0], ps[1]
	fr := scopeFrame{u: u, envClass: map[types.Object]string{envP: "outer"}, root: argsP, rootIdx: 0,
		seed: func(e ast.Expr) bool { return isCellsIndex(e, argsP, info, 0) }}
	c.evaluatorSide().walk(fr, &out, &ordinal{}, 0)
	return out, u, ""
}

func (c *Ctx) analyzerSide(dfn *types.Func) *scopeSide {
	return &scopeSide{c: c, envType: "analysis.Scope",
		site: func(info *types.Info, ce *ast.CallExpr) ([]ast.Expr, ast.Expr, string, bool) {
			if originOf(Callee(info, ce)) != dfn || len(ce.Args) < 2 {
				return nil, nil, "", false
			}
			return ce.Args[:1], ce.Args[1], "analyzeExpr(.., " + types.ExprString(ce.Args[1]) + ")", true
		},
		ctor: func(info *types.Info, ce *ast.CallExpr) (ast.Expr, bool, bool) {
			fn := Callee(info, ce)
			if fn == nil || fn.Name() != "NewScope" || len(ce.Args) < 2 {
				return nil, false, false
			}
			kind := types.ExprString(ce.Args[0])
			return ce.Args[1], kind == "ScopeFunction" || kind == "ScopeLambda", true
		},
		bindsCall: func(info *types.Info, ce *ast.CallExpr) (ast.Expr, bool) {
			se, ok := ast.Unparen(ce.Fun).(*ast.SelectorExpr)
			if !ok || !strings.HasPrefix(se.Sel.Name, "Define") {
				return nil, false
			}
			return se.X, true
		},
	}
}

func (c *Ctx) analyzerValueScope(form string) (scopeClass, FuncUnit, string) {
	out := scopeClass{classes: map[string]bool{}}
	dfn, dfd, dpkg := c.LookupFunc("analysis.(*analyzer).analyzeExpr")
	if dfn == nil {
		return out, FuncUnit{}, "analysis.(*analyzer).analyzeExpr not found"
	}
	dinfo := dpkg.TypesInfo
	var target *types.Func
	var flagVal *bool
	ast.Inspect(dfd.Body, func(n ast.Node) bool {
		cc, ok := n.(*ast.CaseClause)
		if !ok {
			return true
		}
		match := false
		for _, e := range cc.List {
			if s, ok := constStringVal(dinfo, e); ok && s == form {
				match = true
			}
		}
		if !match {
			return true
		}
		for _, s := range cc.Body {
			ast.Inspect(s, func(m ast.Node) bool {
				ce, ok := m.(*ast.CallExpr)
				if !ok || target != nil {
					return true
				}
				fn := originOf(Callee(dinfo, ce))
				if fn == nil || fn.Pkg() == nil || !strings.HasPrefix(fn.Name(), "analyze") || fn == dfn {
					return true
				}
				target = fn
				for _, a := range ce.Args {
					if tv, ok := dinfo.Types[a]; ok && tv.Value != nil {
						if b, ok := tv.Type.Underlying().(*types.Basic); ok && (b.Kind() == types.UntypedBool || b.Kind() == types.Bool) {
							v := tv.Value.String() == "true"
							flagVal = &v
						}
					}
				}
				return true
			})
		}
		return false
	})
	if target == nil {
		return out, FuncUnit{}, "analyzeExpr has no case for \"" + form + "\""
	}
	fd := c.declOf[target]
	if fd == nil || fd.Body == nil {
		return out, FuncUnit{}, "no body for " + FuncName(target)
	}
	u := FuncUnit{target, fd, c.pkgOf[fd]}
	info := u.Pkg.TypesInfo
	var nodeP, scopeP, flagP types.Object
	for _, p := range paramObjs(u) {
		switch {
		case strings.HasSuffix(p.Type().String(), "lisp.LVal") && nodeP == nil:
			nodeP = p
		case strings.HasSuffix(p.Type().String(), "analysis.Scope") && scopeP == nil:
			scopeP = p
		case types.Identical(p.Type(), types.Typ[types.Bool]) && flagP == nil:
			flagP = p
		}
	}
	if nodeP == nil || scopeP == nil {
		return out, u, FuncName(target) + " does not have (node, scope) parameters"
	}
	skip := func(ast.Node) bool { return false }
	if flagP != nil {
		if flagVal == nil {
			return out, u, "the dispatch of \"" + form + "\" does not pass a constant flag to " + FuncName(target)
		}
		skip = flagPruner(info, fd.Body, flagP, *flagVal)
	}
	fr := scopeFrame{u: u, skip: skip, envClass: map[types.Object]string{scopeP: "outer"}, root: nodeP, rootIdx: 1,
		seed: func(e ast.Expr) bool { return isCellsIndex(e, nodeP, info, 1) }}
	if flagP != nil && flagVal != nil {
		fr.vals = map[types.Object]bool{flagP: *flagVal}
	}
	c.analyzerSide(dfn).walk(fr, &out, &ordinal{}, 0)
	return out, u, ""
}

// samePositionClasses: at every position both sides know, the class sets are equal (a position
// only one side visits is ANALYZE.control-positions' business); at least one position is shared.
func samePositionClasses(a, b map[string]map[string]bool) bool {
	shared := 0
	for k, ca := range a {
		cb, ok := b[k]
		if !ok {
			continue
		}
		shared++
		if len(ca) != len(cb) {
			return false
		}
		for c := range ca {
			if !cb[c] {
				return false
			}
		}
	}
	return shared > 0
}

var scopeForms = []string{"let", "let*", "flet", "labels", "dotimes"}

func init() {
	register(&Rule{ID: "SCOPE.agree", Floor: 5,
		Doc: "for each binding form implemented by both the evaluator (lisp/op.go) and the static analyzer (analysis/analyzer.go) — let, let*, flet, labels, dotimes — the environment in which the evaluator evaluates the binding value forms (enclosing vs. the one receiving the bindings) is the scope in which the analyzer resolves them; the minifier renames by the analyzer's answer, so a disagreement captures or misses references",
		Run: func(c *Ctx) []Obligation {
			var obs []Obligation
			for _, form := range scopeForms {
				ev, eu, eprob := c.evaluatorValueScope(form)
				an, au, aprob := c.analyzerValueScope(form)
				construct := "form " + form
				switch {
				case eprob != "" || aprob != "":
					obs = append(obs, Obligation{Rule: "SCOPE.agree", Func: "lisp/analysis", Construct: construct, Verdict: Undecided, Detail: strings.TrimSpace(eprob + " " + aprob)})
				case len(ev.classes) == 0 || len(an.classes) == 0:
					obs = append(obs, mkOb(c, "SCOPE.agree", au, construct, au.Decl, Undecided,
						fmt.Sprintf("no value-form evaluation/resolution site recognised (evaluator %s: %v; analyzer %s: %v)", eu.Name(), ev.sites, au.Name(), an.sites), false))
				case ev.unpositioned == 0 && an.unpositioned == 0 && len(ev.byPos) > 0 && len(an.byPos) > 0 && !strings.Contains(ev.String(), "unknown") && !strings.Contains(an.String(), "unknown") && samePositionClasses(ev.byPos, an.byPos):
					// every value form sits at a fixed position of the operator's arguments: compared position by position
					obs = append(obs, mkOb(c, "SCOPE.agree", au, construct, an.node, Proved,
						fmt.Sprintf("position by position: evaluator %s (%s); analyzer %s (%s)", eu.Name(), strings.Join(ev.sites, ", "), au.Name(), strings.Join(an.sites, ", ")), true))
				case len(ev.classes) == 1 && len(an.classes) == 1 && ev.String() == an.String() && !strings.HasPrefix(ev.String(), "unknown"):
					obs = append(obs, mkOb(c, "SCOPE.agree", au, construct, an.node, Proved,
						fmt.Sprintf("value forms: evaluator %s uses the %s environment (%s); analyzer %s resolves in the %s scope (%s)", eu.Name(), ev, strings.Join(ev.sites, ", "), au.Name(), an, strings.Join(an.sites, ", ")), true))
				case strings.Contains(ev.String(), "unknown") || strings.Contains(an.String(), "unknown"):
					obs = append(obs, mkOb(c, "SCOPE.agree", au, construct, an.node, Undecided,
						fmt.Sprintf("cannot classify: evaluator %s %v; analyzer %s %v", eu.Name(), ev.sites, au.Name(), an.sites), true))
				default:
					obs = append(obs, mkOb(c, "SCOPE.agree", au, construct, an.node, Violated,
						fmt.Sprintf("the evaluator (%s) evaluates the binding value forms of `%s` in the %s environment (%s) but the analyzer (%s) resolves them in the %s scope (%s): a closure or reference in a value form binds differently at run time than the minifier assumes when renaming",
							eu.Name(), form, ev, strings.Join(ev.sites, ", "), au.Name(), an, strings.Join(an.sites, ", ")), true))
				}
			}
			return obs
		}})
}

// TEMPLATE.literal-global-only — C17 (and the scope half of C07): a symbol
// written literally in a quasiquote template is looked up where the macro is
// EXPANDED.  Parameters and locals of the macro body are not in scope there, so
// the analyzer must not record the literal as a reference to one of them: the
// minifier renames every recorded reference together with its symbol, and a
// renamed literal binds (or reads) a different name in the expansion.
func init() {
	register(&Rule{ID: "TEMPLATE.literal-global-only", Floor: 1,
		Doc: "in the analyzer's resolveTemplateSymbol a reference is recorded (Result.References appended, Symbol.References counted) only over an edge that entails the resolved symbol's scope is the global scope: a template literal never counts as a use of a macro-body parameter or local of the same spelling",
		Run: func(c *Ctx) []Obligation {
			const rid = "TEMPLATE.literal-global-only"
			fn, fd, pkg := c.LookupFunc("analysis.(*analyzer).resolveTemplateSymbol")
			if fn == nil {
				return []Obligation{anchorMissing(rid, "analysis.(*analyzer).resolveTemplateSymbol")}
			}
			u := FuncUnit{fn, fd, pkg}
			info := pkg.TypesInfo
			glob := c.LookupConst("analysis.ScopeGlobal")
			if glob == nil {
				return []Obligation{anchorMissing(rid, "analysis.ScopeGlobal")}
			}
			fc := c.cfgOf(u, nil)
			cls := func(e ast.Expr) (string, bool) {
				be, ok := ast.Unparen(e).(*ast.BinaryExpr)
				if !ok || be.Op != token.EQL && be.Op != token.NEQ {
					return "", false
				}
				isKind := func(x ast.Expr) bool {
					se, ok := ast.Unparen(x).(*ast.SelectorExpr)
					if !ok || se.Sel.Name != "Kind" {
						return false
					}
					in, ok := ast.Unparen(se.X).(*ast.SelectorExpr)
					return ok && in.Sel.Name == "Scope"
				}
				isGlob := func(x ast.Expr) bool { return identObjOrSel(info, x) == glob }
				if isKind(be.X) && isGlob(be.Y) || isKind(be.Y) && isGlob(be.X) {
					return "global", be.Op == token.NEQ
				}
				return "", false
			}
			cut := fc.edgesEntailing(cls, func(v map[string]bool) bool { return v["$has:global"] && v["global"] })
			var obs []Obligation
			ord := &ordinal{}
			for _, b := range fc.G.Blocks {
				if !fc.Live(b) {
					continue
				}
				for _, n := range b.Nodes {
					rec := ""
					switch x := n.(type) {
					case *ast.AssignStmt:
						for _, l := range x.Lhs {
							if se, ok := ast.Unparen(l).(*ast.SelectorExpr); ok && se.Sel.Name == "References" {
								rec = "append to " + types.ExprString(l)
							}
						}
					case *ast.IncDecStmt:
						if se, ok := ast.Unparen(x.X).(*ast.SelectorExpr); ok && se.Sel.Name == "References" {
							rec = "count " + types.ExprString(x.X)
						}
					}
					if rec == "" {
						// ... or through a helper that does the recording (`a.recordReference(sym, node)`)
						for _, ce := range callsIn(n, false) {
							if h := originOf(Callee(info, ce)); h != nil && recordsReference(c, h, 0) {
								rec = "record through " + shortName(h)
							}
						}
					}
					if rec == "" {
						continue
					}
					construct := ord.next(rec)
					if fc.reachableAvoiding(b, cut) {
						obs = append(obs, mkOb(c, rid, u, construct, n, Violated, "a template literal is recorded as a reference to whatever the macro body's scope resolves it to, including a parameter or a let-bound local of the same spelling: the minifier renames the literal with that local, and the expansion then binds or reads the wrong name at the call site", true))
					} else {
						obs = append(obs, mkOb(c, rid, u, construct, n, Proved, "only for a symbol of the global scope", true))
					}
				}
			}
			return obs
		}})
}

// SCOPE.closure-lexical — C07 ("macrolet obeys the same rules as defmacro": a
// macro body sees the variables in scope where it is written) and C01 (lexical
// scope of flet / labels / lambda): the closure an operator creates for a local
// function or macro is created over the operator's own environment or a child
// of it.  A closure created over the root environment still finds globals, so
// every program whose local functions mention only globals keeps working.
func init() {
	register(&Rule{ID: "SCOPE.closure-lexical", Floor: 4,
		Doc: "in flet, labels, macrolet and lambda every closure construction (<env>.Lambda(formals, body) on the forms of the operator's first argument) uses an environment derived from the operator's own env parameter by the environment constructors — the enclosing environment or the one receiving the bindings — never the root environment or one of unknown origin",
		Run: func(c *Ctx) []Obligation {
			const rid = "SCOPE.closure-lexical"
			var obs []Obligation
			for _, form := range []string{"flet", "labels", "macrolet", "lambda"} {
				ev, eu, eprob := c.evaluatorValueScope(form)
				construct := "form " + form
				switch {
				case eprob != "":
					obs = append(obs, Obligation{Rule: rid, Func: "lisp", Construct: construct, Verdict: Undecided, Detail: eprob})
				case len(ev.classes) == 0:
					obs = append(obs, mkOb(c, rid, eu, construct, eu.Decl, Undecided, "no closure construction over the operator's first argument recognised", true))
				default:
					bad := ""
					for cl := range ev.classes {
						if cl != "outer" && cl != "inner" {
							bad = cl
						}
					}
					if bad != "" {
						obs = append(obs, mkOb(c, rid, eu, construct, ev.node, Violated, "a closure of `"+form+"` is created over an environment that is not derived from the operator's own ("+bad+"; sites: "+strings.Join(ev.sites, ", ")+"): the body of the local function or macro cannot see the let-bound variables, parameters and local macros in scope where it is written — it raises unbound symbol, or silently reads a global of the same name", true))
					} else {
						obs = append(obs, mkOb(c, rid, eu, construct, ev.node, Proved, "closures over the "+ev.String()+" environment ("+strings.Join(ev.sites, ", ")+")", true))
					}
				}
			}
			return obs
		}})
}

// recordsReference: h (an unexported function of the module) appends to or counts a field
// named References, itself or through another such helper.
func recordsReference(c *Ctx, h *types.Func, depth int) bool {
	hd := c.declOf[h]
	if hd == nil || hd.Body == nil || h.Exported() || depth > 2 {
		return false
	}
	// only helpers extracted on this tree: a function of the audited tree that records
	// references (resolveQualifiedSymbol, for pkg:name symbols, which are global by
	// construction) has its own obligations
	if _, existed := loadAnchorFPs().Funcs[FuncName(h)]; existed {
		return false
	}
	info := c.pkgOf[hd].TypesInfo
	found := false
	ast.Inspect(hd.Body, func(n ast.Node) bool {
		switch x := n.(type) {
		case *ast.AssignStmt:
			for _, l := range x.Lhs {
				if se, ok := ast.Unparen(l).(*ast.SelectorExpr); ok && se.Sel.Name == "References" {
					found = true
				}
			}
		case *ast.IncDecStmt:
			if se, ok := ast.Unparen(x.X).(*ast.SelectorExpr); ok && se.Sel.Name == "References" {
				found = true
			}
		case *ast.CallExpr:
			if g := originOf(Callee(info, x)); g != nil && g != h && recordsReference(c, g, depth+1) {
				found = true
			}
		}
		return !found
	})
	return found
}
