package main

import (
	"fmt"
	"go/ast"
	"go/token"
	"go/types"

	"golang.org/x/tools/go/cfg"
)

// E4 — pairing / save-restore on all exits, including recovered panics.
//
// An acquire must be followed, on every path that leaves the function, by a
// *deferred* release that is registered before anything that can panic, return
// or run user code.  A plain `x = new; f(); x = old` is not accepted when f can
// panic: eval's recover() resumes further up and the restore is skipped.

// acquireThenDefer walks all paths forward from start.  It succeeds when each
// path meets a DeferStmt accepted by isRelease before it meets a return, the
// function exit, or a node containing a risky call.  failObj, when non-nil, is
// the error result of the acquire: the branch where it is non-nil is the
// "acquire failed" path and is exempt.
func acquireThenDefer(fc *FCFG, start Loc, isRelease func(*ast.DeferStmt) bool, failObj types.Object) (bool, string, ast.Node) {
	var why string
	var at ast.Node
	visit := func(l Loc, n ast.Node) searchVerdict {
		switch s := n.(type) {
		case *ast.DeferStmt:
			if isRelease(s) {
				return svStop
			}
			// registering another defer evaluates its function value and arguments
			if ce, ok := ast.Unparen(s.Call.Fun).(*ast.CallExpr); ok {
				if rc := riskyCall(fc.Info, ce); rc != nil {
					why, at = "call "+types.ExprString(rc.Fun)+" runs before the release is deferred", rc
					return svBad
				}
			}
			for _, a := range s.Call.Args {
				if rc := riskyCall(fc.Info, a); rc != nil {
					why, at = "call "+types.ExprString(rc.Fun)+" runs before the release is deferred", rc
					return svBad
				}
			}
			return svContinue
		case *ast.ReturnStmt:
			why, at = "return reached without a deferred release", s
			return svBad
		}
		if rc := riskyCall(fc.Info, n); rc != nil {
			why, at = "call "+types.ExprString(rc.Fun)+" runs before the release is deferred", rc
			return svBad
		}
		return svContinue
	}
	var failEdges []cfgEdge
	if failObj != nil {
		failEdges = fc.nilEdges(failObj, false)
	}
	edgeOK := func(b *cfg.Block, k int) bool {
		for _, e := range failEdges {
			if e.B == b && e.K == k {
				return false
			}
		}
		return true
	}
	atExit := func(b *cfg.Block) bool {
		why = "function end reached without a deferred release"
		return true
	}
	_, bad := fc.ForwardSearch(start, visit, edgeOK, atExit)
	return !bad, why, at
}

// acquireWrapperResult: the function holding acquire site s does nothing but
// acquire and report — on the success edges of the acquire the next effectful
// node is a return whose k-th result is the literal nil, on the failure edges
// every return's k-th result is a call (an error value) — so "result k is nil"
// means "the resource is held".  Declared, unexported functions only.
func acquireWrapperResult(c *Ctx, fc *FCFG, s CallSite, loc Loc, errObj types.Object) (int, bool) {
	if s.Lit != nil || s.Unit.Decl == nil || s.Unit.Obj.Exported() || errObj == nil {
		return 0, false
	}
	sig := s.Unit.Obj.Type().(*types.Signature)
	if sig.Results().Len() == 0 {
		return 0, false
	}
	info := fc.Info
	fail := fc.nilEdges(errObj, false)
	isFail := func(b *cfg.Block, k int) bool {
		for _, e := range fail {
			if e.B == b && e.K == k {
				return true
			}
		}
		return false
	}
	for k := 0; k < sig.Results().Len(); k++ {
		switch sig.Results().At(k).Type().Underlying().(type) {
		case *types.Pointer, *types.Interface:
		default:
			continue
		}
		good, nsucc := true, 0
		visit := func(l Loc, n ast.Node) searchVerdict {
			if rs, ok := n.(*ast.ReturnStmt); ok {
				if len(rs.Results) != sig.Results().Len() || !isNilIdent(info, rs.Results[k]) {
					good = false
					return svBad
				}
				nsucc++
				return svStop
			}
			if l == loc {
				return svContinue
			}
			if rc := riskyCall(info, n); rc != nil {
				good = false
				return svBad
			}
			return svContinue
		}
		fc.ForwardSearch(loc, visit, func(b *cfg.Block, kk int) bool { return !isFail(b, kk) }, func(*cfg.Block) bool { good = false; return true })
		if !good || nsucc == 0 {
			continue
		}
		// failure edges: every return reached hands back a call result in position k
		nfail := 0
		for _, e := range fail {
			succ := e.B.Succs[e.K]
			for _, n := range succ.Nodes {
				if rs, ok := n.(*ast.ReturnStmt); ok {
					if len(rs.Results) != sig.Results().Len() {
						good = false
						break
					}
					if _, isCall := ast.Unparen(rs.Results[k]).(*ast.CallExpr); !isCall {
						good = false
					}
					nfail++
				}
			}
		}
		if good && nfail > 0 {
			return k, true
		}
	}
	return 0, false
}

// litAssignsPath reports whether the function literal contains an assignment
// to the given access path; it returns the RHS of the (last) such assignment.
func litAssignsPath(info *types.Info, lit *ast.FuncLit, p AccessPath) (ast.Expr, bool) {
	var rhs ast.Expr
	found := false
	ast.Inspect(lit.Body, func(n ast.Node) bool {
		switch s := n.(type) {
		case *ast.AssignStmt:
			if s.Tok != token.ASSIGN || len(s.Lhs) != len(s.Rhs) {
				return true
			}
			for i, l := range s.Lhs {
				if q, ok := PathOf(info, l); ok && SamePath(p, q) {
					rhs, found = s.Rhs[i], true
				}
			}
		case *ast.IncDecStmt:
			if q, ok := PathOf(info, s.X); ok && SamePath(p, q) {
				found = true
			}
		}
		return true
	})
	return rhs, found
}

// savedFrom reports whether ident e denotes a local variable whose single
// definition `v := <path>` precedes loc (dominates it) in fc.
func savedFrom(fc *FCFG, fd *ast.FuncDecl, e ast.Expr, p AccessPath, before Loc) bool {
	id, ok := ast.Unparen(e).(*ast.Ident)
	if !ok {
		return false
	}
	obj := fc.Info.Uses[id]
	if obj == nil {
		return false
	}
	ok = false
	nassign := 0
	ast.Inspect(fd.Body, func(n ast.Node) bool {
		as, isAs := n.(*ast.AssignStmt)
		if !isAs {
			return true
		}
		for i, l := range as.Lhs {
			lid, isId := l.(*ast.Ident)
			if !isId {
				continue
			}
			o := fc.Info.Defs[lid]
			if o == nil {
				o = fc.Info.Uses[lid]
			}
			if o != obj {
				continue
			}
			nassign++
			if len(as.Rhs) == len(as.Lhs) {
				if q, isPath := PathOf(fc.Info, as.Rhs[i]); isPath && SamePath(p, q) {
					if l2, found := fc.Locate(as); found && fc.Dominates(l2, before) {
						ok = true
					}
				}
			}
		}
		return true
	})
	return ok && nassign == 1
}

func isBoolConst(info *types.Info, e ast.Expr, want bool) bool {
	if e == nil {
		return false
	}
	tv, ok := info.Types[e]
	if !ok || tv.Value == nil {
		return false
	}
	return tv.Value.String() == fmt.Sprint(want)
}

// isDeferredLit reports whether lit is the function of a defer statement in fd.
func isDeferredLit(fd *ast.FuncDecl, lit *ast.FuncLit) bool {
	found := false
	ast.Inspect(fd.Body, func(n ast.Node) bool {
		if d, ok := n.(*ast.DeferStmt); ok && deferredLit(d) == lit {
			found = true
		}
		return !found
	})
	return found
}

// saveRestoreRule checks every plain store to field in the selected packages.
type saveRestoreSpec struct {
	rule   string
	field  string // "lisp.Runtime.Package"
	keep   func(string) bool
	exempt map[string]string // function name -> why it is not a temporary switch
	// acceptConstPair: store of `false` released by deferred store of `true`
	constPair bool
}

func runSaveRestore(c *Ctx, sp saveRestoreSpec) []Obligation {
	fld := c.LookupField(sp.field)
	if fld == nil {
		return []Obligation{anchorMissing(sp.rule, "field "+sp.field)}
	}
	cs := c.censusFor(sp.keep)
	var obs []Obligation
	ord := map[string]*ordinal{}
	for _, w := range cs.WritersOf(fld) {
		name := w.Unit.Name()
		if ord[name] == nil {
			ord[name] = &ordinal{}
		}
		if w.Kind == "through" || w.Kind == "addr" {
			continue
		}
		lhsStr := types.ExprString(w.LHS)
		construct := ord[name].next("store " + pathSuffix(w.Unit.Pkg.TypesInfo, w.LHS))
		_ = lhsStr
		if w.Lit != nil && isDeferredLit(w.Unit.Decl, w.Lit) {
			if w.Kind == "incdec" {
				// a counter stepped back by the handler is stepped back on every way through it:
				// a `return` in the handler's recovered-panic branch placed before the step
				// leaks one level per recovered panic
				lfc := c.cfgOf(w.Unit, w.Lit)
				at := lfc.blocksWith(func(n ast.Node) bool { return n == w.Node })
				if len(at) > 0 && lfc.exitReachableAvoiding(at, nil) {
					obs = append(obs, mkOb(c, sp.rule, w.Unit, construct, w.Node, Violated, "the deferred handler can finish without making this step back (a branch of the handler returns before it): the counter keeps the level of every evaluation that ends that way, and the budget of every later evaluation shrinks by one each time", true))
					continue
				}
			}
			obs = append(obs, mkOb(c, sp.rule, w.Unit, construct, w.Node, Proved, "store is itself a deferred restore", false))
			continue
		}
		if w.Lit == nil && w.Kind == "incdec" && !w.Unit.Obj.Exported() {
			// the deferred closure turned into a method: a step back made by a function that
			// is only ever run as a deferred handler (`defer env.leaveEval(&result)`)
			if sites, refs := c.CallsTo(nil, w.Unit.Obj); len(sites) > 0 && len(refs) == 0 {
				all := true
				for _, s := range sites {
					if len(s.Stack) < 2 {
						all = false
						continue
					}
					if ds, isDefer := s.Stack[len(s.Stack)-2].(*ast.DeferStmt); !isDefer || ds.Call != s.Call {
						all = false
					}
				}
				if id, isInc := w.Node.(*ast.IncDecStmt); all && isInc && id.Tok == token.DEC {
					hfc := c.cfgOf(w.Unit, nil)
					at := hfc.blocksWith(func(n ast.Node) bool { return n == w.Node })
					if len(at) > 0 && hfc.exitReachableAvoiding(at, nil) {
						obs = append(obs, mkOb(c, sp.rule, w.Unit, construct, w.Node, Violated, "the deferred handler can finish without making this step back (a branch of the handler returns before it): the counter keeps the level of every evaluation that ends that way", true))
						continue
					}
					obs = append(obs, mkOb(c, sp.rule, w.Unit, construct, w.Node, Proved, "store is itself a deferred restore: the function is only ever run by `defer`", false))
					continue
				}
			}
		}
		if why, ok := sp.exempt[name]; ok {
			obs = append(obs, mkOb(c, sp.rule, w.Unit, construct, w.Node, Proved, "not a temporary switch: "+why, false))
			continue
		}
		if via, ok := c.privateHelperOf(w.Unit.Obj, func(n string) bool { _, e := sp.exempt[n]; return e }, 0); ok {
			obs = append(obs, mkOb(c, sp.rule, w.Unit, construct, w.Node, Proved, "not a temporary switch: private helper of "+via, false))
			continue
		}
		if ok, why := scopedSwitchHelper(c, w, fld); ok {
			obs = append(obs, mkOb(c, sp.rule, w.Unit, construct, w.Node, Proved, why, true))
			continue
		}
		if w.Lit != nil {
			obs = append(obs, mkOb(c, sp.rule, w.Unit, construct, w.Node, Undecided, "store inside a non-deferred function literal", false))
			continue
		}
		info := w.Unit.Pkg.TypesInfo
		fc := c.cfgOf(w.Unit, nil)
		loc, found := fc.Locate(w.Node)
		p, pok := PathOfResolved(info, w.Unit.Decl.Body, w.LHS)
		if !found || !pok {
			obs = append(obs, mkOb(c, sp.rule, w.Unit, construct, w.Node, Undecided, "store not locatable / lvalue not an access path", false))
			continue
		}
		isRelease := func(d *ast.DeferStmt) bool {
			lit := deferredLit(d)
			if lit == nil {
				// `defer env.leaveEval(…)`: a declared method of the same receiver whose body
				// makes the restoring store (the deferred closure turned into a method)
				if w.Kind == "incdec" && deferredMethodAssigns(c, info, d, p, fld) {
					return true
				}
				return false
			}
			rhs, ok := litAssignsPath(info, lit, p)
			if !ok {
				return false
			}
			if w.Kind == "incdec" {
				return true
			}
			if sp.constPair && isBoolConst(info, w.RHS, false) && isBoolConst(info, rhs, true) {
				return true
			}
			return rhs != nil && savedFrom(fc, w.Unit.Decl, rhs, p, loc)
		}
		// mode "before": a restoring defer already dominates the store
		dominated := false
		for _, b := range fc.G.Blocks {
			for i, n := range b.Nodes {
				if d, ok := n.(*ast.DeferStmt); ok && fc.Live(b) && fc.Dominates(Loc{b, i}, loc) && isRelease(d) {
					dominated = true
				}
			}
		}
		if dominated {
			obs = append(obs, mkOb(c, sp.rule, w.Unit, construct, w.Node, Proved, "a deferred restore of the saved value dominates the store", true))
			continue
		}
		ok, why, _ := acquireThenDefer(fc, loc, isRelease, nil)
		if ok {
			obs = append(obs, mkOb(c, sp.rule, w.Unit, construct, w.Node, Proved, "deferred restore registered on every path before any call, return or exit", true))
		} else {
			obs = append(obs, mkOb(c, sp.rule, w.Unit, construct, w.Node, Violated,
				"store to "+sp.field+" is not restored by a defer on all exits (a panic in a callee, recovered by eval, skips a non-deferred restore): "+why, true))
		}
	}
	return obs
}

// deferredMethodAssigns: d defers a call of a declared function or method of this module
// whose body (outside literals) steps the same field back (`x.F--`) through a path with the
// same element sequence, on every path to its exits.
func deferredMethodAssigns(c *Ctx, info *types.Info, d *ast.DeferStmt, p AccessPath, fld *types.Var) bool {
	h := originOf(Callee(info, d.Call))
	if h == nil {
		return false
	}
	hd := c.declOf[h]
	if hd == nil || hd.Body == nil {
		return false
	}
	hu := FuncUnit{h, hd, c.pkgOf[hd]}
	hinfo := hu.Pkg.TypesInfo
	hfc := c.cfgOf(hu, nil)
	stores := hfc.blocksWith(func(n ast.Node) bool {
		switch x := n.(type) {
		case *ast.IncDecStmt:
			return x.Tok == token.DEC && FieldOfSelector(hinfo, x.X) == fld
		case *ast.AssignStmt:
			for _, l := range x.Lhs {
				if FieldOfSelector(hinfo, l) == fld && x.Tok == token.SUB_ASSIGN {
					return true
				}
			}
		}
		return false
	})
	if len(stores) == 0 {
		return false
	}
	return !hfc.exitReachableAvoiding(stores, nil)
}

// scopedSwitchHelper: the store sits in a helper that packages "switch now, restore on exit":
//
//	A. func (e) bridge(v) (restore func()) { saved := e.F; e.F = v; return func() { e.F = saved } }
//	   used only as   defer e.bridge(v)()
//	B. func (r) enter(x) T { prev := r.F; …; r.F = y; return prev }   and   func (r) set(v T) { r.F = v }
//	   used only as   defer r.set(r.enter(x))
//
// Go evaluates the operands of a defer statement at once and the deferred call at exit, so
// both forms are the save / store / deferred-restore sequence written in one line.
func scopedSwitchHelper(c *Ctx, w FieldWrite, fld *types.Var) (bool, string) {
	u := w.Unit
	if u.Decl == nil || u.Decl.Body == nil || u.Obj.Exported() {
		return false, ""
	}
	info := u.Pkg.TypesInfo
	sites, refs := c.CallsTo(nil, u.Obj)
	if len(sites) == 0 || len(refs) > 0 {
		return false, ""
	}
	parentOf := func(s CallSite, k int) ast.Node {
		i := len(s.Stack) - 1 - k
		if i < 0 {
			return nil
		}
		return s.Stack[i]
	}
	// the literal the helper returns (form A)
	var retLit *ast.FuncLit
	ast.Inspect(u.Decl.Body, func(n ast.Node) bool {
		if rs, ok := n.(*ast.ReturnStmt); ok && len(rs.Results) == 1 {
			if fl, ok := ast.Unparen(rs.Results[0]).(*ast.FuncLit); ok {
				retLit = fl
			}
		}
		return true
	})
	if retLit != nil {
		// the literal restores the field from a local saved from the same field
		restores := false
		ast.Inspect(retLit.Body, func(n ast.Node) bool {
			if as, ok := n.(*ast.AssignStmt); ok && len(as.Lhs) == len(as.Rhs) {
				for i, l := range as.Lhs {
					if FieldOfSelector(info, l) == fld {
						if d := soleDef(info, u.Decl.Body, as.Rhs[i]); d != nil && FieldOfSelector(info, d) == fld {
							restores = true
						}
					}
				}
			}
			return true
		})
		all := restores
		for _, s := range sites {
			// Stack ends with the call; its parent must be a call (the closure invoked) whose parent is a defer
			outer, ok := parentOf(s, 1).(*ast.CallExpr)
			if !ok || ast.Unparen(outer.Fun) != ast.Expr(s.Call) {
				all = false
				continue
			}
			if _, ok := parentOf(s, 2).(*ast.DeferStmt); !ok {
				all = false
			}
		}
		if all && (w.Lit == nil || w.Lit == retLit) {
			return true, "scoped-switch helper: saves the field, stores, and returns the closure that restores it; every use is `defer " + u.Obj.Name() + "(…)()`, which switches at once and restores at exit"
		}
		return false, ""
	}
	if w.Lit != nil {
		return false, ""
	}
	// form B, the setter half: every use is `defer set(<call of an enter helper of the same field>)`
	isEnter := func(h *types.Func) bool { return c.isEnterHelper(h, fld) }
	if c.isSetterWrapper(u) {
		all := true
		for _, s := range sites {
			if _, ok := parentOf(s, 1).(*ast.DeferStmt); !ok {
				all = false
				continue
			}
			// one operand is the value to put back, obtained now: an enter helper's result,
			// or the field read directly (`defer set(env, env.Runtime.Package)`)
			saved := false
			for _, a := range s.Call.Args {
				a = ast.Unparen(a)
				if ac, ok := a.(*ast.CallExpr); ok && isEnter(originOf(Callee(s.Unit.Pkg.TypesInfo, ac))) {
					saved = true
				} else if FieldOfSelector(s.Unit.Pkg.TypesInfo, a) == fld {
					saved = true
				}
			}
			if !saved {
				all = false
			}
		}
		if all {
			return true, "restoring half of a scoped switch: every use is `defer " + u.Obj.Name() + "(<enter helper>(…))` — the enter helper switches at once and hands back the previous value, this setter puts it back at exit"
		}
		return false, ""
	}
	if isEnter(u.Obj) {
		all := true
		for _, s := range sites {
			outer, ok := parentOf(s, 1).(*ast.CallExpr)
			if !ok {
				all = false
				continue
			}
			sf := originOf(Callee(s.Unit.Pkg.TypesInfo, outer))
			sd := c.declOf[sf]
			if sf == nil || sd == nil || !c.isSetterWrapper(FuncUnit{sf, sd, c.pkgOf[sd]}) {
				all = false
				continue
			}
			if _, ok := parentOf(s, 2).(*ast.DeferStmt); !ok {
				all = false
			}
		}
		if all {
			return true, "switching half of a scoped switch: returns the value it replaced, and every use is the operand of a deferred setter of the same field"
		}
	}
	return false, ""
}


// isEnterHelper: h hands back, on every return, a local read from the field before h's first
// store or call — the value current before whatever switch h makes.
func (c *Ctx) isEnterHelper(h *types.Func, fld *types.Var) bool {
	hd := c.declOf[h]
	if h == nil || hd == nil || hd.Body == nil {
		return false
	}
	hinfo := c.pkgOf[hd].TypesInfo
	// every return hands back a local read from the field, and that read precedes any
	// store or call the helper makes (so it is the value before the switch); the switch
	// itself may be a direct store or made by a callee
	retsSaved, nret := true, 0
	firstEffect := token.Pos(0)
	ast.Inspect(hd.Body, func(n ast.Node) bool {
		switch x := n.(type) {
		case *ast.AssignStmt:
			for _, l := range x.Lhs {
				if FieldOfSelector(hinfo, l) == fld && (firstEffect == 0 || x.Pos() < firstEffect) {
					firstEffect = x.Pos()
				}
			}
		case *ast.CallExpr:
			if firstEffect == 0 || x.Pos() < firstEffect {
				firstEffect = x.Pos()
			}
		}
		return true
	})
	ast.Inspect(hd.Body, func(n ast.Node) bool {
		if x, ok := n.(*ast.ReturnStmt); ok {
			nret++
			if len(x.Results) != 1 {
				retsSaved = false
				return true
			}
			d := soleDef(hinfo, hd.Body, x.Results[0])
			if d == nil || FieldOfSelector(hinfo, d) != fld || (firstEffect != 0 && d.Pos() > firstEffect) {
				retsSaved = false
			}
		}
		return true
	})
	return retsSaved && nret > 0
}


// closerHelperStore: h is a form-A scoped-switch helper for fld —
//
//	func (e) h(v) func() { saved := e.F; e.F = v; return func() { e.F = saved } }
//
// — and reports the index of the parameter it stores (‑1 when the stored value is not a
// parameter) and whether the store is made through h's receiver.
func (c *Ctx) closerHelperStore(h *types.Func, fld *types.Var) (param int, onRecv bool, ok bool) {
	hd := c.declOf[h]
	if h == nil || hd == nil || hd.Body == nil {
		return -1, false, false
	}
	hu := FuncUnit{h, hd, c.pkgOf[hd]}
	hinfo := hu.Pkg.TypesInfo
	var retLit *ast.FuncLit
	nret := 0
	for _, st := range hd.Body.List {
		if rs, isRet := st.(*ast.ReturnStmt); isRet {
			nret++
			if len(rs.Results) == 1 {
				retLit, _ = ast.Unparen(rs.Results[0]).(*ast.FuncLit)
			}
		}
	}
	// one return, at the top level of the body (so every top-level statement before it runs)
	total := 0
	ast.Inspect(hd.Body, func(n ast.Node) bool {
		if _, isLit := n.(*ast.FuncLit); isLit {
			return false
		}
		if _, isRet := n.(*ast.ReturnStmt); isRet {
			total++
		}
		return true
	})
	if retLit == nil || nret != 1 || total != 1 {
		return -1, false, false
	}
	restores := false
	ast.Inspect(retLit.Body, func(n ast.Node) bool {
		if as, isAs := n.(*ast.AssignStmt); isAs && len(as.Lhs) == len(as.Rhs) {
			for i, l := range as.Lhs {
				if FieldOfSelector(hinfo, l) == fld {
					if d := soleDef(hinfo, hd.Body, as.Rhs[i]); d != nil && FieldOfSelector(hinfo, d) == fld {
						restores = true
					}
				}
			}
		}
		return true
	})
	if !restores {
		return -1, false, false
	}
	param = -1
	var recv types.Object
	if hd.Recv != nil && len(hd.Recv.List) == 1 && len(hd.Recv.List[0].Names) == 1 {
		recv = hinfo.Defs[hd.Recv.List[0].Names[0]]
	}
	params := paramObjs(hu)
	stored := false
	for _, st := range hd.Body.List {
		as, isAs := st.(*ast.AssignStmt)
		if !isAs || len(as.Lhs) != len(as.Rhs) {
			continue
		}
		for i, l := range as.Lhs {
			se, isSel := ast.Unparen(l).(*ast.SelectorExpr)
			if !isSel || FieldOfSelector(hinfo, se) != fld {
				continue
			}
			stored = true
			if o := identObj(hinfo, se.X); o != nil && o == recv {
				onRecv = true
			}
			if o := identObj(hinfo, as.Rhs[i]); o != nil {
				for k, po := range params {
					if po == o {
						param = k
					}
				}
			}
		}
	}
	return param, onRecv, stored
}

// closerHelperRestores: h's only return, at the top level of its body, gives a function literal that
// stores back to fld a local read from fld before h stores to fld anywhere (`outer := r.F; if … { r.F = x };
// return func() { r.F = outer }`): `defer h(…)()` restores fld to the value it held at the call of h.
func (c *Ctx) closerHelperRestores(h *types.Func, fld *types.Var) bool {
	hd := c.declOf[h]
	if h == nil || hd == nil || hd.Body == nil {
		return false
	}
	hinfo := c.pkgOf[hd].TypesInfo
	var retLit *ast.FuncLit
	nret, total := 0, 0
	for _, st := range hd.Body.List {
		if rs, isRet := st.(*ast.ReturnStmt); isRet {
			nret++
			if len(rs.Results) == 1 {
				retLit, _ = ast.Unparen(rs.Results[0]).(*ast.FuncLit)
			}
		}
	}
	ast.Inspect(hd.Body, func(n ast.Node) bool {
		if _, isLit := n.(*ast.FuncLit); isLit {
			return false
		}
		if _, isRet := n.(*ast.ReturnStmt); isRet {
			total++
		}
		return true
	})
	if retLit == nil || nret != 1 || total != 1 {
		return false
	}
	// first store to fld in the helper outside the returned literal
	firstStore := token.NoPos
	ast.Inspect(hd.Body, func(n ast.Node) bool {
		if n == ast.Node(retLit) {
			return false
		}
		if as, isAs := n.(*ast.AssignStmt); isAs {
			for _, l := range as.Lhs {
				if FieldOfSelector(hinfo, l) == fld && (firstStore == token.NoPos || as.Pos() < firstStore) {
					firstStore = as.Pos()
				}
			}
		}
		return true
	})
	restores := false
	ast.Inspect(retLit.Body, func(n ast.Node) bool {
		if as, isAs := n.(*ast.AssignStmt); isAs && len(as.Lhs) == len(as.Rhs) {
			for i, l := range as.Lhs {
				if FieldOfSelector(hinfo, l) == fld {
					if d := soleDef(hinfo, hd.Body, as.Rhs[i]); d != nil && FieldOfSelector(hinfo, d) == fld && (firstStore == token.NoPos || d.Pos() < firstStore) {
						restores = true
					}
				}
			}
		}
		return true
	})
	return restores
}

// deferRestoresField: ds registers, unconditionally where it stands, a restore of fld to the
// value it holds now: `defer func(){ x.F = saved }()` is judged by the callers themselves;
// this recognises the packaged forms `defer x.h(v)()`, `defer set(enter(…))` and
// `defer set(x, x.F)`.
func (c *Ctx) deferRestoresField(info *types.Info, ds *ast.DeferStmt, fld *types.Var) bool {
	if inner, ok := ast.Unparen(ds.Call.Fun).(*ast.CallExpr); ok {
		if _, _, ok := c.closerHelperStore(originOf(Callee(info, inner)), fld); ok {
			return true
		}
		// the helper may store conditionally (or not at all): what the defer registers is the restore
		return c.closerHelperRestores(originOf(Callee(info, inner)), fld)
	}
	sf := originOf(Callee(info, ds.Call))
	sd := c.declOf[sf]
	if sf == nil || sd == nil {
		return false
	}
	su := FuncUnit{sf, sd, c.pkgOf[sd]}
	if !c.isSetterWrapper(su) {
		return false
	}
	storesFld := false
	ast.Inspect(sd.Body, func(n ast.Node) bool {
		if as, ok := n.(*ast.AssignStmt); ok {
			for _, l := range as.Lhs {
				if FieldOfSelector(su.Pkg.TypesInfo, l) == fld {
					storesFld = true
				}
			}
		}
		return true
	})
	if !storesFld {
		return false
	}
	for _, a := range ds.Call.Args {
		a = ast.Unparen(a)
		if ac, ok := a.(*ast.CallExpr); ok && c.isEnterHelper(originOf(Callee(info, ac)), fld) {
			return true
		}
		if FieldOfSelector(info, a) == fld {
			return true
		}
	}
	return false
}

// pathSuffix renders an lvalue by its resolved access path without the root
// variable name (stable across renames of locals).
func pathSuffix(info *types.Info, e ast.Expr) string {
	if p, ok := PathOf(info, e); ok && len(p.Elems) > 0 {
		root := "?"
		if p.Root != nil {
			if v, ok := p.Root.(*types.Var); ok {
				root = types.TypeString(v.Type(), func(p *types.Package) string { return p.Name() })
			}
		}
		s := root
		for _, el := range p.Elems {
			s += "." + el
		}
		return s
	}
	return types.ExprString(e)
}

func (c *Ctx) censusFor(keep func(string) bool) *Census {
	// one census over the whole module, filtered by callers
	cs, _ := c.memo["census.all"].(*Census)
	if cs == nil {
		cs = c.BuildCensus(nil)
		c.memo["census.all"] = cs
	}
	if keep == nil {
		return cs
	}
	out := &Census{}
	for _, w := range cs.Writes {
		if keep(w.Unit.Pkg.PkgPath) {
			out.Writes = append(out.Writes, w)
		}
	}
	for _, w := range cs.Copies {
		if keep(w.Unit.Pkg.PkgPath) {
			out.Copies = append(out.Copies, w)
		}
	}
	return out
}

func (c *Ctx) cfgOf(u FuncUnit, lit *ast.FuncLit) *FCFG {
	m, _ := c.memo["cfgs"].(map[ast.Node]*FCFG)
	if m == nil {
		m = map[ast.Node]*FCFG{}
		c.memo["cfgs"] = m
	}
	var key ast.Node = u.Decl
	body := u.Decl.Body
	if lit != nil {
		key = lit
		body = lit.Body
	}
	if f, ok := m[key]; ok {
		return f
	}
	f := NewFCFG(u.Pkg.TypesInfo, body)
	m[key] = f
	return f
}

func init() {
	register(&Rule{ID: "PAIR.frame", Floor: 3,
		Doc: "every CallStack.PushFID that returned nil is followed, before any call/return, by `defer <same stack>.Pop()`",
		Run: func(c *Ctx) []Obligation {
			push := c.LookupMethod("lisp.CallStack.PushFID")
			pop := c.LookupMethod("lisp.CallStack.Pop")
			if push == nil || pop == nil {
				return []Obligation{anchorMissing("PAIR.frame", "CallStack.PushFID/Pop")}
			}
			sites, refs := c.CallsTo(nil, push)
			var obs []Obligation
			ord := map[string]*ordinal{}
			for _, r := range refs {
				obs = append(obs, mkOb(c, "PAIR.frame", r.Unit, "method value PushFID", r.Stack[len(r.Stack)-1], Undecided, "PushFID taken as a value: pairing cannot be followed", false))
			}
			for _, s := range sites {
				name := s.Unit.Name()
				if ord[name] == nil {
					ord[name] = &ordinal{}
				}
				construct := ord[name].next("call PushFID")
				info := s.Unit.Pkg.TypesInfo
				fc := c.cfgOf(s.Unit, s.Lit)
				loc, found := fc.Locate(s.Call)
				if !found {
					obs = append(obs, mkOb(c, "PAIR.frame", s.Unit, construct, s.Call, Undecided, "call not locatable in CFG", false))
					continue
				}
				// error result variable
				var errObj types.Object
				if as, ok := fc.Node(loc).(*ast.AssignStmt); ok && len(as.Lhs) == 1 && len(as.Rhs) == 1 && ast.Unparen(as.Rhs[0]) == s.Call {
					if id, ok := as.Lhs[0].(*ast.Ident); ok {
						errObj = info.Defs[id]
						if errObj == nil {
							errObj = info.Uses[id]
						}
					}
				}
				recv, rok := PathOf(info, ast.Unparen(s.Call.Fun).(*ast.SelectorExpr).X)
				// judgeWrapper: the function holding this site hands the pushed frame to its caller —
				// result k is nil exactly when the frame is held — and the pairing is owed at each of
				// ITS call sites
				judgeWrapper := func(k int, how string) bool {
					wsites, wrefs := c.CallsTo(nil, s.Unit.Obj)
					good := len(wrefs) == 0 && len(wsites) > 0
					var sub []Obligation
					for _, ws := range wsites {
						wname := ws.Unit.Name()
						if ord[wname] == nil {
							ord[wname] = &ordinal{}
						}
						wconstruct := ord[wname].next("call PushFID")
						winfo := ws.Unit.Pkg.TypesInfo
						wfc := c.cfgOf(ws.Unit, ws.Lit)
						wloc, found := wfc.Locate(ws.Call)
						var wres types.Object
						if found {
							if as, ok := wfc.Node(wloc).(*ast.AssignStmt); ok && len(as.Rhs) == 1 && ast.Unparen(as.Rhs[0]) == ws.Call && k < len(as.Lhs) {
								if id, ok := as.Lhs[k].(*ast.Ident); ok {
									wres = winfo.Defs[id]
									if wres == nil {
										wres = winfo.Uses[id]
									}
								}
							}
						}
						// the stack the wrapper pushes on, spelled from the caller's side
						var callerRecv AccessPath
						crok := false
						if se, ok := ast.Unparen(ws.Call.Fun).(*ast.SelectorExpr); ok && s.Unit.Decl.Recv != nil && len(s.Unit.Decl.Recv.List) == 1 && len(s.Unit.Decl.Recv.List[0].Names) == 1 {
							if info.Defs[s.Unit.Decl.Recv.List[0].Names[0]] == recv.Root {
								if base, ok := PathOf(winfo, se.X); ok {
									callerRecv = AccessPath{Root: base.Root, Elems: append(append([]string{}, base.Elems...), recv.Elems...)}
									crok = true
								}
							}
						}
						if !found || wres == nil || !crok {
							sub = append(sub, mkOb(c, "PAIR.frame", ws.Unit, wconstruct, ws.Call, Violated, "the result of the frame-pushing helper "+s.Unit.Name()+" is not bound to a variable that is tested (or the stack it pushes on cannot be named here)", true))
							continue
						}
						wRelease := func(d *ast.DeferStmt) bool {
							if originOf(Callee(winfo, d.Call)) != pop {
								return false
							}
							se, ok := ast.Unparen(d.Call.Fun).(*ast.SelectorExpr)
							if !ok {
								return false
							}
							q, qok := PathOf(winfo, se.X)
							return qok && SamePath(callerRecv, q)
						}
						if ok2, why2, _ := acquireThenDefer(wfc, wloc, wRelease, wres); ok2 {
							sub = append(sub, mkOb(c, "PAIR.frame", ws.Unit, wconstruct, ws.Call, Proved, "the frame is pushed by the helper "+s.Unit.Name()+" (nil result = frame held); on that edge the next effectful node is `defer Pop()` on the same stack", true))
						} else {
							sub = append(sub, mkOb(c, "PAIR.frame", ws.Unit, wconstruct, ws.Call, Violated, "frame pushed by the helper "+s.Unit.Name()+" is not popped on every exit: "+why2, true))
						}
					}
					if good {
						obs = append(obs, mkOb(c, "PAIR.frame", s.Unit, construct, s.Call, Proved, fmt.Sprintf("%s; the pairing is owed (and checked) at its %d call sites", how, len(wsites)), true))
						obs = append(obs, sub...)
						return true
					}
					return false
				}
				_ = judgeWrapper
				if errObj == nil {
					// `func (env) pushFrame(fun) error { return env.Runtime.Stack.PushFID(…) }`: the push and
					// nothing else, its error handed on as it is
					if rs, isRet := fc.Node(loc).(*ast.ReturnStmt); isRet && len(rs.Results) == 1 && ast.Unparen(rs.Results[0]) == ast.Expr(s.Call) &&
						s.Lit == nil && s.Unit.Decl != nil && len(s.Unit.Decl.Body.List) == 1 && !s.Unit.Obj.Exported() && rok {
						if judgeWrapper(0, "forwarding wrapper: the push is all it does and PushFID's error is its result") {
							continue
						}
					}
					obs = append(obs, mkOb(c, "PAIR.frame", s.Unit, construct, s.Call, Violated, "PushFID's error result is not bound to a variable that is tested", true))
					continue
				}
				isRelease := func(d *ast.DeferStmt) bool {
					if originOf(Callee(info, d.Call)) != pop {
						return false
					}
					se, ok := ast.Unparen(d.Call.Fun).(*ast.SelectorExpr)
					if !ok {
						return false
					}
					q, qok := PathOf(info, se.X)
					return rok && qok && SamePath(recv, q)
				}
				ok, why, _ := acquireThenDefer(fc, loc, isRelease, errObj)
				if ok {
					obs = append(obs, mkOb(c, "PAIR.frame", s.Unit, construct, s.Call, Proved, "on the err==nil edge the next effectful node is `defer Pop()` on the same stack", true))
					continue
				}
				// an acquire wrapper: `func (env) pushFrame(fun) *LVal { err := PushFID(...); if err != nil
				// { return env.Error(err) }; return nil }` hands the pushed frame to its caller — it returns
				// nil exactly when the frame is held — and the pairing is owed at each of ITS call sites
				if k, wok := acquireWrapperResult(c, fc, s, loc, errObj); wok && rok {
					if judgeWrapper(k, "acquire wrapper: returns nil exactly when the frame was pushed and nothing runs in between") {
						continue
					}
				}
				obs = append(obs, mkOb(c, "PAIR.frame", s.Unit, construct, s.Call, Violated, "pushed frame is not popped on every exit: "+why, true))
			}
			return obs
		}})

	register(&Rule{ID: "PAIR.condition", Floor: 1,
		Doc: "every Runtime.PushCondition is followed, before any call/return, by `defer PopCondition()`",
		Run: func(c *Ctx) []Obligation {
			push := c.LookupMethod("lisp.Runtime.PushCondition")
			pop := c.LookupMethod("lisp.Runtime.PopCondition")
			if push == nil || pop == nil {
				return []Obligation{anchorMissing("PAIR.condition", "Runtime.PushCondition/PopCondition")}
			}
			sites, refs := c.CallsTo(nil, push)
			var obs []Obligation
			ord := map[string]*ordinal{}
			for _, r := range refs {
				obs = append(obs, mkOb(c, "PAIR.condition", r.Unit, "method value PushCondition", r.Stack[len(r.Stack)-1], Undecided, "taken as a value", false))
			}
			for _, s := range sites {
				name := s.Unit.Name()
				if ord[name] == nil {
					ord[name] = &ordinal{}
				}
				construct := ord[name].next("call PushCondition")
				info := s.Unit.Pkg.TypesInfo
				fc := c.cfgOf(s.Unit, s.Lit)
				loc, found := fc.Locate(s.Call)
				if !found {
					obs = append(obs, mkOb(c, "PAIR.condition", s.Unit, construct, s.Call, Undecided, "call not locatable in CFG", false))
					continue
				}
				isRelease := func(d *ast.DeferStmt) bool { return originOf(Callee(info, d.Call)) == pop }
				ok, why, _ := acquireThenDefer(fc, loc, isRelease, nil)
				if ok {
					obs = append(obs, mkOb(c, "PAIR.condition", s.Unit, construct, s.Call, Proved, "`defer PopCondition()` is the next effectful node on every path", true))
				} else {
					obs = append(obs, mkOb(c, "PAIR.condition", s.Unit, construct, s.Call, Violated, "pushed condition is not popped on every exit: "+why, true))
				}
			}
			return obs
		}})

	register(&Rule{ID: "PAIR.nesting", Floor: 2,
		Doc: "every increment of Runtime.evalNesting is released by a deferred decrement registered before any call",
		Run: func(c *Ctx) []Obligation {
			return runSaveRestore(c, saveRestoreSpec{rule: "PAIR.nesting", field: "lisp.Runtime.evalNesting"})
		}})

	register(&Rule{ID: "PAIR.package", Floor: 5,
		Doc: "every store to Runtime.Package outside the deliberate switches is undone by a deferred restore of the value saved before it",
		Run: func(c *Ctx) []Obligation {
			return runSaveRestore(c, saveRestoreSpec{rule: "PAIR.package", field: "lisp.Runtime.Package",
				exempt: map[string]string{
					"lisp.InitializeUserEnv":  "establishes the initial package of a new runtime",
					"lisp.(*LEnv).InPackage":  "the deliberate package switch (in-package); restoring it is load's job, checked by PAIR.load-package",
					"lisp.builtinInPackage":   "the in-package builtin; restoring it is load's job, checked by PAIR.load-package",
				}})
		}})

	register(&Rule{ID: "PAIR.evalctx", Floor: 2,
		Doc: "every store to LEnv.evalCtx outside construction/configuration is undone by a deferred restore",
		Run: func(c *Ctx) []Obligation {
			return runSaveRestore(c, saveRestoreSpec{rule: "PAIR.evalctx", field: "lisp.LEnv.evalCtx",
				exempt: map[string]string{
					"lisp.WithContext": "configuration option applied to a root environment before evaluation",
				}})
		}})

	register(&Rule{ID: "PAIR.terminal-reset", Floor: 1,
		Doc: "a store of false to CallFrame.Terminal (argument evaluation) is undone by a deferred store of true",
		Run: func(c *Ctx) []Obligation {
			fld := c.LookupField("lisp.CallFrame.Terminal")
			if fld == nil {
				return []Obligation{anchorMissing("PAIR.terminal-reset", "CallFrame.Terminal")}
			}
			var obs []Obligation
			all := runSaveRestore(c, saveRestoreSpec{rule: "PAIR.terminal-reset", field: "lisp.CallFrame.Terminal", constPair: true,
				exempt: map[string]string{
					"lisp.(*LEnv).funCall":       "reset at the start of a new iteration on a reused frame: the new call begins non-terminal, nothing is to be restored (TRO.mark-consumed checks the reset is on every loop turn)",
					"lisp.(*LEnv).specialOpCall": "reset at the start of a new iteration on a reused frame (see funCall)",
				}})
			cs := c.censusFor(nil)
			// only the stores of `false` are acquires; stores of true are decided by CENSUS.terminal
			falseStores := map[string]bool{}
			for _, w := range cs.WritersOf(fld) {
				if isBoolConst(w.Unit.Pkg.TypesInfo, w.RHS, false) {
					falseStores[c.Pos(w.Node.Pos())] = true
				}
			}
			for _, o := range all {
				if falseStores[o.Pos] || o.Verdict == Undecided && o.Func == "-" {
					obs = append(obs, o)
				}
			}
			return obs
		}})

	register(&Rule{ID: "PAIR.loc", Floor: 1,
		Doc: "evalSExprCells saves LEnv.loc and restores it by a defer that dominates every evaluation of a sub-expression",
		Run: func(c *Ctx) []Obligation {
			return runDominatingRestore(c, "PAIR.loc", "lisp.(*LEnv).evalSExprCells", "lisp.LEnv.loc")
		}})

	register(&Rule{ID: "PAIR.load-package", Floor: 1,
		Doc: "load saves Runtime.Package and restores it by a defer that dominates every evaluation of a loaded form",
		Run: func(c *Ctx) []Obligation {
			return runDominatingRestore(c, "PAIR.load-package", "lisp.(*LEnv).load", "lisp.Runtime.Package")
		}})

	register(&Rule{ID: "LOC.eval-restores", Floor: 2,
		Doc: "LEnv.Eval and LEnv.EvalContext — the entry every special operator uses to evaluate one of its sub-forms in its own environment — saves the environment's current location and restores it by a defer that dominates the evaluation: when the sub-form is done the location is the operator's form again, so an operator that then rejects its arguments (cond `argument is not a pair`, let, dotimes, assert) is reported at its own call expression, in agreement with the innermost frame of the trace, not at the last sub-form it evaluated",
		Run: func(c *Ctx) []Obligation {
			// Eval and its context-taking twin: both are "evaluate this one form in this
			// environment" entry points a host operator (or the debugger, from inside a
			// running evaluation) can call
			rawEval0 := c.LookupMethod("lisp.LEnv.eval")
			var obs []Obligation
			for _, entry := range []string{"lisp.(*LEnv).Eval", "lisp.(*LEnv).EvalContext"} {
				// an entry that hands its whole job to a method of the same environment which runs the raw
				// evaluator (`return env.evalRestoringLoc(ctx, v)`) is judged there: the loop below picks
				// up every method that calls the raw evaluator on its own receiver
				if efn, efd, epkg := c.LookupFunc(entry); efn != nil && efd != nil && efd.Body != nil && rawEval0 != nil && efd.Recv != nil && len(efd.Recv.List) == 1 && len(efd.Recv.List[0].Names) == 1 {
					einfo := epkg.TypesInfo
					recv := einfo.Defs[efd.Recv.List[0].Names[0]]
					direct, via := false, ""
					for _, ce := range callsIn(efd.Body, true) {
						callee := originOf(Callee(einfo, ce))
						if callee == rawEval0 {
							direct = true
							continue
						}
						se, ok := ast.Unparen(ce.Fun).(*ast.SelectorExpr)
						if !ok || callee == nil || recv == nil || identObj(einfo, se.X) != recv {
							continue
						}
						if hd := c.declOf[callee]; hd != nil && hd.Body != nil && hd.Recv != nil && len(hd.Recv.List) == 1 && len(hd.Recv.List[0].Names) == 1 {
							hinfo := c.pkgOf[hd].TypesInfo
							hrecv := hinfo.Defs[hd.Recv.List[0].Names[0]]
							for _, hc := range callsIn(hd.Body, true) {
								if originOf(Callee(hinfo, hc)) == rawEval0 {
									if hs, ok := ast.Unparen(hc.Fun).(*ast.SelectorExpr); ok && hrecv != nil && identObj(hinfo, hs.X) == hrecv {
										via = FuncName(callee)
									}
								}
							}
						}
					}
					if !direct && via != "" {
						obs = append(obs, mkOb(c, "LOC.eval-restores", FuncUnit{efn, efd, epkg}, "delegates the evaluation", efd, Proved, "runs the raw evaluator only through "+via+" on the same environment, which is judged by this rule", false))
						continue
					}
				}
				obs = append(obs, runDominatingRestore(c, "LOC.eval-restores", entry, "lisp.LEnv.loc")...)
			}
			// ... and every other method of LEnv that runs the raw evaluator on ITS OWN environment
			// (load, the funnel of every Load* entry point, evaluates the forms of a file in the
			// environment it was called on): the evaluator moves that environment's location to each
			// form, and whoever asked for the evaluation gets the environment back where it was
			rawEval := c.LookupMethod("lisp.LEnv.eval")
			done := map[string]bool{"lisp.(*LEnv).Eval": true, "lisp.(*LEnv).EvalContext": true, "lisp.(*LEnv).evalSExprCells": true}
			if rawEval != nil {
				for _, u := range c.Funcs(func(p string) bool { return rel(p) == "lisp" }) {
					if u.Decl == nil || u.Decl.Body == nil || u.Decl.Recv == nil || len(u.Decl.Recv.List) != 1 || len(u.Decl.Recv.List[0].Names) != 1 || originOf(u.Obj) == rawEval || done[u.Name()] {
						continue
					}
					info := u.Pkg.TypesInfo
					recv := info.Defs[u.Decl.Recv.List[0].Names[0]]
					own := false
					for _, ce := range callsIn(u.Decl.Body, true) {
						if originOf(Callee(info, ce)) != rawEval {
							continue
						}
						if se, ok := ast.Unparen(ce.Fun).(*ast.SelectorExpr); ok && recv != nil && identObj(info, se.X) == recv {
							own = true
						}
					}
					if own {
						done[u.Name()] = true
						obs = append(obs, runDominatingRestore(c, "LOC.eval-restores", u.Name(), "lisp.LEnv.loc")...)
					}
				}
			}
			return obs
		}})

	register(&Rule{ID: "PAIR.loader-package", Floor: 1,
		Doc: "the Loader that TextLoader returns — the remaining `evaluate this source text` entry point that does not go through load — saves Runtime.Package and restores it by a defer that dominates every evaluation of a form of the stream: an in-package in the text does not leak to the code that runs the loader",
		Run: func(c *Ctx) []Obligation {
			return runDominatingRestoreIn(c, "PAIR.loader-package", "lisp.TextLoader", "lisp.Runtime.Package", true)
		}})
}

// runDominatingRestore: in function fname a `defer func(){ <path to field> = saved }()`
// with `saved := <same path>` before it must dominate every call of the
// evaluator (eval-like callee) in that function.
func runDominatingRestore(c *Ctx, rule, fname, field string) []Obligation {
	return runDominatingRestoreIn(c, rule, fname, field, false)
}

// inLit: the evaluation happens in the closure the function returns (the first
// function literal that calls the evaluator), not in the function's own body.
func runDominatingRestoreIn(c *Ctx, rule, fname, field string, inLit bool) []Obligation {
	fn, fd, pkg := c.LookupFunc(fname)
	fld := c.LookupField(field)
	if fn == nil || fld == nil {
		return []Obligation{anchorMissing(rule, fname+" / "+field)}
	}
	u := FuncUnit{fn, fd, pkg}
	info := pkg.TypesInfo
	var lit *ast.FuncLit
	if inLit {
		evalLike := c.evalLikeSet()
		ast.Inspect(fd.Body, func(n ast.Node) bool {
			fl, ok := n.(*ast.FuncLit)
			if !ok || lit != nil {
				return true
			}
			for _, ce := range callsIn(fl.Body, false) {
				if f := originOf(Callee(info, ce)); f != nil && evalLike[f] {
					lit = fl
				}
			}
			return true
		})
		if lit == nil {
			return []Obligation{mkOb(c, rule, u, "no evaluating closure found", fd, Undecided, "expected "+fname+" to return a closure that evaluates", false)}
		}
	}
	fc := c.cfgOf(u, lit)
	// find restoring defers
	type rd struct {
		loc Loc
		d   *ast.DeferStmt
	}
	var restores []rd
	for _, b := range fc.G.Blocks {
		if !fc.Live(b) {
			continue
		}
		for i, n := range b.Nodes {
			d, ok := n.(*ast.DeferStmt)
			if !ok {
				continue
			}
			lit := deferredLit(d)
			if lit == nil {
				continue
			}
			ok = false
			ast.Inspect(lit.Body, func(m ast.Node) bool {
				as, isAs := m.(*ast.AssignStmt)
				if !isAs || as.Tok != token.ASSIGN || len(as.Lhs) != len(as.Rhs) {
					return true
				}
				for k, l := range as.Lhs {
					if FieldOfSelector(info, l) != fld {
						continue
					}
					p, pok := PathOf(info, l)
					if pok && savedFrom(fc, fd, as.Rhs[k], p, Loc{b, i}) {
						ok = true
					}
				}
				return true
			})
			if ok {
				restores = append(restores, rd{Loc{b, i}, d})
			}
		}
	}
	var obs []Obligation
	ord := &ordinal{}
	evalLike := c.evalLikeSet()
	n := 0
	for _, b := range fc.G.Blocks {
		if !fc.Live(b) {
			continue
		}
		for i, node := range b.Nodes {
			for _, ce := range callsIn(node, false) {
				callee := originOf(Callee(info, ce))
				if callee == nil || !evalLike[callee] {
					continue
				}
				n++
				construct := ord.next("call " + shortName(callee))
				dom := false
				for _, r := range restores {
					if fc.Dominates(r.loc, Loc{b, i}) {
						dom = true
					}
				}
				if dom {
					obs = append(obs, mkOb(c, rule, u, construct, ce, Proved, "dominated by a deferred restore of "+field+" from a value saved before it", true))
				} else {
					obs = append(obs, mkOb(c, rule, u, construct, ce, Violated, "evaluation can run (and switch or move "+field+") with no deferred restore registered", true))
				}
			}
		}
	}
	if n == 0 {
		obs = append(obs, mkOb(c, rule, u, "no evaluator call found", fd, Undecided, "expected "+fname+" to evaluate sub-expressions", false))
	}
	return obs
}

// evalLikeSet: the evaluator funnels of package lisp (AST-level, by identity).
func (c *Ctx) evalLikeSet() map[*types.Func]bool {
	if m, ok := c.memo["evalLike"].(map[*types.Func]bool); ok {
		return m
	}
	m := map[*types.Func]bool{}
	for _, n := range []string{"eval", "evalSExpr", "evalSExprCells", "funCall", "macroCall", "specialOpCall", "call", "load",
		"Eval", "EvalSExpr", "FunCall", "MacroCall", "SpecialOpCall", "EvalContext", "FunCallContext",
		"Load", "LoadString", "LoadFile", "LoadLocation", "LoadContext", "LoadStringContext", "LoadFileContext", "LoadLocationContext"} {
		if f := c.LookupMethod("lisp.LEnv." + n); f != nil {
			m[f] = true
		}
	}
	c.memo["evalLike"] = m
	return m
}

// LIB.loader-restore — C05 ("the current package is the one in effect before a
// load"): each standard-library package has a Go loader that switches into the
// package it defines and must leave the environment in the package it found.
// Eleven siblings share one idiom — read the current package's name, defer an
// InPackage back to it — and each must keep both halves.
func init() {
	register(&Rule{ID: "LIB.loader-restore", Floor: 10,
		Doc: "every function of the standard-library packages (lisp/lisplib/…) that switches the current package with a non-deferred (*LEnv).InPackage has, dominating that switch, a `defer env.InPackage(lisp.Symbol(<saved>))` whose <saved> is a local assigned from <env>.Runtime.Package.Name before: the loader returns — and panics — into the package it was called from, not into a fixed one",
		Run: func(c *Ctx) []Obligation {
			const rid = "LIB.loader-restore"
			inPkg := c.LookupMethod("lisp.LEnv.InPackage")
			pkgFld := c.LookupField("lisp.Runtime.Package")
			if inPkg == nil || pkgFld == nil {
				return []Obligation{anchorMissing(rid, "LEnv.InPackage / Runtime.Package")}
			}
			var obs []Obligation
			for _, u := range c.Funcs(func(p string) bool { return hasPrefix(rel(p), "lisp/lisplib") }) {
				if u.Decl == nil || u.Decl.Body == nil {
					continue
				}
				info := u.Pkg.TypesInfo
				// non-deferred switches
				deferred := map[*ast.CallExpr]bool{}
				ast.Inspect(u.Decl.Body, func(n ast.Node) bool {
					if ds, ok := n.(*ast.DeferStmt); ok {
						deferred[ds.Call] = true
					}
					return true
				})
				var switches []*ast.CallExpr
				for _, ce := range callsIn(u.Decl.Body, false) {
					if originOf(Callee(info, ce)) == inPkg && !deferred[ce] {
						switches = append(switches, ce)
					}
				}
				if len(switches) == 0 {
					continue
				}
				if u.Name() == "lisp/lisplib.LoadLibrary" {
					// the bootstrap entry point: documented to leave env in the default
					// user package (that is its contract, not a leak)
					obs = append(obs, mkOb(c, rid, u, "switch to the default user package", switches[0], Proved, "LoadLibrary's documented postcondition (\"returns env to the default user package\")", false))
					continue
				}
				fc := c.cfgOf(u, nil)
				// restoring defers
				var restores []Loc
				for _, b := range fc.G.Blocks {
					if !fc.Live(b) {
						continue
					}
					for i, n := range b.Nodes {
						ds, ok := n.(*ast.DeferStmt)
						if !ok || originOf(Callee(info, ds.Call)) != inPkg || len(ds.Call.Args) != 1 {
							continue
						}
						// argument: Symbol(<saved>) or <saved>
						arg := ast.Unparen(ds.Call.Args[0])
						if ce, ok := arg.(*ast.CallExpr); ok && len(ce.Args) == 1 {
							arg = ast.Unparen(ce.Args[0])
						}
						saved := identObj(info, arg)
						if saved == nil {
							continue
						}
						okSaved := false
						ast.Inspect(u.Decl.Body, func(m ast.Node) bool {
							as, ok := m.(*ast.AssignStmt)
							if !ok || as.Pos() > ds.Pos() || len(as.Lhs) != len(as.Rhs) {
								return true
							}
							for k, l := range as.Lhs {
								if identObj(info, l) != saved {
									continue
								}
								// <x>.Runtime.Package.Name  or  <x>.Runtime.Package
								r := ast.Unparen(as.Rhs[k])
								if se, ok := r.(*ast.SelectorExpr); ok && se.Sel.Name == "Name" {
									r = ast.Unparen(se.X)
								}
								if FieldOfSelector(info, r) == pkgFld {
									okSaved = true
								}
							}
							return true
						})
						if okSaved {
							restores = append(restores, Loc{b, i})
						}
					}
				}
				ord := &ordinal{}
				for _, sw := range switches {
					construct := ord.next("switch " + types.ExprString(sw))
					loc, ok := fc.Locate(sw)
					dom := false
					if ok {
						for _, r := range restores {
							if fc.Dominates(r, loc) {
								dom = true
							}
						}
					}
					if dom {
						obs = append(obs, mkOb(c, rid, u, construct, sw, Proved, "after a deferred InPackage back to the package read from Runtime.Package before", true))
					} else {
						obs = append(obs, mkOb(c, rid, u, construct, sw, Violated, "the loader switches the current package with no deferred switch back to the package that was current when it was called (a restore to a fixed name such as the default user package is not one): loaded from any other package, everything defined afterwards lands in the wrong package", true))
					}
				}
			}
			return obs
		}})
}
