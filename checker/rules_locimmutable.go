package main

import (
	"go/ast"
	"go/token"
	"go/types"
)

// LOC.shared-immutable — C18 / C20: a *token.Location is SHARED.  The parser
// hangs one on every node it builds; eval copies that pointer into env.loc, the
// frame push copies it into CallFrame.Source, errors and the loading context
// (Runtime.sourceContext: "relative locations resolve against the directory of
// the file doing the loading") read File/Path/Line through it.  After parsing,
// nobody owns a Location any more: a write through such a pointer — normalising
// a path for display, say — rewrites the position of a form of the program for
// every later evaluation, error and relative load.  Only the parser (which is
// still building the tree) writes Locations in place; everybody else writes a
// copy of their own.
func init() {
	register(&Rule{ID: "LOC.shared-immutable", Floor: 1,
		Doc: "outside the parser packages, every store to a field of a token.Location goes to a Location the storing function owns — a local of value type, the pointee of `&<local value>` / `&token.Location{…}` / new / Location.Copy() — or, through a pointer parameter of an unexported helper, to such a Location at every call site: no code rewrites, in place, a location that a parsed node, a call frame or an error shares",
		Run: func(c *Ctx) []Obligation {
			const rid = "LOC.shared-immutable"
			locT := c.LookupType("parser/token.Location")
			if locT == nil {
				return []Obligation{anchorMissing(rid, "parser/token.Location")}
			}
			lst, _ := locT.Underlying().(*types.Struct)
			if lst == nil {
				return []Obligation{anchorMissing(rid, "token.Location struct")}
			}
			isLocField := func(f *types.Var) bool {
				for i := 0; f != nil && i < lst.NumFields(); i++ {
					if lst.Field(i) == f {
						return true
					}
				}
				return false
			}
			copyM := c.LookupMethod("parser/token.Location.Copy")
			isLocPtr := func(t types.Type) bool {
				p, ok := t.Underlying().(*types.Pointer)
				if !ok {
					return false
				}
				n, ok := types.Unalias(p.Elem()).(*types.Named)
				return ok && n.Obj() == locT.Obj()
			}
			// owned: the expression denotes a Location (or a pointer to one) this function owns
			var owned func(u FuncUnit, e ast.Expr, depth int) (bool, types.Object)
			owned = func(u FuncUnit, e ast.Expr, depth int) (bool, types.Object) {
				info := u.Pkg.TypesInfo
				e = ast.Unparen(e)
				if depth > 4 {
					return false, nil
				}
				switch x := e.(type) {
				case *ast.UnaryExpr:
					if x.Op == token.AND {
						if _, isLit := ast.Unparen(x.X).(*ast.CompositeLit); isLit {
							return true, nil
						}
						return owned(u, x.X, depth+1)
					}
				case *ast.CompositeLit:
					return true, nil
				case *ast.CallExpr:
					if id, ok := ast.Unparen(x.Fun).(*ast.Ident); ok && id.Name == "new" {
						return true, nil
					}
					if f := originOf(Callee(info, x)); f != nil && f == copyM {
						return true, nil
					}
					return false, nil
				case *ast.StarExpr:
					return owned(u, x.X, depth+1)
				case *ast.Ident:
					v, ok := info.Uses[x].(*types.Var)
					if !ok {
						v, ok = info.Defs[x].(*types.Var)
					}
					if !ok || v.IsField() || v.Pkg() == nil || v.Parent() == v.Pkg().Scope() {
						return false, nil
					}
					// a parameter: decided at the call sites
					for _, p := range paramObjs(u) {
						if p == v {
							if isLocPtr(v.Type()) {
								return false, v
							}
							return true, nil // a Location passed by value is the callee's own copy
						}
					}
					if !isLocPtr(v.Type()) {
						// a local of value type (Location, or a struct holding one by value)
						if _, isPtr := v.Type().Underlying().(*types.Pointer); !isPtr {
							return true, nil
						}
						return false, nil
					}
					// a local pointer: every definition must be owned
					n, all := 0, true
					ast.Inspect(u.Decl.Body, func(m ast.Node) bool {
						switch s := m.(type) {
						case *ast.AssignStmt:
							for i, l := range s.Lhs {
								if identObj(info, l) != v {
									continue
								}
								n++
								if len(s.Lhs) != len(s.Rhs) {
									all = false
									continue
								}
								if ok, _ := owned(u, s.Rhs[i], depth+1); !ok {
									all = false
								}
							}
						case *ast.ValueSpec:
							for i, nm := range s.Names {
								if info.Defs[nm] == v {
									n++
									if i < len(s.Values) {
										if ok, _ := owned(u, s.Values[i], depth+1); !ok {
											all = false
										}
									}
								}
							}
						case *ast.RangeStmt:
							for _, l := range []ast.Expr{s.Key, s.Value} {
								if l != nil && identObj(info, l) == v {
									n++
									all = false
								}
							}
						}
						return true
					})
					return n > 0 && all, nil
				case *ast.SelectorExpr:
					// a field holding a Location BY VALUE inside something owned (local struct value)
					if t := info.TypeOf(x); t != nil {
						if _, isPtr := t.Underlying().(*types.Pointer); isPtr {
							return false, nil
						}
					}
					if t := info.TypeOf(x.X); t != nil {
						if _, isPtr := t.Underlying().(*types.Pointer); isPtr {
							return false, nil
						}
					}
					return owned(u, x.X, depth+1)
				}
				return false, nil
			}
			var obs []Obligation
			inParser := func(p string) bool {
				r := rel(p)
				return r == "parser/rdparser" || r == "parser/lexer" || r == "parser/token" || r == "parser"
			}
			for _, u := range c.Funcs(func(p string) bool { return !inParser(p) }) {
				if u.Decl == nil || u.Decl.Body == nil {
					continue
				}
				info := u.Pkg.TypesInfo
				ord := &ordinal{}
				check := func(lhs ast.Expr, at ast.Node) {
					se, ok := ast.Unparen(lhs).(*ast.SelectorExpr)
					if !ok || !isLocField(FieldOfSelector(info, se)) {
						return
					}
					construct := ord.next("store Location." + se.Sel.Name)
					ok2, param := owned(u, se.X, 0)
					switch {
					case ok2:
						obs = append(obs, mkOb(c, rid, u, construct, at, Proved, "the Location written is this function's own (a local value or a copy it made)", false))
					case param != nil && !u.Obj.Exported():
						// every call site must pass an owned Location
						k := -1
						for i, p := range paramObjs(u) {
							if p == param {
								k = i
							}
						}
						sites, refs := c.CallsTo(nil, u.Obj)
						good := len(sites) > 0 && len(refs) == 0 && k >= 0
						bad := ""
						for _, s := range sites {
							if k >= len(s.Call.Args) {
								good = false
								continue
							}
							if okc, _ := owned(s.Unit, s.Call.Args[k], 0); !okc {
								good = false
								bad = types.ExprString(s.Call.Args[k]) + " in " + s.Unit.Name()
							}
						}
						if good {
							obs = append(obs, mkOb(c, rid, u, construct, at, Proved, "written through a pointer parameter; every call site passes a Location the caller owns", true))
						} else {
							obs = append(obs, mkOb(c, rid, u, construct, at, Violated, "a Location is written in place through the parameter `"+param.Name()+"`, and a caller passes one it does not own ("+bad+"): the position of a parsed form, shared by the tree, the call frames built from it and the loading context, is rewritten for every later evaluation, error report and relative load", true))
						}
					default:
						obs = append(obs, mkOb(c, rid, u, construct, at, Violated, "a field of a token.Location reached through `"+types.ExprString(se.X)+"` is written in place outside the parser: Locations are shared by parsed nodes, call frames, errors and the loading context, so this rewrites a form's position for every later evaluation, error report and relative load", true))
					}
				}
				ast.Inspect(u.Decl.Body, func(n ast.Node) bool {
					switch x := n.(type) {
					case *ast.AssignStmt:
						for _, l := range x.Lhs {
							check(l, x)
						}
					case *ast.IncDecStmt:
						check(x.X, x)
					}
					return true
				})
			}
			if len(obs) == 0 {
				// the rule's expected count is zero outside the parser: keep a positive witness that
				// the recogniser still matches — the parser's own in-place writes
				n := 0
				for _, u := range c.Funcs(inParser) {
					if u.Decl == nil || u.Decl.Body == nil {
						continue
					}
					info := u.Pkg.TypesInfo
					ast.Inspect(u.Decl.Body, func(m ast.Node) bool {
						if as, ok := m.(*ast.AssignStmt); ok {
							for _, l := range as.Lhs {
								if se, ok := ast.Unparen(l).(*ast.SelectorExpr); ok && isLocField(FieldOfSelector(info, se)) {
									n++
								}
							}
						}
						return true
					})
				}
				if n == 0 {
					return []Obligation{{Rule: rid, Func: "parser", Construct: "positive witness", Verdict: Undecided, Detail: "no store to a token.Location field found even in the parser: the recogniser no longer matches anything", Nontrivial: true}}
				}
				obs = append(obs, Obligation{Rule: rid, Func: "module", Construct: "no in-place Location write outside the parser", Verdict: Proved, Detail: "the recogniser matches the parser's own writes; none exists elsewhere", Nontrivial: true})
			}
			return obs
		}})
}
