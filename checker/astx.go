package main

import (
	"fmt"
	"go/ast"
	"go/token"
	"go/types"
	"sort"
	"strings"

	"golang.org/x/tools/go/packages"
)

// AccessPath is a type-resolved lvalue: a root object followed by field
// selections and (pure, argument-free) accessor calls, e.g.
// env . Runtime . Stack . Top() . Terminal
type AccessPath struct {
	Root  types.Object
	Elems []string // field names, "M()" for accessor calls, "[]" for index, "*" deref
	Last  *types.Var
}

func (p AccessPath) String() string {
	r := "?"
	if p.Root != nil {
		r = p.Root.Name()
	}
	if len(p.Elems) == 0 {
		return r
	}
	return r + "." + strings.Join(p.Elems, ".")
}

// Suffix renders the trailing n elements (root-independent identity).
func (p AccessPath) Suffix(n int) string {
	if n > len(p.Elems) {
		n = len(p.Elems)
	}
	return strings.Join(p.Elems[len(p.Elems)-n:], ".")
}

// SamePath: same root object and same element sequence.
func SamePath(a, b AccessPath) bool {
	if a.Root != b.Root || len(a.Elems) != len(b.Elems) {
		return false
	}
	for i := range a.Elems {
		if a.Elems[i] != b.Elems[i] {
			return false
		}
	}
	return true
}

// PathOf resolves an expression to an access path, or ok=false.
func PathOf(info *types.Info, e ast.Expr) (AccessPath, bool) {
	var p AccessPath
	var walk func(e ast.Expr) bool
	walk = func(e ast.Expr) bool {
		switch x := ast.Unparen(e).(type) {
		case *ast.Ident:
			obj := info.Uses[x]
			if obj == nil {
				obj = info.Defs[x]
			}
			if obj == nil {
				return false
			}
			p.Root = obj
			return true
		case *ast.SelectorExpr:
			if sel := info.Selections[x]; sel != nil {
				if !walk(x.X) {
					return false
				}
				if v, ok := sel.Obj().(*types.Var); ok && v.IsField() {
					p.Elems = append(p.Elems, v.Name())
					p.Last = v
					return true
				}
				return false
			}
			// package-qualified identifier
			if obj := info.Uses[x.Sel]; obj != nil {
				p.Root = obj
				return true
			}
			return false
		case *ast.StarExpr:
			if !walk(x.X) {
				return false
			}
			p.Elems = append(p.Elems, "*")
			return true
		case *ast.IndexExpr:
			if !walk(x.X) {
				return false
			}
			if tv, ok := info.Types[x.Index]; ok && tv.Value != nil {
				p.Elems = append(p.Elems, "["+tv.Value.ExactString()+"]")
			} else {
				p.Elems = append(p.Elems, "[]")
			}
			return true
		case *ast.CallExpr:
			if len(x.Args) != 0 {
				return false
			}
			se, ok := ast.Unparen(x.Fun).(*ast.SelectorExpr)
			if !ok {
				return false
			}
			sel := info.Selections[se]
			if sel == nil {
				return false
			}
			fn, ok := sel.Obj().(*types.Func)
			if !ok {
				return false
			}
			if !walk(se.X) {
				return false
			}
			p.Elems = append(p.Elems, fn.Name()+"()")
			return true
		}
		return false
	}
	ok := walk(e)
	return p, ok
}

// FieldOfSelector returns the field a selector expression denotes, or nil.
func FieldOfSelector(info *types.Info, e ast.Expr) *types.Var {
	se, ok := ast.Unparen(e).(*ast.SelectorExpr)
	if !ok {
		return nil
	}
	if sel := info.Selections[se]; sel != nil {
		if v, ok := sel.Obj().(*types.Var); ok && v.IsField() {
			return v
		}
	}
	return nil
}

// FieldWrite is one store that changes a struct field (or storage reached
// through it).
type FieldWrite struct {
	Field *types.Var
	Kind  string // assign | op-assign | incdec | elem | addr | through
	Node  ast.Node
	LHS   ast.Expr
	RHS   ast.Expr // for plain single assignments
	Unit  FuncUnit
	Lit   *ast.FuncLit // innermost enclosing function literal, if any
}

// StructCopy is `*p = v` / `x = v` of a whole struct type.
type StructCopy struct {
	Type *types.Named
	Node ast.Node
	Unit FuncUnit
}

type Census struct {
	Writes []FieldWrite
	Copies []StructCopy
}

// fieldChain lists the fields on the spine of an lvalue expression, outermost
// last: for a.b.c[i].d it yields b, c (elem), d.
func lhsWrites(info *types.Info, lhs ast.Expr) (direct *types.Var, directKind string, through []*types.Var) {
	e := ast.Unparen(lhs)
	kind := "assign"
	// peel index/deref to find whether the store is to an element of a field's storage
	for {
		switch x := e.(type) {
		case *ast.IndexExpr:
			e = ast.Unparen(x.X)
			kind = "elem"
			continue
		case *ast.StarExpr:
			e = ast.Unparen(x.X)
			kind = "elem"
			continue
		case *ast.SliceExpr:
			e = ast.Unparen(x.X)
			kind = "elem"
			continue
		}
		break
	}
	if f := FieldOfSelector(info, e); f != nil {
		direct = f
		directKind = kind
		// inner fields on the spine are written "through"
		inner := ast.Unparen(e.(*ast.SelectorExpr).X)
		for {
			switch x := inner.(type) {
			case *ast.IndexExpr:
				inner = ast.Unparen(x.X)
				continue
			case *ast.StarExpr:
				inner = ast.Unparen(x.X)
				continue
			case *ast.SelectorExpr:
				if g := FieldOfSelector(info, x); g != nil {
					through = append(through, g)
				}
				inner = ast.Unparen(x.X)
				continue
			case *ast.CallExpr:
				// accessor call like Top(): keep walking its receiver
				if se, ok := ast.Unparen(x.Fun).(*ast.SelectorExpr); ok && len(x.Args) == 0 {
					inner = ast.Unparen(se.X)
					continue
				}
			}
			break
		}
	}
	return
}

// freshLocalStruct: id names a local variable of struct type (held by value, not a pointer) that the
// function defines itself with a composite literal or a plain `var` declaration.
func freshLocalStruct(info *types.Info, body ast.Node, id *ast.Ident) bool {
	v, ok := info.Uses[id].(*types.Var)
	if !ok || v.IsField() || body == nil {
		return false
	}
	if _, isStruct := v.Type().Underlying().(*types.Struct); !isStruct {
		return false
	}
	fresh := false
	ast.Inspect(body, func(n ast.Node) bool {
		switch x := n.(type) {
		case *ast.AssignStmt:
			if x.Tok != token.DEFINE || len(x.Lhs) != len(x.Rhs) {
				return true
			}
			for i, l := range x.Lhs {
				if lid, ok := l.(*ast.Ident); ok && info.Defs[lid] == types.Object(v) {
					if _, isLit := ast.Unparen(x.Rhs[i]).(*ast.CompositeLit); isLit {
						fresh = true
					}
				}
			}
		case *ast.ValueSpec:
			for i, nm := range x.Names {
				if info.Defs[nm] == types.Object(v) {
					if len(x.Values) == 0 {
						fresh = true
					} else if i < len(x.Values) {
						if _, isLit := ast.Unparen(x.Values[i]).(*ast.CompositeLit); isLit {
							fresh = true
						}
					}
				}
			}
		}
		return true
	})
	return fresh
}

// BuildCensus records every field store in the given packages.
func (c *Ctx) BuildCensus(keep func(string) bool) *Census {
	key := "census"
	cs := &Census{}
	for _, u := range c.Funcs(keep) {
		info := u.Pkg.TypesInfo
		var litStack []*ast.FuncLit
		var visit func(n ast.Node) bool
		record := func(lhs ast.Expr, rhs ast.Expr, node ast.Node, op string) {
			// `frame := CallFrame{…}; frame.HeightLogical = h` fills in a value this function is still
			// building: it is the same act as a key in the composite literal, which is not a store either
			if se, ok := ast.Unparen(lhs).(*ast.SelectorExpr); ok {
				if id, ok := ast.Unparen(se.X).(*ast.Ident); ok && freshLocalStruct(info, u.Decl.Body, id) {
					return
				}
			}
			direct, kind, through := lhsWrites(info, lhs)
			var lit *ast.FuncLit
			if len(litStack) > 0 {
				lit = litStack[len(litStack)-1]
			}
			if direct != nil {
				k := kind
				if op != "" && kind == "assign" {
					k = op
				}
				cs.Writes = append(cs.Writes, FieldWrite{Field: direct, Kind: k, Node: node, LHS: lhs, RHS: rhs, Unit: u, Lit: lit})
			}
			for _, g := range through {
				cs.Writes = append(cs.Writes, FieldWrite{Field: g, Kind: "through", Node: node, LHS: lhs, RHS: rhs, Unit: u, Lit: lit})
			}
			// whole-struct copy
			if direct == nil || kind != "assign" {
				if tv, ok := info.Types[lhs]; ok {
					if n, ok := types.Unalias(tv.Type).(*types.Named); ok {
						if _, isStruct := n.Underlying().(*types.Struct); isStruct {
							if _, isStar := ast.Unparen(lhs).(*ast.StarExpr); isStar {
								cs.Copies = append(cs.Copies, StructCopy{Type: n, Node: node, Unit: u})
							}
						}
					}
				}
			}
		}
		visit = func(n ast.Node) bool {
			switch s := n.(type) {
			case *ast.FuncLit:
				litStack = append(litStack, s)
				ast.Inspect(s.Body, visit)
				litStack = litStack[:len(litStack)-1]
				return false
			case *ast.AssignStmt:
				for i, lhs := range s.Lhs {
					var rhs ast.Expr
					if len(s.Rhs) == len(s.Lhs) {
						rhs = s.Rhs[i]
					}
					op := ""
					if s.Tok != token.ASSIGN && s.Tok != token.DEFINE {
						op = "op-assign"
					}
					if s.Tok == token.DEFINE {
						continue
					}
					record(lhs, rhs, s, op)
				}
			case *ast.IncDecStmt:
				record(s.X, nil, s, "incdec")
			case *ast.RangeStmt:
				if s.Tok == token.ASSIGN {
					if s.Key != nil {
						record(s.Key, nil, s, "")
					}
					if s.Value != nil {
						record(s.Value, nil, s, "")
					}
				}
			case *ast.CallExpr:
				// delete(x.f, k) / clear(x.f) write the storage of field f
				if id, ok := ast.Unparen(s.Fun).(*ast.Ident); ok && (id.Name == "delete" || id.Name == "clear") && len(s.Args) >= 1 {
					if _, isB := info.Uses[id].(*types.Builtin); isB {
						if f := FieldOfSelector(info, s.Args[0]); f != nil {
							var lit *ast.FuncLit
							if len(litStack) > 0 {
								lit = litStack[len(litStack)-1]
							}
							cs.Writes = append(cs.Writes, FieldWrite{Field: f, Kind: "elem", Node: s, LHS: s.Args[0], Unit: u, Lit: lit})
						}
					}
				}
			case *ast.UnaryExpr:
				if s.Op == token.AND {
					if f := FieldOfSelector(info, s.X); f != nil {
						var lit *ast.FuncLit
						if len(litStack) > 0 {
							lit = litStack[len(litStack)-1]
						}
						cs.Writes = append(cs.Writes, FieldWrite{Field: f, Kind: "addr", Node: s, LHS: s.X, Unit: u, Lit: lit})
					}
				}
			}
			return true
		}
		ast.Inspect(u.Decl.Body, visit)
	}
	_ = key
	return cs
}

// WritersOf groups writes of a field by function.
func (cs *Census) WritersOf(f *types.Var) []FieldWrite {
	var out []FieldWrite
	for _, w := range cs.Writes {
		if w.Field == f {
			out = append(out, w)
		}
	}
	return out
}

// EnclosingCalls lists call expressions contained in node (not descending into
// function literals unless intoLits).
func callsIn(n ast.Node, intoLits bool) []*ast.CallExpr {
	var out []*ast.CallExpr
	ast.Inspect(n, func(m ast.Node) bool {
		if _, ok := m.(*ast.FuncLit); ok && !intoLits {
			return false
		}
		if ce, ok := m.(*ast.CallExpr); ok {
			out = append(out, ce)
		}
		return true
	})
	return out
}

func exprString(fset *token.FileSet, e ast.Node) string {
	return types.ExprString(e.(ast.Expr))
}

// ordinal assigns "#k" suffixes to repeated constructs inside one function so
// that keys stay line-independent but distinct.
type ordinal struct{ seen map[string]int }

func (o *ordinal) next(s string) string {
	if o.seen == nil {
		o.seen = map[string]int{}
	}
	o.seen[s]++
	return fmt.Sprintf("%s#%d", s, o.seen[s])
}

// CallSite is a static call found in the AST.
type CallSite struct {
	Call   *ast.CallExpr
	Callee *types.Func
	Unit   FuncUnit
	Lit    *ast.FuncLit
	Stack  []ast.Node // ancestors, outermost first
}

// CallsTo finds all static call sites of any of the given functions in the
// selected packages.  Method values / function values (uses without a call) are
// returned separately as "refs".
func (c *Ctx) CallsTo(keep func(string) bool, targets ...*types.Func) (sites []CallSite, refs []CallSite) {
	want := map[*types.Func]bool{}
	for _, t := range targets {
		if t != nil {
			want[originOf(t)] = true
		}
	}
	for _, u := range c.Funcs(keep) {
		info := u.Pkg.TypesInfo
		var stack []ast.Node
		called := map[*ast.Ident]bool{}
		ast.Inspect(u.Decl, func(n ast.Node) bool {
			if n == nil {
				stack = stack[:len(stack)-1]
				return true
			}
			stack = append(stack, n)
			if ce, ok := n.(*ast.CallExpr); ok {
				if fn := originOf(Callee(info, ce)); fn != nil && want[fn] {
					var lit *ast.FuncLit
					for _, a := range stack {
						if l, ok := a.(*ast.FuncLit); ok {
							lit = l
						}
					}
					st := make([]ast.Node, len(stack))
					copy(st, stack)
					sites = append(sites, CallSite{Call: ce, Callee: fn, Unit: u, Lit: lit, Stack: st})
				}
				switch f := ast.Unparen(ce.Fun).(type) {
				case *ast.Ident:
					called[f] = true
				case *ast.SelectorExpr:
					called[f.Sel] = true
				}
			}
			if id, ok := n.(*ast.Ident); ok && !called[id] {
				if fn, ok := info.Uses[id].(*types.Func); ok && want[originOf(fn)] {
					st := make([]ast.Node, len(stack))
					copy(st, stack)
					refs = append(refs, CallSite{Callee: originOf(fn), Unit: u, Stack: st})
				}
			}
			return true
		})
	}
	return
}

func sortedKeys[V any](m map[string]V) []string {
	ks := make([]string, 0, len(m))
	for k := range m {
		ks = append(ks, k)
	}
	sort.Strings(ks)
	return ks
}

// unitOfPos finds the declared function containing pos.
func (c *Ctx) unitOfPos(p *packages.Package, pos token.Pos) (FuncUnit, bool) {
	for _, f := range p.Syntax {
		if pos < f.Pos() || pos > f.End() {
			continue
		}
		for _, d := range f.Decls {
			if fd, ok := d.(*ast.FuncDecl); ok && fd.Pos() <= pos && pos <= fd.End() {
				if obj, ok := p.TypesInfo.Defs[fd.Name].(*types.Func); ok {
					return FuncUnit{obj, fd, p}, true
				}
			}
		}
	}
	return FuncUnit{}, false
}

// PathOfResolved is PathOf with pointer aliases expanded: when the path's root
// is a local pointer variable that is defined exactly once in body from an
// expression that is itself an access path (`top := env.Runtime.Stack.Top()`),
// the root is replaced by that path, so `top.Terminal` and
// `env.Runtime.Stack.Top().Terminal` are recognised as the same storage.
func PathOfResolved(info *types.Info, body ast.Node, e ast.Expr) (AccessPath, bool) {
	p, ok := PathOf(info, e)
	if !ok || body == nil {
		return p, ok
	}
	for depth := 0; depth < 3; depth++ {
		v, isVar := p.Root.(*types.Var)
		if !isVar || v.IsField() || v.Parent() == nil || v.Pkg() == nil || v.Parent() == v.Pkg().Scope() {
			return p, true
		}
		if _, isPtr := v.Type().Underlying().(*types.Pointer); !isPtr {
			return p, true
		}
		var def ast.Expr
		n := 0
		ast.Inspect(body, func(m ast.Node) bool {
			if as, ok := m.(*ast.AssignStmt); ok && len(as.Lhs) == len(as.Rhs) {
				for i, l := range as.Lhs {
					if id, ok := l.(*ast.Ident); ok && (info.Defs[id] == v || info.Uses[id] == v) {
						n++
						def = as.Rhs[i]
					}
				}
			}
			return true
		})
		if n != 1 || def == nil {
			return p, true
		}
		q, ok := PathOf(info, def)
		if !ok {
			return p, true
		}
		q.Elems = append(append([]string(nil), q.Elems...), p.Elems...)
		q.Last = p.Last
		p = q
	}
	return p, true
}

// aliasResolvedString renders a selector/index chain with its root expanded
// through single-definition local aliases (`head := v.Cells[0]` makes
// `head.quoted` read `v.Cells[0].quoted`), so that a test written on the alias
// and one written on the full path are recognised as the same test.
func aliasResolvedString(info *types.Info, body ast.Node, e ast.Expr) string {
	return aliasResolvedDepth(info, body, e, 0)
}

func aliasResolvedDepth(info *types.Info, body ast.Node, e ast.Expr, depth int) string {
	e = ast.Unparen(e)
	full := types.ExprString(e)
	if body == nil || depth > 3 {
		return full
	}
	root := e
	for {
		switch x := ast.Unparen(root).(type) {
		case *ast.SelectorExpr:
			root = x.X
			continue
		case *ast.IndexExpr:
			root = x.X
			continue
		}
		break
	}
	id, ok := ast.Unparen(root).(*ast.Ident)
	if !ok || !strings.HasPrefix(full, id.Name) {
		return full
	}
	v, ok := info.Uses[id].(*types.Var)
	if !ok || v.IsField() || v.Pkg() == nil || v.Parent() == v.Pkg().Scope() {
		return full
	}
	var def ast.Expr
	n := 0
	ast.Inspect(body, func(m ast.Node) bool {
		switch x := m.(type) {
		case *ast.AssignStmt:
			for i, l := range x.Lhs {
				if lid, ok := l.(*ast.Ident); ok && (info.Defs[lid] == v || info.Uses[lid] == v) {
					n++
					if len(x.Lhs) == len(x.Rhs) {
						def = x.Rhs[i]
					} else {
						def = nil
						n++
					}
				}
			}
		case *ast.IncDecStmt:
			if lid, ok := x.X.(*ast.Ident); ok && info.Uses[lid] == v {
				n++
			}
		case *ast.RangeStmt:
			for _, l := range []ast.Expr{x.Key, x.Value} {
				if lid, ok := l.(*ast.Ident); ok && (info.Defs[lid] == v || info.Uses[lid] == v) {
					n += 2
				}
			}
		case *ast.UnaryExpr:
			if x.Op == token.AND {
				if lid, ok := ast.Unparen(x.X).(*ast.Ident); ok && info.Uses[lid] == v {
					n += 2
				}
			}
		}
		return true
	})
	if n != 1 || def == nil {
		return full
	}
	switch ast.Unparen(def).(type) {
	case *ast.SelectorExpr, *ast.IndexExpr, *ast.Ident:
	default:
		return full
	}
	return aliasResolvedDepth(info, body, def, depth+1) + full[len(id.Name):]
}
