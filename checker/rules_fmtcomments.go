package main

import (
	"fmt"
	"go/ast"
	"go/token"
	"go/types"
	"strings"

	"golang.org/x/tools/go/cfg"
)

// FMT.child-comments — comment preservation as a path property of the printer.
//
// The parser attaches a comment that precedes a node to that node
// (Meta.LeadingComments).  The printer function that writes the *children* of a
// list is the only code that can write those comments.  So: on every path to a
// call that prints a child (writeExpr / writeQuote / writeCompactExpr applied to
// an element of v.Cells), the child's leading comments were written
// (writeLeadingComments(child, ..)), or the path passed an edge that entails the
// child has none, or comments are being stripped by configuration.

type lcCtx struct {
	c        *Ctx
	info     *types.Info
	body     ast.Node
	lcField  *types.Var  // Meta.LeadingComments (or, in trailing mode, Meta.TrailingComment)
	trailing bool        // the tracked field is a pointer tested against nil
	predNoLC map[*types.Func]bool
	parentFn map[*types.Func]bool // hasComments-like: false => no child has leading comments
	stripFld *types.Var
	nodeP    types.Object // the function's node parameter (parent)
}

// canon gives a canonical spelling for a child expression: locals with a single
// definition `X.Cells[k]` are replaced by that expression.
func (lc *lcCtx) canon(e ast.Expr) string {
	e = ast.Unparen(e)
	if id, ok := e.(*ast.Ident); ok {
		o := lc.info.Uses[id]
		if o == nil {
			o = lc.info.Defs[id]
		}
		if o != nil {
			var def ast.Expr
			n := 0
			ast.Inspect(lc.body, func(m ast.Node) bool {
				if as, ok := m.(*ast.AssignStmt); ok && len(as.Lhs) == len(as.Rhs) {
					for i, l := range as.Lhs {
						if identObj(lc.info, l) == o {
							n++
							def = as.Rhs[i]
						}
					}
				}
				return true
			})
			if n == 1 {
				if ie, ok := ast.Unparen(def).(*ast.IndexExpr); ok {
					if se, ok := ast.Unparen(ie.X).(*ast.SelectorExpr); ok && se.Sel.Name == "Cells" {
						return types.ExprString(ie)
					}
				}
			}
			return fmt.Sprintf("obj:%s@%d", o.Name(), o.Pos())
		}
	}
	return types.ExprString(e)
}

// metaOf: ident M defined as fmtraw.Meta(X); returns canon(X).
func (lc *lcCtx) metaOf(e ast.Expr) (string, bool) {
	o := identObj(lc.info, e)
	if o == nil {
		if ce, ok := ast.Unparen(e).(*ast.CallExpr); ok && isFmtMetaCall(lc.info, ce) {
			return lc.canon(ce.Args[0]), true
		}
		return "", false
	}
	var res string
	found := false
	ast.Inspect(lc.body, func(m ast.Node) bool {
		as, ok := m.(*ast.AssignStmt)
		if !ok || len(as.Lhs) != 1 || len(as.Rhs) != 1 {
			return true
		}
		if lc.info.Defs[identOf(as.Lhs[0])] != o {
			return true
		}
		if ce, ok := ast.Unparen(as.Rhs[0]).(*ast.CallExpr); ok && isFmtMetaCall(lc.info, ce) {
			res, found = lc.canon(ce.Args[0]), true
		}
		return true
	})
	return res, found
}

func identOf(e ast.Expr) *ast.Ident {
	id, _ := ast.Unparen(e).(*ast.Ident)
	return id
}

// classifier returns the atom classifier for child X (canonical spelling).
func (lc *lcCtx) classifier(child string) func(e ast.Expr) (string, bool) {
	return func(e ast.Expr) (string, bool) {
		e = ast.Unparen(e)
		switch x := e.(type) {
		case *ast.BinaryExpr:
			// len(M.LeadingComments) > 0 | != 0 | == 0
			if ce, ok := ast.Unparen(x.X).(*ast.CallExpr); ok {
				if id, ok := ast.Unparen(ce.Fun).(*ast.Ident); ok && id.Name == "len" && len(ce.Args) == 1 {
					if se, ok := ast.Unparen(ce.Args[0]).(*ast.SelectorExpr); ok && FieldOfSelector(lc.info, se) == lc.lcField {
						if who, ok := lc.metaOf(se.X); ok && who == child {
							if k, ok := intConst(lc.info, x.Y); ok && k == 0 {
								switch x.Op {
								case token.GTR, token.NEQ:
									return "hasLC", false
								case token.EQL, token.LEQ:
									return "hasLC", true
								}
							}
						}
					}
				}
			}
			// trailing mode: M.TrailingComment != nil / == nil
			if lc.trailing {
				if tv, ok := lc.info.Types[x.Y]; ok && tv.IsNil() && (x.Op == token.NEQ || x.Op == token.EQL) {
					if se, ok := ast.Unparen(x.X).(*ast.SelectorExpr); ok && FieldOfSelector(lc.info, se) == lc.lcField {
						if who, ok := lc.metaOf(se.X); ok && who == child {
							return "hasLC", x.Op == token.EQL
						}
					}
				}
			}
			// M != nil / M == nil
			if tv, ok := lc.info.Types[x.Y]; ok && tv.IsNil() && (x.Op == token.NEQ || x.Op == token.EQL) {
				if who, ok := lc.metaOf(x.X); ok && who == child {
					return "mNonNil", x.Op == token.EQL
				}
			}
		case *ast.CallExpr:
			fn := originOf(Callee(lc.info, x))
			if fn != nil && lc.predNoLC[fn] && len(x.Args) >= 1 && lc.canon(x.Args[0]) == child {
				return "pred", false
			}
			if fn != nil && lc.parentFn[fn] && len(x.Args) >= 1 && lc.nodeP != nil && identObj(lc.info, x.Args[0]) == lc.nodeP {
				return "parentHasComments", false
			}
		case *ast.Ident:
			// a bool local defined once as pred(X)
			o := lc.info.Uses[x]
			if o != nil {
				var call *ast.CallExpr
				n := 0
				ast.Inspect(lc.body, func(m ast.Node) bool {
					if as, ok := m.(*ast.AssignStmt); ok && len(as.Lhs) == len(as.Rhs) {
						for i, l := range as.Lhs {
							if identObj(lc.info, l) == o {
								n++
								call, _ = ast.Unparen(as.Rhs[i]).(*ast.CallExpr)
							}
						}
					}
					return true
				})
				if n == 1 && call != nil {
					fn := originOf(Callee(lc.info, call))
					if fn != nil && lc.predNoLC[fn] && len(call.Args) >= 1 && lc.canon(call.Args[0]) == child {
						return "pred", false
					}
				}
			}
		case *ast.SelectorExpr:
			if FieldOfSelector(lc.info, x) == lc.stripFld {
				return "strip", false
			}
		}
		return "", false
	}
}

// noLCGoal: the edge establishes that the child has no leading comments to
// write (or that comments are stripped).  Each disjunct is a fact on its own;
// atoms that do not occur in a condition are universally quantified by
// edgeEntails, so a disjunct only helps when the condition really tests it.
func noLCGoal(v map[string]bool) bool {
	for _, a := range []string{"hasLC", "mNonNil", "pred", "parentHasComments"} {
		if v["$has:"+a] && !v[a] {
			return true
		}
	}
	return v["$has:strip"] && v["strip"]
}


// falseImpliesNoLC: does the bool function fn(x) return false only when x has
// no leading comments?
func (c *Ctx) falseImpliesNoLC(fn *types.Func, base *lcCtx) bool {
	fd := c.declOf[fn]
	if fd == nil || fd.Body == nil {
		return false
	}
	u := FuncUnit{fn, fd, c.pkgOf[fd]}
	ps := paramObjs(u)
	if len(ps) < 1 {
		return false
	}
	lc := *base
	lc.info, lc.body, lc.nodeP = u.Pkg.TypesInfo, fd.Body, nil
	lc.predNoLC, lc.parentFn = map[*types.Func]bool{}, map[*types.Func]bool{}
	child := fmt.Sprintf("obj:%s@%d", ps[0].Name(), ps[0].Pos())
	cls := lc.classifier(child)
	fc := c.cfgOf(u, nil)
	cut := fc.edgesEntailing(cls, noLCGoal)
	for _, b := range fc.G.Blocks {
		if !fc.Live(b) {
			continue
		}
		for _, n := range b.Nodes {
			rs, ok := n.(*ast.ReturnStmt)
			if !ok || len(rs.Results) != 1 {
				continue
			}
			if isBoolConst(lc.info, rs.Results[0], true) {
				continue
			}
			// (not R) => goal ?
			if formulaFalseEntails(rs.Results[0], cls, noLCGoal) {
				continue
			}
			if !fc.reachableAvoiding(b, cut) {
				continue
			}
			return false
		}
	}
	return true
}

// formulaFalseEntails: for every assignment of the atoms of e that makes e false, goal holds.
func formulaFalseEntails(e ast.Expr, cls func(e ast.Expr) (string, bool), goal func(v map[string]bool) bool) bool {
	type atom struct {
		name string
		neg  bool
	}
	atoms := map[ast.Expr]atom{}
	var names []string
	seen := map[string]bool{}
	nfree := 0
	var collect func(e ast.Expr)
	collect = func(e ast.Expr) {
		e = ast.Unparen(e)
		switch x := e.(type) {
		case *ast.UnaryExpr:
			if x.Op == token.NOT {
				collect(x.X)
				return
			}
		case *ast.BinaryExpr:
			if x.Op == token.LAND || x.Op == token.LOR {
				collect(x.X)
				collect(x.Y)
				return
			}
		}
		n, neg := cls(e)
		if n == "" {
			nfree++
			n = fmt.Sprintf("$free%d", nfree)
		}
		atoms[e] = atom{n, neg}
		if !seen[n] {
			seen[n] = true
			names = append(names, n)
		}
	}
	collect(e)
	if len(names) > 12 {
		return false
	}
	var eval func(e ast.Expr, v map[string]bool) bool
	eval = func(e ast.Expr, v map[string]bool) bool {
		e = ast.Unparen(e)
		switch x := e.(type) {
		case *ast.UnaryExpr:
			if x.Op == token.NOT {
				return !eval(x.X, v)
			}
		case *ast.BinaryExpr:
			if x.Op == token.LAND {
				return eval(x.X, v) && eval(x.Y, v)
			}
			if x.Op == token.LOR {
				return eval(x.X, v) || eval(x.Y, v)
			}
		}
		a := atoms[e]
		return v[a.name] != a.neg
	}
	any := false
	for mask := 0; mask < 1<<len(names); mask++ {
		v := map[string]bool{}
		for i, n := range names {
			v[n] = mask&(1<<i) != 0
			v["$has:"+n] = true
		}
		// atoms of the goal that e does not mention stay false in v, which can only
		// make the goal harder for the !x disjuncts? no: absent atoms read false and
		// would satisfy "!v[x]" — noLCGoal guards every disjunct by `have`, and the
		// callers pass only the atoms e can mention.
		if eval(e, v) {
			continue
		}
		any = true
		if !goal(v) {
			return false
		}
	}
	return any
}

// falseImpliesNoChildLC: parent-level predicate (hasComments): false only if no
// element of param.Cells has leading comments: a `for _, c := range param.Cells`
// whose body starts with `if COND { return true }` with (not COND) => noLC(c).
func (c *Ctx) falseImpliesNoChildLC(fn *types.Func, base *lcCtx) bool {
	fd := c.declOf[fn]
	if fd == nil || fd.Body == nil {
		return false
	}
	u := FuncUnit{fn, fd, c.pkgOf[fd]}
	ps := paramObjs(u)
	if len(ps) < 1 {
		return false
	}
	info := u.Pkg.TypesInfo
	ok := false
	ast.Inspect(fd.Body, func(n ast.Node) bool {
		rs, isR := n.(*ast.RangeStmt)
		if !isR || rs.Value == nil {
			return true
		}
		se, isS := ast.Unparen(rs.X).(*ast.SelectorExpr)
		if !isS || se.Sel.Name != "Cells" || identObj(info, se.X) != ps[0] {
			return true
		}
		if len(rs.Body.List) == 0 {
			return true
		}
		is, isI := rs.Body.List[0].(*ast.IfStmt)
		if !isI || len(is.Body.List) != 1 {
			return true
		}
		ret, isRet := is.Body.List[0].(*ast.ReturnStmt)
		if !isRet || len(ret.Results) != 1 || !isBoolConst(info, ret.Results[0], true) {
			return true
		}
		lc := *base
		lc.info, lc.body, lc.nodeP = info, fd.Body, nil
		lc.predNoLC, lc.parentFn = map[*types.Func]bool{}, map[*types.Func]bool{}
		vo := identObj(info, rs.Value)
		child := fmt.Sprintf("obj:%s@%d", vo.Name(), vo.Pos())
		if formulaFalseEntails(is.Cond, lc.classifier(child), noLCGoal) {
			ok = true
		}
		return true
	})
	return ok
}

func init() {
	register(&Rule{ID: "FMT.child-comments", Floor: 6,
		Doc: "in the formatter's printer, every call that prints a child of the node being written (writeExpr / writeQuote / writeCompactExpr on an element of v.Cells, or on a top-level expression) is reached only after that child's leading comments were written (writeLeadingComments on the same child) or over an edge that entails the child has none (len(Meta(child).LeadingComments) == 0, Meta(child) == nil, a predicate such as hasNewlineBefore(child) that is false only without comments, !hasComments(parent)) or that comments are stripped by configuration: no path drops a comment the parser recorded",
		Run: func(c *Ctx) []Obligation {
			lcField := c.LookupField("internal/fmtmeta.Meta.LeadingComments")
			stripFld := c.LookupField("formatter.Config.StripComments")
			wlc := c.LookupMethod("formatter.printer.writeLeadingComments")
			if lcField == nil || stripFld == nil || wlc == nil {
				return []Obligation{anchorMissing("FMT.child-comments", "fmtraw.Meta / Meta.LeadingComments / Config.StripComments / printer.writeLeadingComments")}
			}
			base := &lcCtx{c: c, lcField: lcField, stripFld: stripFld}
			// predicate summaries over package formatter
			predNoLC := map[*types.Func]bool{}
			parentFn := map[*types.Func]bool{}
			units := c.Funcs(func(p string) bool { return rel(p) == "formatter" })
			for _, u := range units {
				sig := u.Obj.Type().(*types.Signature)
				if sig.Results().Len() != 1 || !types.Identical(sig.Results().At(0).Type(), types.Typ[types.Bool]) || sig.Params().Len() < 1 {
					continue
				}
				if !strings.HasSuffix(sig.Params().At(0).Type().String(), "lisp.LVal") {
					continue
				}
				if c.falseImpliesNoLC(u.Obj, base) {
					predNoLC[u.Obj] = true
				}
				if c.falseImpliesNoChildLC(u.Obj, base) {
					parentFn[u.Obj] = true
				}
			}
			writers := map[string]bool{"writeExpr": true, "writeQuote": true, "writeCompactExpr": true, "writeSExpr": true, "writeListInner": true, "writeCompactList": true}
			// dischargers: writeLeadingComments itself, and every printer method that — for one of its
			// node parameters — writes that node's leading comments or crosses an edge entailing it has
			// none on EVERY path to its exit (`breakLineBefore(child, indent)`): calling one on a child
			// discharges the obligation exactly as the statements written in its place did
			disch := map[*types.Func]int{wlc: 0}
			for _, u := range units {
				sig := u.Obj.Type().(*types.Signature)
				if sig.Recv() == nil || !strings.HasSuffix(canonTypes(sig.Recv().Type().String()), "formatter.printer") || originOf(u.Obj) == wlc || writers[shortName(u.Obj)] {
					continue
				}
				info := u.Pkg.TypesInfo
				for k, pp := range paramObjs(u) {
					if !strings.HasSuffix(pp.Type().String(), "lisp.LVal") {
						continue
					}
					lc := *base
					lc.info, lc.body, lc.predNoLC, lc.parentFn, lc.nodeP = info, u.Decl.Body, predNoLC, parentFn, nil
					child := fmt.Sprintf("obj:%s@%d", pp.Name(), pp.Pos())
					fc := c.cfgOf(u, nil)
					cut := fc.edgesEntailing(lc.classifier(child), noLCGoal)
					blocked := map[*cfg.Block]bool{}
					for _, ob := range fc.G.Blocks {
						for _, on := range ob.Nodes {
							for _, oc := range callsIn(on, false) {
								if originOf(Callee(info, oc)) == wlc && len(oc.Args) >= 1 && lc.canon(oc.Args[0]) == child {
									blocked[ob] = true
								}
							}
						}
					}
					if len(blocked) == 0 {
						continue // a function that never writes them is not a discharger, whatever it tests
					}
					all := true
					for _, xb := range fc.G.Blocks {
						if !fc.Live(xb) || len(xb.Succs) != 0 || blocked[xb] {
							continue
						}
						if fc.reachableAvoidingBlocks(xb, cut, blocked) {
							all = false
						}
					}
					if all {
						disch[originOf(u.Obj)] = k
					}
				}
			}
			var obs []Obligation
			var sums []string
			for f := range predNoLC {
				sums = append(sums, f.Name()+"(x)=false => x has no leading comments")
			}
			for f := range parentFn {
				sums = append(sums, f.Name()+"(v)=false => no child of v has leading comments")
			}
			sortStrings(sums)
			obs = append(obs, Obligation{Rule: "FMT.child-comments", Func: "formatter", Construct: "predicate summaries", Verdict: Proved, Detail: strings.Join(sums, "; "), Nontrivial: true})
			for _, u := range units {
				sig := u.Obj.Type().(*types.Signature)
				if sig.Recv() == nil || !strings.HasSuffix(canonTypes(sig.Recv().Type().String()), "formatter.printer") {
					continue
				}
				info := u.Pkg.TypesInfo
				var nodeP types.Object
				for _, p := range paramObjs(u) {
					if strings.HasSuffix(p.Type().String(), "lisp.LVal") && nodeP == nil {
						nodeP = p
					}
				}
				lc := *base
				lc.info, lc.body, lc.predNoLC, lc.parentFn, lc.nodeP = info, u.Decl.Body, predNoLC, parentFn, nodeP
				fc := c.cfgOf(u, nil)
				ord := &ordinal{}
				for _, b := range fc.G.Blocks {
					if !fc.Live(b) {
						continue
					}
					for idx, n := range b.Nodes {
						for _, ce := range callsIn(n, false) {
							fn := originOf(Callee(info, ce))
							if fn == nil || !writers[shortName(originOf(fn))] || len(ce.Args) < 1 {
								continue
							}
							if rs := fn.Type().(*types.Signature).Recv(); rs == nil || !strings.HasSuffix(canonTypes(rs.Type().String()), "formatter.printer") {
								continue
							}
							arg := ce.Args[0]
							// delegation of the node itself: the caller of this function is responsible
							if nodeP != nil && identObj(info, arg) == nodeP {
								continue
							}
							child := lc.canon(arg)
							construct := shortName(fn) + "(" + elemShape(info, u.Decl.Body, arg) + ")"
							if c.quoteOperandSite(fc, b, arg) {
								// the operand of a quote node, however the chain is walked (recursion
								// on v.Cells[0] under v.Type == LQuote, or a loop stepping a local)
								construct = "quote operand"
							}
							construct = ord.next(construct)
							cls := lc.classifier(child)
							cut := fc.edgesEntailing(cls, noLCGoal)
							blocked := map[*cfg.Block]bool{}
							sameBlock := false
							for _, ob := range fc.G.Blocks {
								for j, on := range ob.Nodes {
									for _, oc := range callsIn(on, false) {
										if dk, isD := disch[originOf(Callee(info, oc))]; isD && originOf(Callee(info, oc)) != nil && dk < len(oc.Args) && lc.canon(oc.Args[dk]) == child {
											if ob == b {
												if j <= idx {
													sameBlock = true
												}
											} else {
												blocked[ob] = true
											}
										}
									}
								}
							}
							switch {
							case sameBlock:
								obs = append(obs, mkOb(c, "FMT.child-comments", u, construct, ce, Proved, "writeLeadingComments on the same child precedes it in the block", true))
							case !fc.reachableAvoidingBlocks(b, cut, blocked):
								obs = append(obs, mkOb(c, "FMT.child-comments", u, construct, ce, Proved,
									fmt.Sprintf("every path writes the child's leading comments (%d blocks) or passes an edge entailing there are none / they are stripped (%d edges)", len(blocked), len(cut)), true))
							default:
								obs = append(obs, mkOb(c, "FMT.child-comments", u, construct, ce, Undecided,
									"the child is printed on a path that neither wrote its leading comments nor established that it has none: a comment the parser attached to `"+types.ExprString(arg)+"` would be dropped", true))
							}
						}
					}
				}
			}
			return obs
		}})
}

// isFmtMetaCall: ce is fmtraw.Meta(x) (Meta is a package-level function variable).
func isFmtMetaCall(info *types.Info, ce *ast.CallExpr) bool {
	if len(ce.Args) != 1 {
		return false
	}
	var id *ast.Ident
	switch f := ast.Unparen(ce.Fun).(type) {
	case *ast.SelectorExpr:
		id = f.Sel
	case *ast.Ident:
		id = f
	}
	if id == nil {
		return false
	}
	o := info.Uses[id]
	return o != nil && o.Name() == "Meta" && o.Pkg() != nil && strings.HasSuffix(o.Pkg().Path(), "internal/fmtraw")
}

func init() {
	register(&Rule{ID: "FMT.child-trailing", Floor: 5,
		Doc: "in the formatter's printer, after every call that prints a child of the node being written, every path to the end of the function (or to the next turn of the child loop) calls writeTrailingComment on that child — unless the call was reached over an edge that entails the child has no trailing comment (!hasComments(parent)) or that comments are stripped: the inline comment recorded after a node is never dropped",
		Run: func(c *Ctx) []Obligation {
			tcField := c.LookupField("internal/fmtmeta.Meta.TrailingComment")
			stripFld := c.LookupField("formatter.Config.StripComments")
			wtc := c.LookupMethod("formatter.printer.writeTrailingComment")
			if tcField == nil || stripFld == nil || wtc == nil {
				return []Obligation{anchorMissing("FMT.child-trailing", "Meta.TrailingComment / Config.StripComments / printer.writeTrailingComment")}
			}
			base := &lcCtx{c: c, lcField: tcField, stripFld: stripFld, trailing: true}
			parentFn := map[*types.Func]bool{}
			units := c.Funcs(func(p string) bool { return rel(p) == "formatter" })
			for _, u := range units {
				sig := u.Obj.Type().(*types.Signature)
				if sig.Results().Len() != 1 || !types.Identical(sig.Results().At(0).Type(), types.Typ[types.Bool]) || sig.Params().Len() < 1 {
					continue
				}
				if strings.HasSuffix(sig.Params().At(0).Type().String(), "lisp.LVal") && c.falseImpliesNoChildLC(u.Obj, base) {
					parentFn[u.Obj] = true
				}
			}
			writers := map[string]bool{"writeExpr": true, "writeQuote": true, "writeCompactExpr": true, "writeSExpr": true, "writeListInner": true, "writeCompactList": true}
			var obs []Obligation
			var sums []string
			for f := range parentFn {
				sums = append(sums, f.Name()+"(v)=false => no child of v has a trailing comment")
			}
			sortStrings(sums)
			obs = append(obs, Obligation{Rule: "FMT.child-trailing", Func: "formatter", Construct: "predicate summaries", Verdict: Proved, Detail: strings.Join(sums, "; "), Nontrivial: true})
			for _, u := range units {
				sig := u.Obj.Type().(*types.Signature)
				if sig.Recv() == nil || !strings.HasSuffix(canonTypes(sig.Recv().Type().String()), "formatter.printer") {
					continue
				}
				info := u.Pkg.TypesInfo
				var nodeP types.Object
				for _, p := range paramObjs(u) {
					if strings.HasSuffix(p.Type().String(), "lisp.LVal") && nodeP == nil {
						nodeP = p
					}
				}
				lc := *base
				lc.info, lc.body, lc.predNoLC, lc.parentFn, lc.nodeP = info, u.Decl.Body, map[*types.Func]bool{}, parentFn, nodeP
				fc := c.cfgOf(u, nil)
				ord := &ordinal{}
				for _, b := range fc.G.Blocks {
					if !fc.Live(b) {
						continue
					}
					for idx, n := range b.Nodes {
						for _, ce := range callsIn(n, false) {
							fn := originOf(Callee(info, ce))
							if fn == nil || !writers[shortName(originOf(fn))] || len(ce.Args) < 1 {
								continue
							}
							if rs := fn.Type().(*types.Signature).Recv(); rs == nil || !strings.HasSuffix(canonTypes(rs.Type().String()), "formatter.printer") {
								continue
							}
							arg := ce.Args[0]
							if nodeP != nil && identObj(info, arg) == nodeP {
								continue
							}
							child := lc.canon(arg)
							construct := shortName(fn) + "(" + elemShape(info, u.Decl.Body, arg) + ")"
							if c.quoteOperandSite(fc, b, arg) {
								// the operand of a quote node, however the chain is walked (recursion
								// on v.Cells[0] under v.Type == LQuote, or a loop stepping a local)
								construct = "quote operand"
							}
							construct = ord.next(construct)
							// blocks that write the child's trailing comment
							blocked := map[*cfg.Block]bool{}
							same := false
							for _, ob := range fc.G.Blocks {
								for j, on := range ob.Nodes {
									for _, oc := range callsIn(on, false) {
										if originOf(Callee(info, oc)) == wtc && len(oc.Args) >= 1 && lc.canon(oc.Args[0]) == child {
											if ob == b && j >= idx {
												same = true
											}
											blocked[ob] = true
										}
									}
								}
							}
							if same {
								obs = append(obs, mkOb(c, "FMT.child-trailing", u, construct, ce, Proved, "writeTrailingComment on the same child follows in the block", true))
								continue
							}
							// forward: can an exit or the site block itself be reached without a blocked block?
							escapes := false
							seen := map[*cfg.Block]bool{}
							var dfs func(x *cfg.Block)
							dfs = func(x *cfg.Block) {
								if escapes || seen[x] || blocked[x] {
									return
								}
								seen[x] = true
								if len(x.Succs) == 0 || x == b {
									escapes = true
									return
								}
								for _, s := range x.Succs {
									dfs(s)
								}
							}
							if len(b.Succs) == 0 {
								escapes = true
							}
							for _, s := range b.Succs {
								if s == b {
									escapes = true
								}
								dfs(s)
							}
							if !escapes {
								obs = append(obs, mkOb(c, "FMT.child-trailing", u, construct, ce, Proved, "every path from the call to the function's end or the next loop turn writes the child's trailing comment", true))
								continue
							}
							cut := fc.edgesEntailing(lc.classifier(child), noLCGoal)
							if len(cut) > 0 && !fc.reachableAvoiding(b, cut) {
								obs = append(obs, mkOb(c, "FMT.child-trailing", u, construct, ce, Proved, fmt.Sprintf("reached only over an edge entailing the child has no trailing comment or comments are stripped (%d edges)", len(cut)), true))
								continue
							}
							obs = append(obs, mkOb(c, "FMT.child-trailing", u, construct, ce, Undecided,
								"after printing `"+types.ExprString(arg)+"` a path reaches the end of the function (or the next child) without writeTrailingComment on it: an inline comment recorded after that child would be dropped", true))
						}
					}
				}
			}
			return obs
		}})
}

func init() {
	register(&Rule{ID: "FMT.original-text", Floor: 4,
		Doc: "every store to Meta.OriginalText (the spelling the formatter re-emits for a literal) is a concatenation of texts of tokens the parser consumed (p.TokenText() results): no constant, parameter or re-rendered value takes part, so #XFF, 1e3, escapes and raw strings are re-emitted exactly as written",
		Run: func(c *Ctx) []Obligation {
			fld := c.LookupField("internal/fmtmeta.Meta.OriginalText")
			tokText := c.LookupMethod("parser/rdparser.Parser.TokenText")
			if fld == nil || tokText == nil {
				return []Obligation{anchorMissing("FMT.original-text", "Meta.OriginalText / Parser.TokenText")}
			}
			var obs []Obligation
			// leafOK: e is TokenText() or a local whose every definition is TokenText() / a concatenation
			// of such; a parameter of an unexported helper (`p.recordLiteralText(v, text)`) is what
			// every call of the helper passes
			type viaSite struct {
				u    FuncUnit
				call *ast.CallExpr
			}
			var via []viaSite
			var leafOK func(u FuncUnit, e ast.Expr, depth int) (bool, string)
			leafOK = func(u FuncUnit, e ast.Expr, depth int) (bool, string) {
				info := u.Pkg.TypesInfo
				e = ast.Unparen(e)
				if depth > 6 {
					return false, "definition chain too deep"
				}
				switch x := e.(type) {
				case *ast.BinaryExpr:
					if x.Op == token.ADD {
						if ok, why := leafOK(u, x.X, depth); !ok {
							return false, why
						}
						return leafOK(u, x.Y, depth)
					}
				case *ast.CallExpr:
					if originOf(Callee(info, x)) == tokText {
						return true, ""
					}
				case *ast.SelectorExpr:
					// tok.Text of a *token.Token
					if x.Sel.Name == "Text" {
						if tv, ok := info.Types[x.X]; ok && strings.HasSuffix(tv.Type.String(), "token.Token") {
							return true, ""
						}
					}
				case *ast.Ident:
					o := info.Uses[x]
					if v, ok := o.(*types.Var); ok && !v.IsField() {
						if v.Parent() != nil && v.Parent() == v.Pkg().Scope() {
							return false, "package-level variable " + v.Name()
						}
						// parameter?
						for k, p := range paramObjs(u) {
							if p != o {
								continue
							}
							sites, refs := c.CallsTo(nil, u.Obj)
							if u.Obj.Exported() || len(refs) > 0 || len(sites) == 0 {
								return false, "parameter `" + v.Name() + "` (a value chosen by the caller, not the token's own text)"
							}
							for _, st := range sites {
								if k >= len(st.Call.Args) || st.Call.Ellipsis.IsValid() {
									return false, "parameter `" + v.Name() + "` passed variadically"
								}
								if ok2, w := leafOK(st.Unit, st.Call.Args[k], depth+1); !ok2 {
									return false, "parameter `" + v.Name() + "`, and the call in " + st.Unit.Name() + " passes a value that is not a consumed token's text: " + w
								}
								via = append(via, viaSite{st.Unit, st.Call})
							}
							return true, ""
						}
						ndef := 0
						okAll := true
						why := ""
						ast.Inspect(u.Decl.Body, func(n ast.Node) bool {
							as, ok := n.(*ast.AssignStmt)
							if !ok || len(as.Lhs) != len(as.Rhs) {
								return true
							}
							for i, l := range as.Lhs {
								if identObj(info, l) == o {
									ndef++
									if ok2, w := leafOK(u, as.Rhs[i], depth+1); !ok2 {
										okAll, why = false, w
									}
								}
							}
							return true
						})
						if ndef == 0 {
							return false, "`" + v.Name() + "` has no visible definition"
						}
						return okAll, why
					}
				}
				return false, "`" + types.ExprString(e) + "` is not the text of a consumed token"
			}
			for _, u := range c.Funcs(func(p string) bool { return strings.HasPrefix(rel(p), "parser") }) {
				info := u.Pkg.TypesInfo
				ord := &ordinal{}
				ast.Inspect(u.Decl.Body, func(n ast.Node) bool {
					as, ok := n.(*ast.AssignStmt)
					if !ok || len(as.Lhs) != len(as.Rhs) {
						return true
					}
					for i, l := range as.Lhs {
						if FieldOfSelector(info, l) != fld {
							continue
						}
						construct := ord.next("store OriginalText")
						via = nil
						if ok, why := leafOK(u, as.Rhs[i], 0); ok {
							obs = append(obs, mkOb(c, "FMT.original-text", u, construct, as, Proved, "`"+types.ExprString(as.Rhs[i])+"` is built from consumed token texts only", true))
							vord := map[string]*ordinal{}
							for _, vs := range via {
								if vord[vs.u.Name()] == nil {
									vord[vs.u.Name()] = &ordinal{}
								}
								obs = append(obs, mkOb(c, "FMT.original-text", vs.u, vord[vs.u.Name()].next("store OriginalText through "+shortName(u.Obj)), vs.call, Proved, "the spelling handed to the recording helper is built from consumed token texts only", true))
							}
						} else {
							obs = append(obs, mkOb(c, "FMT.original-text", u, construct, as, Violated, "the recorded spelling `"+types.ExprString(as.Rhs[i])+"` is not the consumed tokens' own text ("+why+"): the formatter would re-emit a different spelling than the source had", true))
						}
					}
					return true
				})
			}
			return obs
		}})
}

func init() {
	register(&Rule{ID: "FMT.prefix-not-data", Floor: 2,
		Doc: "the printer re-sugars (lisp:function x) / (lisp:expr x) to #'x / #^x (tryPrefixForm) only for a node established on the path not to be a bracket list: every call is reached over an edge entailing Meta(v).BracketType != '[' or !v.IsQuoted(), in the function itself or — when the function passes its own node on — at every call of that function; a data list [lisp:function f] is never rewritten into a function reference",
		Run: func(c *Ctx) []Obligation {
			try := c.LookupMethod("formatter.printer.tryPrefixForm")
			btFld := c.LookupField("internal/fmtmeta.Meta.BracketType")
			isQuoted := c.LookupMethod("lisp.LVal.IsQuoted")
			if try == nil || btFld == nil || isQuoted == nil {
				return []Obligation{anchorMissing("FMT.prefix-not-data", "printer.tryPrefixForm / Meta.BracketType / LVal.IsQuoted")}
			}
			units := c.Funcs(func(p string) bool { return rel(p) == "formatter" })
			byObj := map[*types.Func]FuncUnit{}
			for _, u := range units {
				byObj[u.Obj] = u
			}
			// guarded(u, call, arg): is `call` in u reachable only over edges entailing "arg is not a bracket list"?
			var guarded func(u FuncUnit, call *ast.CallExpr, arg ast.Expr, depth int) (bool, string)
			guarded = func(u FuncUnit, call *ast.CallExpr, arg ast.Expr, depth int) (bool, string) {
				info := u.Pkg.TypesInfo
				lc := &lcCtx{c: c, info: info, body: u.Decl.Body}
				who := lc.canon(arg)
				cls := func(e ast.Expr) (string, bool) {
					e = ast.Unparen(e)
					switch x := e.(type) {
					case *ast.BinaryExpr:
						if (x.Op == token.EQL || x.Op == token.NEQ) && FieldOfSelector(info, x.X) == btFld {
							if se, ok := ast.Unparen(x.X).(*ast.SelectorExpr); ok {
								if w, ok := lc.metaOf(se.X); ok && w == who {
									if v, ok := constantInt64(info.Types[x.Y]); ok && v == '[' {
										return "bracket", x.Op == token.NEQ
									}
								}
							}
						}
						// Meta(v) == nil: no metadata, hence no recorded bracket
						if tv, ok := info.Types[x.Y]; ok && tv.IsNil() && (x.Op == token.NEQ || x.Op == token.EQL) {
							if w, ok := lc.metaOf(x.X); ok && w == who {
								return "mNonNil", x.Op == token.EQL
							}
						}
					case *ast.CallExpr:
						if originOf(Callee(info, x)) == isQuoted {
							if se, ok := ast.Unparen(x.Fun).(*ast.SelectorExpr); ok && lc.canon(se.X) == who {
								return "quoted", false
							}
						}
					}
					return "", false
				}
				fc := c.cfgOf(u, nil)
				loc, ok := fc.Locate(call)
				if !ok {
					return false, "call not located in the CFG"
				}
				cut := fc.edgesEntailing(cls, func(v map[string]bool) bool {
					return (v["$has:bracket"] && !v["bracket"]) || (v["$has:quoted"] && !v["quoted"]) || (v["$has:mNonNil"] && !v["mNonNil"])
				})
				if len(cut) > 0 && !fc.reachableAvoiding(loc.B, cut) {
					return true, fmt.Sprintf("in %s over %d guarding edges", u.Name(), len(cut))
				}
				// lift: the argument is the function's own node parameter
				if depth > 0 {
					var nodeP types.Object
					for _, p := range paramObjs(u) {
						if strings.HasSuffix(p.Type().String(), "lisp.LVal") && nodeP == nil {
							nodeP = p
						}
					}
					if nodeP != nil && identObj(info, arg) == nodeP {
						sites, _ := c.CallsTo(func(p string) bool { return rel(p) == "formatter" }, u.Obj)
						if len(sites) == 0 {
							return false, u.Name() + " has no callers to lift the guard to"
						}
						var whys []string
						for _, s := range sites {
							if s.Call == nil || len(s.Call.Args) < 1 {
								return false, "caller " + s.Unit.Name() + " uses " + u.Obj.Name() + " as a value"
							}
							ok, why := guarded(s.Unit, s.Call, s.Call.Args[0], depth-1)
							if !ok {
								return false, "caller " + s.Unit.Name() + ": " + why
							}
							whys = append(whys, why)
						}
						return true, "at every caller (" + strings.Join(whys, "; ") + ")"
					}
				}
				return false, "no edge on the way establishes that `" + types.ExprString(arg) + "` is not a bracket list"
			}
			var obs []Obligation
			// inside tryPrefixForm: the shorthand is written only for an unquoted symbol head
			if tfd := c.declOf[try]; tfd != nil && tfd.Body != nil {
				tu := FuncUnit{try, tfd, c.pkgOf[tfd]}
				tinfo := tu.Pkg.TypesInfo
				tfc := c.cfgOf(tu, nil)
				var nodeP types.Object
				for _, p := range paramObjs(tu) {
					if strings.HasSuffix(p.Type().String(), "lisp.LVal") && nodeP == nil {
						nodeP = p
					}
				}
				typeFld := c.LookupField("lisp.LVal.Type")
				isHead := func(e ast.Expr) bool {
					ie, ok := ast.Unparen(e).(*ast.IndexExpr)
					if !ok {
						return false
					}
					se, ok := ast.Unparen(ie.X).(*ast.SelectorExpr)
					if !ok || se.Sel.Name != "Cells" || identObj(tinfo, se.X) != nodeP {
						return false
					}
					k, ok := intConst(tinfo, ie.Index)
					return ok && k == 0
				}
				cls := func(e ast.Expr) (string, bool) {
					e = ast.Unparen(e)
					switch x := e.(type) {
					case *ast.CallExpr:
						if originOf(Callee(tinfo, x)) == isQuoted {
							if se, ok := ast.Unparen(x.Fun).(*ast.SelectorExpr); ok && isHead(se.X) {
								return "headQuoted", false
							}
						}
					case *ast.BinaryExpr:
						if (x.Op == token.EQL || x.Op == token.NEQ) && typeFld != nil && FieldOfSelector(tinfo, x.X) == typeFld {
							if se, ok := ast.Unparen(x.X).(*ast.SelectorExpr); ok && isHead(se.X) {
								if o, ok := identObjOrSel(tinfo, x.Y).(*types.Const); ok && o.Name() == "LSymbol" {
									return "headSym", x.Op == token.NEQ
								}
							}
						}
					}
					return "", false
				}
				cutQ := tfc.edgesEntailing(cls, func(v map[string]bool) bool { return v["$has:headQuoted"] && !v["headQuoted"] })
				cutS := tfc.edgesEntailing(cls, func(v map[string]bool) bool { return v["$has:headSym"] && v["headSym"] })
				o2 := &ordinal{}
				for _, b := range tfc.G.Blocks {
					if !tfc.Live(b) {
						continue
					}
					for _, n := range b.Nodes {
						for _, ce := range callsIn(n, false) {
							fn := Callee(tinfo, ce)
							if fn == nil || fn.Name() != "writeString" || len(ce.Args) != 1 {
								continue
							}
							lit, ok := constStringVal(tinfo, ce.Args[0])
							if !ok || (lit != "#'" && lit != "#^") {
								continue
							}
							construct := o2.next("writes " + lit)
							okQ := len(cutQ) > 0 && !tfc.reachableAvoiding(b, cutQ)
							okS := len(cutS) > 0 && !tfc.reachableAvoiding(b, cutS)
							if okQ && okS {
								obs = append(obs, mkOb(c, "FMT.prefix-not-data", tu, construct, ce, Proved, "reached only when the head is an unquoted symbol", true))
							} else {
								obs = append(obs, mkOb(c, "FMT.prefix-not-data", tu, construct, ce, Violated, "the shorthand is written although the head may be quoted (or not a symbol): ('lisp:function f) is printed as #'f and its quote is lost", true))
							}
						}
					}
				}
			}
			sites, _ := c.CallsTo(func(p string) bool { return rel(p) == "formatter" }, try)
			ord := map[string]*ordinal{}
			for _, s := range sites {
				if s.Call == nil || len(s.Call.Args) < 1 {
					continue
				}
				o := ord[s.Unit.Name()]
				if o == nil {
					o = &ordinal{}
					ord[s.Unit.Name()] = o
				}
				construct := o.next("tryPrefixForm(" + types.ExprString(s.Call.Args[0]) + ")")
				if ok, why := guarded(s.Unit, s.Call, s.Call.Args[0], 2); ok {
					obs = append(obs, mkOb(c, "FMT.prefix-not-data", s.Unit, construct, s.Call, Proved, "guarded "+why, true))
				} else {
					obs = append(obs, mkOb(c, "FMT.prefix-not-data", s.Unit, construct, s.Call, Undecided, "the shorthand can be written for a bracket (data) list: "+why, true))
				}
			}
			return obs
		}})
}

func init() {
	register(&Rule{ID: "FMT.prefix-gap-assigned", Floor: 2,
		Doc: "applyPrefixNewlines — which gives a prefix form (quote, #', #^) the newline/blank-line gap measured by its prefix token — STORES Meta.NewlineBefore and Meta.BlankLinesBefore on every path after it obtained the node's metadata: the values tokenLVal left there come from the operand's last token, so a path that only ever sets them to true (or skips them) lets a closing bracket on its own line inside the operand move the whole form to a new line, one pass later for the longhand spelling (Format is then not idempotent)",
		Run: func(c *Ctx) []Obligation {
			fn, fd, pkg := c.LookupFunc("parser/rdparser.(*Parser).applyPrefixNewlines")
			nb := c.LookupField("internal/fmtmeta.Meta.NewlineBefore")
			bl := c.LookupField("internal/fmtmeta.Meta.BlankLinesBefore")
			if fn == nil || nb == nil || bl == nil {
				return []Obligation{anchorMissing("FMT.prefix-gap-assigned", "applyPrefixNewlines / Meta.NewlineBefore / Meta.BlankLinesBefore")}
			}
			u := FuncUnit{fn, fd, pkg}
			info := pkg.TypesInfo
			fc := c.cfgOf(u, nil)
			// start: the block that obtains the metadata (EnsureMeta / Meta call assigned to a local)
			var start *cfg.Block
			for _, b := range fc.G.Blocks {
				for _, n := range b.Nodes {
					if as, ok := n.(*ast.AssignStmt); ok && len(as.Rhs) == 1 {
						if ce, ok := ast.Unparen(as.Rhs[0]).(*ast.CallExpr); ok {
							if se, ok := ast.Unparen(ce.Fun).(*ast.SelectorExpr); ok && (se.Sel.Name == "EnsureMeta" || se.Sel.Name == "Meta") {
								start = b
							}
						}
					}
				}
			}
			if start == nil {
				return []Obligation{mkOb(c, "FMT.prefix-gap-assigned", u, "metadata obtained", fd, Undecided, "no EnsureMeta call found", false)}
			}
			var obs []Obligation
			for _, fld := range []*types.Var{nb, bl} {
				blocked := map[*cfg.Block]bool{}
				for _, b := range fc.G.Blocks {
					for _, n := range b.Nodes {
						if as, ok := n.(*ast.AssignStmt); ok {
							for _, l := range as.Lhs {
								if FieldOfSelector(info, l) == fld {
									blocked[b] = true
								}
							}
						}
					}
				}
				// an unconditional store in the start block itself settles it
				escapes := false
				if !blocked[start] {
					seen := map[*cfg.Block]bool{}
					var dfs func(b *cfg.Block)
					dfs = func(b *cfg.Block) {
						if escapes || seen[b] || blocked[b] {
							return
						}
						seen[b] = true
						if len(b.Succs) == 0 {
							escapes = true
							return
						}
						for _, s := range b.Succs {
							dfs(s)
						}
					}
					for _, s := range start.Succs {
						dfs(s)
					}
					if len(start.Succs) == 0 {
						escapes = true
					}
				}
				construct := "store " + fld.Name() + " on every path"
				if !escapes {
					obs = append(obs, mkOb(c, "FMT.prefix-gap-assigned", u, construct, fd, Proved, "every path from the metadata to the end of the function assigns the field", true))
				} else {
					obs = append(obs, mkOb(c, "FMT.prefix-gap-assigned", u, construct, fd, Violated, "a path leaves "+fld.Name()+" as tokenLVal recorded it (from the operand's last token): \"(f (lisp:expr (a\\n)))\" formats to \"(f #^(a\\n        ))\" and then, on the next pass, to \"(f\\n  #^(a ...))\"", true))
				}
			}
			return obs
		}})
}

func init() {
	register(&Rule{ID: "FMT.strip-no-comment-layout", Floor: 1,
		Doc: "in the printer a line break that exists only to carry a comment (a newline written on the true edge of a test `len(Meta(x).LeadingComments) > 0`) is written only when comments are not being stripped: that edge also entails !cfg.StripComments — otherwise the break survives the first pass without its comment and disappears on the second, and Format is not idempotent under StripComments",
		Run: func(c *Ctx) []Obligation {
			lcField := c.LookupField("internal/fmtmeta.Meta.LeadingComments")
			stripFld := c.LookupField("formatter.Config.StripComments")
			nl := c.LookupMethod("formatter.printer.newline")
			if lcField == nil || stripFld == nil || nl == nil {
				return []Obligation{anchorMissing("FMT.strip-no-comment-layout", "Meta.LeadingComments / Config.StripComments / printer.newline")}
			}
			var obs []Obligation
			for _, u := range c.Funcs(func(p string) bool { return rel(p) == "formatter" }) {
				sig := u.Obj.Type().(*types.Signature)
				if sig.Recv() == nil || !strings.HasSuffix(canonTypes(sig.Recv().Type().String()), "formatter.printer") {
					continue
				}
				info := u.Pkg.TypesInfo
				fc := c.cfgOf(u, nil)
				ord := &ordinal{}
				cls := func(e ast.Expr) (string, bool) {
					e = ast.Unparen(e)
					switch x := e.(type) {
					case *ast.BinaryExpr:
						if ce, ok := ast.Unparen(x.X).(*ast.CallExpr); ok {
							if id, ok := ast.Unparen(ce.Fun).(*ast.Ident); ok && id.Name == "len" && len(ce.Args) == 1 && FieldOfSelector(info, ce.Args[0]) == lcField {
								if k, ok := intConst(info, x.Y); ok && k == 0 {
									switch x.Op {
									case token.GTR, token.NEQ:
										return "hasLC", false
									case token.EQL, token.LEQ:
										return "hasLC", true
									}
								}
							}
						}
					case *ast.SelectorExpr:
						if FieldOfSelector(info, x) == stripFld {
							return "strip", false
						}
					}
					return "", false
				}
				for _, b := range fc.G.Blocks {
					cond := fc.CondOf(b)
					if cond == nil || !fc.Live(b) {
						continue
					}
					for k := 0; k < 2; k++ {
						if !fc.edgeEntails(b, k, cls, func(v map[string]bool) bool { return v["$has:hasLC"] && v["hasLC"] }) {
							continue
						}
						// does the successor block write a newline?
						writes := false
						for _, n := range b.Succs[k].Nodes {
							// directly, or through a helper every path of which writes one (breakLineBefore)
							if c.nodeMust(info, u.Obj.Pkg(), n, func(hinfo *types.Info, m ast.Node) bool { return nodeCalls(hinfo, m, nl) != nil }) {
								writes = true
							}
						}
						if !writes {
							continue
						}
						construct := ord.next("line break for a comment")
						if fc.edgeEntails(b, k, cls, func(v map[string]bool) bool { return v["$has:strip"] && !v["strip"] }) {
							obs = append(obs, mkOb(c, "FMT.strip-no-comment-layout", u, construct, cond, Proved, "the edge also entails !StripComments", true))
						} else {
							obs = append(obs, mkOb(c, "FMT.strip-no-comment-layout", u, construct, cond, Violated, "a newline is written because the node has leading comments even when comments are stripped: \"( ; c\\n a)\" formats to \"(\\n a)\" under StripComments and then to \"(a)\"", true))
						}
					}
				}
			}
			return obs
		}})
}
