package main

import (
	"fmt"
	"go/types"
	"sort"
	"strings"

	"golang.org/x/tools/go/ssa"
)

// CONFINE.host-sources (C20) — "load-file and EVERY LoadFile entry point return the contents of a
// file only if its fully resolved real path lies inside the resolved root".  The confinement lives in
// the SourceLibrary implementations; the command-line entry points that promise a root directory
// (elps run / debug / doc, the REPL, the debugger REPL) keep that promise by handing *paths* to
// LEnv.LoadFile, never *contents* they read themselves.  A host function that reads a file with the
// os / io/fs package and passes what it read to the evaluator (LoadString, LoadLocation, Load, Eval …)
// has left the funnel: a lexical check of the path in front of os.ReadFile follows symbolic links.
//
// Decided as a forward value-flow (taint) over SSA, inside the host packages: sources are the results
// of file-opening / file-reading calls; flow goes through conversions, phis, slices, extracts, calls
// (into same-scope functions through their parameters and back through their results; through any other
// function from arguments to results), and through memory field-sensitively but object-insensitively
// (a store to field F taints every load of F; a store into a slice or local taints the loads of that
// allocation); sinks are the evaluating methods of *lisp.LEnv / *lisp.Runtime other than LoadFile*.

func hostScope(p string) bool {
	r := rel(p)
	return r == "cmd" || r == "repl" || strings.HasPrefix(r, "lisp/x/debugger")
}

func isFileReadCall(cc *ssa.CallCommon) (string, bool) {
	f := cc.StaticCallee()
	if f == nil || f.Pkg == nil {
		// interface method: fs.FS.Open, fs.ReadFileFS.ReadFile
		if cc.IsInvoke() && cc.Method != nil && cc.Method.Pkg() != nil && cc.Method.Pkg().Path() == "io/fs" {
			switch cc.Method.Name() {
			case "Open", "ReadFile":
				return "io/fs." + cc.Method.Name(), true
			}
		}
		return "", false
	}
	pp, n := f.Pkg.Pkg.Path(), f.Name()
	switch pp {
	case "os":
		switch n {
		case "ReadFile", "Open", "OpenFile", "OpenInRoot":
			return pp + "." + n, true
		}
		// methods of *os.Root that open
		if f.Signature.Recv() != nil && strings.Contains(f.Signature.Recv().Type().String(), "os.Root") {
			switch n {
			case "Open", "OpenFile", "ReadFile":
				return "os.Root." + n, true
			}
		}
	case "io/fs":
		switch n {
		case "ReadFile":
			return pp + "." + n, true
		}
	case "io/ioutil":
		if n == "ReadFile" {
			return pp + "." + n, true
		}
	}
	return "", false
}

func init() {
	register(&Rule{ID: "CONFINE.host-sources", Floor: 4,
		Doc: "in the host entry points that configure a root directory (packages cmd, repl, lisp/x/debugger/…) nothing read directly from the file system (os.ReadFile/Open/OpenFile, os.Root, io/fs.ReadFile, fs.FS.Open) flows — through conversions, readers, helper calls, struct fields or slices — into an evaluating method of *lisp.LEnv / *lisp.Runtime (Load, LoadString, LoadLocation, Eval … and their Context twins): files reach the evaluator only as paths handed to LoadFile, i.e. through the confining SourceLibrary",
		Run: func(c *Ctx) []Obligation {
			const id = "CONFINE.host-sources"
			prog := c.SSA()
			var fns []*ssa.Function
			inScope := map[*ssa.Function]bool{}
			var add func(f *ssa.Function)
			add = func(f *ssa.Function) {
				if f == nil || inScope[f] || f.Blocks == nil {
					return
				}
				inScope[f] = true
				fns = append(fns, f)
				for _, an := range f.AnonFuncs {
					add(an)
				}
			}
			for _, p := range prog.AllPackages() {
				if p.Pkg == nil || !hostScope(p.Pkg.Path()) {
					continue
				}
				for _, m := range p.Members {
					switch x := m.(type) {
					case *ssa.Function:
						add(x)
					case *ssa.Type:
						for _, t := range []types.Type{x.Type(), types.NewPointer(x.Type())} {
							ms := prog.MethodSets.MethodSet(t)
							for i := 0; i < ms.Len(); i++ {
								add(prog.MethodValue(ms.At(i)))
							}
						}
					}
				}
			}
			if len(fns) == 0 {
				return []Obligation{anchorMissing(id, "host packages cmd / repl / lisp/x/debugger")}
			}
			sort.Slice(fns, func(i, j int) bool { return fns[i].String() < fns[j].String() })

			tainted := map[ssa.Value]string{} // value -> origin description
			fieldTaint := map[*types.Var]string{}
			var work []ssa.Value
			mark := func(v ssa.Value, why string) {
				if v == nil {
					return
				}
				if _, ok := tainted[v]; ok {
					return
				}
				tainted[v] = why
				work = append(work, v)
			}
			// call sites of in-scope functions (for return flow)
			callSites := map[*ssa.Function][]ssa.CallInstruction{}
			fieldLoads := map[*types.Var][]ssa.Value{}
			fieldOf := func(fa *ssa.FieldAddr) *types.Var {
				st, ok := deref(fa.X.Type()).Underlying().(*types.Struct)
				if !ok || fa.Field >= st.NumFields() {
					return nil
				}
				return st.Field(fa.Field)
			}
			for _, f := range fns {
				for _, b := range f.Blocks {
					for _, in := range b.Instrs {
						if ci, ok := in.(ssa.CallInstruction); ok {
							cc := ci.Common()
							if callee := cc.StaticCallee(); callee != nil && inScope[callee] {
								callSites[callee] = append(callSites[callee], ci)
							}
							if what, ok := isFileReadCall(cc); ok {
								if v := ci.Value(); v != nil {
									mark(v, what+" in "+f.String())
								}
							}
						}
						switch x := in.(type) {
						case *ssa.FieldAddr:
							if fv := fieldOf(x); fv != nil {
								fieldLoads[fv] = append(fieldLoads[fv], x)
							}
						case *ssa.Field:
							if st, ok := x.X.Type().Underlying().(*types.Struct); ok && x.Field < st.NumFields() {
								fieldLoads[st.Field(x.Field)] = append(fieldLoads[st.Field(x.Field)], x)
							}
						}
					}
				}
			}
			// base allocation of an address expression
			var baseOf func(a ssa.Value) (ssa.Value, *types.Var)
			baseOf = func(a ssa.Value) (ssa.Value, *types.Var) {
				switch x := a.(type) {
				case *ssa.FieldAddr:
					return nil, fieldOf(x)
				case *ssa.IndexAddr:
					return x.X, nil
				}
				return a, nil
			}
			type sinkHit struct {
				fn   *ssa.Function
				call ssa.CallInstruction
				arg  int
				why  string
			}
			isSink := func(cc *ssa.CallCommon) (string, bool) {
				var name string
				var recv types.Type
				if f := cc.StaticCallee(); f != nil && f.Signature.Recv() != nil {
					name, recv = f.Name(), f.Signature.Recv().Type()
				} else {
					return "", false
				}
				rs := recv.String()
				if !strings.HasSuffix(rs, "/lisp.LEnv") && !strings.HasSuffix(rs, "/lisp.Runtime") {
					return "", false
				}
				if strings.HasPrefix(name, "LoadFile") {
					return "", false
				}
				if strings.HasPrefix(name, "Load") || strings.HasPrefix(name, "Eval") {
					return strings.TrimPrefix(rs, "*") + "." + name, true
				}
				return "", false
			}
			for len(work) > 0 {
				v := work[len(work)-1]
				work = work[:len(work)-1]
				why := tainted[v]
				refs := v.Referrers()
				if refs == nil {
					continue
				}
				for _, r := range *refs {
					switch x := r.(type) {
					case *ssa.Store:
						if x.Val == v {
							base, fv := baseOf(x.Addr)
							if fv != nil {
								if _, ok := fieldTaint[fv]; !ok {
									fieldTaint[fv] = why
									for _, l := range fieldLoads[fv] {
										mark(l, why)
									}
								}
							} else if base != nil {
								mark(base, why)
							}
						}
					case *ssa.Return:
						if f := x.Parent(); f != nil {
							for _, cs := range callSites[f] {
								if cv := cs.Value(); cv != nil {
									mark(cv, why)
								}
							}
						}
					case ssa.CallInstruction:
						cc := x.Common()
						callee := cc.StaticCallee()
						args := cc.Args
						for i, a := range args {
							if a != v {
								continue
							}
							if callee != nil && inScope[callee] {
								if i < len(callee.Params) {
									mark(callee.Params[i], why)
								}
							} else if cv := x.Value(); cv != nil {
								// outside the scope (bytes.NewReader, string builders, parsers, io.ReadAll …):
								// results may carry the argument's content
								if _, sink := isSink(cc); !sink {
									mark(cv, why)
								}
							}
						}
						if cc.IsInvoke() && cc.Value == v {
							if cv := x.Value(); cv != nil {
								mark(cv, why)
							}
						}
					case *ssa.MakeClosure:
						if fn, ok := x.Fn.(*ssa.Function); ok {
							for i, b := range x.Bindings {
								if b == v && i < len(fn.FreeVars) {
									mark(fn.FreeVars[i], why)
								}
							}
						}
					case ssa.Value:
						// Convert, ChangeType, MakeInterface, Slice, Phi, Extract, UnOp (load), FieldAddr,
						// IndexAddr, Index, Field, TypeAssert, Lookup, BinOp (string concatenation), Range/Next
						switch y := x.(type) {
						case *ssa.BinOp:
							if b, ok := y.Type().Underlying().(*types.Basic); ok && b.Info()&types.IsString != 0 {
								mark(y, why)
							}
						case *ssa.FieldAddr, *ssa.Field:
							// a field of a tainted struct value: tainted only if that field is (field-sensitive)
							_ = y
						default:
							mark(x, why)
						}
					}
				}
			}
			var obs []Obligation
			counts := map[string]int{}
			for _, f := range fns {
				for _, b := range f.Blocks {
					for _, in := range b.Instrs {
						ci, ok := in.(ssa.CallInstruction)
						if !ok {
							continue
						}
						cc := ci.Common()
						sname, ok := isSink(cc)
						if !ok {
							continue
						}
						fname := ssaFuncDisplay(f)
						counts[fname+"|"+sname]++
						construct := fmt.Sprintf("call %s#%d", sname, counts[fname+"|"+sname])
						bad := ""
						for _, a := range cc.Args {
							if w, ok := tainted[a]; ok {
								bad = w
							}
						}
						pos := c.Pos(ci.Pos())
						if bad != "" {
							obs = append(obs, Obligation{Rule: id, Func: fname, Construct: construct, Pos: pos, Verdict: Violated, Detail: "what is evaluated here derives from a direct file-system read (" + bad + "), not from the runtime's SourceLibrary: the root directory is not enforced on this file — a lexical test of the path in front of the read follows symbolic links out of the root", Nontrivial: true})
						} else {
							obs = append(obs, Obligation{Rule: id, Func: fname, Construct: construct, Pos: pos, Verdict: Proved, Detail: "no operand derives from a direct file-system read in the host packages", Nontrivial: true})
						}
					}
				}
			}
			return obs
		}})
}

func deref(t types.Type) types.Type {
	if p, ok := t.Underlying().(*types.Pointer); ok {
		return p.Elem()
	}
	return t
}

// ssaFuncDisplay names an SSA function the way FuncUnit.Name does (module-relative), anonymous functions
// by their parent.
func ssaFuncDisplay(f *ssa.Function) string {
	for f.Parent() != nil {
		f = f.Parent()
	}
	s := f.String()
	s = strings.ReplaceAll(s, modPath+"/", "")
	return s
}
