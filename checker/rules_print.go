package main

import (
	"fmt"
	"go/ast"
	"go/constant"
	"go/token"
	"go/types"
	"strings"

	"golang.org/x/tools/go/cfg"
)

// C12 structural clauses beyond mode agreement.

// quotedShape: e renders string value src as a Go-quoted literal: fmt.Sprintf("%q", src),
// strconv.Quote(src) (or AppendQuote), or a same-package helper over src all of
// whose returns have that shape.  `prefix + <quoted>` is allowed.
func (c *Ctx) quotedShape(u FuncUnit, e ast.Expr, isSrc func(info *types.Info, e ast.Expr) bool, depth int) (bool, string) {
	info := u.Pkg.TypesInfo
	e = ast.Unparen(e)
	if be, ok := e.(*ast.BinaryExpr); ok && be.Op == token.ADD {
		// one side must not mention src at all, the other must be quoted
		lm, rm := mentionsSrc(info, be.X, isSrc), mentionsSrc(info, be.Y, isSrc)
		switch {
		case lm && rm:
			return false, "`" + types.ExprString(e) + "` concatenates the raw string"
		case lm:
			return c.quotedShape(u, be.X, isSrc, depth)
		case rm:
			return c.quotedShape(u, be.Y, isSrc, depth)
		}
		return true, ""
	}
	ce, ok := e.(*ast.CallExpr)
	if !ok {
		if mentionsSrc(info, e, isSrc) {
			return false, "`" + types.ExprString(e) + "` uses the raw string"
		}
		return true, ""
	}
	if stdFuncCalled(info, ce, "fmt", "Sprintf") && len(ce.Args) == 2 {
		if f, ok := constStringVal(info, ce.Args[0]); ok && f == "%q" && isSrc(info, ce.Args[1]) {
			return true, ""
		}
		return false, "fmt.Sprintf with a format other than \"%q\" over the string"
	}
	if stdFuncCalled(info, ce, "strconv", "Quote") && len(ce.Args) == 1 && isSrc(info, ce.Args[0]) {
		return true, ""
	}
	// same-package helper
	fn := originOf(Callee(info, ce))
	if fn != nil && fn.Pkg() == u.Obj.Pkg() && depth > 0 {
		fd := c.declOf[fn]
		if fd != nil && fd.Body != nil {
			hu := FuncUnit{fn, fd, c.pkgOf[fd]}
			ps := paramObjs(hu)
			var srcParam types.Object
			for i, a := range ce.Args {
				if i < len(ps) && isSrc(info, a) {
					srcParam = ps[i]
				}
			}
			if srcParam == nil {
				if mentionsSrc(info, e, isSrc) {
					return false, "`" + types.ExprString(e) + "` passes a derived value of the string to " + fn.Name()
				}
				return true, ""
			}
			hsrc := func(hinfo *types.Info, x ast.Expr) bool { return identObj(hinfo, x) == srcParam }
			for _, rs := range returnsOf(fd.Body) {
				for _, r := range rs.Results {
					if ok, why := c.quotedShape(hu, r, hsrc, depth-1); !ok {
						return false, fn.Name() + ": " + why
					}
				}
			}
			return true, ""
		}
	}
	if mentionsSrc(info, e, isSrc) {
		return false, "`" + types.ExprString(e) + "` is not a recognised quoting call"
	}
	return true, ""
}

func mentionsSrc(info *types.Info, e ast.Expr, isSrc func(info *types.Info, e ast.Expr) bool) bool {
	hit := false
	ast.Inspect(e, func(n ast.Node) bool {
		if x, ok := n.(ast.Expr); ok && isSrc(info, x) {
			hit = true
		}
		return !hit
	})
	return hit
}

func init() {
	register(&Rule{ID: "PRINT.string-quoted", Floor: 1,
		Doc: "the printer renders a string value only through Go quoting (fmt.Sprintf(\"%q\", v.Str) / strconv.Quote, directly or in a helper all of whose returns quote): no path writes the raw bytes between quotes, so what is printed is always a literal the reader can read back (control bytes, quotes, backslashes and invalid UTF-8 are escaped)",
		Run: func(c *Ctx) []Obligation {
			fn, fd, pkg := c.LookupFunc("lisp.(*LVal).str")
			strFld := c.LookupField("lisp.LVal.Str")
			lstring := c.LookupConst("lisp.LString")
			if fn == nil || strFld == nil || lstring == nil {
				return []Obligation{anchorMissing("PRINT.string-quoted", "lisp.(*LVal).str / LVal.Str / LString")}
			}
			u := FuncUnit{fn, fd, pkg}
			info := pkg.TypesInfo
			recv := identObj(info, fd.Recv.List[0].Names[0])
			isSrc := func(i *types.Info, e ast.Expr) bool {
				se, ok := ast.Unparen(e).(*ast.SelectorExpr)
				return ok && FieldOfSelector(i, se) == strFld && identObj(i, se.X) == recv
			}
			var obs []Obligation
			ord := &ordinal{}
			ast.Inspect(fd.Body, func(n ast.Node) bool {
				cc, ok := n.(*ast.CaseClause)
				if !ok {
					return true
				}
				isStr := false
				for _, e := range cc.List {
					if o := identObj(info, e); o != nil && o == lstring {
						isStr = true
					}
				}
				if !isStr {
					return true
				}
				for _, s := range cc.Body {
					ast.Inspect(s, func(m ast.Node) bool {
						rs, ok := m.(*ast.ReturnStmt)
						if !ok {
							return true
						}
						for _, r := range rs.Results {
							construct := ord.next("LString rendering")
							if ok, why := c.quotedShape(u, r, isSrc, 2); ok {
								obs = append(obs, mkOb(c, "PRINT.string-quoted", u, construct, rs, Proved, "the string reaches the output only through %q / strconv.Quote", true))
							} else {
								obs = append(obs, mkOb(c, "PRINT.string-quoted", u, construct, rs, Violated, "a string can be printed without Go quoting ("+why+"): the text may not read back (raw control bytes, invalid UTF-8)", true))
							}
						}
						return true
					})
				}
				return false
			})
			if len(obs) == 0 {
				obs = append(obs, mkOb(c, "PRINT.string-quoted", u, "LString rendering", fd, Undecided, "no `case LString` with a return found in (*LVal).str", false))
			}
			return obs
		}})

	register(&Rule{ID: "LEX.one-whitespace-class", Floor: 3,
		Doc: "the lexer and scanner decide \"is this rune whitespace\" only with unicode.IsSpace — the class the scanner skips between tokens — and never with a hand-written set of space runes: a token boundary is recognised at every kind of whitespace alike (layout independence: CR, FF, VT, NEL, NBSP behave like space and newline)",
		Run: func(c *Ctx) []Obligation {
			var obs []Obligation
			scope := func(p string) bool { r := rel(p); return r == "parser/lexer" || r == "parser/token" }
			nIsSpace := 0
			spaceRunes := map[rune]bool{' ': true, '\t': true, '\n': true, '\r': true, '\f': true, '\v': true}
			for _, u := range c.Funcs(scope) {
				info := u.Pkg.TypesInfo
				ord := &ordinal{}
				// unicode.IsSpace uses
				ast.Inspect(u.Decl.Body, func(n ast.Node) bool {
					if ce, ok := n.(*ast.CallExpr); ok && stdFuncCalled(info, ce, "unicode", "IsSpace") {
						nIsSpace++
						obs = append(obs, mkOb(c, "LEX.one-whitespace-class", u, ord.next("unicode.IsSpace"), ce, Proved, "whitespace decided by unicode.IsSpace", false))
					}
					return true
				})
				// hand-written sets: a case clause list, or one boolean expression, that names two or more distinct space runes
				report := func(n ast.Node, found map[rune]bool) {
					if len(found) < 2 {
						return
					}
					var rs []string
					for r := range found {
						rs = append(rs, fmt.Sprintf("%q", r))
					}
					sortStrings(rs)
					obs = append(obs, mkOb(c, "LEX.one-whitespace-class", u, ord.next("hand-written whitespace set"), n, Violated,
						"a rune is classified against the hand-written set {"+strings.Join(rs, ", ")+"} instead of unicode.IsSpace: the other whitespace runes (e.g. '\\r', '\\f', U+0085) are treated as part of a token here but skipped as whitespace by the scanner", true))
				}
				runesIn := func(e ast.Node) map[rune]bool {
					found := map[rune]bool{}
					ast.Inspect(e, func(m ast.Node) bool {
						if _, ok := m.(*ast.FuncLit); ok && m != e {
							return false
						}
						bl, ok := m.(*ast.BasicLit)
						if !ok || bl.Kind != token.CHAR {
							return true
						}
						if tv, ok := info.Types[bl]; ok && tv.Value != nil {
							if v, ok := constantInt64(tv); ok && spaceRunes[rune(v)] {
								found[rune(v)] = true
							}
						}
						return true
					})
					return found
				}
				ast.Inspect(u.Decl.Body, func(n ast.Node) bool {
					switch x := n.(type) {
					case *ast.CaseClause:
						f := map[rune]bool{}
						for _, e := range x.List {
							for r := range runesIn(e) {
								f[r] = true
							}
						}
						report(x, f)
					case *ast.BinaryExpr:
						if x.Op == token.LOR || x.Op == token.LAND {
							// only report the outermost boolean expression
							report(x, runesIn(x))
							return false
						}
					}
					return true
				})
			}
			if nIsSpace < 3 {
				obs = append(obs, Obligation{Rule: "LEX.one-whitespace-class", Func: "parser/lexer", Construct: "coverage", Verdict: Undecided,
					Detail: fmt.Sprintf("only %d unicode.IsSpace decisions found in lexer and scanner (confirmed by hand: Scanner.AcceptSpace, the standalone '-' test, the macro-character guard)", nIsSpace)})
			}
			return obs
		}})
}

func sortStrings(s []string) {
	for i := 1; i < len(s); i++ {
		for j := i; j > 0 && s[j] < s[j-1]; j-- {
			s[j], s[j-1] = s[j-1], s[j]
		}
	}
}

func constantInt64(tv types.TypeAndValue) (int64, bool) {
	if tv.Value == nil || tv.Value.Kind() != constant.Int {
		return 0, false
	}
	return constant.Int64Val(tv.Value)
}

// LookupConst finds a package-level constant "pkg.Name".
func (c *Ctx) LookupConst(name string) types.Object {
	i := strings.LastIndex(name, ".")
	if i < 0 {
		return nil
	}
	p := c.Pkg(name[:i])
	if p == nil {
		return nil
	}
	o, _ := c.LookupPkgObj(name).(*types.Const)
	if o == nil {
		return nil
	}
	return o
}

func init() {
	register(&Rule{ID: "LEX.minus-delimiters", Floor: 5,
		Doc: "in the lexer's token switch the test that decides whether a '-' stands alone (SYMBOL) or is a sign glued to what follows (NEGATIVE) accepts, besides whitespace and end of input, every rune that has its own case in that switch and can only START another token (brackets, quote, string, comment): whether two complete expressions are separated by whitespace or not does not change how a run of '-' is read",
		Run: func(c *Ctx) []Obligation {
			fn, fd, pkg := c.LookupFunc("parser/lexer.(*Lexer).readToken")
			if fn == nil {
				return []Obligation{anchorMissing("LEX.minus-delimiters", "lexer.(*Lexer).readToken")}
			}
			u := FuncUnit{fn, fd, pkg}
			info := pkg.TypesInfo
			// the outermost switch with a case '-'
			var sw *ast.SwitchStmt
			ast.Inspect(fd.Body, func(n ast.Node) bool {
				s, ok := n.(*ast.SwitchStmt)
				if !ok || sw != nil {
					return true
				}
				for _, cl := range s.Body.List {
					for _, e := range cl.(*ast.CaseClause).List {
						if v, ok := constantInt64(info.Types[e]); ok && v == '-' {
							sw = s
						}
					}
				}
				return sw == nil
			})
			if sw == nil {
				return []Obligation{mkOb(c, "LEX.minus-delimiters", u, "token switch", fd, Undecided, "no switch with a case '-' found in readToken", false)}
			}
			var minus *ast.CaseClause
			required := map[rune]ast.Node{}
			for _, cl := range sw.Body.List {
				cc := cl.(*ast.CaseClause)
				var runes []rune
				for _, e := range cc.List {
					if v, ok := constantInt64(info.Types[e]); ok {
						runes = append(runes, rune(v))
					}
				}
				glue := false // the clause reads a symbol or number: such a rune continues a token after '-'
				ast.Inspect(cc, func(n ast.Node) bool {
					if ce, ok := n.(*ast.CallExpr); ok {
						if f := Callee(info, ce); f != nil && (shortName(originOf(f)) == "readSymbol" || shortName(originOf(f)) == "readNumber") {
							glue = true
						}
					}
					return true
				})
				for _, r := range runes {
					switch {
					case r == '-':
						minus = cc
					case r == '#' || glue:
					default:
						required[r] = cc
					}
				}
			}
			if minus == nil {
				return []Obligation{mkOb(c, "LEX.minus-delimiters", u, "case '-'", sw, Undecided, "no case '-'", false)}
			}
			// accepted set: first if-condition of the '-' clause
			accepted := map[rune]bool{}
			space := false
			var cond ast.Expr
			for _, st := range minus.Body {
				if is, ok := st.(*ast.IfStmt); ok {
					cond = is.Cond
					break
				}
			}
			if cond == nil {
				return []Obligation{mkOb(c, "LEX.minus-delimiters", u, "case '-'", minus, Undecided, "the '-' case has no standalone test", false)}
			}
			// the test may be named first: `standsAlone := !ok || unicode.IsSpace(c) || …; if standsAlone`
			if id, ok := ast.Unparen(cond).(*ast.Ident); ok {
				if d, ok := boolLocalUse[id]; ok {
					cond = d
				}
			}
			// the runes the test can accept: written in the condition, or in a boolean helper of
			// the package the condition calls (comparisons, case lists, ContainsRune sets)
			var collect func(info *types.Info, root ast.Node, depth int)
			collect = func(info *types.Info, root ast.Node, depth int) {
				ast.Inspect(root, func(n ast.Node) bool {
					switch x := n.(type) {
					case *ast.BinaryExpr:
						if x.Op == token.EQL {
							if v, ok := constantInt64(info.Types[x.Y]); ok {
								accepted[rune(v)] = true
							}
							if v, ok := constantInt64(info.Types[x.X]); ok {
								accepted[rune(v)] = true
							}
						}
					case *ast.CaseClause:
						if depth > 0 {
							for _, e := range x.List {
								if v, ok := constantInt64(info.Types[e]); ok {
									accepted[rune(v)] = true
								}
							}
						}
					case *ast.CallExpr:
						if stdFuncCalled(info, x, "unicode", "IsSpace") {
							space = true
						}
						if (stdFuncCalled(info, x, "strings", "ContainsRune") || stdFuncCalled(info, x, "strings", "IndexRune")) && len(x.Args) == 2 {
							if s, ok := constStringVal(info, x.Args[0]); ok {
								for _, r := range s {
									accepted[r] = true
								}
							}
						}
						if h := originOf(Callee(info, x)); h != nil && depth < 2 && h.Pkg() == fn.Pkg() {
							if hd := c.declOf[h]; hd != nil && hd.Body != nil {
								if res := h.Type().(*types.Signature).Results(); res.Len() == 1 {
									if bt, ok := res.At(0).Type().Underlying().(*types.Basic); ok && bt.Kind() == types.Bool {
										collect(c.pkgOf[hd].TypesInfo, hd.Body, depth+1)
									}
								}
							}
						}
					}
					return true
				})
			}
			collect(info, cond, 0)
			var obs []Obligation
			if space {
				obs = append(obs, mkOb(c, "LEX.minus-delimiters", u, "whitespace", cond, Proved, "the test accepts every unicode.IsSpace rune", false))
			} else {
				obs = append(obs, mkOb(c, "LEX.minus-delimiters", u, "whitespace", cond, Violated, "the standalone test does not use unicode.IsSpace", true))
			}
			var rs []rune
			for r := range required {
				rs = append(rs, r)
			}
			sortRunes(rs)
			for _, r := range rs {
				construct := fmt.Sprintf("delimiter %q", r)
				if accepted[r] {
					obs = append(obs, mkOb(c, "LEX.minus-delimiters", u, construct, cond, Proved, "a '-' in front of it stands alone", true))
				} else {
					obs = append(obs, mkOb(c, "LEX.minus-delimiters", u, construct, cond, Violated, fmt.Sprintf("%q starts a token of its own (it has a case in this switch) but a '-' in front of it is lexed as a sign: `(--%cx)` and `(-- %cx)` read differently", r, r, r), true))
				}
			}
			return obs
		}})
}

func sortRunes(rs []rune) {
	for i := 1; i < len(rs); i++ {
		for j := i; j > 0 && rs[j] < rs[j-1]; j-- {
			rs[j], rs[j-1] = rs[j-1], rs[j]
		}
	}
}

func init() {
	register(&Rule{ID: "LEX.overflow-checked", Floor: 2,
		Doc: "a token that outgrew the scanner's window is refused, never split: every call of Scanner.EmitToken on accumulated text in the lexer is reached only over the false edge of Scanner.Overflow() (whose true edge returns an error token), and whitespace is skipped in a loop that runs until the scanner accepts no more (a run longer than the window is skipped in several pieces) — otherwise the part that fits is emitted and the rest is read as the next token (the tail of a long comment as code)",
		Run: func(c *Ctx) []Obligation {
			emit := c.LookupMethod("parser/token.Scanner.EmitToken")
			overflow := c.LookupMethod("parser/token.Scanner.Overflow")
			accSpace := c.LookupMethod("parser/token.Scanner.AcceptSeqSpace")
			if emit == nil || accSpace == nil {
				return []Obligation{anchorMissing("LEX.overflow-checked", "token.Scanner.EmitToken / AcceptSeqSpace")}
			}
			var obs []Obligation
			for _, u := range c.Funcs(func(p string) bool { return rel(p) == "parser/lexer" }) {
				info := u.Pkg.TypesInfo
				fc := c.cfgOf(u, nil)
				ord := &ordinal{}
				for _, b := range fc.G.Blocks {
					if !fc.Live(b) {
						continue
					}
					for _, n := range b.Nodes {
						for _, ce := range callsIn(n, false) {
							fn := originOf(Callee(info, ce))
							switch fn {
							case emit:
								construct := ord.next("EmitToken")
								if shortName(u.Obj) == "charToken" {
									obs = append(obs, mkOb(c, "LEX.overflow-checked", u, construct, ce, Proved, "single-rune token (brackets, quote): emitted right after one accepted rune, it cannot fill the window", false))
									continue
								}
								if overflow == nil {
									obs = append(obs, mkOb(c, "LEX.overflow-checked", u, construct, ce, Violated, "the scanner has no Overflow test: a token longer than the window is emitted in pieces", true))
									continue
								}
								cls := func(e ast.Expr) (string, bool) {
									if x, ok := ast.Unparen(e).(*ast.CallExpr); ok && originOf(Callee(info, x)) == overflow {
										return "overflow", false
									}
									return "", false
								}
								cut := fc.edgesEntailing(cls, func(v map[string]bool) bool { return v["$has:overflow"] && !v["overflow"] })
								okRet := true
								for _, e := range fc.edgesEntailing(cls, func(v map[string]bool) bool { return v["$has:overflow"] && v["overflow"] }) {
									if !fc.edgeReturns(e, nil) {
										okRet = false
									}
								}
								if len(cut) > 0 && okRet && !fc.reachableAvoiding(b, cut) {
									obs = append(obs, mkOb(c, "LEX.overflow-checked", u, construct, ce, Proved, "reached only when Scanner.Overflow() is false; the true edge returns an error token", true))
								} else {
									obs = append(obs, mkOb(c, "LEX.overflow-checked", u, construct, ce, Violated, "accumulated text is emitted as a token without asking whether it filled the scanner's window: a comment, symbol or number longer than the window is split and its tail read as further tokens", true))
								}
							case accSpace:
								construct := ord.next("AcceptSeqSpace")
								// must sit in the condition of a loop: its block lies on a CFG cycle
								inLoop := false
								for _, comp := range fc.cyclicSCCs(func(*cfg.Block) bool { return false }) {
									for _, cb := range comp {
										if cb == b {
											inLoop = true
										}
									}
								}
								if inLoop {
									obs = append(obs, mkOb(c, "LEX.overflow-checked", u, construct, ce, Proved, "whitespace is skipped in a loop until nothing more is accepted", true))
								} else {
									obs = append(obs, mkOb(c, "LEX.overflow-checked", u, construct, ce, Violated, "whitespace is skipped once: a run longer than the scanner's window leaves the next token starting on a space and the file is refused", true))
								}
							}
						}
					}
				}
			}
			return obs
		}})
}

func init() {
	register(&Rule{ID: "PARSE.number-conversion", Floor: 2,
		Doc: "the reader converts a numeric literal by handing the token's own, complete text (sign included) to strconv.ParseInt / ParseFloat: the argument is p.TokenText() or a local defined only by it — never a trimmed or re-sliced text, and never an unsigned or magnitude parse followed by a negation, which cannot represent the most negative integer (-9223372036854775808 must read back)",
		Run: func(c *Ctx) []Obligation {
			tokText := c.LookupMethod("parser/rdparser.Parser.TokenText")
			if tokText == nil {
				return []Obligation{anchorMissing("PARSE.number-conversion", "rdparser.Parser.TokenText")}
			}
			var obs []Obligation
			inParser := func(p string) bool { return rel(p) == "parser/rdparser" }
			// argOK: the expression (in unit u) satisfies leaf, is a local defined only by
			// expressions that do, or is a parameter of a private function every call site of
			// which passes such an expression
			var argOK func(u FuncUnit, e ast.Expr, leaf func(info *types.Info, e ast.Expr) bool, depth int) bool
			argOK = func(u FuncUnit, e ast.Expr, leaf func(info *types.Info, e ast.Expr) bool, depth int) bool {
				info := u.Pkg.TypesInfo
				e = ast.Unparen(e)
				if leaf(info, e) {
					return true
				}
				// a text assembled by a helper of the package from such texts, by concatenation with constants
				// only (`signedRadixDigits(macroText, digits)` = "-" + digits or digits): still the token's own
				// characters, sign included — nothing trimmed, re-sliced or negated afterwards
				if hc, ok := e.(*ast.CallExpr); ok && depth <= 3 {
					if h := originOf(Callee(info, hc)); h != nil && u.Obj != nil && h.Pkg() == u.Obj.Pkg() {
						if hd := c.declOf[h]; hd != nil && hd.Body != nil && concatOnlyOfParams(c.pkgOf[hd].TypesInfo, hd) {
							carries := false
							for _, a := range hc.Args {
								if argOK(u, a, leaf, depth+1) {
									carries = true
								}
							}
							if carries {
								return true
							}
						}
					}
				}
				o := identObj(info, e)
				if o == nil || depth > 3 {
					return false
				}
				// a parameter of this function
				for i, pv := range paramObjs(u) {
					if pv != o {
						continue
					}
					if u.Obj.Exported() {
						return false
					}
					sites, refs := c.CallsTo(inParser, u.Obj)
					if len(refs) > 0 || len(sites) == 0 {
						return false
					}
					// paramObjs lists the receiver first when there is one
					off := 0
					if u.Obj.Type().(*types.Signature).Recv() != nil {
						off = 1
					}
					if i < off {
						return false
					}
					for _, st := range sites {
						if i-off >= len(st.Call.Args) || !argOK(st.Unit, st.Call.Args[i-off], leaf, depth+1) {
							return false
						}
					}
					return true
				}
				ndef, okAll := 0, true
				ast.Inspect(u.Decl.Body, func(n ast.Node) bool {
					as, ok := n.(*ast.AssignStmt)
					if !ok || len(as.Lhs) != len(as.Rhs) {
						return true
					}
					for i, l := range as.Lhs {
						if identObj(info, l) == o {
							ndef++
							if !leaf(info, ast.Unparen(as.Rhs[i])) && !(depth < 3 && identObj(info, as.Rhs[i]) != o && argOK(u, as.Rhs[i], leaf, depth+1)) {
								okAll = false
							}
						}
					}
					return true
				})
				return ndef > 0 && okAll
			}
			isTokText := func(info *types.Info, e ast.Expr) bool {
				ce, ok := e.(*ast.CallExpr)
				return ok && originOf(Callee(info, ce)) == tokText
			}
			isRadix := func(info *types.Info, e ast.Expr) bool {
				k, ok := intConst(info, e)
				return ok && k >= 2 && k <= 36
			}
			for _, u := range c.Funcs(inParser) {
				info := u.Pkg.TypesInfo
				ord := &ordinal{}
				ast.Inspect(u.Decl.Body, func(n ast.Node) bool {
					ce, ok := n.(*ast.CallExpr)
					if !ok {
						return true
					}
					fn := Callee(info, ce)
					if fn == nil || fn.Pkg() == nil || fn.Pkg().Path() != "strconv" || len(ce.Args) == 0 {
						return true
					}
					switch fn.Name() {
					case "ParseInt", "ParseFloat", "Atoi":
						construct := ord.next("strconv." + fn.Name())
						if argOK(u, ce.Args[0], isTokText, 0) {
							obs = append(obs, mkOb(c, "PARSE.number-conversion", u, construct, ce, Proved, "applied to the token's own text", true))
						} else {
							obs = append(obs, mkOb(c, "PARSE.number-conversion", u, construct, ce, Violated, "the literal is converted from `"+types.ExprString(ce.Args[0])+"`, not from the token's complete text: a conversion of the magnitude followed by a negation cannot read -9223372036854775808", true))
						}
						if fn.Name() == "ParseInt" && len(ce.Args) == 3 {
							construct := ord.next("radix of strconv.ParseInt")
							if argOK(u, ce.Args[1], isRadix, 0) {
								obs = append(obs, mkOb(c, "PARSE.number-conversion", u, construct, ce, Proved, "the radix is a constant between 2 and 36 at every use", true))
							} else {
								obs = append(obs, mkOb(c, "PARSE.number-conversion", u, construct, ce, Violated, "the radix `"+types.ExprString(ce.Args[1])+"` is not a fixed base: base 0 makes strconv infer the radix from the text, so the decimal literal 010 reads as 8 and 08 is refused", true))
							}
						}
					case "ParseUint":
						// an unsigned parse is a magnitude parse when its result is negated or becomes a lisp
						// integer; the code point of an escape sequence (a rune written into a string) is not a
						// numeric literal
						var res types.Object
						ast.Inspect(u.Decl.Body, func(m ast.Node) bool {
							if as, ok := m.(*ast.AssignStmt); ok && len(as.Rhs) == 1 && ast.Unparen(as.Rhs[0]) == ast.Expr(ce) && len(as.Lhs) >= 1 {
								res = identObj(info, as.Lhs[0])
							}
							return true
						})
						mentionsRes := func(e ast.Node) bool {
							hit := false
							ast.Inspect(e, func(k ast.Node) bool {
								if id, ok := k.(*ast.Ident); ok && res != nil && info.Uses[id] == res {
									hit = true
								}
								return !hit
							})
							return hit
						}
						magnitude := res == nil // not bound to a local: judge conservatively
						ast.Inspect(u.Decl.Body, func(m ast.Node) bool {
							switch x := m.(type) {
							case *ast.UnaryExpr:
								if x.Op == token.SUB && mentionsRes(x.X) {
									magnitude = true
								}
							case *ast.CallExpr:
								if f := Callee(info, x); f != nil && f.Pkg() != nil && rel(f.Pkg().Path()) == "lisp" && (f.Name() == "Int" || f.Name() == "Float") {
									for _, a := range x.Args {
										if mentionsRes(a) {
											magnitude = true
										}
									}
								}
							}
							return true
						})
						if magnitude {
							obs = append(obs, mkOb(c, "PARSE.number-conversion", u, ord.next("strconv.ParseUint"), ce, Violated, "an unsigned parse in the reader: the sign is applied afterwards, so the most negative integer cannot be read", true))
						}
					}
					return true
				})
			}
			return obs
		}})
}

// UTF8.error-needs-width — C12 ("every value the printer writes is read back"):
// utf8.DecodeRune reports an undecodable byte as (RuneError, 1).  U+FFFD itself
// is a perfectly valid character that decodes as (RuneError, 3) — and Go's %q,
// which the printer uses for strings, writes it verbatim.  "This rune is an
// encoding error" therefore always takes BOTH tests; the rune value alone also
// refuses every string, symbol and comment that contains a literal U+FFFD.
func init() {
	register(&Rule{ID: "UTF8.error-needs-width", Floor: 4,
		Doc: "every comparison of a decoded rune with utf8.RuneError in the kernel that decides `invalid encoding` is conjoined with a test that the decoded width is 1 (the condition, or the returned boolean expression, implies both): valid U+FFFD text is accepted wherever it appears",
		Run: func(c *Ctx) []Obligation {
			const rid = "UTF8.error-needs-width"
			var obs []Obligation
			for _, u := range c.Funcs(isKernel) {
				if u.Decl == nil || u.Decl.Body == nil {
					continue
				}
				info := u.Pkg.TypesInfo
				isRuneErr := func(e ast.Expr) bool {
					o := identObjOrSel(info, e)
					return o != nil && o.Pkg() != nil && o.Pkg().Path() == "unicode/utf8" && o.Name() == "RuneError"
				}
				ord := &ordinal{}
				// a function every return of which reports an error (`return lex.errorf(…)`) is entered
				// after the input was already refused: a RuneError comparison in it chooses the message,
				// it does not decide whether text is accepted
				onlyReports := func() bool {
					n := 0
					all := true
					ast.Inspect(u.Decl.Body, func(m ast.Node) bool {
						if _, isLit := m.(*ast.FuncLit); isLit {
							return false
						}
						rs, ok := m.(*ast.ReturnStmt)
						if !ok {
							return true
						}
						n++
						if len(rs.Results) != 1 {
							all = false
							return true
						}
						ce, ok := ast.Unparen(rs.Results[0]).(*ast.CallExpr)
						if !ok {
							all = false
							return true
						}
						f := Callee(info, ce)
						if f == nil || !strings.Contains(strings.ToLower(f.Name()), "error") {
							all = false
						}
						return true
					})
					return n > 0 && all
				}()
				// top-level boolean contexts: if conditions and returned expressions
				check := func(root ast.Expr, at ast.Node) {
					if onlyReports {
						mention := false
						ast.Inspect(root, func(m ast.Node) bool {
							if e, ok := m.(ast.Expr); ok && isRuneErr(e) {
								mention = true
							}
							return true
						})
						if mention {
							obs = append(obs, mkOb(c, rid, u, ord.next("RuneError comparison"), at, Proved, "every return of this function reports an error: the comparison selects the message, it does not decide acceptance", false))
						}
						return
					}
					atoms := impliedAtoms(root, true)
					hasErr, hasWidth := false, false
					for _, a := range atoms {
						be, ok := ast.Unparen(a.E).(*ast.BinaryExpr)
						if !ok || !a.Positive || be.Op != token.EQL {
							continue
						}
						if isRuneErr(be.X) || isRuneErr(be.Y) {
							hasErr = true
							continue
						}
						for _, side := range []ast.Expr{be.X, be.Y} {
							if v, ok := intConst(info, side); ok && v == 1 {
								hasWidth = true
							}
						}
					}
					if !hasErr {
						// RuneError mentioned under a disjunction or negation: not implied, look inside
						mention := false
						ast.Inspect(root, func(m ast.Node) bool {
							if e, ok := m.(ast.Expr); ok && isRuneErr(e) {
								mention = true
							}
							return true
						})
						if mention {
							obs = append(obs, mkOb(c, rid, u, ord.next("RuneError comparison"), at, Undecided, "utf8.RuneError is compared inside a condition this rule cannot reduce to a conjunction", true))
						}
						return
					}
					construct := ord.next("RuneError comparison")
					if hasWidth {
						obs = append(obs, mkOb(c, rid, u, construct, at, Proved, "conjoined with a width == 1 test", true))
					} else {
						obs = append(obs, mkOb(c, rid, u, construct, at, Violated, "a rune is classed as an encoding error by its value alone: a valid literal U+FFFD (bytes EF BF BD, width 3) is refused, so a string containing it — which the printer writes verbatim — cannot be read back, and a comment containing it makes the whole program unreadable", true))
					}
				}
				ast.Inspect(u.Decl.Body, func(n ast.Node) bool {
					switch x := n.(type) {
					case *ast.IfStmt:
						check(x.Cond, x)
					case *ast.ReturnStmt:
						for _, r := range x.Results {
							if tv, ok := info.Types[r]; ok {
								if b, ok := tv.Type.Underlying().(*types.Basic); ok && b.Kind() == types.Bool {
									if _, isBin := ast.Unparen(r).(*ast.BinaryExpr); isBin {
										check(r, x)
									}
								}
							}
						}
					}
					return true
				})
			}
			return obs
		}})
}

// LEX.overflow-needs-full-window — C12 ("the three reader modes accept the same
// programs"; a program is accepted or refused for what it says, not for where
// its bytes fall in the scanner's window): a token is too large only when it
// ALONE fills the window — it starts at the window's first byte and there is
// no room to read on.  While the token starts later, the scanner can still
// slide the window; reporting overflow then refuses a valid program whose
// token happens to end a few bytes before the 128KiB edge.
func init() {
	register(&Rule{ID: "LEX.overflow-needs-full-window", Floor: 1,
		Doc: "Scanner.Overflow answers true only over paths that establish the current token starts at the beginning of the window (start == 0), the buffer is at capacity and the reader is not at EOF: a token is refused for its own size, never for its position relative to the window edge",
		Run: func(c *Ctx) []Obligation {
			const rid = "LEX.overflow-needs-full-window"
			fn, fd, pkg := c.LookupFunc("parser/token.(*Scanner).Overflow")
			startF := c.LookupField("parser/token.Scanner.start")
			if fn == nil || startF == nil {
				return []Obligation{anchorMissing(rid, "Scanner.Overflow / Scanner.start")}
			}
			u := FuncUnit{fn, fd, pkg}
			info := pkg.TypesInfo
			fc := c.cfgOf(u, nil)
			cls := func(e ast.Expr) (string, bool) {
				be, ok := ast.Unparen(e).(*ast.BinaryExpr)
				if !ok || be.Op != token.EQL && be.Op != token.NEQ && be.Op != token.GTR {
					return "", false
				}
				isStart := func(a ast.Expr) bool { return FieldOfSelector(info, a) == startF }
				isZero := func(a ast.Expr) bool { v, ok := intConst(info, a); return ok && v == 0 }
				if isStart(be.X) && isZero(be.Y) || isStart(be.Y) && isZero(be.X) {
					return "atstart", be.Op != token.EQL // start != 0 / start > 0 are the negation
				}
				return "", false
			}
			cut := fc.edgesEntailing(cls, func(v map[string]bool) bool { return v["$has:atstart"] && v["atstart"] })
			var obs []Obligation
			ord := &ordinal{}
			for _, b := range fc.G.Blocks {
				if !fc.Live(b) {
					continue
				}
				for _, n := range b.Nodes {
					rs, ok := n.(*ast.ReturnStmt)
					if !ok || len(rs.Results) != 1 || isBoolConst(info, rs.Results[0], false) {
						continue
					}
					construct := ord.next("may answer true")
					if fc.reachableAvoiding(b, cut) {
						obs = append(obs, mkOb(c, rid, u, construct, rs, Violated, "overflow can be reported for a token that does not start at the window's first byte: a string or #' token whose last byte lands just before the 128KiB window edge of a larger source is refused with `token exceeds maximum allowable size` although the window could slide — one byte of padding in front of the program decides whether it is accepted", true))
					} else {
						obs = append(obs, mkOb(c, rid, u, construct, rs, Proved, "only when the token starts at the window's first byte", true))
					}
				}
			}
			return obs
		}})
}

// concatOnlyOfParams: every return of the declared function gives one of its own string parameters, a string
// constant, or a `+` concatenation of those — no slicing, trimming or conversion of the text.
func concatOnlyOfParams(info *types.Info, fd *ast.FuncDecl) bool {
	params := map[types.Object]bool{}
	if fd.Type.Params != nil {
		for _, f := range fd.Type.Params.List {
			for _, nm := range f.Names {
				if o := info.Defs[nm]; o != nil {
					params[o] = true
				}
			}
		}
	}
	var okExpr func(e ast.Expr) bool
	okExpr = func(e ast.Expr) bool {
		e = ast.Unparen(e)
		if tv, ok := info.Types[e]; ok && tv.Value != nil {
			return true
		}
		if o := identObj(info, e); o != nil && params[o] {
			return true
		}
		if be, ok := e.(*ast.BinaryExpr); ok && be.Op == token.ADD {
			return okExpr(be.X) && okExpr(be.Y)
		}
		return false
	}
	rets := returnsOf(fd.Body)
	if len(rets) == 0 {
		return false
	}
	for _, rs := range rets {
		if len(rs.Results) != 1 || !okExpr(rs.Results[0]) {
			return false
		}
	}
	return true
}
