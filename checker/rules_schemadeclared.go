package main

import (
	"fmt"
	"go/constant"
	"go/token"
	"go/types"
	"sort"

	"golang.org/x/tools/go/ssa"
)

// SCHEMA.declared-answers-nil — C14 ("s:validate … returns a non-error value, ()
// for validators made by s:deftype and s:make-validator").  getHandler hands a
// constraint given in the TYPE position back as it is, and a key constraint
// answers with its key name (for s:no-other-keys), so the value getHandler
// returns is not known to answer ().  The rule follows, on SSA, every value that
// s:deftype binds (the value argument of PutGlobal) and s:make-validator returns:
// the raw getHandler result may arrive there only on an edge where its Type was
// just found to be LError; otherwise it has to come through a constructor whose
// validator closure returns nothing but lisp.Nil(), an error built by package
// lisp, or a value it has just found to be an LError.  (Fix 2e76d1b: both entry
// points returned the raw result and (s:validate (s:make-validator "T" (s:has-key
// "a")) (sorted-map "a" 1)) answered "a".)
//
// What it decides is the SHAPE of the hand-out, not the value of every success
// answer: a closure that returns applyConstraint's answer of an inner validator
// is reported as undecided unless audited.
func init() {
	register(&Rule{ID: "SCHEMA.declared-answers-nil", Floor: 2,
		Doc: "the value s:deftype binds (PutGlobal's value argument) and every value s:make-validator returns is, on SSA, an error/() built by package lisp, the getHandler result on an edge where its Type is LError, or the result of a constructor whose validator closure returns only lisp.Nil(), package-lisp errors and values just tested to be LError",
		Run: func(c *Ctx) []Obligation {
			const rid = "SCHEMA.declared-answers-nil"
			const lpkg = "github.com/luthersystems/elps/lisp"
			const spkg = "github.com/luthersystems/elps/lisp/lisplib/libschema"
			lerrObj, _ := c.lerrorConst()
			gh, _, _ := c.LookupFunc("lisp/lisplib/libschema.getHandler")
			nv, _, _ := c.LookupFunc("lisp/lisplib/libschema.newValidator")
			if lerrObj == nil || gh == nil || nv == nil {
				return []Obligation{anchorMissing(rid, "lisp.LError / libschema.getHandler / libschema.newValidator")}
			}
			lerrConst, _ := lerrObj.(*types.Const)
			if lerrConst == nil {
				return []Obligation{anchorMissing(rid, "lisp.LError (constant)")}
			}
			ghSSA, nvSSA := c.ssaFunc(gh), c.ssaFunc(nv)
			if ghSSA == nil || nvSSA == nil {
				return []Obligation{anchorMissing(rid, "SSA of getHandler / newValidator")}
			}
			isLErr := func(v ssa.Value) bool {
				k, ok := v.(*ssa.Const)
				return ok && k.Value != nil && types.Identical(k.Type(), lerrConst.Type()) && constant.Compare(k.Value, token.EQL, lerrConst.Val())
			}
			isTypeOf := func(v, of ssa.Value) bool {
				u, ok := v.(*ssa.UnOp)
				if !ok || u.Op != token.MUL {
					return false
				}
				fa, ok := u.X.(*ssa.FieldAddr)
				if !ok || fa.X != of {
					return false
				}
				st, ok := fa.X.Type().Underlying().(*types.Pointer)
				if !ok {
					return false
				}
				s, ok := st.Elem().Underlying().(*types.Struct)
				return ok && s.Field(fa.Field).Name() == "Type"
			}
			// errSucc: the If that ends block b tests `of.Type ==/!= LError`; returns the
			// index of the successor on which `of` IS an error, or -1.
			errSucc := func(b *ssa.BasicBlock, of ssa.Value) int {
				if len(b.Instrs) == 0 {
					return -1
				}
				iff, ok := b.Instrs[len(b.Instrs)-1].(*ssa.If)
				if !ok {
					return -1
				}
				bo, ok := iff.Cond.(*ssa.BinOp)
				if !ok || bo.Op != token.EQL && bo.Op != token.NEQ {
					return -1
				}
				if !(isTypeOf(bo.X, of) && isLErr(bo.Y) || isTypeOf(bo.Y, of) && isLErr(bo.X)) {
					return -1
				}
				if bo.Op == token.EQL {
					return 0
				}
				return 1
			}
			// knownError: at a use in block b (or, for a phi operand, on the edge from
			// pred), value v has just been found to be an LError.
			knownErrorIn := func(b *ssa.BasicBlock, v ssa.Value) bool {
				for d := b.Idom(); d != nil; d = d.Idom() {
					if i := errSucc(d, v); i >= 0 {
						s, o := d.Succs[i], d.Succs[1-i]
						if s != o && len(s.Preds) == 1 && s.Dominates(b) {
							return true
						}
					}
				}
				return false
			}
			knownErrorEdge := func(pred, to *ssa.BasicBlock, v ssa.Value) bool {
				if i := errSucc(pred, v); i >= 0 && pred.Succs[i] == to && pred.Succs[1-i] != to {
					return true
				}
				return knownErrorIn(pred, v)
			}
			calleeOf := func(v ssa.Value) *ssa.Function {
				call, ok := v.(*ssa.Call)
				if !ok {
					return nil
				}
				return call.Call.StaticCallee()
			}
			inPkg := func(f *ssa.Function, path string) bool {
				return f != nil && f.Pkg != nil && f.Pkg.Pkg.Path() == path
			}
			// answer classification of one value at one use
			type verdict struct {
				ok   bool
				bad  bool // a raw getHandler result handed out
				what string
			}
			var closureOK func(fn *ssa.Function) verdict
			var ctorOK func(fn *ssa.Function, depth int) verdict
			var classify func(v ssa.Value, known func(v ssa.Value) bool, depth int, seen map[ssa.Value]bool) verdict
			classifyAt := func(v ssa.Value, b *ssa.BasicBlock, depth int) verdict {
				seen := map[ssa.Value]bool{}
				var walk func(v ssa.Value, known func(ssa.Value) bool) verdict
				walk = func(v ssa.Value, known func(ssa.Value) bool) verdict {
					if phi, ok := v.(*ssa.Phi); ok {
						if seen[v] {
							return verdict{ok: true}
						}
						seen[v] = true
						for i, e := range phi.Edges {
							pred := phi.Block().Preds[i]
							r := walk(e, func(x ssa.Value) bool { return knownErrorEdge(pred, phi.Block(), x) })
							if !r.ok {
								return r
							}
						}
						return verdict{ok: true}
					}
					return classify(v, known, depth, seen)
				}
				return walk(v, func(x ssa.Value) bool { return knownErrorIn(b, x) })
			}
			classify = func(v ssa.Value, known func(ssa.Value) bool, depth int, seen map[ssa.Value]bool) verdict {
				if k, ok := v.(*ssa.Const); ok && k.Value == nil {
					return verdict{ok: true}
				}
				if known(v) {
					return verdict{ok: true}
				}
				f := calleeOf(v)
				switch {
				case f == nil:
					return verdict{what: fmt.Sprintf("a value the rule cannot trace (%T)", v)}
				case inPkg(f, lpkg):
					// lisp.Nil(), lisp.ErrorConditionf(…), env.PutGlobal(…): not a validator of this package
					return verdict{ok: true}
				case f == ghSSA:
					return verdict{bad: true, what: "the getHandler result as it is (a constraint in the type position comes back unwrapped and a key constraint answers with its key name)"}
				case f == nvSSA:
					call := v.(*ssa.Call)
					if len(call.Call.Args) == 2 {
						arg := call.Call.Args[1]
						// the literal is converted to the named type lisp.LBuiltin
						for {
							ct, ok := arg.(*ssa.ChangeType)
							if !ok {
								break
							}
							arg = ct.X
						}
						if mc, ok := arg.(*ssa.MakeClosure); ok {
							return closureOK(mc.Fn.(*ssa.Function))
						}
						if fn, ok := arg.(*ssa.Function); ok {
							return closureOK(fn)
						}
					}
					return verdict{what: "newValidator over a function value the rule cannot resolve"}
				case inPkg(f, spkg) && depth < 2:
					return ctorOK(f, depth+1)
				}
				return verdict{what: "the result of " + f.String()}
			}
			closureOK = func(fn *ssa.Function) verdict {
				for _, b := range fn.Blocks {
					for _, in := range b.Instrs {
						ret, ok := in.(*ssa.Return)
						if !ok || len(ret.Results) != 1 {
							continue
						}
						r := classifyAt(ret.Results[0], b, 2) // no constructor calls inside a validator body
						if r.bad {
							r.bad = false
						}
						if !r.ok {
							r.what = "a validator closure (" + fn.Name() + ") that answers " + r.what
							return r
						}
					}
				}
				return verdict{ok: true}
			}
			ctorOK = func(fn *ssa.Function, depth int) verdict {
				if len(fn.Blocks) == 0 {
					return verdict{what: "the result of " + fn.String() + " (no body)"}
				}
				n := 0
				for _, b := range fn.Blocks {
					for _, in := range b.Instrs {
						ret, ok := in.(*ssa.Return)
						if !ok || len(ret.Results) != 1 {
							continue
						}
						n++
						r := classifyAt(ret.Results[0], b, depth)
						if !r.ok {
							r.bad = false
							r.what = "the result of " + fn.Name() + ", which returns " + r.what
							return r
						}
					}
				}
				if n == 0 {
					return verdict{what: "the result of " + fn.String()}
				}
				return verdict{ok: true}
			}

			var obs []Obligation
			emit := func(u FuncUnit, construct string, pos token.Pos, r verdict) {
				o := Obligation{Rule: rid, Func: u.Name(), Construct: construct, Pos: c.Pos(pos), Nontrivial: true}
				switch {
				case r.ok:
					o.Verdict, o.Detail = Proved, "answers () or an error: built by package lisp, an LError-tested getHandler result, or a constructor whose validator returns only lisp.Nil() and errors"
				case r.bad:
					o.Verdict, o.Detail = Violated, "hands out "+r.what+": (s:validate (s:make-validator \"T\" (s:has-key \"a\")) (sorted-map \"a\" 1)) answers \"a\", not ()"
				default:
					o.Verdict, o.Detail = Undecided, "hands out "+r.what+": the rule cannot show that a successful validation answers ()"
				}
				obs = append(obs, o)
			}
			for _, name := range []string{"builtinDefType", "builtinMakeValidator"} {
				fn, fd, pkg := c.LookupFunc("lisp/lisplib/libschema." + name)
				if fn == nil {
					obs = append(obs, anchorMissing(rid, "libschema."+name))
					continue
				}
				u := FuncUnit{fn, fd, pkg}
				sf := c.ssaFunc(fn)
				if sf == nil {
					obs = append(obs, anchorMissing(rid, "SSA of libschema."+name))
					continue
				}
				nret, nput := 0, 0
				for _, b := range sf.Blocks {
					for _, in := range b.Instrs {
						switch in := in.(type) {
						case *ssa.Return:
							if name != "builtinMakeValidator" || len(in.Results) != 1 {
								continue
							}
							nret++
							emit(u, fmt.Sprintf("return#%d", nret), in.Pos(), classifyAt(in.Results[0], b, 0))
						case *ssa.Call:
							if name != "builtinDefType" {
								continue
							}
							f := in.Call.StaticCallee()
							if f == nil || !inPkg(f, lpkg) || f.Name() != "PutGlobal" || len(in.Call.Args) != 3 {
								continue
							}
							nput++
							emit(u, fmt.Sprintf("PutGlobal value#%d", nput), in.Pos(), classifyAt(in.Call.Args[2], b, 0))
						}
					}
				}
				if name == "builtinDefType" && nput == 0 {
					obs = append(obs, mkOb(c, rid, u, "binding", fd, Undecided, "s:deftype no longer binds its validator with PutGlobal: the rule does not know where the declared validator goes", true))
				}
			}
			sort.SliceStable(obs, func(i, j int) bool { return obs[i].Func+obs[i].Construct < obs[j].Func+obs[j].Construct })
			return obs
		}})
}
