package main

import (
	"go/ast"
	"go/token"
	"go/types"
	"sort"
)

// SEAL.covers-parser-types — C09 ("the parser seals every node; literals stay
// stable across evaluations, loads and concurrent runtimes").  SealAST walks
// the parsed tree and marks a node only when its type is on a list.  The list
// must contain every node type the reader can construct; a type missing from
// it (LQuote — two or more quotes in a row — is the easy one to forget) stays
// unsealed together with everything below it, and in-place builtins then
// rewrite the shared program.
func init() {
	register(&Rule{ID: "SEAL.covers-parser-types", Floor: 5,
		Doc: "every LVal type that a constructor called from the reader (parser/rdparser) can produce is among the types sealAST marks and descends through, and among those InheritSeal accepts: derived on every run from the constructors' own literals and from the type switch (or lookup table) in lisp/seal.go",
		Run: func(c *Ctx) []Obligation {
			const rid = "SEAL.covers-parser-types"
			lp := c.Pkg("lisp")
			rp := c.Pkg("parser/rdparser")
			if lp == nil || rp == nil {
				return []Obligation{anchorMissing(rid, "packages lisp / parser/rdparser")}
			}
			linfo := lp.TypesInfo
			ltype := lp.Types.Scope().Lookup("LType")
			if ltype == nil {
				return []Obligation{anchorMissing(rid, "lisp.LType")}
			}
			isLTypeConst := func(info *types.Info, e ast.Expr) *types.Const {
				o := identObjOrSel(info, e)
				k, ok := o.(*types.Const)
				if ok && types.Identical(k.Type(), ltype.Type()) {
					return k
				}
				return nil
			}
			// constructors the reader calls
			decls := map[*types.Func]*ast.FuncDecl{}
			for _, u := range c.Funcs(func(p string) bool { return rel(p) == "lisp" }) {
				if u.Decl != nil {
					decls[u.Obj] = u.Decl
				}
			}
			ctors := map[*types.Func]bool{}
			for _, u := range c.Funcs(func(p string) bool { return rel(p) == "parser/rdparser" }) {
				if u.Decl == nil || u.Decl.Body == nil {
					continue
				}
				for _, ce := range callsIn(u.Decl.Body, true) {
					if f := originOf(Callee(u.Pkg.TypesInfo, ce)); f != nil && decls[f] != nil {
						if sig, ok := f.Type().(*types.Signature); ok && sig.Results().Len() == 1 && isLValPtr(c, sig.Results().At(0).Type()) {
							ctors[f] = true
						}
					}
				}
			}
			produced := map[string]string{} // type const name -> constructor
			var scan func(f *types.Func, depth int, via string)
			scan = func(f *types.Func, depth int, via string) {
				d := decls[f]
				if d == nil || d.Body == nil || depth > 2 {
					return
				}
				ast.Inspect(d.Body, func(n ast.Node) bool {
					switch x := n.(type) {
					case *ast.KeyValueExpr:
						if id, ok := x.Key.(*ast.Ident); ok && id.Name == "Type" {
							if k := isLTypeConst(linfo, x.Value); k != nil {
								if _, seen := produced[k.Name()]; !seen {
									produced[k.Name()] = via
								}
							}
						}
					case *ast.CallExpr:
						if g := originOf(Callee(linfo, x)); g != nil && decls[g] != nil && g != f {
							if sig, ok := g.Type().(*types.Signature); ok && sig.Results().Len() == 1 && isLValPtr(c, sig.Results().At(0).Type()) && sig.Recv() == nil {
								scan(g, depth+1, via)
							}
						}
					}
					return true
				})
			}
			for f := range ctors {
				if f.Name() == "Error" || f.Name() == "Errorf" || f.Name() == "ErrorCondition" || f.Name() == "ErrorConditionf" || f.Name() == "GoError" {
					continue // parse failures, not tree nodes
				}
				scan(f, 0, FuncName(f))
			}
			delete(produced, "LError")
			if len(produced) < 5 {
				return []Obligation{mkOb(c, rid, FuncUnit{}, "reader constructors", nil, Undecided, "fewer than five node types found for the reader's constructors", true)}
			}
			// accepted sets
			accepted := func(fname string) (map[string]bool, FuncUnit, string) {
				fn, fd, pkg := c.LookupFunc(fname)
				if fn == nil {
					return nil, FuncUnit{}, "missing " + fname
				}
				u := FuncUnit{fn, fd, pkg}
				out := map[string]bool{}
				found := false
				ast.Inspect(fd.Body, func(n ast.Node) bool {
					switch x := n.(type) {
					case *ast.SwitchStmt:
						se, ok := ast.Unparen(x.Tag).(*ast.SelectorExpr)
						if x.Tag == nil || !ok || se.Sel.Name != "Type" {
							return true
						}
						// clauses that do not return are accepted
						for _, st := range x.Body.List {
							cc := st.(*ast.CaseClause)
							returns := false
							for _, b := range cc.Body {
								if _, ok := b.(*ast.ReturnStmt); ok {
									returns = true
								}
							}
							if returns || cc.List == nil {
								continue
							}
							for _, e := range cc.List {
								if k := isLTypeConst(linfo, e); k != nil {
									out[k.Name()] = true
									found = true
								}
							}
						}
					case *ast.IfStmt:
						// if !pred(v.Type) { return }  with pred reading a table
						ue, ok := ast.Unparen(x.Cond).(*ast.UnaryExpr)
						if !ok || ue.Op != token.NOT {
							return true
						}
						ce, ok := ast.Unparen(ue.X).(*ast.CallExpr)
						if !ok {
							return true
						}
						g := originOf(Callee(linfo, ce))
						if g == nil || decls[g] == nil {
							return true
						}
						// table variables read by g
						ast.Inspect(decls[g].Body, func(m ast.Node) bool {
							ix, ok := m.(*ast.IndexExpr)
							if !ok {
								return true
							}
							tv, ok := identObj(linfo, ix.X).(*types.Var)
							if !ok || tv.Parent() != lp.Types.Scope() {
								return true
							}
							for _, f := range lp.Syntax {
								ast.Inspect(f, func(k ast.Node) bool {
									vs, ok := k.(*ast.ValueSpec)
									if !ok || len(vs.Names) != 1 || linfo.Defs[vs.Names[0]] != tv || len(vs.Values) != 1 {
										return true
									}
									if cl, ok := vs.Values[0].(*ast.CompositeLit); ok {
										for _, el := range cl.Elts {
											if kv, ok := el.(*ast.KeyValueExpr); ok && isBoolConst(linfo, kv.Value, true) {
												if kc := isLTypeConst(linfo, kv.Key); kc != nil {
													out[kc.Name()] = true
													found = true
												}
											}
										}
									}
									return false
								})
							}
							return true
						})
					}
					return true
				})
				if !found {
					// decide it on the flow graph: K is accepted when, assuming the node's Type is K, a store
					// to the seal flag stays reachable (the test may be an if-chain, or live in a boolean
					// helper that receives the Type)
					sealedFld := c.LookupField("lisp.LVal.sealed")
					typeFld := c.LookupField("lisp.LVal.Type")
					fc := c.cfgOf(u, nil)
					stores := fc.blocksWith(func(n ast.Node) bool {
						as, ok := n.(*ast.AssignStmt)
						if !ok {
							return false
						}
						for _, l := range as.Lhs {
							if sealedFld != nil && FieldOfSelector(linfo, l) == sealedFld {
								return true
							}
						}
						return false
					})
					if len(stores) > 0 && typeFld != nil {
						// comparison of `what` (the node's Type, or a helper's parameter) with a type constant
						cmpWith := func(info *types.Info, e ast.Expr, isSubject func(ast.Expr) bool) (string, bool, bool) {
							be, ok := ast.Unparen(e).(*ast.BinaryExpr)
							if !ok || (be.Op != token.EQL && be.Op != token.NEQ) {
								return "", false, false
							}
							for _, pr := range [][2]ast.Expr{{be.X, be.Y}, {be.Y, be.X}} {
								if !isSubject(pr[0]) {
									continue
								}
								if k := isLTypeConst(info, pr[1]); k != nil {
									return k.Name(), be.Op == token.EQL, true
								}
							}
							return "", false, false
						}
						tri := func(same, eq bool) int {
							if same == eq {
								return 1
							}
							return 0
						}
						var cands []string
						for k := range produced {
							cands = append(cands, k)
						}
						cands = append(cands, "") // a type the function never mentions
						for _, k := range cands {
							k := k
							reach := fc.reachableUnder(func(e ast.Expr) int {
								if kk, eq, ok := cmpWith(linfo, e, func(x ast.Expr) bool { return FieldOfSelector(linfo, x) == typeFld }); ok {
									return tri(kk == k, eq)
								}
								// pred(v.Type), or a predicate on the node itself — v.pred() / pred(v): evaluate the helper
								// under the same assumption
								ce, ok := ast.Unparen(e).(*ast.CallExpr)
								if !ok {
									return -1
								}
								g := originOf(Callee(linfo, ce))
								if g == nil || decls[g] == nil || decls[g].Body == nil {
									return -1
								}
								gd := decls[g]
								var param types.Object // the helper's parameter that IS the type
								var node types.Object  // … or its parameter / receiver that is the NODE
								switch {
								case len(ce.Args) == 1 && FieldOfSelector(linfo, ce.Args[0]) == typeFld:
									if gd.Type.Params == nil || len(gd.Type.Params.List) != 1 || len(gd.Type.Params.List[0].Names) != 1 {
										return -1
									}
									param = linfo.Defs[gd.Type.Params.List[0].Names[0]]
								case len(ce.Args) == 0 && gd.Recv != nil && len(gd.Recv.List) == 1 && len(gd.Recv.List[0].Names) == 1:
									if se, ok := ast.Unparen(ce.Fun).(*ast.SelectorExpr); !ok || !isLValPtr(c, linfo.TypeOf(se.X)) {
										return -1
									}
									node = linfo.Defs[gd.Recv.List[0].Names[0]]
								case len(ce.Args) == 1 && isLValPtr(c, linfo.TypeOf(ce.Args[0])) && gd.Type.Params != nil && len(gd.Type.Params.List) == 1 && len(gd.Type.Params.List[0].Names) == 1:
									node = linfo.Defs[gd.Type.Params.List[0].Names[0]]
								default:
									return -1
								}
								if param == nil && node == nil {
									return -1
								}
								gfc := c.cfgOf(FuncUnit{g, gd, lp}, nil)
								greach := gfc.reachableUnder(func(e ast.Expr) int {
									if kk, eq, ok := cmpWith(linfo, e, func(x ast.Expr) bool {
										if param != nil {
											return identObj(linfo, x) == param
										}
										se, ok := ast.Unparen(x).(*ast.SelectorExpr)
										return ok && FieldOfSelector(linfo, se) == typeFld && identObj(linfo, se.X) == node
									}); ok {
										return tri(kk == k, eq)
									}
									return -1
								})
								res := -2
								for b := range greach {
									for _, n := range b.Nodes {
										rs, ok := n.(*ast.ReturnStmt)
										if !ok || len(rs.Results) != 1 {
											continue
										}
										v := -1
										if isBoolConst(linfo, rs.Results[0], true) {
											v = 1
										} else if isBoolConst(linfo, rs.Results[0], false) {
											v = 0
										}
										if res == -2 {
											res = v
										} else if res != v {
											res = -1
										}
									}
								}
								if res == -2 {
									return -1
								}
								return res
							})
							for b := range stores {
								if reach[b] {
									out[k] = true
									found = true
								}
							}
						}
						// a function that accepts every type made no test at all: not what this rule reads
						if out[""] {
							found = false
						}
					}
				}
				if !found {
					return nil, u, "no type switch or table lookup on the node's Type found in " + fname
				}
				return out, u, ""
			}
			var obs []Obligation
			names := make([]string, 0, len(produced))
			for k := range produced {
				names = append(names, k)
			}
			sort.Strings(names)
			for _, fname := range []string{"lisp.(*LVal).sealAST", "lisp.(*LVal).InheritSeal"} {
				acc, u, prob := accepted(fname)
				if prob != "" {
					obs = append(obs, mkOb(c, rid, u, "accepted node types", nil, Undecided, prob, true))
					continue
				}
				for _, k := range names {
					construct := "reader type " + k
					if acc[k] {
						obs = append(obs, mkOb(c, rid, u, construct, u.Decl, Proved, "produced by "+produced[k]+"; accepted", true))
					} else {
						obs = append(obs, mkOb(c, rid, u, construct, u.Decl, Violated, "the reader can produce a node of this type (via "+produced[k]+") but "+fname+" does not accept it: such a node — and everything below it, since the walk stops there — stays unsealed in the parsed program, so an in-place builtin applied to a value that reaches it rewrites the program for every evaluation, load and runtime sharing the parse", true))
					}
				}
			}
			return obs
		}})
}

// SEAL.evaluated-copies — C09 / C11 ("a quoted literal of the program is never
// changed by running the program": the in-place builtins copy a literal before
// they write).  That copy-on-write keys off the seal the reader puts on every
// parsed node — and LVal.Copy CLEARS the seal on every node it creates.  Code
// that evaluates a COPY of a parsed tree as program text (a cached loader
// running its expressions once per call) therefore evaluates literals that look
// like ordinary mutable lists, and stable-sort rewrites them in place.
func init() {
	register(&Rule{ID: "SEAL.evaluated-copies", Floor: 1,
		Doc: "wherever the interpreter hands the evaluator a tree it just obtained from LVal.Copy (Eval(x.Copy()), or a local defined by x.Copy() and then evaluated), SealAST is called on that copy before the evaluation: a copied program is sealed like every tree a reader produces, so copy-on-write of literals works in it",
		Run: func(c *Ctx) []Obligation {
			const rid = "SEAL.evaluated-copies"
			cp := c.LookupMethod("lisp.LVal.Copy")
			seal := c.LookupMethod("lisp.LVal.SealAST")
			if cp == nil || seal == nil {
				return []Obligation{anchorMissing(rid, "LVal.Copy / LVal.SealAST")}
			}
			evalLike := c.evalLikeSet()
			var obs []Obligation
			for _, u := range c.Funcs(func(p string) bool { return rel(p) == "lisp" }) {
				if u.Decl == nil || u.Decl.Body == nil {
					continue
				}
				info := u.Pkg.TypesInfo
				ord := &ordinal{}
				isCopyCall := func(e ast.Expr) bool {
					ce, ok := ast.Unparen(e).(*ast.CallExpr)
					return ok && originOf(Callee(info, ce)) == cp
				}
				for _, bu := range bodiesOf(u.Decl) {
					var root ast.Node = u.Decl.Body
					if bu.Lit != nil {
						root = bu.Lit.Body
					}
					var fc *FCFG
					ast.Inspect(root, func(n ast.Node) bool {
						if fl, ok := n.(*ast.FuncLit); ok && fl != bu.Lit {
							return false
						}
						ce, ok := n.(*ast.CallExpr)
						if !ok {
							return true
						}
						f := originOf(Callee(info, ce))
						if f == nil || !evalLike[f] {
							return true
						}
						for _, a := range ce.Args {
							if tv, ok := info.Types[a]; !ok || !isLValPtr(c, tv.Type) {
								continue
							}
							construct := ""
							sealed := false
							switch {
							case isCopyCall(a):
								construct = ord.next("evaluation of " + exprShape(info, a))
							default:
								o := identObj(info, a)
								if o == nil {
									continue
								}
								// a local whose definitions are all x.Copy()
								ndef, ncopy := 0, 0
								var def *ast.AssignStmt
								ast.Inspect(root, func(m ast.Node) bool {
									if as, ok := m.(*ast.AssignStmt); ok && len(as.Lhs) == len(as.Rhs) {
										for i, l := range as.Lhs {
											if identObj(info, l) == o {
												ndef++
												if isCopyCall(as.Rhs[i]) {
													ncopy++
													def = as
												}
											}
										}
									}
									return true
								})
								if ndef == 0 || ncopy != ndef {
									continue
								}
								construct = ord.next("evaluation of a copied tree")
								// SealAST on the local dominates the evaluation
								if fc == nil {
									fc = c.cfgOf(u, bu.Lit)
								}
								eloc, ok1 := fc.Locate(ce)
								for _, b := range fc.G.Blocks {
									if !fc.Live(b) {
										continue
									}
									for i, nd := range b.Nodes {
										for _, sc := range callsIn(nd, false) {
											if originOf(Callee(info, sc)) != seal {
												continue
											}
											if se, ok := ast.Unparen(sc.Fun).(*ast.SelectorExpr); ok && identObj(info, se.X) == o && ok1 && fc.Dominates(Loc{b, i}, eloc) && def != nil {
												sealed = true
											}
										}
									}
								}
							}
							if construct == "" {
								continue
							}
							if sealed {
								obs = append(obs, mkOb(c, rid, u, construct, ce, Proved, "the copy is sealed before it is evaluated", true))
							} else {
								obs = append(obs, mkOb(c, rid, u, construct, ce, Undecided, "a tree obtained from LVal.Copy is evaluated without having been sealed: Copy clears the seal, and the copy-on-write of stable-sort / append / slice keys off it, so a quoted literal in the evaluated code is rewritten in place (and, if the code defines functions, stays rewritten)", true))
							}
						}
						return true
					})
				}
			}
			return obs
		}})
}
