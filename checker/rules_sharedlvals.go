package main

import (
	"go/types"
	"sort"
)

// STATE.shared-lvals — C10 / C09 ("nothing observable depends on other runtimes
// that ran earlier in the same process"): an *LVal is a mutable record — the
// evaluator stamps source locations and call stacks INTO error values, seals
// and annotates others.  A package-level variable that holds LVals is therefore
// state shared by every runtime of the process, whether or not the package that
// declares it ever writes to it again; the first runtime to touch such a value
// leaves its mark for all later ones.
func init() {
	register(&Rule{ID: "STATE.shared-lvals", Floor: 2,
		Doc: "the package-level variables of the interpreter kernel whose type can hold a *lisp.LVal (directly, or through arrays, slices, maps, pointers and struct fields) are exactly the confirmed set of immutable, sealed singletons and registration tables: no other lisp value — in particular no pre-built error value, which the evaluator stamps with the location and call stack of its first use — is shared between runtimes",
		Run: func(c *Ctx) []Obligation {
			const rid = "STATE.shared-lvals"
			lval := c.LookupType("lisp.LVal")
			if lval == nil {
				return []Obligation{anchorMissing(rid, "lisp.LVal")}
			}
			var holds func(t types.Type, depth int, seen map[types.Type]bool) bool
			holds = func(t types.Type, depth int, seen map[types.Type]bool) bool {
				if t == nil || depth > 5 || seen[t] {
					return false
				}
				seen[t] = true
				if n, ok := types.Unalias(t).(*types.Named); ok && n.Obj() == lval.Obj() {
					return true
				}
				switch x := t.Underlying().(type) {
				case *types.Pointer:
					return holds(x.Elem(), depth+1, seen)
				case *types.Slice:
					return holds(x.Elem(), depth+1, seen)
				case *types.Array:
					return holds(x.Elem(), depth+1, seen)
				case *types.Map:
					return holds(x.Key(), depth+1, seen) || holds(x.Elem(), depth+1, seen)
				case *types.Struct:
					for i := 0; i < x.NumFields(); i++ {
						if holds(x.Field(i).Type(), depth+1, seen) {
							return true
						}
					}
				case *types.Chan:
					return holds(x.Elem(), depth+1, seen)
				case *types.Interface:
					// a storage interface (lisp.Map: Get hands out the values it holds): a
					// package-level map backing is shared lisp storage just as an LVal is
					for i := 0; i < x.NumMethods(); i++ {
						sig, _ := x.Method(i).Type().(*types.Signature)
						if sig == nil {
							continue
						}
						for k := 0; k < sig.Results().Len(); k++ {
							if holds(sig.Results().At(k).Type(), depth+1, seen) {
								return true
							}
						}
					}
				}
				return false
			}
			permitted := map[string]string{
				"lisp.singletonTrue":   "the symbol true: sealed at init (MUT.* rules refuse stores into sealed values), returned by lookups of `true`",
				"lisp.singletonFalse":  "the symbol false: as singletonTrue",
				"lisp.userBuiltins":    "embedder registration table (RegisterDefaultBuiltin), documented to be filled before any runtime exists; STATE.package-vars audits its writers",
				"lisp.userSpecialOps":  "as userBuiltins",
				"lisp.userMacros":      "as userBuiltins",
				"lisp.langBuiltins":    "table of builtin definitions: formals lists sealed at init (REG.formals), never handed to programs as values",
				"lisp.langSpecialOps":  "as langBuiltins",
				"lisp.langMacros":      "as langBuiltins",
				"lisp.singletonNil":    "the empty list Nil() hands out: guarded singleton (isSingleton / assertNotSingleton, snapshotted by checkSingleton in checked builds); MUT.* rules refuse stores into it",
				"lisp.initSnapshot":    "checked builds only (build tag elpscheck): the copy of the three singletons taken at init, compared by checkSingleton to detect a write into them; never handed to programs",
				"lisp.sealCheck":       "checked builds only (build tag elpscheck): the fingerprint registry of sealed trees used to detect writes into shared parsed programs; holds no value a program can reach",
				"lisp/lisplib/libschema.validatorMarker": "identity-only credential of schema validators: a Native cell compared by pointer in isValidator, never evaluated, bound or written after init",
			}
			// definition tables: slices of builtin definitions (formals sealed at registration,
			// REG.formals), never handed to programs as values
			var defIface *types.Interface
			if n := c.LookupType("lisp.LBuiltinDef"); n != nil {
				defIface, _ = n.Underlying().(*types.Interface)
			}
			isDefTable := func(t types.Type) bool {
				if defIface == nil {
					return false
				}
				var elem types.Type
				switch x := t.Underlying().(type) {
				case *types.Slice:
					elem = x.Elem()
				case *types.Array:
					elem = x.Elem()
				default:
					return false
				}
				return types.Implements(elem, defIface) || types.Implements(types.NewPointer(elem), defIface)
			}
			var obs []Obligation
			var names []string
			byName := map[string]*types.Var{}
			for _, p := range c.Pkgs {
				if !isKernel(p.PkgPath) || p.Types == nil {
					continue
				}
				sc := p.Types.Scope()
				for _, nm := range sc.Names() {
					v, ok := sc.Lookup(nm).(*types.Var)
					if !ok {
						continue
					}
					if !holds(v.Type(), 0, map[types.Type]bool{}) {
						continue
					}
					full := canonObjName(v)
					names = append(names, full)
					byName[full] = v
				}
			}
			sort.Strings(names)
			for _, full := range names {
				v := byName[full]
				o := Obligation{Rule: rid, Func: full, Construct: "package-level variable holding lisp values", Pos: c.Pos(v.Pos())}
				if why, ok := permitted[full]; ok {
					o.Verdict, o.Detail = Proved, "confirmed: "+why
				} else if isDefTable(v.Type()) {
					o.Verdict, o.Detail = Proved, "a table of builtin definitions (implements lisp.LBuiltinDef): formals are sealed at registration and the entries are not lisp values a program can reach"
				} else {
					o.Verdict, o.Detail, o.Nontrivial = Undecided, "a lisp value (type "+v.Type().String()+") is stored in a package-level variable and so shared by every runtime of the process: LVals are mutable records — an error value handed out from here is stamped with the source location and call stack of its FIRST use, and every later failure, in any runtime, reports those", true
				}
				obs = append(obs, o)
			}
			return obs
		}})
}
