package main

import (
	"go/ast"
	"go/token"
	"go/types"
	"sort"
)

// DEPTH.counter-stores — C03 ("the process is never killed by stack exhaustion
// from deep nesting or recursive macros … reading source text alone has the
// same guarantee"): every recursion of the reader, the evaluator and the
// analyzer that input can drive is bounded by a counter that goes up on the way
// in, down on the way out, and is compared with a limit.  The bound holds only
// while the counter MEANS the current depth: any store other than ++ / -- (a
// reset while children are processed, a save/restore around a sub-walk) makes
// the comparison measure something shorter than the Go stack.
func init() {
	register(&Rule{ID: "DEPTH.counter-stores", Floor: 4,
		Doc: "a struct field of the reader, evaluator or analyzer that is a recursion-depth counter — an integer field that some function increments and that is compared with a limit (`f < max`, `f > max`, …) — is written only by ++ and -- statements: it is never assigned, reset or restored from a saved copy, so the value compared with the limit is the number of active levels",
		Run: func(c *Ctx) []Obligation {
			const rid = "DEPTH.counter-stores"
			scope := func(p string) bool {
				switch rel(p) {
				case "lisp", "parser/rdparser", "analysis", "parser/lexer", "parser/token":
					return true
				}
				return false
			}
			cs := c.censusFor(nil)
			// candidate counters: int fields with an increment
			inc := map[*types.Var]bool{}
			for _, w := range cs.Writes {
				if w.Kind != "incdec" || w.Field.Pkg() == nil || !scope(w.Field.Pkg().Path()) {
					continue
				}
				if bt, ok := w.Field.Type().Underlying().(*types.Basic); !ok || bt.Info()&types.IsInteger == 0 {
					continue
				}
				if ids, ok := w.Node.(*ast.IncDecStmt); ok && ids.Tok == token.INC {
					inc[w.Field] = true
				}
			}
			// ... that are decremented too and compared with something in a condition
			dec := map[*types.Var]bool{}
			for _, w := range cs.Writes {
				if ids, ok := w.Node.(*ast.IncDecStmt); ok && ids.Tok == token.DEC && inc[w.Field] {
					dec[w.Field] = true
				}
			}
			compared := map[*types.Var]bool{}
			for _, u := range c.Funcs(func(p string) bool { return scope(p) }) {
				info := u.Pkg.TypesInfo
				ast.Inspect(u.Decl.Body, func(n ast.Node) bool {
					be, ok := n.(*ast.BinaryExpr)
					if !ok {
						return true
					}
					switch be.Op {
					case token.LSS, token.LEQ, token.GTR, token.GEQ:
						for _, side := range []ast.Expr{be.X, be.Y} {
							if f := FieldOfSelector(info, side); f != nil && inc[f] && dec[f] {
								// compared with a limit: the other side is not a literal zero
								other := be.Y
								if side == be.Y {
									other = be.X
								}
								if k, isC := intConst(info, other); isC && k == 0 {
									continue
								}
								compared[f] = true
							}
						}
					}
					return true
				})
			}
			var fields []*types.Var
			for f := range compared {
				fields = append(fields, f)
			}
			sort.Slice(fields, func(i, j int) bool { return fields[i].Pos() < fields[j].Pos() })
			var obs []Obligation
			for _, f := range fields {
				owner := rel(f.Pkg().Path()) + "." + f.Name()
				ords := map[string]*ordinal{}
				for _, w := range cs.WritersOf(f) {
					if w.Kind == "through" {
						continue
					}
					name := w.Unit.Name()
					if ords[name] == nil {
						ords[name] = &ordinal{}
					}
					switch w.Kind {
					case "incdec":
						obs = append(obs, mkOb(c, rid, w.Unit, ords[name].next("step of "+owner), w.Node, Proved, "++ / --", false))
					default:
						obs = append(obs, mkOb(c, rid, w.Unit, ords[name].next("store to "+owner), w.Node, Undecided,
							"the depth counter "+owner+" is "+w.Kind+"ed here rather than stepped: after this store the value compared with the limit is no longer the number of active levels of the recursion it bounds, so nesting (or re-expansion) spread over sub-forms is not counted", true))
					}
				}
			}
			if len(fields) == 0 {
				obs = append(obs, anchorMissing(rid, "an incremented, decremented and limit-compared integer field"))
			}
			return obs
		}})
}
