package main

import (
	"go/ast"
	"go/token"
	"go/types"
	"strings"

	"golang.org/x/tools/go/cfg"
)

// CTX.builtin-reentry — C04 / C15: call() bridges the evaluation's context onto
// the environment a builtin is called WITH.  A builtin that re-enters the
// evaluator on a DIFFERENT environment (the root environment, for load-string /
// load-bytes / load-file) through an entry point that takes no context runs the
// nested evaluation under whatever context that other environment happens to
// carry — none, when the builtin was reached from inside a function body.
func init() {
	register(&Rule{ID: "CTX.builtin-reentry", Floor: 3,
		Doc: "a registered builtin or operator of the interpreter that evaluates code on an environment other than the one it was called with (env.root(), a stored environment) does so through an entry point that takes a context, and the context it passes comes from its own environment (env.evalCtx / env.Context()): nested loads stay under the caller's cancellation and deadline wherever the builtin is called from",
		Run: func(c *Ctx) []Obligation {
			const rid = "CTX.builtin-reentry"
			evalLike := c.evalLikeSet()
			ctxFld := c.LookupField("lisp.LEnv.evalCtx")
			ctxM := c.LookupMethod("lisp.LEnv.Context")
			var obs []Obligation
			seen := map[*types.Func]bool{}
			for _, e := range c.Registry() {
				if rel(e.Pkg.PkgPath) != "lisp" || e.Problem != "" {
					continue
				}
				body, u, lit, ok := c.BodyOf(e)
				if !ok || u.Decl == nil || seen[u.Obj] {
					continue
				}
				seen[u.Obj] = true
				info := u.Pkg.TypesInfo
				envP := argsParamEnv(info, u, lit)
				if envP == nil {
					continue
				}
				ord := &ordinal{}
				for _, ce := range callsIn(body, false) {
					f := originOf(Callee(info, ce))
					if f == nil || !evalLike[f] {
						continue
					}
					se, ok := ast.Unparen(ce.Fun).(*ast.SelectorExpr)
					if !ok {
						continue
					}
					if identObj(info, se.X) == envP {
						continue // on its own environment: the context was bridged there
					}
					// a child environment made from its own (NewEnv copies the parent's context)
					if ro := identObj(info, se.X); ro != nil {
						derived := false
						ast.Inspect(body, func(m ast.Node) bool {
							as, ok := m.(*ast.AssignStmt)
							if !ok || len(as.Lhs) != len(as.Rhs) {
								return true
							}
							for i, l := range as.Lhs {
								if identObj(info, l) != ro {
									continue
								}
								if mk, ok := ast.Unparen(as.Rhs[i]).(*ast.CallExpr); ok && len(mk.Args) >= 1 {
									if g := originOf(Callee(info, mk)); g != nil && (shortName(g) == "NewEnv" || shortName(g) == "newEnvN") && identObj(info, mk.Args[0]) == envP {
										derived = true
									}
								}
							}
							return true
						})
						if derived {
							continue
						}
					}
					construct := ord.next("evaluation on another environment (" + shortName(f) + ")")
					// a context argument that comes from the builtin's own environment
					okCtx := false
					for _, a := range ce.Args {
						tv, ok := info.Types[a]
						if !ok || !strings.HasSuffix(tv.Type.String(), "context.Context") {
							continue
						}
						switch x := ast.Unparen(a).(type) {
						case *ast.SelectorExpr:
							if FieldOfSelector(info, x) == ctxFld && identObj(info, x.X) == envP {
								okCtx = true
							}
						case *ast.CallExpr:
							if originOf(Callee(info, x)) == ctxM {
								if s2, ok := ast.Unparen(x.Fun).(*ast.SelectorExpr); ok && identObj(info, s2.X) == envP {
									okCtx = true
								}
							}
						}
					}
					if okCtx {
						obs = append(obs, mkOb(c, rid, u, construct, ce, Proved, "passes the context of the environment the builtin was called with", true))
					} else {
						obs = append(obs, mkOb(c, rid, u, construct, ce, Violated, "the nested evaluation runs on `"+types.ExprString(se.X)+"` without being given the caller's context: that environment carries this evaluation's context only when the builtin is called directly in it, so from inside a function body the loaded code ignores cancellation and the deadline (a pending time:sleep included)", true))
					}
				}
			}
			return obs
		}})
}

// argsParamEnv: the *LEnv parameter of a builtin-shaped function or literal.
func argsParamEnv(info *types.Info, u FuncUnit, lit *ast.FuncLit) types.Object {
	var ft *ast.FuncType
	if lit != nil {
		ft = lit.Type
	} else if u.Decl != nil {
		ft = u.Decl.Type
	}
	if ft == nil || ft.Params == nil {
		return nil
	}
	for _, f := range ft.Params.List {
		for _, nm := range f.Names {
			if o := info.Defs[nm]; o != nil && strings.HasSuffix(o.Type().String(), "lisp.LEnv") {
				return o
			}
		}
	}
	return nil
}

// RET.never-nil — C01 / C03: a builtin's result is a value; a nil *LVal is not
// one, and call() reports it as "internal error: builtin … returned nil".  The
// way a nil result arises is a result variable declared without a value
// (`var val *LVal`) that some path returns before any assignment — typically
// the path on which a loop over zero forms does not run.
func init() {
	register(&Rule{ID: "RET.never-nil", Floor: 5,
		Doc: "in every registered builtin, operator and macro of the interpreter, a local of type *LVal declared without an initial value is not returned on any path that has not assigned it: an empty body, an empty argument list or a loop that runs zero times yields a value (the empty list), never a nil result that the caller reports as an internal error",
		Run: func(c *Ctx) []Obligation {
			const rid = "RET.never-nil"
			var obs []Obligation
			seen := map[ast.Node]bool{}
			for _, e := range c.Registry() {
				if e.Problem != "" {
					continue
				}
				body, u, lit, ok := c.BodyOf(e)
				if !ok || u.Decl == nil || seen[body] {
					continue
				}
				seen[body] = true
				info := u.Pkg.TypesInfo
				var fc *FCFG
				ord := &ordinal{}
				ast.Inspect(body, func(n ast.Node) bool {
					if fl, ok := n.(*ast.FuncLit); ok && fl != lit {
						return false
					}
					ds, ok := n.(*ast.DeclStmt)
					if !ok {
						return true
					}
					gd, ok := ds.Decl.(*ast.GenDecl)
					if !ok || gd.Tok != token.VAR {
						return true
					}
					for _, sp := range gd.Specs {
						vs := sp.(*ast.ValueSpec)
						if len(vs.Values) != 0 {
							continue
						}
						for _, nm := range vs.Names {
							o := info.Defs[nm]
							if o == nil || !isLValPtr(c, o.Type()) {
								continue
							}
							if fc == nil {
								fc = c.cfgOf(u, lit)
							}
							loc, ok := fc.Locate(vs) // go/cfg records the ValueSpec of a var declaration
							if !ok {
								loc, ok = fc.Locate(ds)
							}
							if !ok {
								continue
							}
							construct := ord.next("zero-valued result variable")
							// range loops that certainly run at least once (the function left on `len(S) == 0`
							// before) and assign the variable first thing in their body: leaving such a loop
							// means the variable has been assigned
							assigned := map[*cfg.Block]bool{}
							for _, sl := range fc.loopsOver(func(ast.Expr) bool { return true }) {
								// `for _, x := range S` and `for i := 0; i < len(S); i++` alike
								lb := sl.Head
								rs := struct {
									Body *ast.BlockStmt
									X    ast.Expr
								}{sl.Body, sl.X}
								if len(rs.Body.List) == 0 {
									continue
								}
								first, ok := rs.Body.List[0].(*ast.AssignStmt)
								if !ok {
									continue
								}
								assignsO := false
								for _, lh := range first.Lhs {
									if identObj(info, lh) == o {
										assignsO = true
									}
								}
								if !assignsO {
									continue
								}
								sx := types.ExprString(rs.X)
								cls := func(e ast.Expr) (string, bool) {
									be, ok := ast.Unparen(e).(*ast.BinaryExpr)
									if !ok {
										return "", false
									}
									ce, ok := ast.Unparen(be.X).(*ast.CallExpr)
									if !ok || len(ce.Args) != 1 || types.ExprString(ce.Fun) != "len" || types.ExprString(ce.Args[0]) != sx {
										return "", false
									}
									k, isC := intConst(info, be.Y)
									if !isC {
										return "", false
									}
									switch {
									case be.Op == token.EQL && k == 0, be.Op == token.LSS && k == 1, be.Op == token.LEQ && k == 0:
										return "empty", false
									case be.Op == token.NEQ && k == 0, be.Op == token.GTR && k == 0, be.Op == token.GEQ && k == 1:
										return "empty", true
									}
									return "", false
								}
								nonEmpty := fc.edgesEntailing(cls, func(v map[string]bool) bool { return v["$has:empty"] && !v["empty"] })
								if len(nonEmpty) > 0 && !fc.reachableAvoiding(lb, nonEmpty) {
									assigned[lb] = true
								}
							}
							_, bad := fc.ForwardSearch(loc, func(l Loc, m ast.Node) searchVerdict {
								if assigned[l.B] {
									return svStop
								}
								switch x := m.(type) {
								case *ast.AssignStmt:
									for _, lh := range x.Lhs {
										if identObj(info, lh) == o {
											return svStop
										}
									}
								case *ast.RangeStmt:
									if identObj(info, x.Key) == o || identObj(info, x.Value) == o {
										return svStop
									}
								case *ast.ReturnStmt:
									for _, r := range x.Results {
										if identObj(info, r) == o {
											return svBad
										}
									}
								}
								// address taken / passed by pointer: something else may assign it
								stop := false
								ast.Inspect(m, func(k ast.Node) bool {
									if ue, ok := k.(*ast.UnaryExpr); ok && ue.Op == token.AND && identObj(info, ue.X) == o {
										stop = true
									}
									return !stop
								})
								if stop {
									return svStop
								}
								return svContinue
							}, func(b *cfg.Block, k int) bool { return !assigned[b] }, nil)
							if bad {
								obs = append(obs, mkOb(c, rid, u, construct, ds, Violated, "`"+o.Name()+"` is declared without a value and can be returned before anything is assigned to it (e.g. when the loop that assigns it runs zero times): the builtin hands back a nil *LVal, which call() turns into `internal error: builtin "+e.Name+" returned nil`", true))
							} else {
								obs = append(obs, mkOb(c, rid, u, construct, ds, Proved, "assigned on every path before it is returned", false))
							}
						}
					}
					return true
				})
			}
			return obs
		}})
}

// FORMS.variadic-recognisers — C08 / C17: use-package takes any number of
// packages.  Every static recogniser of the form — the analyzer's prescan, the
// workspace scanner that builds the cross-file import table — must visit every
// argument; one that reads `expr.Cells[1]` only knows about the first package,
// and the exports of the others are unknown names to the tools.
func init() {
	register(&Rule{ID: "FORMS.variadic-recognisers", Floor: 2,
		Doc: "every function of the analysis and minifier packages that recognises a (use-package …) form and extracts a package name from it does so inside a loop over the form's argument cells (`range expr.Cells[1:]`): no recogniser reads a fixed argument position of a form whose builtin is variadic",
		Run: func(c *Ctx) []Obligation {
			const rid = "FORMS.variadic-recognisers"
			// the builtin is variadic according to the registry
			ent := c.RegistryByName("lisp", "use-package")
			if ent == nil {
				return []Obligation{anchorMissing(rid, "builtin use-package")}
			}
			var obs []Obligation
			for _, u := range c.Funcs(func(p string) bool { r := rel(p); return r == "analysis" || r == "minifier" }) {
				if u.Decl == nil || u.Decl.Body == nil {
					continue
				}
				info := u.Pkg.TypesInfo
				ord := &ordinal{}
				ast.Inspect(u.Decl.Body, func(n ast.Node) bool {
					cc, ok := n.(*ast.CaseClause)
					if !ok || len(cc.List) != 1 {
						return true
					}
					if s, ok := constStringVal(info, cc.List[0]); !ok || s != "use-package" {
						return true
					}
					// the arm itself, and the handler it hands the form to (one call deep)
					regions := []ast.Node{}
					for _, st := range cc.Body {
						regions = append(regions, st)
						for _, ce := range callsIn(st, false) {
							if h := originOf(Callee(info, ce)); h != nil && h.Pkg() == u.Obj.Pkg() {
								takesForm := false
								for _, a := range ce.Args {
									if tv, ok := info.Types[a]; ok && strings.HasSuffix(tv.Type.String(), "lisp.LVal") {
										takesForm = true
									}
								}
								if hd := c.declOf[h]; hd != nil && hd.Body != nil && takesForm {
									regions = append(regions, hd.Body)
								}
							}
						}
					}
					fixed, looped := false, false
					var at ast.Node = cc
					for _, r := range regions {
						ast.Inspect(r, func(m ast.Node) bool {
							switch x := m.(type) {
							case *ast.RangeStmt:
								if sl, ok := ast.Unparen(x.X).(*ast.SliceExpr); ok {
									if se, ok := ast.Unparen(sl.X).(*ast.SelectorExpr); ok && se.Sel.Name == "Cells" {
										looped = true
									}
								}
							case *ast.IndexExpr:
								if se, ok := ast.Unparen(x.X).(*ast.SelectorExpr); ok && se.Sel.Name == "Cells" {
									if k, ok := intConst(info, x.Index); ok && k >= 1 {
										fixed = true
										at = x
									}
								}
							}
							return true
						})
					}
					if !fixed && !looped {
						return true // the arm does not read the arguments (e.g. only collects the form)
					}
					construct := ord.next("use-package arguments")
					if looped && !fixed {
						obs = append(obs, mkOb(c, rid, u, construct, cc, Proved, "ranges over the form's argument cells", true))
					} else {
						obs = append(obs, mkOb(c, rid, u, construct, at, Violated, "the recogniser reads a fixed argument position of a use-package form: (use-package 'a 'b) imports both packages at run time, but the tool only learns about the first, so the exports of the others are undefined names to the analysis (and missing from the cross-file import table)", true))
					}
					return true
				})
			}
			return obs
		}})
}

// SCHEMA.constraints-consumed — C14 ("s:validate succeeds exactly when the value
// has the declared type and satisfies every constraint"): getHandler receives
// the type and the constraints that follow it.  Every way of building the
// validator must use the constraints; a branch that returns a validator it was
// handed (a validator used as the base type) without them silently drops
// `(s:lt 10)` from `(s:deftype "small" 'myint (s:lt 10))`.
func init() {
	register(&Rule{ID: "SCHEMA.constraints-consumed", Floor: 1,
		Doc: "in libschema.getHandler every return that hands back a validator it did not build from the constraint list (a returned local or parameter rather than the result of a handler called with the constraints) is reachable only over an edge that establishes the constraint list is empty (`len(constraints) == 0`): constraints written after the type are never dropped",
		Run: func(c *Ctx) []Obligation {
			const rid = "SCHEMA.constraints-consumed"
			fn, fd, pkg := c.LookupFunc("lisp/lisplib/libschema.getHandler")
			if fn == nil {
				return []Obligation{anchorMissing(rid, "libschema.getHandler")}
			}
			u := FuncUnit{fn, fd, pkg}
			info := pkg.TypesInfo
			// the constraint list: the []*LVal parameter
			var cons types.Object
			for _, p := range paramObjs(u) {
				if strings.HasPrefix(p.Type().String(), "[]*") && strings.HasSuffix(p.Type().String(), "lisp.LVal") {
					cons = p
				}
			}
			if cons == nil {
				return []Obligation{mkOb(c, rid, u, "constraint list parameter", fd, Undecided, "getHandler has no []*LVal parameter", false)}
			}
			fc := c.cfgOf(u, nil)
			cls := func(e ast.Expr) (string, bool) {
				be, ok := ast.Unparen(e).(*ast.BinaryExpr)
				if !ok {
					return "", false
				}
				ce, ok := ast.Unparen(be.X).(*ast.CallExpr)
				if !ok || len(ce.Args) != 1 || types.ExprString(ce.Fun) != "len" || identObj(info, ce.Args[0]) != cons {
					return "", false
				}
				k, isC := intConst(info, be.Y)
				if !isC {
					return "", false
				}
				switch {
				case be.Op == token.EQL && k == 0, be.Op == token.LSS && k == 1, be.Op == token.LEQ && k == 0:
					return "empty", false
				case be.Op == token.NEQ && k == 0, be.Op == token.GTR && k == 0, be.Op == token.GEQ && k == 1:
					return "empty", true
				}
				return "", false
			}
			emptyEdges := fc.edgesEntailing(cls, func(v map[string]bool) bool { return v["empty"] })
			// locals that are built from the constraints: assigned from a call that receives the
			// constraint list (or a value derived from it)
			uses := func(n ast.Node) bool {
				found := false
				ast.Inspect(n, func(m ast.Node) bool {
					if id, ok := m.(*ast.Ident); ok && info.Uses[id] == cons {
						found = true
					}
					return !found
				})
				return found
			}
			built := map[types.Object]bool{}
			for changed := true; changed; {
				changed = false
				ast.Inspect(fd.Body, func(n ast.Node) bool {
					as, ok := n.(*ast.AssignStmt)
					if !ok || len(as.Lhs) != len(as.Rhs) {
						return true
					}
					for i, l := range as.Lhs {
						o := identObj(info, l)
						if o == nil || built[o] {
							continue
						}
						usesBuilt := uses(as.Rhs[i])
						ast.Inspect(as.Rhs[i], func(m ast.Node) bool {
							if id, ok := m.(*ast.Ident); ok && built[info.Uses[id]] {
								usesBuilt = true
							}
							return true
						})
						if usesBuilt {
							built[o] = true
							changed = true
						}
					}
					return true
				})
			}
			var obs []Obligation
			ord := &ordinal{}
			for _, b := range fc.G.Blocks {
				if !fc.Live(b) {
					continue
				}
				for _, n := range b.Nodes {
					rs, ok := n.(*ast.ReturnStmt)
					if !ok || len(rs.Results) != 1 {
						continue
					}
					r := ast.Unparen(rs.Results[0])
					o := identObj(info, r)
					if o == nil {
						continue // a call: an error constructor or a handler (SCHEMA.build-errors / children-applied)
					}
					if built[o] {
						continue // built from the constraints
					}
					// an error local?  defined only by error constructors / validation results
					if definedOnlyByErrorCtor(c, info, fd, o) {
						continue
					}
					// the local is tested for LError on the way? (returning a propagated error)
					if strings.Contains(strings.ToLower(o.Name()), "err") {
						continue
					}
					construct := ord.next("return of a value not built from the constraints")
					// error propagation `if c.Type == LError { return c }`
					isErrRet := false
					for _, ee := range errorEdgesOf(c, fc) {
						if ee.Obj == o && ee.E.B.Succs[ee.E.K] == b {
							isErrRet = true
						}
					}
					if isErrRet {
						continue
					}
					if len(emptyEdges) > 0 && !fc.reachableAvoiding(b, emptyEdges) {
						obs = append(obs, mkOb(c, rid, u, construct, rs, Proved, "returned as it is only when no constraints were given", true))
					} else {
						obs = append(obs, mkOb(c, rid, u, construct, rs, Violated, "`"+o.Name()+"` is handed back as the validator although constraints may have been given: they are validated and then dropped, so (s:deftype \"small\" 'myint (s:lt 10)) accepts 100", true))
					}
				}
			}
			if len(obs) == 0 {
				obs = append(obs, mkOb(c, rid, u, "returns", fd, Proved, "every validator getHandler returns is built by a call that receives the constraints", false))
			}
			return obs
		}})
}

func errorEdgesOf(c *Ctx, fc *FCFG) []errEdge {
	lerr, typeFld := c.lerrorConst()
	if lerr == nil || typeFld == nil {
		return nil
	}
	return errorEdges(fc, typeFld, lerr)
}

// SCHEMA.optional-type-list — C14: the type list of s:has-key / s:may-have-key
// is optional (`key &rest allowed-types`); without one the value under the key
// may have any type.  A scan for "some allowed type matches" over an EMPTY list
// finds nothing, so the refusal that follows the scan must not apply then.
func init() {
	register(&Rule{ID: "SCHEMA.optional-type-list", Floor: 2,
		Doc: "in every schema constraint whose formals are a required argument followed by `&rest allowed-types` (has-key, may-have-key), the wrong-type refusal that follows the scan of the allowed types is reachable only over an edge that establishes the list is not empty (`len(allowed) > 0`), or from inside the scanning loop: a constraint written without a type list accepts a value of any type, as documented",
		Run: func(c *Ctx) []Obligation {
			const rid = "SCHEMA.optional-type-list"
			var obs []Obligation
			for _, e := range c.Registry() {
				if rel(e.Pkg.PkgPath) != "lisp/lisplib/libschema" || e.Problem != "" {
					continue
				}
				// formals: <required...> &rest <types>
				fs := e.Formals
				if len(fs) < 3 || fs[len(fs)-2] != "&rest" || strings.HasPrefix(fs[0], "&") {
					continue
				}
				body, u, _, ok := c.BodyOf(e)
				if !ok || u.Decl == nil {
					continue
				}
				body, u, _ = c.followForwarder(body, u)
				info := u.Pkg.TypesInfo
				// the slice built from the rest arguments: appended to inside a loop over args.Cells[k:]
				var allowed types.Object
				ast.Inspect(body, func(n ast.Node) bool {
					rs, ok := n.(*ast.RangeStmt)
					if !ok {
						return true
					}
					if sl, ok := ast.Unparen(rs.X).(*ast.SliceExpr); !ok || !strings.HasSuffix(types.ExprString(sl.X), ".Cells") {
						return true
					}
					ast.Inspect(rs.Body, func(m ast.Node) bool {
						if as, ok := m.(*ast.AssignStmt); ok && len(as.Lhs) == 1 && len(as.Rhs) == 1 {
							if ce, ok := ast.Unparen(as.Rhs[0]).(*ast.CallExpr); ok && types.ExprString(ce.Fun) == "append" && len(ce.Args) >= 1 && identObj(info, ce.Args[0]) == identObj(info, as.Lhs[0]) {
								allowed = identObj(info, as.Lhs[0])
							}
						}
						return true
					})
					return true
				})
				// ... or the result of a resolving helper given args.Cells[k:]
				if allowed == nil {
					ast.Inspect(body, func(n ast.Node) bool {
						as, ok := n.(*ast.AssignStmt)
						if !ok || len(as.Rhs) != 1 {
							return true
						}
						ce, ok := ast.Unparen(as.Rhs[0]).(*ast.CallExpr)
						if !ok {
							return true
						}
						for _, a := range ce.Args {
							if sl, ok := ast.Unparen(a).(*ast.SliceExpr); ok && strings.HasSuffix(types.ExprString(sl.X), ".Cells") {
								if o := identObj(info, as.Lhs[0]); o != nil {
									if _, isSlice := o.Type().Underlying().(*types.Slice); isSlice {
										allowed = o
									}
								}
							}
						}
						return true
					})
				}
				if allowed == nil {
					continue // the &rest arguments are not collected into a list of allowed types (deftype, make-validator)
				}
				// the validator closure: the literal that ranges over `allowed`
				var lit *ast.FuncLit
				ast.Inspect(body, func(n ast.Node) bool {
					fl, ok := n.(*ast.FuncLit)
					if !ok {
						return true
					}
					ast.Inspect(fl.Body, func(m ast.Node) bool {
						if id, ok := m.(*ast.Ident); ok && info.Uses[id] == allowed {
							lit = fl
						}
						return true
					})
					return true
				})
				if lit == nil {
					continue
				}
				ord := &ordinal{}
				obs = append(obs, c.optionalTypeListCheck(rid, e.Name, u, lit, allowed, ord, 0)...)
			}
			return obs
		}})
}

// optionalTypeListCheck: inside body (a validator closure, or a helper the
// closure hands the list to) every wrong-type refusal that follows the scan of
// `allowed` is reachable only where the list is known not to be empty.
func (c *Ctx) optionalTypeListCheck(rid, ename string, u FuncUnit, lit *ast.FuncLit, allowed types.Object, ord *ordinal, depth int) []Obligation {
	var obs []Obligation
	info := u.Pkg.TypesInfo
	var bodyNode ast.Node = u.Decl.Body
	if lit != nil {
		bodyNode = lit.Body
	}
	fc := c.cfgOf(u, lit)
	cls := func(ex ast.Expr) (string, bool) {
		be, ok := ast.Unparen(ex).(*ast.BinaryExpr)
		if !ok {
			return "", false
		}
		ce, ok := ast.Unparen(be.X).(*ast.CallExpr)
		if !ok || len(ce.Args) != 1 || types.ExprString(ce.Fun) != "len" || identObj(info, ce.Args[0]) != allowed {
			return "", false
		}
		k, isC := intConst(info, be.Y)
		if !isC {
			return "", false
		}
		switch {
		case be.Op == token.EQL && k == 0, be.Op == token.LSS && k == 1, be.Op == token.LEQ && k == 0:
			return "empty", false
		case be.Op == token.NEQ && k == 0, be.Op == token.GTR && k == 0, be.Op == token.GEQ && k == 1:
			return "empty", true
		}
		return "", false
	}
	nonEmpty := fc.edgesEntailing(cls, func(v map[string]bool) bool { return v["$has:empty"] && !v["empty"] })
	wrong := c.LookupPkgObj("lisp/lisplib/libschema.WrongType")
	// position of the scanning loop / helper call over `allowed`
	var scanPos token.Pos
	ast.Inspect(bodyNode, func(m ast.Node) bool {
		switch x := m.(type) {
		case *ast.RangeStmt:
			if identObj(info, x.X) == allowed && !scanPos.IsValid() {
				scanPos = x.Pos()
			}
		case *ast.CallExpr:
			for k, a := range x.Args {
				if identObj(info, a) != allowed {
					continue
				}
				if !scanPos.IsValid() {
					scanPos = x.Pos()
				}
				// the list is handed to a helper of the package: the refusal may be written there
				if h := originOf(Callee(info, x)); h != nil && depth < 2 && h.Pkg() == u.Obj.Pkg() {
					if hd := c.declOf[h]; hd != nil && hd.Body != nil {
						sig := h.Type().(*types.Signature)
						if k < sig.Params().Len() {
							obs = append(obs, c.optionalTypeListCheck(rid, ename, FuncUnit{h, hd, c.pkgOf[hd]}, nil, sig.Params().At(k), ord, depth+1)...)
						}
					}
				}
			}
		}
		return true
	})
	for _, b := range fc.G.Blocks {
		if !fc.Live(b) {
			continue
		}
		for _, n := range b.Nodes {
			rs, ok := n.(*ast.ReturnStmt)
			if !ok || len(rs.Results) != 1 || !scanPos.IsValid() || rs.Pos() < scanPos {
				continue
			}
			ce, ok := ast.Unparen(rs.Results[0]).(*ast.CallExpr)
			if !ok || len(ce.Args) == 0 || wrong == nil || identObjOrSel(info, ce.Args[0]) != wrong {
				continue
			}
			construct := ord.next(ename + ": wrong-type refusal after the scan")
			if len(nonEmpty) > 0 && !fc.reachableAvoiding(b, nonEmpty) {
				obs = append(obs, mkOb(c, rid, u, construct, rs, Proved, "applies only when a type list was given", true))
			} else {
				obs = append(obs, mkOb(c, rid, u, construct, rs, Violated, "with no type list the scan over the allowed types finds nothing and this refusal applies to every PRESENT key: ("+ename+" \"a\") rejects (sorted-map \"a\" 1), although the type list is optional", true))
			}
		}
	}
	return obs
}
