package main

import (
	"go/ast"
	"go/types"
	"strings"
)

// ANALYZE.brackets-are-syntax — C17 / C19: a list written with brackets is
// parsed as a quoted list.  The operators that take an argument apart as
// syntax — cond's clauses, handler-bind's binding list and entries — do not
// look at that flag: `(cond [(f 1 2) 1] [else 2])` evaluates (f 1 2).  The
// static analysis must walk the same positions whether or not they are
// bracketed; skipping a quoted clause leaves its calls unresolved (the minifier
// then renames the definition but not the call, and user-arity never sees it).
func init() {
	register(&Rule{ID: "ANALYZE.brackets-are-syntax", Floor: 2,
		Doc: "in the analyzer's handlers for cond and handler-bind no IsQuoted() test on a clause, an entry or the binding list decides whether it is analysed, because the evaluator's opCond / opHandlerBind take those positions apart without looking at the quoted flag: the test and body of a bracketed clause, and the handler of a bracketed binding, are resolved like any other code",
		Run: func(c *Ctx) []Obligation {
			const rid = "ANALYZE.brackets-are-syntax"
			var obs []Obligation
			for _, pair := range [][2]string{{"analysis.(*analyzer).analyzeCond", "cond"}, {"analysis.(*analyzer).analyzeHandlerBind", "handler-bind"}} {
				fn, fd, pkg := c.LookupFunc(pair[0])
				if fn == nil {
					obs = append(obs, anchorMissing(rid, pair[0]))
					continue
				}
				u := FuncUnit{fn, fd, pkg}
				info := pkg.TypesInfo
				// does the evaluator look at the flag in the syntax positions of this operator?
				evalLooks := false
				if ent := c.RegistryByName("lisp", pair[1]); ent != nil {
					if body, eu, _, ok := c.BodyOf(*ent); ok {
						ast.Inspect(body, func(n ast.Node) bool {
							switch x := n.(type) {
							case *ast.SelectorExpr:
								if x.Sel.Name == "quoted" {
									evalLooks = true
								}
							case *ast.CallExpr:
								if se, ok := ast.Unparen(x.Fun).(*ast.SelectorExpr); ok && se.Sel.Name == "IsQuoted" {
									evalLooks = true
								}
							}
							return true
						})
						_ = eu
					}
				}
				// syntax-position variables of the analyzer function: range values and locals taken from node.Cells[k]
				syntaxVars := map[types.Object]bool{}
				ast.Inspect(fd.Body, func(n ast.Node) bool {
					switch x := n.(type) {
					case *ast.RangeStmt:
						if x.Value != nil {
							if o := identObj(info, x.Value); o != nil {
								syntaxVars[o] = true
							}
						}
					case *ast.AssignStmt:
						for i, r := range x.Rhs {
							if ix, ok := ast.Unparen(r).(*ast.IndexExpr); ok && i < len(x.Lhs) {
								if se, ok := ast.Unparen(ix.X).(*ast.SelectorExpr); ok && se.Sel.Name == "Cells" {
									if o := identObj(info, x.Lhs[i]); o != nil {
										syntaxVars[o] = true
									}
								}
							}
						}
					}
					return true
				})
				var bad *ast.CallExpr
				ast.Inspect(fd.Body, func(n ast.Node) bool {
					is, ok := n.(*ast.IfStmt)
					if !ok {
						return true
					}
					ast.Inspect(is.Cond, func(m ast.Node) bool {
						ce, ok := m.(*ast.CallExpr)
						if !ok {
							return true
						}
						se, ok := ast.Unparen(ce.Fun).(*ast.SelectorExpr)
						if ok && se.Sel.Name == "IsQuoted" && syntaxVars[identObj(info, se.X)] {
							// the default-symbol test `test.IsQuoted()` on the clause's FIRST ELEMENT is about
							// the symbol else/true, not about the clause: only clause-level variables count
							if strings.HasPrefix(types.ExprString(se.X), "test") {
								return true
							}
							bad = ce
						}
						return true
					})
					return true
				})
				construct := "operator " + pair[1]
				switch {
				case evalLooks:
					obs = append(obs, mkOb(c, rid, u, construct, fd, Undecided, "the evaluator's implementation of `"+pair[1]+"` now looks at the quoted flag itself: re-derive what the analyzer must skip", true))
				case bad != nil:
					obs = append(obs, mkOb(c, rid, u, construct, bad, Violated, "the analyzer decides by `"+types.ExprString(bad)+"` whether to analyse a syntax position of `"+pair[1]+"`, but the evaluator takes that position apart without looking at the flag: a bracketed clause or binding — `(cond [(f 1 2) 1])`, `(handler-bind [(condition (lambda …))] …)` — is evaluated and not analysed, so calls inside it are never resolved (renamed definitions leave them behind; user-arity never checks them)", true))
				default:
					obs = append(obs, mkOb(c, rid, u, construct, fd, Proved, "clauses and bindings are analysed whether or not they are bracketed", true))
				}
			}
			return obs
		}})

	// PKG.qualified-assignment — C08 ("`pkg:name` reaches any binding of pkg"): reading
	// (GetGlobal), defining (PutGlobal) and assigning (update, behind set!) a global
	// are three doors to the same bindings; each must split a package-qualified
	// symbol, or `(set! user:gx 2)` is refused for a binding `user:gx` evaluates.
	register(&Rule{ID: "PKG.qualified-assignment", Floor: 3,
		Doc: "each of the three global accessors of an environment — GetGlobal (evaluation), PutGlobal (set/defun) and update (set!) — calls SplitSymbol on the symbol before it touches a package table: a qualified symbol is resolved to its own package's binding for assignment as it is for evaluation and definition",
		Run: func(c *Ctx) []Obligation {
			const rid = "PKG.qualified-assignment"
			split := c.LookupPkgFunc("lisp.SplitSymbol")
			if split == nil {
				return []Obligation{anchorMissing(rid, "lisp.SplitSymbol")}
			}
			var obs []Obligation
			for _, name := range []string{"lisp.(*LEnv).GetGlobal", "lisp.(*LEnv).PutGlobal", "lisp.(*LEnv).update"} {
				fn, fd, pkg := c.LookupFunc(name)
				if fn == nil {
					obs = append(obs, anchorMissing(rid, name))
					continue
				}
				u := FuncUnit{fn, fd, pkg}
				found := c.callsWithinHelpers(u, split, 0)
				if found {
					obs = append(obs, mkOb(c, rid, u, "splits a qualified symbol", fd, Proved, "calls SplitSymbol", true))
				} else {
					obs = append(obs, mkOb(c, rid, u, "splits a qualified symbol", fd, Violated, "the symbol is handed to the current package's table as written: for `pkg:name` the table is asked for a binding literally called \"pkg:name\", so (set 'gx 1) (set! user:gx 2) fails with `symbol not bound: user:gx` although user:gx evaluates to 1", true))
				}
			}
			return obs
		}})
}

// WALK.quoted-not-pruned — C19 / C17: astutil.Walk / WalkSExprs is the walker
// under every lint analyzer (builtin-arity, user-arity and the construction of
// their skip sets).  A list written with brackets READS as a quoted list, and
// let / flet / labels binding lists, cond clauses and handler-bind entries are
// syntax whether bracketed or not — so a generic walker that stops at quoted
// lists never reaches the calls inside `(let ([x (f 1 2)]) …)`.  What is data
// is decided by the analyzers (markQuotedData), per position, not by the walker.
func init() {
	register(&Rule{ID: "WALK.quoted-not-pruned", Floor: 1,
		Doc: "in the generic AST walkers of package astutil (every function that recurses over node.Cells by calling itself) no condition that decides whether a node's children are visited reads the node's quoted flag (IsQuoted() / .quoted), directly or through a boolean helper of the package: bracketed binding lists, cond clauses and handler-bind entries — quoted lists that the evaluator takes apart as syntax — are walked like their parenthesised spelling",
		Run: func(c *Ctx) []Obligation {
			const rid = "WALK.quoted-not-pruned"
			var obs []Obligation
			inAst := func(p string) bool { return rel(p) == "astutil" }
			var readsQuoted func(info *types.Info, n ast.Node, depth int) bool
			readsQuoted = func(info *types.Info, n ast.Node, depth int) bool {
				found := false
				ast.Inspect(n, func(m ast.Node) bool {
					switch x := m.(type) {
					case *ast.SelectorExpr:
						if x.Sel.Name == "quoted" {
							found = true
						}
					case *ast.CallExpr:
						if se, ok := ast.Unparen(x.Fun).(*ast.SelectorExpr); ok && se.Sel.Name == "IsQuoted" {
							found = true
						}
						if h := originOf(Callee(info, x)); h != nil && depth < 2 && h.Pkg() != nil && inAst(h.Pkg().Path()) {
							if hd := c.declOf[h]; hd != nil && hd.Body != nil {
								if readsQuoted(c.pkgOf[hd].TypesInfo, hd.Body, depth+1) {
									found = true
								}
							}
						}
					}
					return !found
				})
				return found
			}
			for _, u := range c.Funcs(inAst) {
				if u.Decl == nil || u.Decl.Body == nil {
					continue
				}
				info := u.Pkg.TypesInfo
				// a recursive walker: calls itself inside a range over <x>.Cells
				recursive := false
				ast.Inspect(u.Decl.Body, func(n ast.Node) bool {
					rs, ok := n.(*ast.RangeStmt)
					if !ok {
						return true
					}
					if se, ok := ast.Unparen(rs.X).(*ast.SelectorExpr); !ok || se.Sel.Name != "Cells" {
						return true
					}
					for _, ce := range callsIn(rs.Body, true) {
						if originOf(Callee(info, ce)) == u.Obj {
							recursive = true
						}
					}
					return true
				})
				if !recursive {
					continue
				}
				ord := &ordinal{}
				n := 0
				ast.Inspect(u.Decl.Body, func(m ast.Node) bool {
					var cond ast.Expr
					switch x := m.(type) {
					case *ast.IfStmt:
						cond = x.Cond
					case *ast.CaseClause:
						for _, e := range x.List {
							if readsQuoted(info, e, 0) {
								cond = e
							}
						}
					}
					if cond == nil {
						return true
					}
					n++
					construct := ord.next("pruning condition")
					if readsQuoted(info, cond, 0) {
						obs = append(obs, mkOb(c, rid, u, construct, cond, Violated, "whether the walker descends into a list depends on the list's quoted flag: a bracketed binding list, cond clause or handler-bind entry reads as a quoted list and is syntax, so the calls inside `(let ([x (f 1 2)]) …)` are never visited — arity checks, and the skip sets built with the same walker, silently miss them", true))
					} else {
						obs = append(obs, mkOb(c, rid, u, construct, cond, Proved, "does not read the quoted flag", false))
					}
					return true
				})
				if n == 0 {
					obs = append(obs, mkOb(c, rid, u, "walker", u.Decl, Proved, "recurses unconditionally", false))
				}
			}
			return obs
		}})
}
