package main

import (
	"encoding/json"
	"flag"
	"fmt"
	"os"
	"path/filepath"
	"runtime"
	"runtime/debug"
	"sort"
	"strconv"
	"strings"
	"time"
)

// PropSpec ties a property to the rules that decide its structural clauses.
type PropSpec struct {
	ID          string
	Rules       []string
	Explanation string
	Assumptions []string
	// Configs the thorough tier repeats the rules under.
	ThoroughConfigs []string
}

func main() {
	repo := flag.String("repo", "/repo", "repository working tree")
	prop := flag.String("property", "", "property id (C01..C20) or 'all'")
	tier := flag.String("tier", envOr("VERIF_TIER", "quick"), "quick|thorough")
	replay := flag.String("replay", "", "replay file: re-evaluate one obligation")
	listRules := flag.Bool("list", false, "list rules and properties")
	dump := flag.Bool("dump", false, "print every obligation")
	config := flag.String("config", "", "restrict to one build config")
	census := flag.String("census", "", "debug: comma-separated fields to print writers of")
	dumpReg := flag.Bool("registry", false, "debug: print the extracted registry")
	dumpCFG := flag.String("cfg", "", "debug: print the CFG of a function")
	dumpSCC := flag.Bool("sccs", false, "debug: print recursive call-graph components")
	anchorFPFlag := flag.Bool("anchor-fingerprints", false, "maintenance: print the fingerprints of every unexported function and field of this tree as JSON (to be saved as tables/anchor_fingerprints.json)")
	censusBudgetFlag := flag.Bool("census-budget", false, "maintenance: print the census site totals of the permitted functions on this tree as JSON (to be reviewed and saved as tables/census_budget.json)")
	dumpLVal := flag.Bool("lvalwrites", false, "debug: survey LVal stores/appends/views")
	flag.Parse()
	debug.SetGCPercent(200)

	if *listRules {
		for _, id := range sortedKeys(ruleRegistry) {
			fmt.Printf("%-28s floor=%-3d %s\n", id, ruleRegistry[id].Floor, ruleRegistry[id].Doc)
		}
		return
	}
	if *anchorFPFlag {
		c, err := Load(*repo, buildConfigs["default"])
		if err != nil {
			fmt.Println(err)
			os.Exit(1)
		}
		b, _ := json.MarshalIndent(c.currentFingerprints(), "", " ")
		fmt.Println(string(b))
		return
	}
	if *censusBudgetFlag {
		c, err := Load(*repo, buildConfigs["default"])
		if err != nil {
			fmt.Println(err)
			os.Exit(1)
		}
		for _, id := range sortedKeys(ruleRegistry) {
			if strings.HasPrefix(id, "CENSUS.") || strings.HasPrefix(id, "CALLERS.") {
				safeRun(ruleRegistry[id], c)
			}
		}
		m, _ := c.memo["censusTotals"].(map[string]int)
		b, _ := json.MarshalIndent(m, "", " ")
		fmt.Println(string(b))
		return
	}
	if *dumpLVal {
		c, err := Load(*repo, buildConfigs["default"])
		if err != nil {
			fmt.Println(err)
			os.Exit(1)
		}
		debugLValWrites(c)
		return
	}
	if *dumpSCC {
		c, err := Load(*repo, buildConfigs["default"])
		if err != nil {
			fmt.Println(err)
			os.Exit(1)
		}
		debugSCCs(c)
		return
	}
	if *dumpCFG != "" {
		c, err := Load(*repo, buildConfigs["default"])
		if err != nil {
			fmt.Println(err)
			os.Exit(1)
		}
		debugCFG(c, *dumpCFG)
		return
	}
	if *dumpReg {
		c, err := Load(*repo, buildConfigs["default"])
		if err != nil {
			fmt.Println(err)
			os.Exit(1)
		}
		debugRegistry(c)
		return
	}
	if *census != "" {
		c, err := Load(*repo, buildConfigs["default"])
		if err != nil {
			fmt.Println(err)
			os.Exit(1)
		}
		debugCensus(c, strings.Split(*census, ","))
		return
	}
	if *replay != "" {
		os.Exit(doReplay(*repo, *replay))
	}
	if *prop == "" {
		fmt.Fprintln(os.Stderr, "usage: elpscheck -property Cnn [-tier quick|thorough]")
		os.Exit(2)
	}
	seed, _ := strconv.Atoi(os.Getenv("VERIF_SEED"))
	var ids []string
	if *prop == "all" {
		ids = sortedKeys(propSpecs)
	} else {
		ids = strings.Split(*prop, ",")
	}
	exit := 0
	cache := map[string]*Ctx{}
	for _, id := range ids {
		spec, ok := propSpecs[id]
		if !ok {
			fmt.Fprintf(os.Stderr, "unknown property %s\n", id)
			os.Exit(2)
		}
		if code := runProperty(*repo, spec, *tier, seed, *dump, *config, cache); code != 0 {
			exit = code
		}
	}
	os.Exit(exit)
}

func envOr(k, d string) string {
	if v := os.Getenv(k); v != "" {
		return v
	}
	return d
}

func getCtx(repo string, cfgName string, cache map[string]*Ctx) (*Ctx, error) {
	if c, ok := cache[cfgName]; ok {
		return c, nil
	}
	// keep at most one non-default program in memory
	for k := range cache {
		if k != "default" {
			delete(cache, k)
			runtime.GC()
		}
	}
	c, err := Load(repo, buildConfigs[cfgName])
	if err != nil {
		return nil, err
	}
	cache[cfgName] = c
	return c, nil
}

func runProperty(repo string, spec PropSpec, tier string, seed int, dump bool, onlyCfg string, cache map[string]*Ctx) int {
	start := time.Now()
	evPath := filepath.Join(evidenceDir(), spec.ID+".json")
	fail := func(msg string) int {
		fmt.Printf("CHECK-FAILED property=%s %s\n", spec.ID, msg)
		// A framework failure is a failure of the check, reported as a violation
		// of the check's own integrity so that it can never pass silently.
		rp := writeReplay(spec.ID, tier, Obligation{Rule: "FRAMEWORK", Func: "-", Construct: msg, Verdict: Violated}, "")
		fmt.Printf("VIOLATION property=%s replay=%s\n", spec.ID, rp)
		_ = writeEvidence(evPath, evidence{PropertyID: spec.ID, Tier: tier, Seed: seed, Level: "other",
			Coverage:    map[string]any{"explanation": "check could not run: " + msg, "obligations": 0, "discharged": 0},
			Assumptions: spec.Assumptions, WallS: time.Since(start).Seconds(), Violations: 1})
		return 1
	}
	tables, err := loadTables()
	if err != nil {
		return fail("TABLES " + err.Error())
	}
	configs := []string{"default"}
	if tier == "thorough" {
		configs = append(configs, spec.ThoroughConfigs...)
	}
	if onlyCfg != "" {
		configs = []string{onlyCfg}
	}
	var all []Obligation
	ruleStats := map[string]int{}
	var problems []string
	nfuncs, npkgs := 0, 0
	cfgSummaries := []string{}
	for _, cfgName := range configs {
		c, err := getCtx(repo, cfgName, cache)
		if err != nil {
			return fail(fmt.Sprintf("config=%s %v", cfgName, err))
		}
		if cfgName == "default" {
			nfuncs = len(c.Funcs(nil))
			npkgs = len(c.Pkgs)
		}
		n := 0
		for _, rid := range spec.Rules {
			r, ok := ruleRegistry[rid]
			if !ok {
				return fail("unknown rule " + rid)
			}
			if r.ThoroughOnly && tier != "thorough" {
				continue
			}
			obs := safeRun(r, c)
			for i := range obs {
				obs[i].Config = cfgName
				if obs[i].Rule == "" {
					obs[i].Rule = r.ID
				}
			}
			if cfgName == "default" {
				ruleStats[r.ID] = len(obs)
				// Floor is the number of sites confirmed by hand on the audited tree.  A refactoring that
				// merges duplicated sites into one helper legitimately lowers the count, so the vacuity
				// guard fires below HALF of it (and always at zero): a recogniser that stopped matching
				// loses all of its sites, a consolidation does not.
				eff := r.Floor
				if eff > 1 {
					eff = (eff + 1) / 2
				}
				if len(obs) < eff {
					problems = append(problems, fmt.Sprintf("rule %s produced %d obligations, floor is %d (rule would pass vacuously)", r.ID, len(obs), eff))
				}
			}
			n += len(obs)
			all = append(all, obs...)
		}
		cfgSummaries = append(cfgSummaries, fmt.Sprintf("%s:%d", cfgName, n))
	}
	// de-duplicate across configs: same key & same verdict counts once
	seen := map[string]bool{}
	var uniq []Obligation
	for _, o := range all {
		k := o.Key() + "|" + o.Verdict
		if seen[k] {
			continue
		}
		seen[k] = true
		uniq = append(uniq, o)
	}
	defCtx, _ := getCtx(repo, "default", cache)
	uniq = classify(spec.ID, uniq, tables, defCtx)
	sort.SliceStable(uniq, func(i, j int) bool { return uniq[i].Key() < uniq[j].Key() })

	counts := map[string]int{}
	nontriv := map[string]bool{}
	var viol, known []Obligation
	for _, o := range uniq {
		counts[o.Status]++
		if o.Nontrivial && o.Status == "proved" {
			nontriv[o.Key()] = true
		}
		switch o.Status {
		case "violation":
			viol = append(viol, o)
		case "known-finding":
			known = append(known, o)
		}
		if dump {
			fmt.Printf("  [%s] %s @%s :: %s\n", o.Status, o.Key(), o.Pos, o.Detail)
		}
	}
	for _, p := range problems {
		viol = append(viol, Obligation{Rule: "FRAMEWORK", Func: "-", Construct: p, Verdict: Violated, Status: "violation"})
	}
	for _, nt := range anchorNotes {
		fmt.Println("note: " + nt)
	}
	anchorNotes = nil
	fmt.Printf("property=%s tier=%s configs=%s packages=%d functions=%d obligations=%d proved=%d audited=%d known=%d violations=%d\n",
		spec.ID, tier, strings.Join(cfgSummaries, ","), npkgs, nfuncs, len(uniq), counts["proved"], counts["audited"], counts["known-finding"], len(viol))
	for _, rid := range sortedKeys(ruleStats) {
		fmt.Printf("  rule %-26s sites=%d\n", rid, ruleStats[rid])
	}
	for _, o := range known {
		fmt.Printf("KNOWN-FINDING: property=%s %s [%s at %s] %s\n", spec.ID, o.Reason, o.Key(), o.Pos, o.Detail)
	}
	for _, o := range viol {
		doc := ""
		if r, ok := ruleRegistry[o.Rule]; ok {
			doc = r.Doc
		}
		rp := writeReplay(spec.ID, tier, o, doc)
		fmt.Printf("  violation: rule=%s func=%s construct=%q at %s verdict=%s: %s\n", o.Rule, o.Func, o.Construct, o.Pos, o.Verdict, o.Detail)
		fmt.Printf("VIOLATION property=%s replay=%s\n", spec.ID, rp)
	}
	// samples: a spread of obligations
	var samples []any
	perRule := map[string]int{}
	for _, o := range uniq {
		if perRule[o.Rule] >= 3 {
			continue
		}
		perRule[o.Rule]++
		samples = append(samples, map[string]any{"rule": o.Rule, "func": o.Func, "construct": o.Construct,
			"pos": o.Pos, "status": o.Status, "detail": o.Detail, "reason": o.Reason})
	}
	ruleDocs := []string{}
	for _, rid := range spec.Rules {
		ruleDocs = append(ruleDocs, rid+": "+ruleRegistry[rid].Doc)
	}
	ev := evidence{PropertyID: spec.ID, Tier: tier, Seed: seed, Level: "other",
		Coverage: map[string]any{
			"explanation":         spec.Explanation,
			"obligations":         len(uniq),
			"discharged":          counts["proved"],
			"audited":             counts["audited"],
			"known_findings":      counts["known-finding"],
			"evaluations":         len(all),
			"distinct_nontrivial": len(nontriv),
			"rule": "one obligation per (rule, function, construct) site found in /repo's type-checked working tree; " +
				"non-trivial = discharged by a path, dominance, dataflow or call-graph argument rather than by a membership lookup; rules: " + strings.Join(ruleDocs, " || "),
			"samples":            samples,
			"exhaustive":         true,
			"sites_per_rule":     ruleStats,
			"packages_analysed":  npkgs,
			"functions_analysed": nfuncs,
			"build_configs":      cfgSummaries,
			"checker_cmd":        "./run.sh check " + spec.ID + " " + tier,
		},
		Assumptions: spec.Assumptions, WallS: time.Since(start).Seconds(), Violations: len(viol)}
	if err := writeEvidence(evPath, ev); err != nil {
		fmt.Printf("CHECK-FAILED property=%s cannot write evidence: %v\n", spec.ID, err)
		return 1
	}
	if len(viol) > 0 {
		return 1
	}
	return 0
}

// safeRun converts a rule panic into an undecided obligation: an analysis crash
// must fail the check, not pass it.
func safeRun(r *Rule, c *Ctx) (obs []Obligation) {
	defer func() {
		if e := recover(); e != nil {
			obs = append(obs, Obligation{Rule: r.ID, Func: "-", Construct: "rule panicked", Verdict: Undecided,
				Detail: fmt.Sprintf("%v\n%s", e, debug.Stack())})
		}
	}()
	return r.Run(c)
}

func doReplay(repo, path string) int {
	b, err := os.ReadFile(path)
	if err != nil {
		fmt.Fprintln(os.Stderr, err)
		return 2
	}
	var rec replayRecord
	if err := json.Unmarshal(b, &rec); err != nil {
		fmt.Fprintln(os.Stderr, err)
		return 2
	}
	r, ok := ruleRegistry[rec.Obligation.Rule]
	if !ok {
		fmt.Printf("replay: rule %s not found (framework problem: %s)\n", rec.Obligation.Rule, rec.Obligation.Construct)
		return 1
	}
	cfgName := rec.Obligation.Config
	if cfgName == "" {
		cfgName = "default"
	}
	c, err := Load(repo, buildConfigs[cfgName])
	if err != nil {
		fmt.Println(err)
		return 1
	}
	tables, _ := loadTables()
	obs := classify(rec.Property, safeRun(r, c), tables, c)
	found := false
	for _, o := range obs {
		if o.Key() == rec.Obligation.Key() {
			found = true
			fmt.Printf("replay: %s at %s -> verdict=%s status=%s: %s\n", o.Key(), o.Pos, o.Verdict, o.Status, o.Detail)
			if o.Status == "violation" {
				fmt.Printf("VIOLATION property=%s replay=%s\n", rec.Property, path)
				return 1
			}
		}
	}
	if !found {
		fmt.Printf("replay: obligation %s no longer exists on the current tree\n", rec.Obligation.Key())
	}
	return 0
}
