package main

import (
	"fmt"
	"go/ast"
	"go/constant"
	"go/token"
	"go/types"
	"sort"
	"strings"
)

// SCHEMA.string-test-exact (C14) — libschema decides "is this value a string" with lisp.GoString:
// s:regexp and the string constraints judge their input with it, and the constructors use it to tell a
// type NAME from a validator and to read key arguments.  The structural half of "a validator accepts
// exactly the values it declares" that lives in that accessor: its ok result is true for exactly one
// LType, LString.  Decided on the accessor's flow graph under each assumption `v.Type == K` (K ranging
// over every LType constant of the package): a `return _, true` stays reachable only for K = LString.

func init() {
	register(&Rule{ID: "SCHEMA.string-test-exact", Floor: 1,
		Doc: "lisp.GoString — the test libschema's validators and constructors use for `is a string` — answers ok=true for exactly one LType: its flow graph, pruned three-valued under the assumption v.Type == K for every LType constant K, keeps a `return …, true` reachable only for K = LString (and libschema does call it); a symbol, keyword-like symbol or JSON boolean is therefore never judged as a string by s:regexp / s:len and never read as a type name or key",
		Run: func(c *Ctx) []Obligation {
			const rid = "SCHEMA.string-test-exact"
			fn, fd, pkg := c.LookupFunc("lisp.GoString")
			typeFld := c.LookupField("lisp.LVal.Type")
			if fn == nil || fd == nil || typeFld == nil {
				return []Obligation{anchorMissing(rid, "lisp.GoString / LVal.Type")}
			}
			u := FuncUnit{fn, fd, pkg}
			info := pkg.TypesInfo
			// the rule is about libschema's reliance on it: require at least one use there
			uses := 0
			for _, su := range c.Funcs(func(p string) bool { return rel(p) == "lisp/lisplib/libschema" }) {
				for _, ce := range callsIn(su.Decl.Body, true) {
					if originOf(Callee(su.Pkg.TypesInfo, ce)) == fn {
						uses++
					}
				}
			}
			if uses == 0 {
				return []Obligation{mkOb(c, rid, u, "string test", fd, Undecided, "libschema no longer calls lisp.GoString: the `is a string` test moved, the rule's anchor is gone", true)}
			}
			// every LType constant
			var consts []*types.Const
			sc := pkg.Types.Scope()
			for _, nm := range sc.Names() {
				if k, ok := sc.Lookup(nm).(*types.Const); ok {
					if n, ok := k.Type().(*types.Named); ok && n.Obj().Name() == "LType" && strings.HasPrefix(nm, "L") && nm != "LTypeMax" {
						consts = append(consts, k)
					}
				}
			}
			if len(consts) < 5 {
				return []Obligation{anchorMissing(rid, "the LType constants")}
			}
			fc := c.cfgOf(u, nil)
			okTrue := func(b ast.Node) bool {
				rs, isRet := b.(*ast.ReturnStmt)
				if !isRet || len(rs.Results) != 2 {
					return false
				}
				tv, ok := info.Types[rs.Results[1]]
				if ok && tv.Value != nil && tv.Value.Kind() == constant.Bool {
					return constant.BoolVal(tv.Value)
				}
				return true // a computed ok may be true
			}
			var accepted []string
			for _, k := range consts {
				k := k
				atom := func(e ast.Expr) int {
					be, ok := ast.Unparen(e).(*ast.BinaryExpr)
					if !ok || (be.Op != token.EQL && be.Op != token.NEQ) {
						return -1
					}
					var other ast.Expr
					switch {
					case FieldOfSelector(info, be.X) == typeFld:
						other = be.Y
					case FieldOfSelector(info, be.Y) == typeFld:
						other = be.X
					default:
						return -1
					}
					ko, ok := identObjOrSel(info, other).(*types.Const)
					if !ok {
						return -1
					}
					same := constant.Compare(ko.Val(), token.EQL, k.Val())
					if (be.Op == token.EQL) == same {
						return 1
					}
					return 0
				}
				live := fc.reachableUnder(atom)
				hit := false
				for b := range live {
					for _, n := range b.Nodes {
						if okTrue(n) {
							hit = true
						}
					}
				}
				if hit {
					accepted = append(accepted, k.Name())
				}
			}
			sort.Strings(accepted)
			if len(accepted) == 1 && accepted[0] == "LString" {
				return []Obligation{mkOb(c, rid, u, "string test", fd, Proved, "ok=true is reachable only under v.Type == LString ("+fmt.Sprint(uses)+" uses in libschema, "+fmt.Sprint(len(consts))+" LType constants tried)", true)}
			}
			return []Obligation{mkOb(c, rid, u, "string test", fd, Violated, "lisp.GoString answers ok=true for "+strings.Join(accepted, ", ")+": libschema judges `is a string` with it, so s:regexp passes a symbol (a JSON boolean), a symbol is read as a type name or key, and constructors stop refusing non-string arguments", true)}
		}})
}
